#!/usr/bin/env python3
"""Runs the quick check of every seeded change's property against /repo with the change applied (git apply; undone
afterwards) and records the outcome in seeded/<id>/meta.json.  usage: sweep_seeded.py [ids...]"""
import json, os, re, subprocess, sys, time

ROOT = os.path.dirname(os.path.dirname(os.path.abspath(__file__)))
REPO = os.environ.get("SWEEP_REPO", "/repo")     # a copy of /repo at the same commit may be swept instead (vp run --with-repo)


def sh(cmd, **kw):
    return subprocess.run(cmd, shell=True, stdout=subprocess.PIPE, stderr=subprocess.STDOUT, text=True, **kw)


def main():
    ids = sys.argv[1:] or sorted(os.listdir(os.path.join(ROOT, "seeded")))
    ids = [i for i in ids if os.path.isdir(os.path.join(ROOT, "seeded", i))]
    if sh("git -C %s diff --quiet" % REPO).returncode != 0:
        sys.exit(REPO + " is dirty")
    for mid in ids:
        d = os.path.join(ROOT, "seeded", mid)
        pid = mid.split("-")[0]
        meta_p = os.path.join(d, "meta.json")
        meta = json.load(open(meta_p)) if os.path.exists(meta_p) else {}
        ap = sh("git -C %s apply %s/patch.diff" % (REPO, d))
        if ap.returncode != 0:
            meta["sweep"] = {"applies": False, "output": ap.stdout[-300:]}
            json.dump(meta, open(meta_p, "w"), indent=1)
            print(mid, "patch does not apply")
            continue
        t = time.time()
        r = sh("./check %s --tier quick" % pid, cwd=ROOT, env=dict(os.environ, VERIF_EVIDENCE_TO_WORK="1"))
        sh("git -C %s checkout -- ." % REPO)
        viol = [l for l in r.stdout.splitlines() if l.startswith("VIOLATION")]
        first = next((l.strip() for l in r.stdout.splitlines() if l.strip().startswith("unmatched record")), "")
        step = ""
        for l in r.stdout.splitlines():
            m = re.match(r"\[trace\] (\S+): (\d+)/(\d+)", l)
            if m and int(m.group(2)) < int(m.group(3)):
                step = m.group(1)
                break
        meta["sweep"] = {"applies": True, "check": "./check %s --tier quick" % pid, "exit": r.returncode,
                         "violations": len(viol), "rejecting_step": step, "first_unmatched": first[:400],
                         "wall_s": round(time.time() - t, 1)}
        json.dump(meta, open(meta_p, "w"), indent=1)
        print(mid, "exit", r.returncode, "violations", len(viol), step)


if __name__ == "__main__":
    main()
