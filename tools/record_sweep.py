#!/usr/bin/env python3
"""usage: record_sweep.py <commit> <out files...>: records the outcome lines `<id> check exit=<n>` written by the workspace
sweep (/tmp/w/sweep.sh: the property's quick check against a scratch worktree of /repo with the change applied) in
seeded/<id>/meta.json (key "sweep") or, for ids under neutral/, in neutral/results.json.  Later files override earlier."""
import json, os, re, sys
ROOT = os.path.dirname(os.path.dirname(os.path.abspath(__file__)))
commit, files = sys.argv[1], sys.argv[2:]
res = {}      # (kind, id) -> exit code; the kind is part of the file name (sw.<ws>.<kind>.out): seeded and neutral ids overlap
for f in files:
    kind = "neutral" if ".neutral." in os.path.basename(f) else "seeded"
    for line in open(f):
        m = re.match(r"(\S+) .*check exit=(\d+)", line)
        if m:
            res[(kind, m.group(1))] = int(m.group(2))
neutral_p = os.path.join(ROOT, "neutral", "results.json")
neutral = json.load(open(neutral_p)) if os.path.exists(neutral_p) else {}
ns = nn = 0
for (kind, mid), rc in sorted(res.items()):
    if kind == "seeded" and os.path.isdir(os.path.join(ROOT, "seeded", mid)):
        mp = os.path.join(ROOT, "seeded", mid, "meta.json")
        meta = json.load(open(mp)) if os.path.exists(mp) else {}
        meta["sweep"] = {"applies": True, "check": "./check %s --tier quick" % mid.split("-")[0], "exit": rc,
                         "checks_at": commit, "how": "scratch worktree of /repo with the change applied (workspace sweep)"}
        json.dump(meta, open(mp, "w"), indent=1)
        ns += 1
    elif kind == "neutral" and os.path.isdir(os.path.join(ROOT, "neutral", mid)):
        neutral[mid] = {"check": "./check %s --tier quick" % mid.split("-")[0], "exit": rc, "checks_at": commit}
        nn += 1
json.dump(neutral, open(neutral_p, "w"), indent=1, sort_keys=True)
print("recorded", ns, "seeded,", nn, "neutral")
