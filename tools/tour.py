#!/usr/bin/env python3
"""Transition tours over a TLC-exported state graph.

Input: lines `<<"EDGE", "<json>">>` printed by the ACTION_CONSTRAINT of an MC_<M> wrapper, where
json = {from, act, res, to}.  Output: scenarios (ndjson, {"run": k, "acts": [...]}) that together
take every exported transition at least once, starting from the initial state, by a greedy walk:
follow an unvisited out-edge if there is one, else go to the nearest state that has one (BFS),
else start a new scenario.  A wrong tour can only lose coverage; it cannot make a wrong trace pass,
because whatever the implementation does is judged by TLC afterwards.
"""
import json, sys, collections


def parse_edges(path, tag="EDGE"):
    pre = '<<"%s", ' % tag
    edges = []
    with open(path) as f:
        for line in f:
            if line.startswith(pre):
                s = line.rstrip("\n")
                s = s[len(pre):-2]
                edges.append(json.loads(json.loads(s)))
    return edges


def key(x):
    return json.dumps(x, sort_keys=True)


def tours(edges, init_key=None, max_len=400):
    fk = [key(e["from"]) for e in edges]
    tk = [key(e["to"]) for e in edges]
    out = collections.defaultdict(list)   # state -> list of edge indices
    succ = collections.defaultdict(dict)  # state -> {successor state: one edge index}
    # a (state, call) pair with several possible successors is nondeterministic in the model (e.g. tie
    # breaking): the implementation may pick any of them, so nothing can be scheduled after such a call
    ak = [key(e["act"]) for e in edges]
    fan = collections.defaultdict(set)
    for i in range(len(edges)):
        fan[(fk[i], ak[i])].add(tk[i])
    nondet = [len(fan[(fk[i], ak[i])]) > 1 for i in range(len(edges))]
    for i in range(len(edges)):
        out[fk[i]].append(i)
        if tk[i] != fk[i] and not nondet[i]:
            succ[fk[i]].setdefault(tk[i], i)
    if init_key is None:
        init_key = fk[0]
    unvisited = {s: list(reversed(ix)) for s, ix in out.items()}
    remaining = len(edges)
    scenarios = []
    cur, scen = init_key, []

    # BFS tree from the initial state, computed once: a scenario that starts afresh goes to the first state in
    # BFS order that still has an unvisited out-edge (the set of such states only shrinks)
    tree = {init_key: None}
    order = [init_key]
    for s in order:
        for t, ei in succ.get(s, {}).items():
            if t not in tree:
                tree[t] = ei
                order.append(t)
    ptr = [0]

    def nearest(src):
        # BFS over states to the closest state with an unvisited out-edge; returns edge path
        if src == init_key:
            while ptr[0] < len(order) and not unvisited.get(order[ptr[0]]):
                ptr[0] += 1
            if ptr[0] == len(order):
                return None
            s, path = order[ptr[0]], []
            while tree[s] is not None:
                path.append(tree[s])
                s = fk[tree[s]]
            return list(reversed(path))
        seen = {src: None}
        q = collections.deque([src])
        while q:
            s = q.popleft()
            if unvisited.get(s):
                path = []
                while seen[s] is not None:
                    ei = seen[s]
                    path.append(ei)
                    s = fk[ei]
                return list(reversed(path))
            for t, ei in succ.get(s, {}).items():
                if t not in seen:
                    seen[t] = ei
                    q.append(t)
        return None

    while remaining > 0:
        if unvisited.get(cur) and len(scen) < max_len:
            ei = unvisited[cur].pop()
            remaining -= 1
            scen.append(edges[ei]["act"])
            cur = tk[ei]
            if nondet[ei]:       # end the scenario here
                # the implementation takes whichever successor it takes: the sibling edges (same state, same call)
                # would schedule the very same calls again
                sib = [x for x in unvisited[fk[ei]] if ak[x] == ak[ei]]
                if sib:
                    unvisited[fk[ei]] = [x for x in unvisited[fk[ei]] if ak[x] != ak[ei]]
                    remaining -= len(sib)
                scenarios.append(scen)
                scen, cur = [], init_key
            continue
        path = nearest(cur) if len(scen) < max_len else None
        if path is None or len(scen) + len(path) >= max_len:
            if scen:
                scenarios.append(scen)
            scen, cur = [], init_key
            path = nearest(cur)
            if path is None:
                break   # unreachable from init (cannot happen for a BFS export)
        for ei in path:
            scen.append(edges[ei]["act"])
            cur = tk[ei]
    if scen:
        scenarios.append(scen)
    return scenarios


def main():
    src, dst = sys.argv[1], sys.argv[2]
    edges = parse_edges(src)
    sc = tours(edges)
    with open(dst, "w") as f:
        for k, acts in enumerate(sc):
            f.write(json.dumps({"run": k, "acts": acts}) + "\n")
    print(json.dumps({"edges": len(edges), "scenarios": len(sc), "events": sum(len(a) for a in sc)}))


if __name__ == "__main__":
    main()
