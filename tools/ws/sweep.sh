#!/bin/sh
# usage: sweep.sh <ws> <outfile sw.<ws>.<kind>.out> <seeded|neutral> ids... -- the quick check of each id's property against the
# change, one line `<id> check exit=<n>` per id (tools/record_sweep.py stores them); one sweep per workspace at a time
WS=$1; OUT=$2; KIND=$3; shift 3
export WS
D=$(dirname "$0")
for id in "$@"; do c=${id%%-*}
  r=$($D/try_ws.sh $c /verif/$KIND/$id/patch.diff quick 2>&1 | grep -E "check exit|patch does not|dirty" | tr "\n" " ")
  echo "$id $r" >> $OUT
done
