#!/bin/sh
# usage: WS=/tmp/w/<name> sync_ws.sh -- bring a scratch workspace (tools/mkworkspace.sh) up to /verif main and /repo main
W=${WS:?set WS}
git -C $W/verif checkout -q -- . ; git -C $W/verif reset -q --hard main
sed -i "s#path = \"/repo\"#path = \"$W/repo\"#" $W/verif/harness/Cargo.toml
git -C $W/repo checkout -q -- . ; git -C $W/repo reset -q --hard main
mkdir -p $W/verif/work $W/verif/replays
