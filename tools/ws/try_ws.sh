#!/bin/sh
# usage: WS=/tmp/w/<name> try_ws.sh <Cxx> <patch> [tier] -- apply a change in the workspace's repo, run the check there, undo
C=$1; P=$2; T=${3:-quick}
W=${WS:?set WS}
cd $W/repo && git diff --quiet || { echo "ws repo dirty"; exit 2; }
git -C $W/repo apply "$P" || { echo "patch does not apply"; exit 2; }
cd $W/verif && VERIF_EVIDENCE_TO_WORK=1 ./check $C --tier $T > $W/verif/work/mut-$C.log 2>&1; RC=$?
git -C $W/repo checkout -- .
grep -E "VIOLATION|KNOWN-FINDING|TOOL-ERROR|\[done\]" $W/verif/work/mut-$C.log | cut -c1-160 | head -4
echo "check exit=$RC"
