#!/bin/sh
# usage: eval_mutants.sh C01 C02 ...   (worktrees /tmp/m/<C>/mutants/<i>)  -> appends to /verif/work/mutants.log
for C in "$@"; do
  for i in 1 2; do
    M=/tmp/m/$C/mutants/$i
    [ -f $M/patch.diff ] || continue
    echo "##### $C/$i" >> /verif/work/mutants.log
    /verif/tools/confirm_mutant.sh /tmp/m/$C $M >> /verif/work/mutants.log 2>&1
    /verif/tools/try_mutant.sh $C $M/patch.diff quick >> /verif/work/mutants.log 2>&1
  done
done
echo "##### BATCH DONE $*" >> /verif/work/mutants.log
