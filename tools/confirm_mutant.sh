#!/bin/sh
# usage: confirm_mutant.sh <worktree> <mutant-dir>
# Confirms in the scratch worktree: HEAD: 51 lib tests pass + demo passes; with the patch: compiles, 51 lib tests
# pass, demo FAILS. Prints CONFIRMED or NOT-CONFIRMED. Leaves the worktree at HEAD.
W=$1; M=$2
cd "$W" || exit 2
git checkout -q -- . 2>/dev/null; rm -f tests/demo.rs
mkdir -p tests; cp "$M/demo.rs" tests/demo.rs
L0=$(cargo test --offline --lib 2>&1 | grep -E "^test result" | head -1)
D0=$(cargo test --offline --test demo 2>&1 | grep -E "^test result" | head -1)
git apply "$M/patch.diff" || { echo "NOT-CONFIRMED: patch does not apply"; rm -f tests/demo.rs; exit 1; }
L1=$(cargo test --offline --lib 2>&1 | grep -E "^test result|^error" | head -1)
D1=$(cargo test --offline --test demo 2>&1 | grep -E "^test result|^error" | head -1)
git checkout -q -- src; rm -f tests/demo.rs
echo "HEAD  lib: $L0"; echo "HEAD  demo: $D0"; echo "PATCH lib: $L1"; echo "PATCH demo: $D1"
case "$L0" in *"51 passed; 0 failed"*) ;; *) echo "NOT-CONFIRMED: lib tests at HEAD"; exit 1;; esac
case "$D0" in *"ok."*) ;; *) echo "NOT-CONFIRMED: demo does not pass at HEAD"; exit 1;; esac
case "$L1" in *"51 passed; 0 failed"*) ;; *) echo "NOT-CONFIRMED: lib tests with patch"; exit 1;; esac
case "$D1" in *"FAILED"*) echo CONFIRMED;; *) echo "NOT-CONFIRMED: demo does not fail with patch"; exit 1;; esac
