#!/usr/bin/env python3
"""usage: import_mutants.py <basedir> <round-tag> <history.json>
Copies confirmed sub-agent changes <basedir>/<Cxx>/mutants/<i>/{patch.diff,demo.rs,note.md} to seeded/<Cxx>-<tag>-<i>/ and
writes meta.json (property, what it needs to manifest, how it was confirmed, history of the check against it).
Only changes whose confirmation log (<basedir>/<Cxx>.confirm.log, from tools/confirm_all.sh) says CONFIRMED are imported."""
import json, os, re, shutil, sys

base, tag, hist = sys.argv[1], sys.argv[2], json.load(open(sys.argv[3]))
root = os.path.join(os.path.dirname(os.path.abspath(__file__)), "..", "seeded")
n = 0
for c in sorted(os.listdir(base)):
    md = os.path.join(base, c, "mutants")
    if not re.fullmatch(r"C\d\d", c) or not os.path.isdir(md):
        continue
    log = open(os.path.join(base, c + ".confirm.log")).read() if os.path.exists(os.path.join(base, c + ".confirm.log")) else ""
    blocks = {m.group(1): m.group(2) for m in re.finditer(r"##### C\d\d/(\d+)\n(.*?)(?=#####|\Z)", log, re.S)}
    for i in sorted(os.listdir(md)):
        src = os.path.join(md, i)
        if "CONFIRMED" not in blocks.get(i, "") or "NOT-CONFIRMED" in blocks.get(i, ""):
            print("skip (not confirmed):", c, i)
            continue
        mid = "%s-%s-%s" % (c, tag, i)
        dst = os.path.join(root, mid)
        os.makedirs(dst, exist_ok=True)
        for f in ("patch.diff", "demo.rs", "note.md"):
            if os.path.exists(os.path.join(src, f)):
                shutil.copy(os.path.join(src, f), os.path.join(dst, f))
        patch = open(os.path.join(dst, "patch.diff")).read()
        note = open(os.path.join(dst, "note.md")).read() if os.path.exists(os.path.join(dst, "note.md")) else ""
        files = sorted(set(re.findall(r"^\+\+\+ b/(\S+)", patch, re.M)))
        title = next((l.lstrip("# ").strip() for l in note.splitlines() if l.strip()), "")
        m = re.search(r"(?:what is needed[^\n]*|needed to manifest[^\n]*|needs to manifest[^\n]*)\n?(.*?)(?=\n\s*\n\*\*|\n## |\n\*\*[A-Z]|\Z)",
                      note, re.S | re.I)
        needs = re.sub(r"\s+", " ", m.group(0)).strip()[:900] if m else ""
        old = {}
        if os.path.exists(os.path.join(dst, "meta.json")):
            old = json.load(open(os.path.join(dst, "meta.json")))
        meta = dict(old)
        meta.update({
            "id": mid, "property": c, "files": files, "summary": title, "needs_to_manifest": needs,
            "origin": "independent sub-agent (round %s) given only the property text and a scratch worktree of /repo" % tag,
            "confirmed": "tools/confirm_mutant.sh in the scratch worktree: " + " | ".join(
                l.strip() for l in blocks[i].strip().splitlines() if l.startswith(("HEAD", "PATCH"))),
            "ran": "git -C /repo apply seeded/%s/patch.diff; ./check %s --tier quick; git -C /repo checkout -- .  (tools/sweep_seeded.py)" % (mid, c),
            "history": hist.get("%s/%s" % (c, i), "caught by the check as it stood when the change arrived"),
        })
        json.dump(meta, open(os.path.join(dst, "meta.json"), "w"), indent=1)
        n += 1
print("imported", n)
