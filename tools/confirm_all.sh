#!/bin/sh
# confirm every delivered mutant in its own worktree (independent of /repo and /verif); one log per property
for C in "$@"; do
  ( for i in 1 2; do M=/tmp/m/$C/mutants/$i; [ -f $M/patch.diff ] || continue; echo "##### $C/$i"; /verif/tools/confirm_mutant.sh /tmp/m/$C $M; done > /tmp/m/$C.confirm.log 2>&1 ) &
done
wait
