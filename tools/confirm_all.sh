#!/bin/sh
# usage: confirm_all.sh <basedir> C01 C02 ...: confirm every delivered mutant in its own worktree (independent of /repo and
# /verif), properties in parallel; one log per property: <basedir>/<C>.confirm.log
B=$1; shift
for C in "$@"; do
  ( for i in 1 2 3; do M=$B/$C/mutants/$i; [ -f $M/patch.diff ] || continue; echo "##### $C/$i"; /verif/tools/confirm_mutant.sh $B/$C $M; done > $B/$C.confirm.log 2>&1 ) &
done
wait
