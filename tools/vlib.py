"""Shared machinery of /verif/check: build, TLC model checking, transition export, harness runs,
TLC trace validation, known-finding classification, evidence, exit codes.

Exit codes of a check: 0 = everything explored was accepted (known findings are printed as
KNOWN-FINDING lines); 1 = a violation not listed in known_findings.json (after a VIOLATION line);
2 = tool error / timeout of the machinery itself (never reported as a violation).
"""
import hashlib, json, os, re, shutil, subprocess, sys, time

ROOT = os.path.dirname(os.path.dirname(os.path.abspath(__file__)))
SPEC = os.path.join(ROOT, "spec")
HARNESS_DIR = os.path.join(ROOT, "harness")
HARNESS_BIN = os.path.join(HARNESS_DIR, "target", "debug", "mahf-verif-harness")
TLA_CP = "/opt/veriftools/tla/tla2tools.jar:/opt/veriftools/tla/CommunityModules-deps.jar"
NOVAL = 99


class HarnessCrash(Exception):
    """exit 101 of the harness: reported as a violation (see Ctx.harness)"""


class ToolError(Exception):
    pass


def log(msg):
    print(msg, flush=True)


def load_known():
    p = os.path.join(ROOT, "known_findings.json")
    if not os.path.exists(p):
        return {"findings": [], "fixed": []}
    with open(p) as f:
        return json.load(f)


def dig(obj, path):
    cur = obj
    for part in path.split("."):
        if isinstance(cur, list):
            cur = cur[int(part)]
        elif isinstance(cur, dict) and part in cur:
            cur = cur[part]
        else:
            return None
    return cur


class Ctx:
    def __init__(self, pid, tier, seed, level="model_checking"):
        self.pid, self.tier, self.seed, self.level = pid, tier, seed, level
        self.t0 = time.time()
        self.work = os.path.join(ROOT, "work", "%s-%s" % (pid, tier))
        shutil.rmtree(self.work, ignore_errors=True)
        os.makedirs(self.work, exist_ok=True)
        os.makedirs(os.path.join(ROOT, "evidence"), exist_ok=True)
        os.makedirs(os.path.join(ROOT, "replays"), exist_ok=True)
        self.cov = {"states": 0, "transitions": 0, "traces_validated_against_impl": 0,
                    "evaluations": 0, "distinct_nontrivial": 0, "samples": [], "exhaustive": False,
                    "mc_runs": [], "trace_runs": [], "checker_cmd": "", "rule": "",
                    "trusted_base": ["TLC 1.8.0 + CommunityModules Json/IOUtils", "rustc/std",
                                     "harness event recorder and projections (harness/src)",
                                     "tools/tour.py (coverage only)"]}
        self.assumptions = []
        self.violations = []          # list of dicts
        self.known_hits = []          # list of finding ids
        self.known = load_known()
        self.distinct = set()
        self.quick = tier == "quick"
        self.replay_mode = False

    # ------------------------------------------------------------------ build
    def build_harness(self):
        t = time.time()
        env = dict(os.environ, CARGO_NET_OFFLINE="true")
        p = subprocess.run(["cargo", "build", "--offline", "--quiet"], cwd=HARNESS_DIR, env=env,
                           stdout=subprocess.PIPE, stderr=subprocess.STDOUT, text=True)
        if p.returncode != 0:
            errs = [l for l in p.stdout.splitlines() if l.startswith("error")]
            log("\n".join(p.stdout.splitlines()[-40:]))
            raise ToolError("harness build failed (/repo does not compile with hooks on?): %s" % errs[:3])
        log("[build] harness ok (%.1fs)" % (time.time() - t))

    # ------------------------------------------------------------------ TLC
    def _tlc(self, module, cfg_text, name, workers, timeout, extra=(), env_extra=None, java_opts=""):
        cfg = os.path.join(self.work, name + ".cfg")
        with open(cfg, "w") as f:
            f.write(cfg_text)
        meta = os.path.join(self.work, "meta-" + name)
        outp = os.path.join(self.work, name + ".out")
        jtmp = os.path.join(self.work, "jtmp-" + name)       # TLC's scratch directories stay out of /tmp
        os.makedirs(jtmp, exist_ok=True)
        cmd = ["timeout", str(timeout), "java", "-XX:+UseParallelGC", "-Djava.io.tmpdir=" + jtmp] + java_opts.split() + \
              ["-cp", TLA_CP, "tlc2.TLC", "-workers", str(workers), "-metadir", meta, "-cleanup",
               "-noGenerateSpecTE", "-config", cfg] + list(extra) + [module + ".tla"]
        env = dict(os.environ)
        env.pop("JAVA_TOOL_OPTIONS", None)
        if env_extra:
            env.update(env_extra)
        t = time.time()
        with open(outp, "w") as f:
            p = subprocess.run(cmd, cwd=SPEC, env=env, stdout=f, stderr=subprocess.STDOUT)
        shutil.rmtree(meta, ignore_errors=True)
        shutil.rmtree(jtmp, ignore_errors=True)
        wall = time.time() - t
        if p.returncode == 124:
            raise ToolError("TLC timeout after %ss on %s" % (timeout, name))
        return outp, p.returncode, wall, " ".join(cmd[2:])

    def tlc_mc(self, module, cfg_text, name, workers=4, timeout=900, export=False, exhaustive=True,
               simulate=None, java_opts="", env_extra=None):
        """Model-check MC_<module>; returns dict(states, distinct, out). Any error => ToolError."""
        extra = []
        if simulate:
            extra = ["-simulate", simulate, "-seed", str(self.seed)]
        outp, rc, wall, cmd = self._tlc(module, cfg_text, name, workers, timeout, extra=extra, java_opts=java_opts,
                                        env_extra=env_extra)
        gen = dist = None
        errors = []
        with open(outp) as f:
            for line in f:
                if line.startswith("<<"):
                    continue
                m = re.match(r"(\d+) states generated, (\d+) distinct states found", line)
                if m:
                    gen, dist = int(m.group(1)), int(m.group(2))
                if line.startswith("Error:") or "is violated" in line or "Parsing or semantic" in line \
                        or line.startswith("***Parse Error***"):
                    errors.append(line.strip())
        if simulate and gen is None:
            with open(outp) as f:
                for line in f:
                    m = re.search(r"(\d+) states checked", line)
                    if m:
                        gen = dist = int(m.group(1))
        if errors or gen is None or (rc != 0 and not simulate):
            tail = open(outp).read()[-3000:]
            raise ToolError("TLC model checking of %s (%s) failed: %s\n%s" % (module, name, errors[:3], tail))
        self.cov["states"] += dist
        self.cov["transitions"] += max(gen - 1, 1)
        self.cov["mc_runs"].append({"module": module, "cfg": name, "states_generated": gen,
                                    "distinct_states": dist, "wall_s": round(wall, 1),
                                    "exhaustive": bool(exhaustive and not simulate)})
        if not self.cov["checker_cmd"]:
            self.cov["checker_cmd"] = cmd
        log("[tlc ] %s/%s: %d states generated, %d distinct (%.1fs)" % (module, name, gen, dist, wall))
        return {"generated": gen, "distinct": dist, "out": outp}

    # ------------------------------------------------------------------ harness
    def harness(self, driver, mode, timeout=1800, **opts):
        cmd = [HARNESS_BIN, driver, mode]
        for k, v in opts.items():
            cmd += ["--" + k.replace("_", "-"), str(v)]
        t = time.time()
        try:
            p = subprocess.run(cmd, cwd=self.work, stdout=subprocess.PIPE, stderr=subprocess.PIPE,
                               text=True, timeout=timeout)
        except subprocess.TimeoutExpired:
            raise ToolError("harness timeout: %s" % " ".join(cmd))
        if p.returncode == 101:
            # the driver itself panicked: the code under test panicked at a place where the driver (which runs clean on the
            # unchanged tree) expects no panic, e.g. while projecting a state the call left unusable.  That is an observation
            # about the code, not a tool error.
            self.crash_violation(cmd, p.stderr)
            raise HarnessCrash("harness crashed (101): %s" % " ".join(cmd))
        if p.returncode != 0:
            raise ToolError("harness failed (%d): %s\n%s" % (p.returncode, " ".join(cmd), p.stderr[-2000:]))
        info = {}
        for line in p.stdout.splitlines():
            if line.startswith("{"):
                info = json.loads(line)
        log("[run ] harness %s %s: %s (%.1fs)" % (driver, mode, info, time.time() - t))
        return info

    # ------------------------------------------------------------------ trace validation
    def _validate_once(self, module, cfg_text, trace_path, name, timeout):
        outp, rc, wall, cmd = self._tlc(
            module, cfg_text, name, 1, timeout, env_extra={"TRACE": trace_path},
            java_opts="-Xss1g -Xmx6g -Dtlc2.tool.queue.IStateQueue=StateDeque")
        reached = total = None
        errors = []
        notes = []
        with open(outp) as f:
            for line in f:
                m = re.match(r'<<"TRACE_RESULT", (\d+), (\d+)>>', line)
                if m:
                    reached, total = int(m.group(1)), int(m.group(2))
                m = re.match(r'<<"KF", "(.*)">>', line)
                if m:
                    notes.append(m.group(1))
                if line.startswith("Error:") or "is violated" in line:
                    errors.append(line.strip())
        if reached is None:
            tail = open(outp).read()[-3000:]
            raise ToolError("trace validation %s produced no result: %s\n%s" % (name, errors[:3], tail))
        return reached, total, errors, wall, notes

    def validate(self, module, cfg_text, trace_path, name, describe, replay_meta, timeout=1800,
                 max_rejections=3, run_key="run", _chunked=False):
        """Validate an ndjson trace against Trace_<module>.  On rejection: classify the first
        unmatched record (known finding / violation), write a replay file, drop that run, go on."""
        recs = [json.loads(l) for l in open(trace_path) if l.strip()]
        if not recs:
            raise ToolError("empty trace %s" % trace_path)
        CHUNK = 200000
        if len(recs) > CHUNK and not _chunked:
            # very long traces are validated in chunks of whole runs (every run starts from its own reset record);
            # TLC's JSON loader and the JVM heap do not like millions of records at once
            chunks, cur, cur_run = [], [], object()
            for r in recs:
                if r.get(run_key) != cur_run and len(cur) >= CHUNK:
                    chunks.append(cur)
                    cur = []
                cur_run = r.get(run_key)
                cur.append(r)
            if cur:
                chunks.append(cur)
            del recs
            ok = True
            for k, ch in enumerate(chunks):
                cp = os.path.join(self.work, "%s-chunk%d.ndjson" % (name, k))
                with open(cp, "w") as f:
                    for r in ch:
                        f.write(json.dumps(r) + "\n")
                chunks[k] = None
                ok = self.validate(module, cfg_text, cp, "%s-chunk%d" % (name, k), describe, replay_meta, timeout=timeout,
                                   max_rejections=max_rejections, run_key=run_key, _chunked=True) and ok
                os.remove(cp)
            return ok
        self._count_distinct(recs, describe)
        if not self.cov["samples"]:
            self.cov["samples"] = recs[1:4]
        nruns_total = len({r.get(run_key) for r in recs})
        attempt = 0
        accepted_events = 0
        rejected_runs = 0
        cur_path = trace_path
        while True:
            reached, total, errors, wall, notes = self._validate_once(
                module, cfg_text, cur_path, "%s-%d" % (name, attempt), timeout)
            log("[trace] %s: %d/%d records accepted (%.1fs)" % (name, reached, total, wall))
            for kid in notes:
                self.known_fired(kid)
            if errors and reached >= total:
                raise ToolError("TLC error during trace validation %s: %s" % (name, errors[:2]))
            if reached >= total:
                accepted_events += total
                break
            # first unmatched record (1-based index reached+1)
            bad = recs[reached]
            run = bad.get(run_key)
            run_recs = [r for r in recs if r.get(run_key) == run]
            prev = recs[reached - 1] if reached > 0 and recs[reached - 1].get(run_key) == run else None
            self._report(bad, prev, run_recs, describe, replay_meta)
            rejected_runs += 1
            recs = [r for r in recs if r.get(run_key) != run]
            attempt += 1
            if not recs:
                break
            if attempt >= max_rejections:
                log("[trace] %s: stopping after %d rejections; %d records left unexamined" %
                    (name, attempt, len(recs)))
                break
            cur_path = os.path.join(self.work, "%s-rest%d.ndjson" % (name, attempt))
            with open(cur_path, "w") as f:
                for r in recs:
                    f.write(json.dumps(r) + "\n")
        self.cov["evaluations"] += accepted_events
        self.cov["traces_validated_against_impl"] += max(nruns_total - rejected_runs, 0)
        self.cov["trace_runs"].append({"module": module, "name": name, "records": accepted_events,
                                       "runs": nruns_total, "rejected_runs": rejected_runs})
        return rejected_runs == 0

    def known_ids(self):
        return sorted(k["id"] for k in self.known.get("findings", []) if k.get("property") == self.pid)

    def known_fired(self, kid):
        """A named deviation (KF_ action of the spec) was used by TLC while validating."""
        for kf in self.known.get("findings", []):
            if kf["id"] == kid and kf.get("property") == self.pid:
                if kid not in self.known_hits:
                    self.known_hits.append(kid)
                    log("KNOWN-FINDING: property=%s %s: %s" % (self.pid, kid, kf["what"]))
                return
        raise ToolError("spec used deviation %s which is not listed for %s in known_findings.json" % (kid, self.pid))

    def _count_distinct(self, recs, describe):
        prev_state = None
        for r in recs:
            st = describe["state"](r)
            if describe["is_reset"](r):
                prev_state = st
                continue
            if describe["nontrivial"](r, prev_state, st):
                self.distinct.add(hashlib.md5(json.dumps([prev_state, describe["act"](r)],
                                                         sort_keys=True).encode()).hexdigest())
            prev_state = st
        self.cov["distinct_nontrivial"] = len(self.distinct)

    def _match_known(self, bad, prev):
        for kf in self.known.get("findings", []):
            if kf.get("property") != self.pid:
                continue
            ok = True
            for path, want in kf.get("match", {}).items():
                src = prev if path.startswith("prev.") else bad
                p = path[5:] if path.startswith("prev.") else path
                got = dig(src, p) if src is not None else None
                if isinstance(want, list) and not isinstance(got, list):
                    if got not in want:
                        ok = False
                elif got != want:
                    ok = False
                if not ok:
                    break
            if ok:
                return kf
        return None

    def _report(self, bad, prev, run_recs, describe, replay_meta):
        kf = self._match_known(bad, prev)
        if kf is not None:
            if kf["id"] not in self.known_hits:
                self.known_hits.append(kf["id"])
                log("KNOWN-FINDING: property=%s %s: %s" % (self.pid, kf["id"], kf["what"]))
            return
        self.violation(bad, prev, run_recs, describe, replay_meta)

    def violation(self, bad, prev, run_recs, describe, replay_meta, note=None):
        acts = [describe["act"](r) for r in run_recs if not describe["is_reset"](r)]
        body = {"property": self.pid, "tier": self.tier, "seed": self.seed, "meta": replay_meta,
                "first_unmatched": bad, "last_matched": prev, "acts": acts, "note": note,
                "header": next((r for r in run_recs if describe["is_reset"](r)), None)}
        digest = hashlib.md5(json.dumps([self.pid, replay_meta, bad], sort_keys=True).encode()).hexdigest()[:10]
        path = os.path.join(ROOT, "replays", "%s-%s.json" % (self.pid, digest))
        with open(path, "w") as f:
            json.dump(body, f, indent=1)
        self.violations.append({"replay": path, "record": bad})
        if len(self.violations) <= 2:
            log("  unmatched record: %s" % json.dumps(bad)[:500])
            if prev is not None:
                log("  last matched    : %s" % json.dumps(prev)[:500])
        log("VIOLATION property=%s replay=%s" % (self.pid, path))

    def crash_violation(self, cmd, stderr):
        tail = [l for l in stderr.strip().splitlines() if l.strip()][-6:]
        body = {"property": self.pid, "tier": self.tier, "seed": self.seed, "meta": {"driver": "crash", "cmd": cmd},
                "first_unmatched": {"crash": tail}, "last_matched": None, "acts": [], "header": None,
                "note": "the harness driver panicked: an unexpected panic of the code under test"}
        digest = hashlib.md5(json.dumps([self.pid, cmd[1:3], tail[-1:] if tail else ""], sort_keys=True).encode()).hexdigest()[:10]
        path = os.path.join(ROOT, "replays", "%s-%s.json" % (self.pid, digest))
        with open(path, "w") as f:
            json.dump(body, f, indent=1)
        self.violations.append({"replay": path, "record": body["first_unmatched"]})
        log("  harness driver panicked: %s" % " | ".join(tail)[-600:])
        log("VIOLATION property=%s replay=%s" % (self.pid, path))

    def direct_violation(self, what, case, replay_meta):
        """A violation detected outside trace validation (e.g. watchdog)."""
        kf = self._match_known(case, None)
        if kf is not None:
            if kf["id"] not in self.known_hits:
                self.known_hits.append(kf["id"])
                log("KNOWN-FINDING: property=%s %s: %s" % (self.pid, kf["id"], kf["what"]))
            return
        digest = hashlib.md5(json.dumps([self.pid, replay_meta, case], sort_keys=True).encode()).hexdigest()[:10]
        path = os.path.join(ROOT, "replays", "%s-%s.json" % (self.pid, digest))
        with open(path, "w") as f:
            json.dump({"property": self.pid, "meta": replay_meta, "what": what, "case": case}, f, indent=1)
        self.violations.append({"replay": path, "record": case})
        log("  %s: %s" % (what, json.dumps(case)[:600]))
        log("VIOLATION property=%s replay=%s" % (self.pid, path))

    # ------------------------------------------------------------------ evidence / exit
    def finish(self, rule, exhaustive_note=None):
        self.cov["rule"] = rule
        self.cov["exhaustive"] = bool(self.cov["mc_runs"]) and all(r["exhaustive"] for r in self.cov["mc_runs"])
        if exhaustive_note:
            self.cov["exhaustive_note"] = exhaustive_note
        self.cov["known_findings_hit"] = self.known_hits
        if not self.cov["samples"]:
            self.cov["samples"] = ["(no implementation trace recorded)"]
        ev = {"property_id": self.pid, "tier": self.tier, "seed": self.seed, "level": self.level,
              "coverage": self.cov, "assumptions": self.assumptions,
              "wall_s": round(time.time() - self.t0, 1), "violations": len(self.violations)}
        evpath = os.path.join(ROOT, "evidence", self.pid + ".json")
        if not self.pid.startswith("C"):     # checks beyond the listed properties (X..): kept apart from the claimed evidence
            os.makedirs(os.path.join(ROOT, "evidence_extra"), exist_ok=True)
            evpath = os.path.join(ROOT, "evidence_extra", self.pid + ".json")
        if self.replay_mode:      # a replay never overwrites the evidence of a full run
            evpath = os.path.join(self.work, "evidence-replay.json")
        elif os.environ.get("VERIF_EVIDENCE_TO_WORK"):
            # runs against a deliberately changed tree (tools/sweep_seeded.py) keep the evidence of the unchanged tree intact
            evpath = os.path.join(self.work, "evidence-sweep.json")
        with open(evpath, "w") as f:
            json.dump(ev, f, indent=1)
        log("[done] %s %s: states=%d transitions=%d traces=%d events=%d distinct=%d violations=%d known=%d (%.1fs)" % (
            self.pid, self.tier, self.cov["states"], self.cov["transitions"],
            self.cov["traces_validated_against_impl"], self.cov["evaluations"],
            self.cov["distinct_nontrivial"], len(self.violations), len(self.known_hits), ev["wall_s"]))
        return 1 if self.violations else 0


def export_scenarios(ctx, mc_out, name, max_len=400):
    """EDGE lines of an export run -> transition-tour scenarios file."""
    sys.path.insert(0, os.path.join(ROOT, "tools"))
    import tour
    edges = tour.parse_edges(mc_out)
    if not edges:
        raise ToolError("no EDGE lines in %s" % mc_out)
    sc = tour.tours(edges, max_len=max_len)
    path = os.path.join(ctx.work, name + ".scen.ndjson")
    with open(path, "w") as f:
        for k, acts in enumerate(sc):
            f.write(json.dumps({"run": k, "acts": acts}) + "\n")
    log("[tour] %s: %d transitions -> %d scenarios, %d calls" % (name, len(edges), len(sc), sum(map(len, sc))))
    return path, edges


def vacuity(edges, field, required, what):
    """Tool error if some op / reply kind the property depends on never occurs in the export."""
    seen = {dig(e, field) for e in edges}
    missing = [x for x in required if x not in seen]
    if missing:
        raise ToolError("vacuous model: %s never taken: %s" % (what, missing))
