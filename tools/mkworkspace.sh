#!/bin/sh
# usage: mkworkspace.sh <name>   -> /tmp/w/<name>/{repo (git worktree of /repo HEAD), verif (copy of /verif HEAD)}
set -e
N=$1
mkdir -p /tmp/w/$N
git -C /repo worktree add -q /tmp/w/$N/repo -b ws-$N HEAD
git -C /verif worktree add -q /tmp/w/$N/verif -b ws-$N HEAD
sed -i "s#path = \"/repo\"#path = \"/tmp/w/$N/repo\"#" /tmp/w/$N/verif/harness/Cargo.toml
mkdir -p /tmp/w/$N/verif/work /tmp/w/$N/verif/replays
echo /tmp/w/$N
