#!/bin/sh
# usage: try_mutant.sh <Cxx> <patch.diff> [tier]   -> applies the patch to /repo, runs the check, reverts.
C=$1; P=$2; T=${3:-quick}
cd /repo && git diff --quiet || { echo "repo dirty"; exit 2; }
git -C /repo apply "$P" || { echo "patch does not apply to /repo"; exit 2; }
cd /verif && VERIF_EVIDENCE_TO_WORK=1 ./check $C --tier $T > /verif/work/mut-$C.log 2>&1; RC=$?
git -C /repo checkout -- .
grep -E "VIOLATION|KNOWN-FINDING|TOOL-ERROR|\[done\]" /verif/work/mut-$C.log | cut -c1-200 | head -6
echo "check exit=$RC"
