#!/usr/bin/env python3
"""Generates /verif/MANIFEST.json from the table below (single place to edit) and validates it
against /root/.vp/MANIFEST.schema.json when jsonschema is importable."""
import json, os, subprocess, sys

ROOT = os.path.dirname(os.path.dirname(os.path.abspath(__file__)))

TRUST = ("Trusted: TLC and the CommunityModules Json/IOUtils, rustc/std, the harness's event recorder and "
         "projections. Bounded: the design check is exhaustive only for the stated small constants; conformance "
         "is exhaustive over the model's transitions (transition tour) and sampled beyond (seeded random).")

def load_claims():
    """Every checks/cNN.py that defines MANIFEST = {modules, text, technique, design_ref, note} is a claim."""
    import importlib
    sys.path.insert(0, ROOT)
    sys.path.insert(0, os.path.join(ROOT, "tools"))
    claims = {}
    for fn in sorted(os.listdir(os.path.join(ROOT, "checks"))):
        if fn.startswith("c") and fn.endswith(".py"):
            mod = importlib.import_module("checks." + fn[:-3])
            m = getattr(mod, "MANIFEST", None)
            if m:
                claims[fn[:-3].upper()] = (m["modules"], m["text"], m["technique"], m["design_ref"], m.get("note", ""))
    return claims


CLAIMED = load_claims()

PENDING_REASON = "check not built yet in this round (planned, see DESIGN.md §6); not claimed until its spec module is bound to the code"


def main():
    props = [json.loads(l) for l in open(os.path.join(ROOT, "properties.jsonl"))]
    checks, na = [], []
    for p in props:
        pid = p["id"]
        if pid in CLAIMED:
            mods, text, tech, ref, note = CLAIMED[pid]
            checks.append({
                "property_id": pid,
                "quick_cmd": "./check %s --tier quick" % pid,
                "thorough_cmd": "./check %s --tier thorough" % pid,
                "evidence_file": "/verif/evidence/%s.json" % pid,
                "replay_cmd_template": "./check %s --replay {path}" % pid,
                "engine": "tla-conformance",
                "level_claimed": {"category": "model_checking", "text": text, "design_ref": ref},
                "level_note": TRUST + " " + note,
                "technique": tech,
            })
        else:
            na.append({"property_id": pid, "reason": NA.get(pid, PENDING_REASON)})
    hooks_commits = []
    hp = os.path.join(ROOT, "hooks_commits.txt")
    if os.path.exists(hp):
        hooks_commits = [l.split()[0] for l in open(hp) if l.strip() and not l.startswith("#")]
    man = {
        "version": 1,
        "setup_cmd": "cd /verif/harness && cargo build --offline --quiet && cd /verif/spec && for f in *.tla; do tla-sany $f >/dev/null || exit 1; done",
        "hooks": {
            "guard": "mahf_verif",
            "enable": "rustc cfg: the harness's .cargo/config.toml sets rustflags = [\"--cfg\", \"mahf_verif\", \"--check-cfg\", \"cfg(mahf_verif)\"]; mahf is a path dependency on /repo, so every check rebuilds /repo's working tree with the hooks on",
            "baseline_off_cmd": "cd /repo && (cargo nextest run --workspace --no-fail-fast --offline || cargo test --workspace --no-fail-fast --offline)",
            "source_commits": hooks_commits,
            "add_only": True,
        },
        "engines": [
            {"name": "tla-conformance", "path": "/verif/check",
             "serves_properties": sorted(CLAIMED),
             "kind_free_text": "explicit TLA+ specification (spec/*.tla) model-checked with TLC; bound to the code by "
                               "(B) replaying TLC-exported transition tours / bounded histories into the real code and "
                               "(C) validating traces recorded from the real code against the spec with TLC"},
        ],
        "checks": checks,
        "not_applicable": na,
        "notes": "All checks: ./check <ID> [--tier quick|thorough] [--replay file]; VERIF_SEED seeds random choices. "
                 "Known findings: /verif/known_findings.json.",
    }
    out = os.path.join(ROOT, "MANIFEST.json")
    with open(out, "w") as f:
        json.dump(man, f, indent=1)
    try:
        import jsonschema
        jsonschema.validate(man, json.load(open("/root/.vp/MANIFEST.schema.json")))
        print("MANIFEST.json valid:", len(checks), "claimed,", len(na), "not claimed")
    except ImportError:
        print("MANIFEST.json written (jsonschema not available to validate)")


NA = {}

if __name__ == "__main__":
    main()
