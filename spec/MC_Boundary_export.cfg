SPECIFICATION Spec
CONSTANTS
  D = 1
  F = 4
  MaxN = 2
  AllMasks = FALSE
  Lattice <- McLattice
  InitPops <- McInitPops
  Cands <- McCands
VIEW McView
ACTION_CONSTRAINT PrintEdge
CHECK_DEADLOCK FALSE
