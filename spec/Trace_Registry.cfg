SPECIFICATION TraceSpec
CONSTANTS
  Type = {"T1", "T2"}
  Val = {0, 1}
  MaxDepth = 99
POSTCONDITION TraceDone
CHECK_DEADLOCK FALSE
