---------------------------- MODULE MC_Registry ----------------------------
(* Model-checking wrapper: bounded constants, VIEW hiding the observation  *)
(* variables (act, res), export of every transition as one JSON line.      *)
EXTENDS Registry, TLC, Json

McView == scopes

PrintEdge == PrintT(<<"EDGE", ToJson([from |-> scopes, act |-> act', res |-> res', to |-> scopes'])>>)

Bounded == Len(scopes) <= MaxDepth
=============================================================================
