----------------------------- MODULE Operators -----------------------------
(***************************************************************************)
(* mahf selection / replacement operators and the simulated-annealing      *)
(* acceptance + geometric cooling, as *allowed-result relations* over the  *)
(* population stack (C11, C12, C17).                                       *)
(*                                                                         *)
(*   src/components/selection/{mod,common,de,iwo,functional}.rs            *)
(*   src/components/replacement/{mod,common,sa}.rs                         *)
(*   src/components/mapping/sa.rs            src/heuristics/sa.rs          *)
(*                                                                         *)
(* Abstract state                                                          *)
(*   stack : sequence of populations, bottom first, TOP LAST.  A population*)
(*           is a sequence of individuals <<tag, rank>>: `tag` interns the *)
(*           solution (P-tag), `rank` is the dense rank of the objective   *)
(*           value among the values of the run (P-rank), +inf = INF;       *)
(*           values equal as numbers (+0.0 / -0.0) have ONE rank.  An      *)
(*           individual whose objective is not a value of the run (a copy  *)
(*           that is not exact) is projected to rank -1, an unevaluated    *)
(*           one to rank -2; neither is a member of any source.            *)
(*   temp  : number of geometric cooling steps applied to the temperature  *)
(*           since the start of the run, i.e. T = T0 * alpha^temp, computed*)
(*           by the harness with exact float products (P-pred); -1 = the   *)
(*           temperature is none of these values.  It is the temperature   *)
(*           of the scope the run lives in; an SA executed in a Scope of   *)
(*           its own (op "nested") has its own, shadowing temperature.     *)
(*   best  : rank of the objective value of the BestIndividual tracked in  *)
(*           the state (C07's memory, which every SA run carries next to   *)
(*           its current solution), NoBest if none is tracked.             *)
(* Observation variables: act (component executed, ONE record shape) and   *)
(* res = [k, w]: k = "ok" | "err" | "panic" | "none", w = integer vector   *)
(* returned by the two helper functions (<<>> otherwise).                  *)
(*                                                                         *)
(* Every component execution is one step.  What a step may do is given by  *)
(* the relation Rel(a, s, t, b, r, s2, t2, b2) over (call, stack, temp and *)
(* best before, reply, stack, temp and best after): the operators draw     *)
(* random numbers, so the specification says which results are allowed,    *)
(* not which one is taken.                                                 *)
(* Trace validation evaluates Rel on the logged values; model checking     *)
(* enumerates, per call, a candidate set that contains every solution of   *)
(* Rel within the bounds (Cand) and keeps the candidates Rel accepts.      *)
(* The clauses of C11 / C12 / C17 are stated a second time, independently  *)
(* of the per-operator relations, as action properties at the end.         *)
(***************************************************************************)
EXTENDS Integers, Sequences, FiniteSets

CONSTANTS Ops,         \* operator names enabled in Next (model checking selects a family)
          LoadStacks,  \* stacks the set-up call `load` may install (model checking)
          MaxN         \* bound on requested counts / mu / tournament sizes in Acts

INF     == 999
NoBest  == -9         \* no BestIndividual in the state
Foreign == <<0, 0>>   \* an individual that is never a member of a model-checked source

VARIABLES stack, temp, best, act, res
vars == <<stack, temp, best, act, res>>

---------------------------------------------------------------------------
(* Basics *)
Tag(x)  == x[1]
Rank(x) == x[2]
Range(s) == {s[i] : i \in DOMAIN s}
Count(s, x) == Cardinality({i \in DOMAIN s : s[i] = x})
SubBag(r, s) == \A x \in Range(r) : Count(r, x) <= Count(s, x)   \* multiset inclusion
Ranks(s) == {Rank(s[i]) : i \in DOMAIN s}
MinOf(S) == CHOOSE m \in S : \A y \in S : m <= y
MaxOf(S) == CHOOSE m \in S : \A y \in S : y <= m
HasInf(s) == INF \in Ranks(s)
Min2(a, b) == IF a <= b THEN a ELSE b
UniqueTags(s) == \A i, j \in DOMAIN s : i # j => Tag(s[i]) # Tag(s[j])
Front2(s) == SubSeq(s, 1, Len(s) - 2)
Repeat(x, n) == [i \in 1..n |-> x]

R(k)     == [k |-> k, w |-> <<>>]
RW(k, w) == [k |-> k, w |-> w]
A(op, n, k) == [op |-> op, n |-> n, k |-> k, st |-> <<>>, pc |-> "-", lo |-> 0, hi |-> 0, last |-> 0, b |-> NoBest]
\* set-up: install the stack st and a BestIndividual of rank b (NoBest: none)
ALoad(st, b) == [op |-> "load", n |-> 0, k |-> 0, st |-> st, pc |-> "-", lo |-> 0, hi |-> 0, last |-> 0, b |-> b]
ASa(pc)     == [op |-> "sa_accept", n |-> 0, k |-> 0, st |-> <<>>, pc |-> pc, lo |-> 0, hi |-> 0, last |-> 0, b |-> NoBest]
\* an SA step in a Scope of its own: j coolings of the scope's own temperature, then its acceptance
\* (pc = class of p at THAT temperature); k = 1 marks a trial of a frequency cell (trace validation)
ANested(j, pc) == [op |-> "nested", n |-> j, k |-> 0, st |-> <<>>, pc |-> pc, lo |-> 0, hi |-> 0, last |-> 0, b |-> NoBest]

DeOps      == {"de_rand", "de_best", "de_ctb"}
FitnessOps == {"roulette", "sus", "tournament", "linear_rank", "exp_rank"}
SelOps     == {"all", "none", "clone_single", "fully_random", "without_rep", "roulette", "sus",
               "tournament", "linear_rank", "exp_rank", "iwo"} \cup DeOps
HelperOps  == {"weights", "reverse_rank"}
ReplOps    == {"discard", "generational", "merge", "mu_plus_lambda", "random_repl", "keep_better"}
SaOps      == {"sa_accept", "cool", "nested", "update_best"}
SetupOps   == {"load", "set_top"}

---------------------------------------------------------------------------
(* C11 -- selection.  a.n = requested number (y for the DE selections, min *)
(* for IWO); a.k = tournament size (max for IWO).                          *)

\* Inputs the documentation declares unusable: the reply must be an error.
Unusable(a, src) ==
    CASE a.op = "clone_single"                -> Len(src) # 1
      [] a.op = "without_rep"                 -> Len(src) < a.n
      [] a.op \in {"roulette", "sus", "iwo"}  -> HasInf(src)
      [] a.op = "tournament"                  -> Len(src) < a.k
      [] OTHER                                -> FALSE

\* Inputs about which the documentation says nothing (empty source for the sampling
\* operators, tournament size 0, fewer than 2y+1 members for DE (2y for DE/best), min > max for IWO):
\* C11 does not demand an error there; any reply kind is accepted and only recorded.
Undoc(a, src) ==
    CASE a.op \in {"fully_random", "roulette", "sus", "linear_rank", "exp_rank"} -> Len(src) = 0
      [] a.op = "tournament"  -> a.k = 0
      \* (DE/best needs 2y members to draw the difference vectors from: the best is taken in addition to them)
      [] a.op = "de_best"     -> Len(src) < 2 * a.n
      [] a.op \in DeOps       -> Len(src) < 2 * a.n + 1
      [] a.op = "iwo"         -> Len(src) = 0 \/ a.n > a.k
      [] OTHER                -> FALSE

\* "never favour a worse individual": the random operators hide their weights, so the
\* clause is observed through selection counts (source with unique tags): a strictly better
\* member is not selected significantly less often than a worse one.  With selection
\* probabilities p_i >= p_j the event (c_j - c_i)^2 > 50 (c_i + c_j), c_j > c_i, has
\* probability < exp(-25) whatever the counts (Hoeffding), so the clause is a 7-sigma test.
Pressure(src, r) ==
    UniqueTags(src) =>
        \A i, j \in DOMAIN src :
            Rank(src[i]) < Rank(src[j]) =>
                LET ci == Count(r, src[i])
                    cj == Count(r, src[j])
                IN  cj <= ci \/ (cj - ci) * (cj - ci) <= 50 * (ci + cj)

Block(r, b, sz) == SubSeq(r, (b - 1) * sz + 1, b * sz)
IsBest(src, x) == x \in Range(src) /\ Rank(x) = MinOf(Ranks(src))

RECURSIVE Expand(_, _, _)
Expand(src, c, i) == IF i > Len(src) THEN <<>>
                     ELSE Repeat(src[i], c[i]) \o Expand(src, c, i + 1)

\* IWO: every member src[i] is copied c[i] times, in source order.  Equal members get
\* equal counts (the count is a function of the objective), so c is recovered by counting.
IwoOk(a, src, r) ==
    LET c  == [i \in DOMAIN src |-> Count(r, src[i]) \div Count(src, src[i])]
        lo == MinOf(Ranks(src))
        hi == MaxOf(Ranks(src))
    IN  /\ r = Expand(src, c, 1)
        /\ \A i \in DOMAIN src : a.n <= c[i] /\ c[i] <= a.k
        /\ IF lo = hi
           THEN \A i \in DOMAIN src : c[i] = a.n + ((a.k - a.n) \div 2)   \* documented 50 % bonus
           ELSE \A i \in DOMAIN src :
                    /\ Rank(src[i]) = lo => c[i] = a.k                     \* best: max
                    /\ Rank(src[i]) = hi => c[i] = a.n                     \* worst: min
                    /\ \A j \in DOMAIN src : Rank(src[i]) <= Rank(src[j]) => c[i] >= c[j]

\* Allowed pushed population r for a usable, documented input.
OkSel(a, src, r) ==
    LET members == \A i \in DOMAIN r : r[i] \in Range(src)
        sz      == 2 * a.n + 1
    IN
    CASE a.op = "all"          -> r = src
      [] a.op = "none"         -> r = <<>>
      [] a.op = "clone_single" -> r = Repeat(src[1], a.n)
      [] a.op = "fully_random" -> Len(r) = a.n /\ members
      [] a.op = "without_rep"  -> Len(r) = a.n /\ SubBag(r, src)     \* pairwise different positions
      [] a.op \in {"roulette", "sus", "linear_rank", "exp_rank"} ->
                                  Len(r) = a.n /\ members /\ Pressure(src, r)
      [] a.op = "tournament"   -> /\ Len(r) = a.n /\ members /\ Pressure(src, r)
                                  /\ a.k = Len(src) => \A i \in DOMAIN r : Rank(r[i]) = MinOf(Ranks(src))
      [] a.op = "de_rand"      -> /\ Len(r) = sz * Len(src)
                                  /\ \A b \in DOMAIN src : SubBag(Block(r, b, sz), src)
      [] a.op = "de_best"      -> /\ Len(r) = sz * Len(src)
                                  /\ \A b \in DOMAIN src :
                                        LET blk == Block(r, b, sz) IN
                                        IsBest(src, blk[1]) /\ SubBag(Tail(blk), src)
      [] a.op = "de_ctb"       -> /\ Len(r) = sz * Len(src)
                                  /\ \A b \in DOMAIN src :
                                        LET blk == Block(r, b, sz) IN
                                        /\ blk[1] = src[b]
                                        /\ IsBest(src, blk[2])
                                        \* the others: different positions, none of them position b
                                        /\ SubBag(<<blk[1]>> \o SubSeq(blk, 3, sz), src)
      [] a.op = "iwo"          -> IwoOk(a, src, r)

\* reply kind k and pushed population r (<<>> unless k = "ok")
SelRel(a, src, k, r) ==
    IF Undoc(a, src)
    THEN /\ k \in {"ok", "err", "panic"}
         /\ k = "ok"  => \A i \in DOMAIN r : r[i] \in Range(src)
         /\ k # "ok"  => r = <<>>
    ELSE IF Unusable(a, src) THEN k = "err" /\ r = <<>>
    ELSE k = "ok" /\ OkSel(a, src, r)

\* Helper functions of selection/functional.rs applied to the top population.
DenseRankOf(src, i) == 1 + Cardinality({q \in Ranks(src) : q < Rank(src[i])})
Monotone(src, w) == \A i, j \in DOMAIN src : Rank(src[i]) < Rank(src[j]) => w[i] >= w[j]

HelperRel(a, src, r) ==
    CASE a.op = "reverse_rank" ->    \* documented: lowest objective value gets 1, ties share a rank
            r = RW("ok", [i \in DOMAIN src |-> DenseRankOf(src, i)])
      [] a.op = "weights" ->         \* proportional_weights; w = dense ranks of the weights
            IF Len(src) = 0 \/ HasInf(src) THEN r = R("none")
            ELSE r.k = "ok" /\ DOMAIN r.w = DOMAIN src /\ Monotone(src, r.w)

---------------------------------------------------------------------------
(* C12 -- replacement: parents = second population from the top, offspring *)
(* = top.  a.n = mu.                                                       *)
ReplUnusable(a, par, off) == a.op = "keep_better" /\ Len(par) # Len(off)

OkRepl(a, par, off, r) ==
    LET tot == par \o off IN
    CASE a.op = "discard"        -> r = par
      [] a.op = "generational"   -> r = off
      [] a.op = "merge"          -> r = tot
      [] a.op = "mu_plus_lambda" ->
            /\ Len(r) = Min2(a.n, Len(tot))
            /\ SubBag(r, tot)
            \* no discarded individual is better than a kept one
            /\ \A x \in Range(r) : \A y \in Range(tot) :
                   Count(r, y) < Count(tot, y) => Rank(x) <= Rank(y)
      [] a.op = "random_repl"    -> Len(r) = Min2(a.n, Len(tot)) /\ SubBag(r, tot)
      [] a.op = "keep_better"    ->
            /\ Len(r) = Len(par)
            /\ \A i \in DOMAIN par :
                   r[i] = IF Rank(off[i]) < Rank(par[i]) THEN off[i] ELSE par[i]   \* ties: parent

(* "mu random ones" is a statement about the distribution of the result, not about one    *)
(* result: every individual of parents + offspring, whatever its position in the two      *)
(* populations, is among the survivors with probability m / n (n = combined size,          *)
(* m = min(mu, n)).  Observed over N executions on the same parents and offspring (told    *)
(* apart by their tags): the number c of executions an individual survived is within 7     *)
(* standard deviations of the binomial mean N m / n, i.e. (integers only)                  *)
(*        (c n - N m)^2 <= 49 N m (n - m).                                                 *)
(* For m = n this says c = N, for m = 0 it says c = 0.  The probability that a uniformly   *)
(* random choice of m out of n fails the test is about 1e-9 at worst (n <= 16, N >= 400).    *)
SurvivalOk(N, n, mu, c) ==
    LET m == Min2(mu, n)
        d == c * n - N * m
    IN  /\ N * n <= 40000                      \* TLC integers are 32 bit
        /\ d * d <= 49 * N * m * (n - m)

---------------------------------------------------------------------------
(* C17 -- simulated annealing.  Layout produced by the SA template          *)
(* (heuristics/sa.rs: selection::All, generation, ..., cooling, acceptance) *)
(* and described by the component's documentation: current solution S in    *)
(* the second population from the top, candidate S' on top.  a.pc is the    *)
(* class of p = exp(-(f(S') - f(S)) / T) computed by the harness from the   *)
(* inputs (P-pred): "zero" (p < 1e-12), "one" (p > 1 - 1e-12), "mid".       *)
SaShape(s) == Len(s) >= 2 /\ Len(s[Len(s)]) = 1 /\ Len(s[Len(s) - 1]) = 1

SaRel(a, s, r, s2) ==
    LET cur  == s[Len(s) - 1][1]
        cand == s[Len(s)][1]
        acc  == Front2(s) \o <<(<<cand>>)>>
        rej  == Front2(s) \o <<(<<cur>>)>>
    IN  /\ r = R("ok")
        /\ s2 \in {acc, rej}                               \* one population holding the survivor
        /\ Rank(cand) <= Rank(cur) => s2 = acc             \* at least as good: always accepted
        /\ (Rank(cand) > Rank(cur) /\ a.pc = "zero") => s2 = rej   \* T -> 0: never
        /\ a.pc = "one" => s2 = acc                        \* T -> infinity: always

SaAccepted(s, s2) == s2 = Front2(s) \o <<s[Len(s)]>>

(* The decision is a function of current, candidate and T alone: SaRel has no other argument.  In  *)
(* particular the BestIndividual an SA run tracks next to its current solution (after an accepted   *)
(* worsening move the two differ) is neither read nor changed by the acceptance.                    *)

(* An SA step executed in a Scope of its own (an SA used as a step of another SA).  Temperatures    *)
(* form a scope chain, innermost last: entering the scope initialises the nested SA's temperature   *)
(* to ITS t_0 in the new scope (shadowing), a.n coolings count up that entry, its acceptance        *)
(* decides by that entry (a.pc), leaving the scope drops it.  What the enclosing SA sees afterwards *)
(* is its own entry, untouched.                                                                     *)
NestedRel(a, s, t, r, s2, t2) ==
    LET entered == <<t, 0>>
        cooled  == [entered EXCEPT ![2] = @ + a.n]
        left    == SubSeq(cooled, 1, 1)
    IN  /\ SaShape(s)
        /\ SaRel(a, s, r, s2)
        /\ t2 = left[1]

(* BestIndividualUpdate as the SA template runs it between evaluation and cooling: the memory takes *)
(* the best of the top population if that is strictly better (C07); stack and temperature stay.     *)
BestAfter(b, pop) ==
    LET rs == {x \in Ranks(pop) : x >= 0} IN
    IF rs = {} THEN b
    ELSE IF b = NoBest \/ MinOf(rs) < b THEN MinOf(rs) ELSE b

---------------------------------------------------------------------------
(* The step relation. *)
Rel(a, s, t, b, r, s2, t2, b2) ==
    CASE a.op = "load"    -> r = R("ok") /\ s2 = a.st /\ t2 = t /\ b2 = a.b
      [] a.op = "set_top" -> Len(s) >= 1 /\ r = R("ok") /\ s2 = SubSeq(s, 1, Len(s) - 1) \o a.st /\ t2 = t /\ b2 = b
      [] a.op \in SelOps ->
            /\ Len(s) >= 1 /\ t2 = t /\ b2 = b /\ r.w = <<>>
            /\ IF r.k = "ok"
               THEN /\ Len(s2) = Len(s) + 1
                    /\ SubSeq(s2, 1, Len(s)) = s                       \* source (and below) untouched
                    /\ SelRel(a, s[Len(s)], "ok", s2[Len(s2)])
               ELSE s2 = s /\ SelRel(a, s[Len(s)], r.k, <<>>)
      [] a.op \in HelperOps -> Len(s) >= 1 /\ t2 = t /\ b2 = b /\ s2 = s /\ HelperRel(a, s[Len(s)], r)
      [] a.op \in ReplOps ->
            /\ Len(s) >= 2 /\ t2 = t /\ b2 = b /\ r.w = <<>>
            /\ LET par == s[Len(s) - 1]
                   off == s[Len(s)]
               IN IF ReplUnusable(a, par, off)
                  THEN /\ r.k = "err"                                  \* stack after an error: only
                       /\ Len(s2) \in (Len(s) - 2)..Len(s)             \* the part below is specified
                       /\ SubSeq(s2, 1, Len(s) - 2) = Front2(s)
                  ELSE /\ r.k = "ok"
                       /\ Len(s2) = Len(s) - 1
                       /\ SubSeq(s2, 1, Len(s) - 2) = Front2(s)
                       /\ OkRepl(a, par, off, s2[Len(s2)])
      [] a.op = "sa_accept" -> SaShape(s) /\ t2 = t /\ b2 = b /\ SaRel(a, s, r, s2)
      [] a.op = "nested"    -> b2 = b /\ NestedRel(a, s, t, r, s2, t2)
      [] a.op = "cool"      -> r = R("ok") /\ s2 = s /\ b2 = b /\ t >= 0 /\ t2 = t + 1   \* exactly one product
      [] a.op = "update_best" -> Len(s) >= 1 /\ r = R("ok") /\ s2 = s /\ t2 = t /\ b2 = BestAfter(b, s[Len(s)])

Step(a, r, s2, t2, b2) ==
    /\ act' = a /\ res' = r /\ stack' = s2 /\ temp' = t2 /\ best' = b2
    \* "= TRUE": Rel has no primed variable; evaluate it as a value, not as an action
    \* (TLC would otherwise branch on every disjunction inside it)
    /\ Rel(a, stack, temp, best, r, s2, t2, b2) = TRUE

---------------------------------------------------------------------------
(* Candidate results for model checking: for every call a finite set that   *)
(* contains every solution of Rel whose populations stay within the bounds. *)
U(src) == Range(src) \cup {Foreign}
SeqsUpTo(S, m) == UNION {[1..j -> S] : j \in 0..m}

RECURSIVE Prod(_, _, _)     \* concatenations of one block out of S[b] for b = i..m
Prod(S, i, m) == IF i > m THEN {<<>>}
                 ELSE {blk \o rest : blk \in S[i], rest \in Prod(S, i + 1, m)}

DeBlockOk(a, src, b, blk) ==
    CASE a.op = "de_rand" -> SubBag(blk, src)
      [] a.op = "de_best" -> IsBest(src, blk[1]) /\ SubBag(Tail(blk), src)
      [] a.op = "de_ctb"  -> blk[1] = src[b] /\ IsBest(src, blk[2])
                             /\ SubBag(<<blk[1]>> \o SubSeq(blk, 3, Len(blk)), src)

SelCandPops(a, src) ==
    IF a.op \in DeOps /\ ~Undoc(a, src)
    THEN LET sz == 2 * a.n + 1
             S  == [b \in DOMAIN src |-> {blk \in [1..sz -> U(src)] : DeBlockOk(a, src, b, blk)}]
         IN Prod(S, 1, Len(src))
    ELSE IF a.op = "iwo" /\ ~Undoc(a, src)
    THEN {Expand(src, c, 1) : c \in [DOMAIN src -> 0..(a.k + 1)]}
    \* no relation accepts more than Len(src) / a.n members here, so longer candidates are pointless
    ELSE IF a.op \in {"all", "none"} THEN SeqsUpTo(U(src), Len(src))
    ELSE SeqsUpTo(U(src), a.n)

WeightCands(src) == [DOMAIN src -> 0..Len(src)]

SaCandStacks(s) ==
    {Append(Front2(s), p) : p \in {s[Len(s)], s[Len(s) - 1], s[Len(s) - 1] \o s[Len(s)], <<>>}}
    \cup {s, Front2(s)}

CandSB(a, s, t, b) ==
    LET c(r, s2, t2) == [r |-> r, s |-> s2, t |-> t2, b |-> b] IN
    CASE a.op = "load"    -> {[r |-> R("ok"), s |-> a.st, t |-> t, b |-> a.b]}
      [] a.op = "set_top" -> {c(R("ok"), SubSeq(s, 1, Len(s) - 1) \o a.st, t)}
      [] a.op \in SelOps  -> {c(R("ok"), Append(s, p), t) : p \in SelCandPops(a, s[Len(s)])}
                             \cup {c(R("err"), s, t), c(R("panic"), s, t)}
      [] a.op \in HelperOps -> {c(RW("ok", w), s, t) : w \in WeightCands(s[Len(s)])}
                               \cup {c(RW("ok", [i \in DOMAIN w |-> w[i] + 1]), s, t) : w \in WeightCands(s[Len(s)])}
                               \cup {c(R("none"), s, t)}
      [] a.op \in ReplOps ->
            LET par == s[Len(s) - 1]
                off == s[Len(s)]
                tot == par \o off
                pops == \* every solution of OkRepl is among these
                    CASE a.op \in {"discard", "generational", "merge"} -> {par, off, tot, off \o par, <<>>}
                      [] a.op = "keep_better" -> [DOMAIN par -> U(tot)]
                      [] OTHER -> SeqsUpTo(U(tot), Min2(a.n, Len(tot)))
            IN
            {c(R("ok"), Append(Front2(s), p), t) : p \in pops}
            \cup {c(R("err"), Front2(s), t), c(R("err"), s, t), c(R("panic"), s, t)}
      [] a.op = "sa_accept" ->
            {c(R("ok"), s2, t) : s2 \in SaCandStacks(s)} \cup {c(R("err"), s, t)}
      \* the enclosing temperature afterwards: untouched / cooled by the nested SA / reset to a fresh t_0
      [] a.op = "nested" ->
            {c(R("ok"), s2, t2) : s2 \in SaCandStacks(s), t2 \in {t, t + a.n, t + 1, 0, -1}} \cup {c(R("err"), s, t)}
      [] a.op = "cool" -> {c(R("ok"), s, t2) : t2 \in {t, t + 1, t + 2}}
      [] a.op = "update_best" -> {c(R("ok"), s, t)}

\* ... and every plausible memory afterwards: kept, taken from the operands, or lost
Cand(a, s, t, b) ==
    LET bests(x) == IF a.op \in SaOps /\ Len(s) >= 1
                    THEN {b, NoBest} \cup {q \in Ranks(s[Len(s)]) : q >= 0}
                         \cup (IF Len(s) >= 2 THEN {q \in Ranks(s[Len(s) - 1]) : q >= 0} ELSE {})
                    ELSE {x.b}
    IN  UNION {{[x EXCEPT !.b = b2] : b2 \in bests(x)} : x \in CandSB(a, s, t, b)}

---------------------------------------------------------------------------
(* Calls enabled in a state (bounded by MaxN; Ops selects operator families). *)
Acts ==
    LET h == Len(stack) IN
    {a \in
        (IF h >= 1 THEN
            {A(op, 0, 0) : op \in {"all", "none", "weights", "reverse_rank"}}
            \cup {A(op, n, 0) : op \in {"clone_single", "fully_random", "without_rep", "roulette", "sus",
                                        "linear_rank", "exp_rank"}, n \in 0..MaxN}
            \cup {A("tournament", n, k) : n \in 0..Min2(MaxN, 2), k \in 0..MaxN}
            \cup {A(op, 1, 0) : op \in DeOps}
            \cup {A("iwo", n, k) : n \in 0..2, k \in 0..2}
         ELSE {})
        \cup
        (IF h >= 2 THEN
            {A(op, 0, 0) : op \in {"discard", "generational", "merge", "keep_better"}}
            \cup {A(op, n, 0) : op \in {"mu_plus_lambda", "random_repl"}, n \in 0..MaxN}
            \cup (IF SaShape(stack)
                  THEN {ASa(pc) : pc \in {"zero", "mid", "one"}}
                       \cup {ANested(j, pc) : j \in 0..1, pc \in {"zero", "mid", "one"}}
                  ELSE {})
         ELSE {})
        \cup (IF h >= 1 THEN {A("update_best", 0, 0)} ELSE {})
        \cup {A("cool", 0, 0)}
     : a.op \in Ops}

LoadActs == {ALoad(st, NoBest) : st \in LoadStacks}     \* set-up: install a prepared stack

InitAct == A("init", 0, 0)

Init == /\ stack = <<>>
        /\ temp = 0
        /\ best = NoBest
        /\ act = InitAct
        /\ res = R("ok")

Next == \E a \in Acts \cup LoadActs : \E c \in Cand(a, stack, temp, best) : Step(a, c.r, c.s, c.t, c.b)

Spec == Init /\ [][Next]_vars

---------------------------------------------------------------------------
(* The clauses of the properties, stated without the per-operator          *)
(* relations: over (stack, act', res', stack').                            *)
Top(s)  == s[Len(s)]
Under(s) == s[Len(s) - 1]
IsSel  == act'.op \in SelOps
IsRepl == act'.op \in ReplOps
Ok     == res'.k = "ok"
Src    == Top(stack)
New    == Top(stack')

\* --- C11
\* the source population (and everything below it) is untouched, whatever the reply
SourceUntouched == [][ IsSel => Len(stack') >= Len(stack) /\ SubSeq(stack', 1, Len(stack)) = stack ]_vars
\* exactly one new population is pushed on success, none otherwise
PushesExactlyOne == [][ IsSel => Len(stack') = Len(stack) + (IF Ok THEN 1 ELSE 0) ]_vars
\* only exact copies (tag and rank) of source members
CopiesOnly == [][ IsSel /\ Ok => \A i \in DOMAIN New : New[i] \in Range(Src) ]_vars
\* as many as requested
Requested(a, src) ==
    CASE a.op = "all"    -> Len(src)
      [] a.op = "none"   -> 0
      [] a.op \in DeOps  -> (2 * a.n + 1) * Len(src)
      [] OTHER           -> a.n
CountAsRequested ==
    [][ IsSel /\ Ok /\ ~Undoc(act', Src) =>
          IF act'.op = "iwo"
          THEN \A x \in Range(Src) : /\ Count(New, x) >= act'.n * Count(Src, x)
                                     /\ Count(New, x) <= act'.k * Count(Src, x)
          ELSE Len(New) = Requested(act', Src) ]_vars
\* everything / nothing / distinct members
AllNoneDistinct ==
    [][ IsSel /\ Ok =>
          /\ act'.op = "all" => New = Src
          /\ act'.op = "none" => New = <<>>
          /\ act'.op = "without_rep" => \A x \in Range(New) : Count(New, x) <= Count(Src, x) ]_vars
\* documented unusable inputs are errors, never panics; usable documented inputs succeed
ErrorsAsDocumented ==
    [][ IsSel /\ ~Undoc(act', Src) =>
          LET n == Len(Src)
              bad == \/ act'.op = "clone_single" /\ n # 1                        \* not exactly one
                     \/ act'.op = "without_rep" /\ n < act'.n                    \* too few
                     \/ act'.op = "tournament" /\ n < act'.k                     \* too few
                     \/ act'.op \in {"roulette", "sus", "iwo"} /\ INF \in Ranks(Src)   \* infinite values
          IN res'.k = (IF bad THEN "err" ELSE "ok") ]_vars
\* a tournament over the whole population returns the best
TournamentWhole ==
    [][ IsSel /\ Ok /\ act'.op = "tournament" /\ act'.k = Len(Src) /\ act'.k > 0 =>
          \A i \in DOMAIN New : \A j \in DOMAIN Src : Rank(New[i]) <= Rank(Src[j]) ]_vars
\* helper weights: a better objective never gets a smaller weight; rank numbers follow the order
WeightsMonotone ==
    [][ act'.op \in HelperOps /\ Ok =>
          /\ stack' = stack
          /\ \A i, j \in DOMAIN Src :
                Rank(Src[i]) < Rank(Src[j]) =>
                    IF act'.op = "weights" THEN res'.w[i] >= res'.w[j] ELSE res'.w[i] < res'.w[j] ]_vars
\* IWO: best gets max, worst gets min, better never gets fewer
IwoMonotone ==
    [][ IsSel /\ Ok /\ act'.op = "iwo" /\ ~Undoc(act', Src) /\ UniqueTags(Src) =>
          \A i, j \in DOMAIN Src :
             /\ Rank(Src[i]) < Rank(Src[j]) => Count(New, Src[i]) >= Count(New, Src[j])
             /\ (Rank(Src[i]) = MinOf(Ranks(Src)) /\ Cardinality(Ranks(Src)) > 1) => Count(New, Src[i]) = act'.k
             /\ (Rank(Src[i]) = MaxOf(Ranks(Src)) /\ Cardinality(Ranks(Src)) > 1) => Count(New, Src[i]) = act'.n ]_vars

\* --- C12
Parents   == Under(stack)
Offspring == Top(stack)
Both      == Parents \o Offspring
\* two populations consumed, exactly one left, the rest of the stack untouched
TwoBecomeOne == [][ IsRepl /\ Ok => Len(stack') = Len(stack) - 1 /\ SubSeq(stack', 1, Len(stack) - 2) = Front2(stack) ]_vars
\* only individuals of parents and offspring, each at most as often as it occurred there
OnlyFromBoth == [][ IsRepl /\ Ok => \A x \in Range(New) : Count(New, x) <= Count(Both, x) ]_vars
\* content as named
ContentAsNamed ==
    [][ IsRepl /\ Ok =>
          /\ act'.op = "discard" => New = Parents
          /\ act'.op = "generational" => New = Offspring
          /\ act'.op = "merge" => New = Both
          /\ act'.op \in {"mu_plus_lambda", "random_repl"} => Len(New) = Min2(act'.n, Len(Both))
          /\ act'.op = "mu_plus_lambda" =>
                \* the best of both survives, and every kept one is at least as good as every
                \* individual that was dropped (position-wise reading: sort and cut)
                /\ (Len(New) > 0 => MinOf(Ranks(New)) = MinOf(Ranks(Both)))
                /\ \A y \in Range(Both) : Count(New, y) < Count(Both, y) =>
                       \A i \in DOMAIN New : Rank(New[i]) <= Rank(y)
          /\ act'.op = "keep_better" =>
                \A i \in DOMAIN Parents :
                   /\ Rank(Offspring[i]) < Rank(Parents[i]) => New[i] = Offspring[i]
                   /\ Rank(Offspring[i]) >= Rank(Parents[i]) => New[i] = Parents[i] ]_vars
UnequalSizesErr ==
    [][ IsRepl => (res'.k = "err") = (act'.op = "keep_better" /\ Len(Parents) # Len(Offspring))
                  /\ res'.k \in {"ok", "err"} ]_vars

\* --- C17
IsSa == act'.op \in {"sa_accept", "nested"}     \* in the run's own scope, or in a Scope of its own
Cur  == Under(stack)[1]
Cnd  == Top(stack)[1]
SurvivorOnly == [][ IsSa => /\ Ok /\ Len(stack') = Len(stack) - 1
                            /\ SubSeq(stack', 1, Len(stack) - 2) = Front2(stack)
                            /\ New \in {<<Cur>>, <<Cnd>>} ]_vars
Metropolis == [][ IsSa => /\ Rank(Cnd) <= Rank(Cur) => New = <<Cnd>>
                          /\ (Rank(Cnd) > Rank(Cur) /\ act'.pc = "zero") => New = <<Cur>>
                          /\ act'.pc = "one" => New = <<Cnd>> ]_vars
\* (an SA nested in a Scope has its own temperature: the enclosing one is not multiplied, reset or replaced by it)
CoolOnce == [][ /\ act'.op = "cool" => temp' = temp + 1 /\ stack' = stack
                /\ act'.op # "cool" => temp' = temp ]_vars
\* the decision table above mentions current, candidate and T only; the tracked best is a different memory:
\* only its update component changes it (to the better of itself and the top population), acceptance and cooling never
BestApart == [][ /\ act'.op \notin {"load", "update_best"} => best' = best
                 /\ act'.op = "update_best" =>
                       /\ stack' = stack
                       /\ best' \in {best} \cup Ranks(Top(stack))
                       /\ \A x \in Ranks(Top(stack)) : x >= 0 => best' <= x
                       /\ best # NoBest => best' <= best ]_vars

TypeOK == /\ \A i \in DOMAIN stack : \A j \in DOMAIN stack[i] : Len(stack[i][j]) = 2
          /\ temp \in Nat
          /\ best \in Int
          /\ res.k \in {"ok", "err", "panic", "none"}
=============================================================================
