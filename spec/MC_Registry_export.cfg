SPECIFICATION Spec
CONSTANTS
  Type = {"T1", "T2"}
  Val = {0, 1}
  MaxDepth = 2
VIEW McView
ACTION_CONSTRAINT PrintEdge
CHECK_DEADLOCK FALSE
