SPECIFICATION McSpec
CONSTANTS
  Ops = {"discard", "generational", "merge", "mu_plus_lambda", "random_repl", "keep_better"}
  LoadStacks <- McLoadStacks
  MaxN = 5
  Ind <- Ind3
  MaxLen = 2
  Mode = "repl"
INVARIANT TypeOK Total
PROPERTY TwoBecomeOne OnlyFromBoth ContentAsNamed UnequalSizesErr CoolOnce
CHECK_DEADLOCK FALSE
