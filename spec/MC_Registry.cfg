SPECIFICATION Spec
CONSTANTS
  Type = {"T1", "T2"}
  Val = {0, 1}
  MaxDepth = 2
VIEW McView
INVARIANT TypeOK
PROPERTY ShadowedImmutable AppearsOnlyOnTop NeverInvented PanicOnlyFromPanicking InsertRepliesTopOld EntryResolves PopYieldsTop PushAddsEmpty ContainsExact
CHECK_DEADLOCK FALSE
