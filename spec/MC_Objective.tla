---------------------------- MODULE MC_Objective ----------------------------
(* Model-checking wrapper of Objective: VIEW hiding act/res, export of     *)
(* every transition as one JSON line, and the function-level laws (Pareto  *)
(* dominance over all pairs/triples of model vectors; soundness of the     *)
(* class-level arithmetic; correct rounding of the lattice arithmetic of    *)
(* mode "sci") as assumptions evaluated once.                              *)
EXTENDS Objective, TLC, Json

McView == <<vals, mode>>

SetToSeq(S) == LET RECURSIVE Go(_) 
                   Go(T) == IF T = {} THEN <<>> ELSE LET m == CHOOSE x \in T : \A y \in T : x <= y
                                                     IN <<m>> \o Go(T \ {m})
               IN Go(S)

PrintEdge == PrintT(<<"EDGE", ToJson([from |-> SetToSeq(vals), act |-> act', res |-> res',
                                      to |-> SetToSeq(vals')])>>)

ASSUME ParetoLaws(Vecs)
ASSUME AbsSound(Inputs \cup (-B..B))
\* mode "sci": the lattice arithmetic is correctly rounded arithmetic (all pairs of lattice values
\* of four small formats: lattice = whole format; lattice coarser than the format by 2 bits, by 1
\* bit, and by so much that inexact quotients are known to be off it), and its class agrees with
\* the class-level table on the operands offered
ASSUME SciIn = {} \/ /\ SciLaws(Fmt(2, 2, -4, 2))
                     /\ SciLaws(Fmt(4, 2, -6, 2))
                     /\ SciLaws(Fmt(3, 2, -5, 3))
                     /\ SciLaws(Fmt(6, 1, -8, 2))
                     /\ \A c \in SciIn \cup SciNeg : LatOK(F64, c) /\ c > 0
                     /\ SciAbsSound(SciInputs)
=============================================================================
