---------------------------- MODULE MC_Objective ----------------------------
(* Model-checking wrapper of Objective: VIEW hiding act/res, export of     *)
(* every transition as one JSON line, and the function-level laws (Pareto  *)
(* dominance over all pairs/triples of model vectors; soundness of the     *)
(* class-level arithmetic) as assumptions evaluated once.                  *)
EXTENDS Objective, TLC, Json

McView == <<vals, mode>>

SetToSeq(S) == LET RECURSIVE Go(_) 
                   Go(T) == IF T = {} THEN <<>> ELSE LET m == CHOOSE x \in T : \A y \in T : x <= y
                                                     IN <<m>> \o Go(T \ {m})
               IN Go(S)

PrintEdge == PrintT(<<"EDGE", ToJson([from |-> SetToSeq(vals), act |-> act', res |-> res',
                                      to |-> SetToSeq(vals')])>>)

ASSUME ParetoLaws(Vecs)
ASSUME AbsSound(Inputs \cup (-B..B))
=============================================================================
