------------------------------- MODULE Swarm -------------------------------
(***************************************************************************)
(* Particle swarm memories (src/components/swarm/pso.rs) over ranks:       *)
(*   x[i]     rank the current position of particle i was evaluated at     *)
(*            (0 = moved, not evaluated yet)                                *)
(*   pb[i]    rank of particle i's personal best,  gb rank of global best  *)
(*   hist[i]  ghost: best rank particle i was ever evaluated at            *)
(* One pass of the PSO loop = Move; Evaluate; PersonalBestUpdate;          *)
(* GlobalBestUpdate (pc cycles through them); the swarm is initialised     *)
(* from the evaluated initial population.                                  *)
(***************************************************************************)
EXTENDS Naturals, Sequences, FiniteSets
CONSTANTS NP, Ranks          \* particles 1..NP, ranks (positive integers)
VARIABLES x, pb, gb, hist, pc
swvars == <<x, pb, gb, hist, pc>>
P == 1..NP
MinOf(f) == CHOOSE m \in {f[i] : i \in P} : \A i \in P : m <= f[i]
Min2(a, b) == IF a < b THEN a ELSE b

SInit == /\ x \in [P -> Ranks]                  \* evaluated initial population
         /\ pb = x /\ hist = x                  \* PersonalBestParticlesInit
         /\ gb = MinOf(x)                       \* GlobalBestParticleUpdate (first time)
         /\ pc = "move"
Move == /\ pc = "move" /\ x' = [i \in P |-> 0] /\ pc' = "eval" /\ UNCHANGED <<pb, gb, hist>>
Evaluate == /\ pc = "eval"
            /\ \E r \in [P -> Ranks] : x' = r /\ hist' = [i \in P |-> Min2(hist[i], r[i])]
            /\ pc' = "pbest" /\ UNCHANGED <<pb, gb>>
PBest == /\ pc = "pbest"
         /\ pb' = [i \in P |-> IF x[i] < pb[i] THEN x[i] ELSE pb[i]]     \* strictly better replaces
         /\ pc' = "gbest" /\ UNCHANGED <<x, gb, hist>>
GBest == /\ pc = "gbest"
         /\ gb' = (IF MinOf(x) < gb THEN MinOf(x) ELSE gb)               \* best of the current swarm vs stored
         /\ pc' = "move" /\ UNCHANGED <<x, pb, hist>>
SNext == Move \/ Evaluate \/ PBest \/ GBest
SSpec == SInit /\ [][SNext]_swvars

\* personal best = best position that particle was ever evaluated at (once the update has run)
PBestIsHistoryMin == pc \in {"gbest", "move"} => pb = hist
\* personal bests never get worse
PBestMonotone == [][\A i \in P : pb'[i] <= pb[i]]_swvars
\* the global best equals the best personal best (once both updates of the pass have run)
GBestIsMinPBest == pc = "move" => gb = MinOf(pb)
GBestMonotone == [][gb' <= gb]_swvars
=============================================================================
