---------------------------- MODULE BoundaryLoop ----------------------------
(***************************************************************************)
(* The two repair LOOPS of boundary.rs step by step, on one lattice        *)
(* coordinate: Mirror ("reflect until inside") and                         *)
(* CompleteOneTailedNormalCorrection ("resample until inside").  The loop  *)
(* exits when x is inside the CLOSED interval [lo, hi].                    *)
(*   Mirror:   x < lo -> lo + (lo - x);  x > hi -> hi - (x - hi)           *)
(*   Resample: x < lo -> lo + |N|, any point >= lo;  x > hi -> hi - |N|,   *)
(*             any point <= hi (the draw may overshoot the other bound)    *)
(* Checked: no non-final state without successor, the Mirror variant       *)
(* strictly decreases and bounds the number of passes, the final value is  *)
(* Boundary's MirrorK(x0); a resampling pass can always end inside.        *)
(***************************************************************************)
EXTENDS BoundaryOps

CONSTANTS F          \* start values (and resampled values) range over F widths on both sides
Lattice == (-8 * F)..(8 + 8 * F)

VARIABLES op, x0, x, it
lvars == <<op, x0, x, it>>

Done == DistK(x) = 0

LoopInit == /\ op \in {"mirror", "cotnc"} /\ x0 \in Lattice /\ x = x0 /\ it = 0

MirrorStep == /\ op = "mirror" /\ ~Done
              /\ x' = ReflectK(x) /\ it' = it + 1 /\ UNCHANGED <<op, x0>>

ResampleSucc(k) == IF k < 0 THEN {j \in Lattice : j >= 0} ELSE {j \in Lattice : j <= 8}
ResampleStep == /\ op = "cotnc" /\ ~Done
                /\ x' \in ResampleSucc(x) /\ it' = (IF it < 3 THEN it + 1 ELSE it) /\ UNCHANGED <<op, x0>>

LoopNext == MirrorStep \/ ResampleStep
LoopSpec == LoopInit /\ [][LoopNext]_lvars

\* a state that is not final has a successor (TLC: deadlock check is off, this replaces it)
NoStuck == Done \/ ENABLED LoopNext
\* the variant strictly decreases in every Mirror pass, so passes <= initial distance
Variant == [][ op = "mirror" => DistK(x') < DistK(x) ]_lvars
Bounded == op = "mirror" => it + DistK(x) <= DistK(x0) /\ it <= DistK(x0)
\* the loop computes the big-step function of Boundary, and leaves inside values alone
Computes == (op = "mirror" /\ Done) => x = MirrorK(x0)
Untouched == DistK(x0) = 0 => (x = x0 /\ it = 0)
\* resampling can always finish in the next pass (it does so with probability > 0.99)
CanFinish == (op = "cotnc" /\ ~Done) => \E j \in ResampleSucc(x) : DistK(j) = 0
=============================================================================
