-------------------------- MODULE Trace_Populations --------------------------
EXTENDS Populations, TLC, Json, IOUtils
Rec == ndJsonDeserialize(IOEnv.TRACE)
VARIABLE l
TraceInit == Init /\ l = 1
Reset == /\ Rec[l].act.op = "reset"
         /\ Rec[l].stack = <<>>            \* a new stack is empty, whichever constructor made it (act.n)
         /\ stack' = <<>> /\ act' = Rec[l].act /\ res' = R("ok", <<>>, NoVal)
Step == /\ Rec[l].act.op # "reset"
        /\ Do(Rec[l].act)
        /\ res' = Rec[l].res
        /\ stack' = Rec[l].stack
TraceNext == l <= Len(Rec) /\ (Reset \/ Step) /\ l' = l + 1
TraceSpec == TraceInit /\ [][TraceNext]_<<vars, l>>
TraceDone == PrintT(<<"TRACE_RESULT", TLCGet("stats").diameter - 1, Len(Rec)>>)
=============================================================================
