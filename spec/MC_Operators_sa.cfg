SPECIFICATION McSpec
CONSTANTS
  Ops = {"sa_accept", "cool"}
  LoadStacks <- McLoadStacks
  MaxN = 0
  Ind <- Ind6
  MaxLen = 1
  Mode = "sa"
INVARIANT TypeOK Total
PROPERTY SurvivorOnly Metropolis CoolOnce
CHECK_DEADLOCK FALSE
