SPECIFICATION McSpec
CONSTANTS
  Ops = {"sa_accept", "cool", "nested", "update_best"}
  LoadStacks <- McLoadStacks
  MaxN = 0
  Ind <- Ind6
  MaxLen = 1
  Mode = "sa"
INVARIANT TypeOK Total
PROPERTY SurvivorOnly Metropolis CoolOnce BestApart
CHECK_DEADLOCK FALSE
