--------------------------- MODULE Trace_ParEval ---------------------------
(* Objective-side event log of real (rayon) parallel evaluation steps, validated against ParEval:     *)
(* "begin" (population size, expected values), "claim"/"finish" per objective call in the order the    *)
(* instrumented objective function observed them, "end" (what the individuals carry afterwards, calls,  *)
(* random draws made meanwhile).                                                                        *)
EXTENDS ParEval, TLC, Json, IOUtils
Rec == ndJsonDeserialize(IOEnv.TRACE)
VARIABLE l
TraceInit == Begin(0, <<>>) /\ l = 1
BeginRec == /\ Rec[l].ev = "begin"
            /\ Quiescent                                   \* the previous evaluation was complete
            /\ n' = Rec[l].n /\ want' = Rec[l].want
            /\ objs' = [i \in 1..Rec[l].n |-> NoObj]
            /\ busy' = [x \in Workers |-> 0] /\ started' = {} /\ calls' = 0 /\ rngpos' = 0
ClaimRec == Rec[l].ev = "claim" /\ Claim(Rec[l].w, Rec[l].i)
FinishRec == Rec[l].ev = "finish" /\ busy[Rec[l].w] = Rec[l].i /\ Finish(Rec[l].w)
EndRec == /\ Rec[l].ev = "end"
          /\ Quiescent
          /\ Rec[l].objs = objs /\ Rec[l].calls = calls /\ Rec[l].rng = 0
          /\ UNCHANGED pvars
TraceNext == l <= Len(Rec) /\ (BeginRec \/ ClaimRec \/ FinishRec \/ EndRec) /\ l' = l + 1
TraceSpec == TraceInit /\ [][TraceNext]_<<pvars, l>>
TraceDone == PrintT(<<"TRACE_RESULT", TLCGet("stats").diameter - 1, Len(Rec)>>)
=============================================================================
