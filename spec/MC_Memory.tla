----------------------------- MODULE MC_Memory -----------------------------
EXTENDS Memory, TLC, Json
\* ranks with a tie and an infinite value
FQ == (1 :> 2) @@ (2 :> 1) @@ (3 :> 2)
FT == (1 :> 2) @@ (2 :> 1) @@ (3 :> 2) @@ (4 :> 1000000)
McView == <<pop, best, arch, shownK, reg>>
St  == [pop |-> pop, best |-> best, arch |-> arch, shownK |-> shownK, reg |-> reg]
StP == [pop |-> pop', best |-> best', arch |-> arch', shownK |-> shownK', reg |-> reg']
PrintEdge == PrintT(<<"EDGE", ToJson([from |-> St, act |-> act', res |-> res', to |-> StP])>>)
\* the same export without the user-operator calls (thorough tier: they are toured on the smaller model)
NoUserOps == act'.op \notin {"user_mutation", "user_mutation_v", "user_select_replace"}
PrintEdgeNoUser == NoUserOps /\ PrintEdge
=============================================================================
