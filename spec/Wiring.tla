------------------------------- MODULE Wiring -------------------------------
(***************************************************************************)
(* Abstract interpretation of the component tree of each shipped template  *)
(* (extracted from the code by name-preserving serialisation of            *)
(* Configuration::heuristic()): leaves are reduced to their stack effect   *)
(* (spec/effects.json: height delta d, operands needed `need`), conditions *)
(* to a script of outcomes.  TLC explores every template x every script up *)
(* to a length bound (i.e. every branch outcome and loop pass count within *)
(* the bound) and checks C16's structural clauses:                         *)
(*   NoUnderflow   every component finds the populations it consumes       *)
(*   PassBalanced  each loop pass ends at the height it started with       *)
(*   OneAtEnd      exactly one population is left at the end of the run    *)
(* The same effect table is bound to the code by Run.tla (observed delta   *)
(* of every executed component = table entry).                             *)
(***************************************************************************)
EXTENDS Naturals, Integers, Sequences, FiniteSets, TLC, Json, IOUtils

Effects == JsonDeserialize("effects.json")
Trees == ndJsonDeserialize(IOEnv.TREES)      \* records [template, prog]; prog: body of [k, v, b, e] statements

CONSTANT MaxScript

S0(script) == [h |-> 0, script |-> script, under |-> FALSE, unbal |-> FALSE, unknown |-> FALSE]

Pop(s) == IF Len(s.script) = 0 THEN <<[s EXCEPT !.script = <<>>], 0>>
          ELSE <<[s EXCEPT !.script = Tail(@)], s.script[1]>>

RECURSIVE WB(_, _), WS(_, _), WLoop(_, _)
WS(x, s) ==
    CASE x.k = "leaf" ->
           IF x.v \notin DOMAIN Effects THEN [s EXCEPT !.unknown = TRUE]
           ELSE LET e == Effects[x.v] IN
                [s EXCEPT !.under = @ \/ s.h < e.need, !.h = IF s.h + e.d < 0 THEN 0 ELSE s.h + e.d]
      [] x.k \in {"block", "scope"} -> WB(x.b, s)
      [] x.k = "while" -> WLoop(x, s)
      [] x.k = "if" -> LET r == Pop(s) IN IF r[2] = 1 THEN WB(x.b, r[1]) ELSE r[1]
      [] x.k = "ifelse" -> LET r == Pop(s) IN IF r[2] = 1 THEN WB(x.b, r[1]) ELSE WB(x.e, r[1])
WLoop(x, s) ==
    LET r == Pop(s) IN
    IF r[2] = 0 THEN r[1]
    ELSE LET s2 == WB(x.b, r[1]) IN
         WLoop(x, [s2 EXCEPT !.unbal = @ \/ s2.h # r[1].h])
WB(body, s) ==
    LET RECURSIVE Go(_, _)
        Go(i, t) == IF i > Len(body) THEN t ELSE Go(i + 1, WS(body[i], t))
    IN Go(1, s)

RECURSIVE ScriptsOf(_)
ScriptsOf(n) == IF n = 0 THEN {<<>>} ELSE {<<b>> \o t : b \in {0, 1}, t \in ScriptsOf(n - 1)}
Scripts == UNION {ScriptsOf(n) : n \in 0..MaxScript}

VARIABLES tpl, script, fin
wvars == <<tpl, script, fin>>
WInit == /\ tpl \in 1..Len(Trees)
         /\ script \in Scripts
         /\ fin = WB(Trees[tpl].prog, S0(script))
WNext == UNCHANGED wvars
WSpec == WInit /\ [][WNext]_wvars

NoUnknown    == ~fin.unknown
NoUnderflow  == ~fin.under
PassBalanced == ~fin.unbal
OneAtEnd     == fin.h = 1
\* verdict per case, printed (a template that violates a clause is reported by the check, not by TLC,
\* so that known findings can be told from new violations)
Verdict == PrintT(<<"WIRING", ToJson([template |-> Trees[tpl].template, script |-> script,
                                      under |-> fin.under, unbal |-> fin.unbal, h |-> fin.h])>>)
=============================================================================
