--------------------------- MODULE Trace_Operators ---------------------------
(* Trace validation: every record of the ndjson file named by the          *)
(* environment variable TRACE must be a step allowed by Operators!Rel from  *)
(* the state reached so far: the logged reply and the logged projected      *)
(* stack / cooling count are bound to the primed variables and the relation *)
(* is evaluated on them.  The probabilistic clause of C17 is decided per    *)
(* (pair, T) cell: a cell is one run; acc / tot count accepted / all        *)
(* acceptance executions of the run and the last one must leave acc within  *)
(* the logged 6-sigma bounds [lo, hi] of N * exp(-(f(S') - f(S)) / T).      *)
(* Counted are the acceptance executions in the run's own scope and those   *)
(* executions of an SA step nested in a Scope that are marked as trials     *)
(* (act.k = 1; T is then the nested SA's own temperature).                  *)
(* The distributional clause of C12 ("mu random ones") is decided per       *)
(* survival cell: a cell is one run of executions of RandomReplacement      *)
(* (act.pc = "cell") on the same parents, offspring (unique tags) and mu;   *)
(* cell.c counts, per tag, the executions the individual survived; when the *)
(* announced number of executions act.lo is reached every count must        *)
(* satisfy Operators!SurvivalOk (computed here, on integers).               *)
EXTENDS Operators, TLC, Json, IOUtils

Rec == ndJsonDeserialize(IOEnv.TRACE)

VARIABLES l, acc, tot, cell

NoCell == [mu |-> -1, par |-> <<>>, off |-> <<>>, n |-> 0, c |-> <<>>]

TraceInit == Init /\ l = 1 /\ acc = 0 /\ tot = 0 /\ cell = NoCell

Reset == /\ Rec[l].act.op = "reset"
         /\ stack' = <<>> /\ temp' = 0 /\ best' = NoBest
         /\ act' = Rec[l].act
         /\ res' = R("ok")
         /\ acc' = 0 /\ tot' = 0 /\ cell' = NoCell

IsCell(a) == a.op = "random_repl" /\ a.pc = "cell"

\* one more execution of the cell: same inputs as before, survivors counted by tag
CellStep(a, after) ==
    LET par  == Under(stack)
        off  == Top(stack)
        both == par \o off
        tags == {Tag(both[i]) : i \in DOMAIN both}
        kept == {Tag(x) : x \in Range(Top(after))}
        old  == IF cell.n = 0 THEN [t \in tags |-> 0] ELSE cell.c
    IN  /\ UniqueTags(both)
        /\ cell.n > 0 => (cell.mu = a.n /\ cell.par = par /\ cell.off = off)
        /\ cell.n < a.lo
        /\ cell' = [mu |-> a.n, par |-> par, off |-> off, n |-> cell.n + 1,
                    c |-> [t \in tags |-> old[t] + (IF t \in kept THEN 1 ELSE 0)]]
        /\ cell'.n = a.lo => \A t \in tags : SurvivalOk(cell'.n, Len(both), a.n, cell'.c[t])

Exec == LET rc == Rec[l]
            a  == rc.act
        IN  /\ a.op # "reset"
            /\ Step(a, rc.res, rc.stack, rc.temp, rc.best)
            /\ IF a.op = "sa_accept" \/ (a.op = "nested" /\ a.k = 1)
               THEN /\ tot' = tot + 1
                    /\ acc' = acc + (IF SaAccepted(stack, stack') THEN 1 ELSE 0)
                    /\ a.last = 1 => (a.lo <= acc' /\ acc' <= a.hi)
               ELSE UNCHANGED <<acc, tot>>
            /\ IF IsCell(a) THEN CellStep(a, rc.stack) ELSE UNCHANGED cell

TraceNext == /\ l <= Len(Rec)
             /\ (Reset \/ Exec)
             /\ l' = l + 1

TraceSpec == TraceInit /\ [][TraceNext]_<<vars, l, acc, tot, cell>>

TraceDone == PrintT(<<"TRACE_RESULT", TLCGet("stats").diameter - 1, Len(Rec)>>)
=============================================================================
