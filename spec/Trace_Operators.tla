--------------------------- MODULE Trace_Operators ---------------------------
(* Trace validation: every record of the ndjson file named by the          *)
(* environment variable TRACE must be a step allowed by Operators!Rel from  *)
(* the state reached so far: the logged reply and the logged projected      *)
(* stack / cooling count are bound to the primed variables and the relation *)
(* is evaluated on them.  The probabilistic clause of C17 is decided per    *)
(* (pair, T) cell: a cell is one run; acc / tot count accepted / all        *)
(* acceptance executions of the run and the last one must leave acc within  *)
(* the logged 6-sigma bounds [lo, hi] of N * exp(-(f(S') - f(S)) / T).      *)
EXTENDS Operators, TLC, Json, IOUtils

Rec == ndJsonDeserialize(IOEnv.TRACE)

VARIABLES l, acc, tot

TraceInit == Init /\ l = 1 /\ acc = 0 /\ tot = 0

Reset == /\ Rec[l].act.op = "reset"
         /\ stack' = <<>> /\ temp' = 0
         /\ act' = Rec[l].act
         /\ res' = R("ok")
         /\ acc' = 0 /\ tot' = 0

Exec == LET rc == Rec[l]
            a  == rc.act
        IN  /\ a.op # "reset"
            /\ Step(a, rc.res, rc.stack, rc.temp)
            /\ IF a.op = "sa_accept"
               THEN /\ tot' = tot + 1
                    /\ acc' = acc + (IF SaAccepted(stack, stack') THEN 1 ELSE 0)
                    /\ a.last = 1 => (a.lo <= acc' /\ acc' <= a.hi)
               ELSE UNCHANGED <<acc, tot>>

TraceNext == /\ l <= Len(Rec)
             /\ (Reset \/ Exec)
             /\ l' = l + 1

TraceSpec == TraceInit /\ [][TraceNext]_<<vars, l, acc, tot>>

TraceDone == PrintT(<<"TRACE_RESULT", TLCGet("stats").diameter - 1, Len(Rec)>>)
=============================================================================
