SPECIFICATION ExportSpec
ACTION_CONSTRAINT PrintCase
CONSTANTS
  Ops = {"all", "none", "clone_single", "fully_random", "without_rep", "roulette", "sus", "tournament", "linear_rank", "exp_rank", "iwo", "de_rand", "de_best", "de_ctb", "weights", "reverse_rank"}
  LoadStacks <- McLoadStacks
  MaxN = 2
  Ind <- Ind4
  MaxLen = 3
  Mode = "sel"
CHECK_DEADLOCK FALSE
