SPECIFICATION MSpec
CONSTANTS
  Sols = {1, 2, 3}
  F <- FQ
  K = 2
  MaxPop = 2
VIEW McView
INVARIANT MTypeOK Fresh ArchiveHoldsKBest
PROPERTY MutableAccessClears CopyKeepsPair EvaluateExact CountOnlyByEvaluate BestRules NoDuplicateOnReinsert
CHECK_DEADLOCK FALSE
