SPECIFICATION TraceSpec
CONSTANTS
  M = 1
  B = 2
  MaxList = 2
  VecDom = {0}
  MaxVec = 1
  SciIn = {}
  SciNeg = {}
  Known = {}
INVARIANT Legal TotalOrder
PROPERTY LegalReplies ConstructionExact CmpSound SortMinMaxSound ParetoSound
POSTCONDITION TraceDone
CHECK_DEADLOCK FALSE
