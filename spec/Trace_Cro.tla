----------------------------- MODULE Trace_Cro -----------------------------
(***************************************************************************)
(* C20, prepared states: every record is ONE reaction update executed by   *)
(* the real component on a prepared state with integer energies            *)
(* (population, molecule list, buffer, reactant and product populations    *)
(* on the stack, `below` further populations underneath).  Load puts the   *)
(* record's state into the variables of Cro.tla; React is Cro's own action *)
(* for the recorded call and must                                          *)
(*  * decide accepted / rejected from the integer state (a record whose   *)
(*    state changed must be an accepted reaction),                         *)
(*  * leave the recorded objective values (exact integers) and solutions   *)
(*    at the recorded positions,                                           *)
(*  * admit the recorded kinetic energy of the first reactant and the      *)
(*    recorded buffer level rounded down (the random split is a            *)
(*    nondeterministic integer choice in the model),                       *)
(*  * and the float facts the model cannot carry arrive as predicates      *)
(*    evaluated by the harness on the exact values (P-pred, DESIGN 2.4):   *)
(*    cons (total energy unchanged up to rounding), nonneg, split (the     *)
(*    shares add up to the released energy), local (molecules that do not  *)
(*    take part are bit-identical), aligned (one molecule per individual,  *)
(*    in order: each molecule's best belongs to its individual), lower     *)
(*    (the populations underneath are bit-identical).                      *)
(* The integers are energies in the record's unit (a power of two, field   *)
(* `unit` = its exponent): the real state holds integer * 2^unit, which is *)
(* exact in f64, so the model's integer decision binds at every magnitude  *)
(* -- a product out of reach by one unit of 2^-54 is out of reach.         *)
(***************************************************************************)
EXTENDS Cro, TLC, Json, IOUtils
Rec == ndJsonDeserialize(IOEnv.TRACE)
VARIABLES l, phase
tvars == <<cvars, l, phase>>

TraceInit == /\ l = 1 /\ phase = "load"
             /\ pe = <<0>> /\ ke = <<0>> /\ sol = <<1>> /\ buffer = 0 /\ below = 0 /\ h = 1
             /\ act = A("init", 0, 0, 0, 0) /\ res = [k |-> "ok"]

Load == /\ phase = "load" /\ l <= Len(Rec)
        /\ pe' = Rec[l].pe /\ ke' = Rec[l].ke /\ sol' = Rec[l].sol /\ buffer' = Rec[l].buffer
        /\ below' = Rec[l].below
        /\ h' = Rec[l].below + (IF Rec[l].op \in {"init", "scoped_init"} THEN 1 ELSE 3)
        /\ act' = A("prepare", 0, 0, 0, 0) /\ res' = [k |-> "ok"]
        /\ phase' = "react" /\ UNCHANGED l

\* Reactions on energies of very different magnitude (a reactant and its product carry a common offset of 2^60, which
\* cancels in the energy balance but makes the additions inexact): the model's exact integer arithmetic cannot say
\* which way a boundary case rounds, so only what the statement demands for every outcome is required --
\* no negative energy, conservation up to rounding, alignment, locality, the stack effect.
ReactBig == /\ phase = "react" /\ Rec[l].big = 1
            /\ LET r == Rec[l] IN
               /\ r.res \in {"changed", "unchanged"}
               /\ r.pred.cons = 1 /\ r.pred.nonneg = 1 /\ r.pred.local = 1 /\ r.pred.aligned = 1 /\ r.pred.lower = 1
               /\ r.h2 = below + 1 /\ r.nm = Len(r.pe2) /\ Len(r.sol2) = r.nm
               /\ pe' = r.pe2 /\ ke' = [i \in 1..r.nm |-> 0] /\ sol' = r.sol2 /\ buffer' = 0 /\ h' = below + 1
               /\ act' = A(r.op, r.i, r.j, r.p1, r.p2) /\ res' = [k |-> "ok"]
            /\ l' = l + 1 /\ phase' = "load" /\ UNCHANGED below

\* The component receives a COPY of each selected individual (si, sj); the molecule it locates must hold an individual
\* equal to the selected one in solution and objective value -- which of several such molecules reacts is not fixed by
\* the statement -- and two reactants are two molecules.  When the state changed, the harness reports the located pair
\* (i, j) (the pair whose slots hold the products and outside which nothing changed); when nothing changed, any
\* admissible pair on which the model rejects the reaction explains the record.
Adm(k) == IF k = 0 THEN {0} ELSE {x \in 1..Len(pe) : sol[x] = sol[k] /\ pe[x] = pe[k]}

ReactAt(r, x, y) ==
            /\ Do(A(r.op, x, y, r.p1, r.p2))
            /\ r.res \in {"changed", "unchanged"}                 \* the component returned Ok
            /\ (r.res = "changed" /\ r.op \notin {"init", "scoped_init"}) => res'.k = "accepted"   \* a rejected reaction changes nothing
            /\ pe' = r.pe2
            /\ sol' = r.sol2                                     \* the products sit where the located molecules were
            /\ Len(ke') = r.nm                                   \* one molecule record per individual
            /\ buffer' = r.bf
            /\ (res'.k = "accepted" /\ r.op # "synthesis") => ke'[x] = r.kef
            /\ r.op \in {"init", "scoped_init"} => ke' = r.ke2   \* (integers: exact)
            /\ r.pred.cons = 1 /\ r.pred.nonneg = 1 /\ r.pred.split = 1 /\ r.pred.local = 1 /\ r.pred.aligned = 1
            /\ r.pred.lower = 1                                  \* nobody touches the populations underneath
            /\ r.h2 = h'

React == /\ phase = "react" /\ Rec[l].big = 0
         /\ LET r == Rec[l] IN
            \E x \in Adm(r.si), y \in Adm(r.sj) :
               /\ (y # 0 => y # x)
               /\ (r.res = "changed" => x = r.i /\ y = r.j)
               /\ ReactAt(r, x, y)
         /\ l' = l + 1 /\ phase' = "load"

TraceNext == Load \/ React \/ ReactBig
TraceSpec == TraceInit /\ [][TraceNext]_tvars
TraceDone == PrintT(<<"TRACE_RESULT", (TLCGet("stats").diameter - 1) \div 2, Len(Rec)>>)
=============================================================================
