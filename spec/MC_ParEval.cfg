SPECIFICATION PSpec
CONSTANTS
  MaxN = 4
  Workers = {1, 2, 3}
  Vals = {1, 2}
INVARIANT Confluent OnceEach NoRandomness NoStuck
CHECK_DEADLOCK FALSE
