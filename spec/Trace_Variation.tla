--------------------------- MODULE Trace_Variation ---------------------------
(* Trace validation for Variation: every record of the ndjson file named   *)
(* by the environment variable TRACE must be a step of the spec.           *)
(*  kind = "fn":   a helper call; the call must be valid, the logged reply *)
(*                 must equal the oracle value (DoFn; for "arith_x" be     *)
(*                 related to the arguments by ArithXRel) and satisfy      *)
(*                 every helper theorem;                                   *)
(*  kind = "comp": a component execution; the logged projections of the    *)
(*                 populations before/after must be related by CompRel     *)
(*                 (DoComp) and satisfy every component property.          *)
EXTENDS Variation, TLC, Json, IOUtils

Rec == ndJsonDeserialize(IOEnv.TRACE)

VARIABLE l

TraceInit == Init /\ l = 1

FnProps == /\ FnTotal /\ PermutationClosure /\ GeneConservation /\ ArithConvex /\ SwapMovesChosen
           /\ TranslocateShape /\ TwinSwap /\ TwinTranslocate /\ MultiPointTailSwaps /\ CycleWhole
           /\ ArithXConvex /\ ArithXEnds
CompProps == /\ CompNoFailure /\ CompPermutationClosure /\ CompDimensionKept /\ CompRateZero
             /\ CompRateZeroReal /\ CompOffspringCount /\ CompDEFormat /\ CompGenesFromParents
             /\ CompDEGenes /\ CompStackKept /\ CompOwnParameters /\ CompInvalidRejected
             /\ CompStrengthBound /\ CompCtorVariant /\ CompGenesConserved

(* A record is first loaded into the spec variables and judged in the      *)
(* following step on the then-current state:  loading record n+1 (or the   *)
(* final step) is enabled only if record n, as loaded, is a step of the    *)
(* spec: DoFn(act) with res the oracle reply (FnRel), resp. DoComp(cact,   *)
(* cres),                                                                  *)
(* and satisfies every property.  (Judging on the current state instead of *)
(* primed expressions lets TLC cache lazily evaluated arguments of the     *)
(* recursive operators; primed evaluation is exponential in their depth.)  *)
CurOK == /\ act.op # "init" => (ValidFn(act) /\ FnRel(act, res) /\ FnProps)
         /\ cact.c # "-" => (ValidComp(cact) /\ CompRel(cact, cres) /\ CompProps)

Load == CASE Rec[l].kind = "fn"   -> act' = Rec[l].act /\ res' = Rec[l].res /\ cact' = CA0 /\ cres' = CR0
          [] Rec[l].kind = "comp" -> cact' = Rec[l].act /\ cres' = Rec[l].res /\ act' = A0 /\ res' = R0
          [] OTHER                -> act' = A0 /\ res' = R0 /\ cact' = CA0 /\ cres' = CR0     \* reset

TraceNext == /\ CurOK = TRUE      \* "= TRUE": evaluated as one Boolean, not explored as an action with \E branches
             /\ \/ l <= Len(Rec) /\ Load
                \/ l = Len(Rec) + 1 /\ UNCHANGED vars
             /\ l' = l + 1

TraceSpec == TraceInit /\ [][TraceNext]_<<vars, l>>

TraceDone == PrintT(<<"TRACE_RESULT", TLCGet("stats").diameter - 2, Len(Rec)>>)
=============================================================================
