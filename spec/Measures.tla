------------------------------ MODULE Measures ------------------------------
(***************************************************************************)
(* Beyond the listed properties: the MEASURING side of the framework.      *)
(*                                                                         *)
(*  * diversity measures (src/components/diversity.rs): four measures of   *)
(*    the current population, each with its own normalisation state        *)
(*    Diversity<I> = (normalised value, largest raw value seen so far);    *)
(*  * the stagnation counter (src/components/utils/improvement.rs):        *)
(*    StepsWithoutImprovementUpdate over the best objective value;         *)
(*  * the mapping components (src/components/mapping/common.rs): Linear    *)
(*    and Polynomial from an input lens to an output lens, RandomRange.    *)
(*                                                                         *)
(* Populations are sequences of points with small INTEGER coordinates; all *)
(* raw measure values are carried as exact integers after scaling by a     *)
(* constant (so that TLC decides equality, order and "is the maximum"),    *)
(* or - where the value is a sum of irrational square roots - as its class *)
(* (zero / positive).  One behaviour exercises one part (chosen by the     *)
(* first action `config`), the parts do not interact.                      *)
(*                                                                         *)
(*   act = [op, m, p, x]   op   config | set_pop | measure | init_div |    *)
(*                              set_best | init_imp | improve | map | rand *)
(*                         m    part / measure / mapping kind              *)
(*                         p    a population (sequence of points)          *)
(*                         x    <<a, b, c, e>> integers                    *)
(***************************************************************************)
EXTENDS Naturals, Integers, Sequences, FiniteSets, TLC

CONSTANTS Coord1,    \* coordinates explored by the model checker for one-dimensional problems
          Coord2,    \* ... for two-dimensional problems
          MaxN,      \* population sizes 0..MaxN
          Objs,      \* objective values explored (improvement part)
          MapVals,   \* start / end values explored (mapping part)
          Known      \* ids of named deviations (known findings) the trace specification may use

VARIABLES part,      \* "none" | a measure | "imp" | "map"
          d,         \* dimension of the problem (fixed by config)
          pop,       \* the current population
          raw, max,  \* scaled raw value of the last measurement / largest so far (class mode: 0 / 1)
          best, prev, swi,   \* best objective value (NoVal: none yet), previous one, steps without improvement
          mp,        \* <<numerator, denominator>> of the last mapping output
          act, res
mvars == <<part, d, pop, raw, max, best, prev, swi, mp, act, res>>

NoVal == 99
INF == 1000000                       \* PreviousObjectiveValue::default() = +inf
PN == 4                              \* progress values explored: i / PN (exact in binary floating point)
Measures == {"dw", "td", "pw", "dtap"}
A(op, m, p, x) == [op |-> op, m |-> m, p |-> p, x |-> x]
X0 == <<0, 0, 0, 0>>

Dev(ok, id, applies) == ok \/ (applies /\ id \in Known /\ PrintT(<<"KF", id>>))

---------------------------------------------------------------------------
(* The measures as exact integer functions of an integer population *)
Abs(x) == IF x < 0 THEN -x ELSE x
Max2(a, b) == IF a >= b THEN a ELSE b
RECURSIVE SumTo(_, _)
SumTo(f, n) == IF n = 0 THEN 0 ELSE f[n] + SumTo(f, n - 1)
Sum(f) == SumTo(f, Len(f))

N(p) == Len(p)
Col(p, k) == [i \in 1..N(p) |-> p[i][k]]
AllSame(p) == \A i \in 1..N(p) : p[i] = p[1]

\* dimension-wise diversity (1/D) sum_k (1/N) sum_i |x_ik - mean_k|, scaled by 72 (N <= 3, D <= 2: N*N*D divides 72)
DWs(p, dd) ==
    IF N(p) = 0 THEN 0
    ELSE (72 \div (N(p) * N(p) * dd)) *
         Sum([k \in 1..dd |-> LET c == Col(p, k) s == Sum(c) IN Sum([i \in 1..N(p) |-> Abs(N(p) * c[i] - s)])])

\* "true diversity" (1/D) sqrt(sum_k (mean(x_k^2) - mean(x_k)^2)): the SQUARE of 12 times the value is an integer
TDq(p, dd) ==
    IF N(p) = 0 THEN 0
    ELSE LET f == 12 \div (dd * N(p)) IN
         f * f * Sum([k \in 1..dd |-> LET c == Col(p, k) s == Sum(c) IN
                                      N(p) * Sum([i \in 1..N(p) |-> c[i] * c[i]]) - s * s])

\* pairwise distance 2/(N(N-1)) sum_{j<i} |x_i - x_j| for D = 1, scaled by 6; no pairs: no diversity
Pairs(n) == {q \in (1..n) \X (1..n) : q[2] < q[1]}
RECURSIVE SumSet(_, _)
SumSet(f, S) == IF S = {} THEN 0 ELSE LET q == CHOOSE q \in S : TRUE IN f[q] + SumSet(f, S \ {q})
PWs(p) ==
    IF N(p) <= 1 THEN 0
    ELSE (12 \div (N(p) * (N(p) - 1))) * SumSet([q \in Pairs(N(p)) |-> Abs(p[q[1]][1] - p[q[2]][1])], Pairs(N(p)))

\* distance to the average point (1/N) sum_i |x_i - mean| for D = 1, scaled by 36
DTAPs(p) ==
    IF N(p) = 0 THEN 0
    ELSE (36 \div (N(p) * N(p))) * LET c == Col(p, 1) s == Sum(c) IN Sum([i \in 1..N(p) |-> Abs(N(p) * c[i] - s)])

\* pw and dtap are sums of square roots for D >= 2: only their class is carried
Exact(m, dd) == m \in {"dw", "td"} \/ dd = 1
Class(p) == IF N(p) = 0 \/ AllSame(p) THEN 0 ELSE 1
Raw(m, p, dd) ==
    IF ~Exact(m, dd) THEN Class(p)
    ELSE CASE m = "dw" -> DWs(p, dd)
           [] m = "td" -> TDq(p, dd)
           [] m = "pw" -> PWs(p)
           [] m = "dtap" -> DTAPs(p)

---------------------------------------------------------------------------
Points(dd) == IF dd = 1 THEN {<<a>> : a \in Coord1} ELSE {<<a, b>> : a \in Coord2, b \in Coord2}
Pops(dd) == UNION {[1..n -> Points(dd)] : n \in 0..MaxN}

Config(m, dd) ==
    /\ part = "none" /\ part' = m /\ d' = dd
    /\ act' = A("config", m, <<>>, <<dd, 0, 0, 0>>) /\ res' = "ok"
    /\ UNCHANGED <<pop, raw, max, best, prev, swi, mp>>

SetPop(p) ==
    /\ part \in Measures /\ pop' = p
    /\ act' = A("set_pop", part, p, X0) /\ res' = "ok"
    /\ UNCHANGED <<part, d, raw, max, best, prev, swi, mp>>

\* the measure component is executed on the current population; r is the raw value it found
MeasureWith(r) ==
    /\ part \in Measures
    /\ raw' = r /\ max' = Max2(max, r)
    /\ act' = A("measure", part, <<>>, X0) /\ res' = "ok"
    /\ UNCHANGED <<part, d, pop, best, prev, swi, mp>>
Measure == MeasureWith(Raw(part, pop, d))

\* the component's init on a state that already holds a Diversity record: the record starts again
InitDiv ==
    /\ part \in Measures /\ raw' = 0 /\ max' = 0
    /\ act' = A("init_div", part, <<>>, X0) /\ res' = "ok"
    /\ UNCHANGED <<part, d, pop, best, prev, swi, mp>>

SetBest(b) ==
    /\ part = "imp" /\ best' = b
    /\ act' = A("set_best", "imp", <<>>, <<b, 0, 0, 0>>) /\ res' = "ok"
    /\ UNCHANGED <<part, d, pop, raw, max, prev, swi, mp>>
InitImp ==
    /\ part = "imp" /\ swi' = 0 /\ prev' = INF
    /\ act' = A("init_imp", "imp", <<>>, X0) /\ res' = "ok"
    /\ UNCHANGED <<part, d, pop, raw, max, best, mp>>
Improve ==
    /\ part = "imp"
    /\ IF best = NoVal THEN UNCHANGED <<prev, swi>>
       ELSE /\ swi' = (IF best < prev THEN 0 ELSE swi + 1)
            /\ prev' = best
    /\ act' = A("improve", "imp", <<>>, X0) /\ res' = "ok"
    /\ UNCHANGED <<part, d, pop, raw, max, best, mp>>

RECURSIVE Pow(_, _)
Pow(b, k) == IF k = 0 THEN 1 ELSE b * Pow(b, k - 1)
\* Linear (k = 1) / Polynomial (exponent k) from start s to end e at progress i / PN
Map(kind, s, e, k, i) ==
    /\ part = "map" /\ (kind = "linear" => k = 1)
    /\ mp' = <<Pow(PN, k) * s + (e - s) * Pow(i, k), Pow(PN, k)>>
    /\ act' = A("map", kind, <<>>, <<s, e, k, i>>) /\ res' = "ok"
    /\ UNCHANGED <<part, d, pop, raw, max, best, prev, swi>>
\* RandomRange(s..e), s < e: some value of the half-open range (v: its integer part, reported by the implementation)
Rand(s, e, v) ==
    /\ part = "map" /\ s < e /\ v >= s /\ v < e
    /\ mp' = <<v, 1>>
    /\ act' = A("rand", "rand", <<>>, <<s, e, 0, 0>>) /\ res' = "ok"
    /\ UNCHANGED <<part, d, pop, raw, max, best, prev, swi>>

Do(a) == CASE a.op = "config" -> Config(a.m, a.x[1])
           [] a.op = "set_pop" -> SetPop(a.p)
           [] a.op = "measure" -> Measure
           [] a.op = "init_div" -> InitDiv
           [] a.op = "set_best" -> SetBest(a.x[1])
           [] a.op = "init_imp" -> InitImp
           [] a.op = "improve" -> Improve
           [] a.op = "map" -> Map(a.m, a.x[1], a.x[2], a.x[3], a.x[4])

Init == /\ part = "none" /\ d = 1 /\ pop = <<>> /\ raw = 0 /\ max = 0
        /\ best = NoVal /\ prev = INF /\ swi = 0 /\ mp = <<0, 1>>
        /\ act = A("init", "none", <<>>, X0) /\ res = "ok"

Next ==
    \/ \E m \in Measures, dd \in {1, 2} : Config(m, dd)
    \/ Config("imp", 1) \/ Config("map", 1)
    \/ \E p \in Pops(d) : SetPop(p)
    \/ Measure \/ InitDiv
    \/ \E b \in Objs \cup {NoVal} : SetBest(b)
    \/ InitImp \/ Improve
    \/ \E s \in MapVals, e \in MapVals, k \in 1..3, i \in 0..PN : Map("linear", s, e, k, i) \/ Map("poly", s, e, k, i)
    \/ \E s \in MapVals, e \in MapVals : \E v \in s..(e - 1) : Rand(s, e, v)
Spec == Init /\ [][Next]_mvars

---------------------------------------------------------------------------
(* What users rely on *)

\* the normalised diversity lies between 0 and 1 (raw / max with 0 <= raw <= max; nothing seen yet: 0)
Unit == 0 <= raw /\ raw <= max
\* the largest raw value seen only grows; a measurement equal to it reads as 1, a smaller one as less
MaxGrows == [][act'.op = "measure" => max' >= max /\ max' >= raw']_mvars
FullIffMax == [][act'.op = "measure" => (raw' = max' <=> raw' >= max)]_mvars
\* a population of identical individuals (or fewer than two individuals) has no diversity, any other one has some
ZeroIffSame == \A m \in Measures : part = m => (Raw(m, pop, d) = 0 <=> (N(pop) = 0 \/ AllSame(pop)))
\* the measures do not depend on the order of the individuals, nor on where the population sits in the space
Swap(p, i, j) == [p EXCEPT ![i] = p[j], ![j] = p[i]]
OrderFree == part \in Measures =>
    \A i \in 1..N(pop), j \in 1..N(pop) : Raw(part, Swap(pop, i, j), d) = Raw(part, pop, d)
Shift(p, c) == [i \in 1..N(p) |-> [k \in 1..d |-> p[i][k] + c]]
ShiftFree == part \in Measures => Raw(part, Shift(pop, 1), d) = Raw(part, pop, d)

\* the stagnation counter is reset by a strict improvement only, counts every other step, and ignores steps
\* without a best individual
Stagnation ==
    [][act'.op = "improve" =>
          IF best = NoVal THEN swi' = swi /\ prev' = prev
          ELSE /\ (swi' = 0 <=> best < prev)
               /\ (best >= prev => swi' = swi + 1)
               /\ prev' = best]_mvars

\* a mapping starts at `start`, ends at `end`, stays between them and moves monotonically with the progress
MapEnds == [][act'.op = "map" =>
                /\ (act'.x[4] = 0 => mp'[1] = act'.x[1] * mp'[2])
                /\ (act'.x[4] = PN => mp'[1] = act'.x[2] * mp'[2])
                /\ LET lo == IF act'.x[1] <= act'.x[2] THEN act'.x[1] ELSE act'.x[2]
                       hi == IF act'.x[1] <= act'.x[2] THEN act'.x[2] ELSE act'.x[1] IN
                   lo * mp'[2] <= mp'[1] /\ mp'[1] <= hi * mp'[2]]_mvars
RandInRange == [][act'.op = "rand" => act'.x[1] * mp'[2] <= mp'[1] /\ mp'[1] < act'.x[2] * mp'[2]]_mvars

TypeOK == /\ part \in Measures \cup {"none", "imp", "map"}
          /\ d \in {1, 2} /\ swi \in Nat /\ max \in Nat /\ raw \in Nat
=============================================================================
