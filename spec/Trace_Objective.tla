--------------------------- MODULE Trace_Objective ---------------------------
(* Trace validation for Objective: every record of the ndjson file named   *)
(* by the environment variable TRACE must be a step of the spec with       *)
(* exactly the logged reply and the logged set of obtained values.         *)
(*                                                                         *)
(* Known deviations (DESIGN 2.5): the derived arithmetic operators of      *)
(* SingleObjective return the raw IEEE result even when it is NaN / -inf.  *)
(* KFStep accepts exactly that reply, only for the (operator, operand      *)
(* classes) combinations listed in the constant Known (filled from         *)
(* known_findings.json by the check), prints a KF line, and does not add   *)
(* the illegal value to `vals`.  With Known = {} the record is rejected.   *)
EXTENDS Objective, TLC, Json, IOUtils

CONSTANT Known

Rec == ndJsonDeserialize(IOEnv.TRACE)

VARIABLE l

TraceInit == Init /\ l = 1

Reset == /\ Rec[l].act.op = "reset"
         /\ Rec[l].act.f \in {"exact", "rank", "sci"}
         /\ vals' = {}
         /\ mode' = Rec[l].act.f
         /\ act' = Rec[l].act
         /\ res' = R("ok", NoVal)

Logged == Range(Rec[l].vals)

Step == /\ Rec[l].act.op # "reset"
        /\ ~(mode = "rank" /\ IsArith(Rec[l].act))
        /\ Do(Rec[l].act)
        /\ res' = Rec[l].res
        /\ vals' = Logged

RankStep == /\ DoRank(Rec[l].act, Rec[l].res)
            /\ vals' = Logged

\* mode "sci", result not determined by the lattice arithmetic: class level
SciLooseStep == /\ DoSciLoose(Rec[l].act, Rec[l].res)
                /\ vals' = Logged

KfId(a) == "KF_obj_" \o a.op \o "_" \o a.ca \o (IF a.cb = NoC THEN "" ELSE "_" \o a.cb)

KFStep == LET a == Rec[l].act  r == Rec[l].res IN
          /\ IsArith(a)
          /\ a.a \in vals
          /\ a.op \in {"add", "sub"} => a.b \in vals
          /\ SpecialOK(a.a, a.ca)
          /\ IF a.op = "neg" THEN a.cb = NoC ELSE SpecialOK(a.b, a.cb)
          /\ mode \in ExactModes => (a.ca = CO(a.a) /\ a.cb = CO(a.b))
          /\ mode = "sci" => (SciArg(a.a) /\ (a.b = NoVal \/ SciArg(a.b)))
          /\ r.k = "val" /\ r.c \in {"nan", "neginf"} /\ SpecialOK(r.v, r.c) /\ r.s = <<>>
          /\ r.c \in AbsOp(a.op, a.ca, a.cb)                 \* the raw IEEE result, nothing else
          /\ mode = "exact" => r.v = IEEE(a.op, a.a, a.b)
          /\ mode = "sci" => r.v = SciOp(a.op, a.a, a.b)       \* also for operands of extreme magnitude
          /\ KfId(a) \in Known
          /\ PrintT(<<"KF", KfId(a)>>)
          /\ act' = a /\ res' = r
          /\ UNCHANGED <<vals, mode>>
          /\ vals = Logged

TraceNext == /\ l <= Len(Rec)
             /\ (Reset \/ Step \/ RankStep \/ SciLooseStep \/ KFStep)
             /\ l' = l + 1

TraceSpec == TraceInit /\ [][TraceNext]_<<vars, l>>

TraceDone == PrintT(<<"TRACE_RESULT", TLCGet("stats").diameter - 1, Len(Rec)>>)
=============================================================================
