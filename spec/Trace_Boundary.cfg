SPECIFICATION TraceSpec
CONSTANTS
  D = 1
  Lattice = {0}
  InitPops = {}
  Cands = {}
  MaxN = 0
  AllMasks = FALSE
POSTCONDITION TraceDone
CHECK_DEADLOCK FALSE
