-------------------------------- MODULE Aco --------------------------------
(***************************************************************************)
(* Ant colony generation and pheromone update (src/components/generative.rs)*)
(* over a symmetric matrix of trail LEVELS (ranks of the real intensities). *)
(*   pm[a][b]   level of the trail between cities a and b (a # b)          *)
(*   tours      the generated tours: tours[1] greedy, the rest sampled     *)
(*   reinf      set of unordered city pairs reinforced by the last update  *)
(* Cities are 0..D-1; every tour starts at city 0.                          *)
(***************************************************************************)
EXTENDS Naturals, Sequences, FiniteSets
CONSTANTS D, Levels, Ants
VARIABLES pm, tours, reinf, pc
avars == <<pm, tours, reinf, pc>>
C == 0..(D - 1)
Pairs == {{a, b} : a \in C, b \in C} \ {{a} : a \in C}
Lvl(a, b) == pm[{a, b}]
MaxL == CHOOSE m \in Levels : \A y \in Levels : y <= m
MinL == CHOOSE m \in Levels : \A y \in Levels : m <= y
\* evaporation lowers every trail, a deposit raises the reinforced ones (levels are bounded)
Lvl2(e, r) == IF r THEN (IF pm[e] < MaxL THEN pm[e] + 1 ELSE MaxL) ELSE (IF pm[e] > MinL THEN pm[e] - 1 ELSE MinL)

\* greedy construction as the code does it: from the last city go to a remaining city with a maximal trail
\* (the LAST maximal one in index order, as Iterator::max_by returns)
RECURSIVE Greedy(_, _)
Greedy(route, remaining) ==
    IF remaining = {} THEN route
    ELSE LET last == route[Len(route)]
             best == CHOOSE r \in remaining :
                        /\ \A q \in remaining : Lvl(last, q) <= Lvl(last, r)
                        /\ \A q \in remaining : (Lvl(last, q) = Lvl(last, r)) => q <= r
         IN Greedy(Append(route, best), remaining \ {best})

IsTour(t) == /\ Len(t) = D /\ t[1] = 0 /\ {t[i] : i \in 1..D} = C
AllTours == {t \in [1..D -> C] : IsTour(t)}
EdgesOf(t) == {{t[i], t[i + 1]} : i \in 1..(D - 1)}          \* consecutive cities, no closing edge

AInit == /\ pm \in [Pairs -> Levels] /\ tours = <<>> /\ reinf = {} /\ pc = "gen"
Generate == /\ pc = "gen"
            /\ \E s \in [1..Ants -> AllTours] : tours' = <<Greedy(<<0>>, C \ {0})>> \o s
            /\ pc' = "upd" /\ UNCHANGED <<pm, reinf>>
\* ant system: every sampled tour is rewarded; max-min: one best sampled tour (any of them here)
UpdateAS == /\ pc = "upd"
            /\ reinf' = UNION {EdgesOf(tours[k]) : k \in 2..Len(tours)}
            /\ pm' = [e \in Pairs |-> IF e \in reinf' THEN Lvl2(e, TRUE) ELSE Lvl2(e, FALSE)]
            /\ pc' = "gen" /\ UNCHANGED tours
UpdateMM == /\ pc = "upd"
            /\ \E k \in 2..Len(tours) : reinf' = EdgesOf(tours[k])
            /\ pm' = [e \in Pairs |-> IF e \in reinf' THEN Lvl2(e, TRUE) ELSE Lvl2(e, FALSE)]
            /\ pc' = "gen" /\ UNCHANGED tours
ANext == Generate \/ UpdateAS \/ UpdateMM
ASpec == AInit /\ [][ANext]_avars

\* one greedy tour plus the requested number of sampled tours, each a permutation of all cities from city 0,
\* for every trail state
ToursValid == pc = "upd" => /\ Len(tours) = Ants + 1
                            /\ \A k \in 1..Len(tours) : IsTour(tours[k])
\* the first tour is greedy: every step goes to a remaining city with a maximal trail
GreedyIsGreedy == pc = "upd" =>
    \A i \in 1..(D - 1) : \A j \in (i + 1)..D : Lvl(tours[1][i], tours[1][j]) <= Lvl(tours[1][i], tours[1][i + 1])
\* exactly the edges between consecutive cities of the rewarded (sampled) tours are reinforced: never the
\* closing edge, never the greedy tour alone
ReinforcedExactly ==
    [][pc = "upd" => /\ reinf' \subseteq UNION {EdgesOf(tours[k]) : k \in 2..Len(tours)}
                     /\ \E k \in 2..Len(tours) : EdgesOf(tours[k]) \subseteq reinf'
                     /\ \A e \in Pairs : (e \notin reinf' => pm'[e] <= pm[e]) /\ (e \in reinf' => pm'[e] >= pm[e])]_avars
WithinLevels == \A e \in Pairs : pm[e] \in Levels
=============================================================================
