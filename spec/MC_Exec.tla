------------------------------ MODULE MC_Exec ------------------------------
EXTENDS Exec, TLC, Json
\* one line per (program, script, fault) case: the scenario replayed on the real code
PrintCase == PrintT(<<"CASE", ToJson([prog |-> prog, script |-> script, fault |-> fault])>>)
=============================================================================
