SPECIFICATION ASpec
CONSTANTS
  D = 4
  Levels = {1, 2, 3}
  Ants = 1
INVARIANT ToursValid GreedyIsGreedy WithinLevels
PROPERTY ReinforcedExactly
CHECK_DEADLOCK FALSE
