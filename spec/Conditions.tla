----------------------------- MODULE Conditions -----------------------------
(***************************************************************************)
(* mahf conditions (src/conditions/common.rs, logical.rs) and the          *)
(* iteration-bounded `Loop` (src/components/control_flow.rs).              *)
(*                                                                         *)
(* Abstract state                                                          *)
(*   obs[l]      value currently seen through lens l (NoVal = the lens has *)
(*               nothing to read, Gone = its state type is not present)    *)
(*   prev[l]     value the change-of condition on lens l last reported     *)
(*   progress[l] reduced fraction value/n written by less-than-n on lens l *)
(*   rcN, rcK    per probability (in tenths): random-chance evaluations    *)
(*               and how many of them fired                                *)
(* One action `Do(a)` per public call: the environment changing an observed*)
(* value, `Condition::init`, `Condition::evaluate`, running a `Loop`.      *)
(*                                                                         *)
(* Floats never appear: observed values are naturals (the harness maps     *)
(* them to u32 or to dyadic floats), progress is a fraction.               *)
(* One shape per variable: act = [op,l,n,d,f,x,y,z,fm], res = [k,b,log,p,t]*)
(***************************************************************************)
EXTENDS Integers, Sequences, FiniteSets

CONSTANTS Lens,       \* subset of {"iter", "eval", "fval", "obj"}
          Val,        \* observed values offered to `set` (naturals)
          Ns,         \* parameters n of less-than-n / every-n / loops
          Ds,         \* thresholds of the delta checker
          Pts,        \* probabilities of random-chance, in tenths (0..10)
          Ops,        \* operation families enabled in Next
          MaxTrials,  \* model-checking bound on rcN
          MaxDepth, MaxArity, MaxLeaves,   \* bounds of the formulas offered to `logic`
          Eps, Opts   \* epsilons (naturals; -1 is always offered too) and known optima offered to `optimum`

NoVal == -1           \* nothing there / no Boolean / PartialEq checker instead of a threshold
Gone  == -2           \* the state type the lens reads is absent altogether

VARIABLES obs, prev, progress, rcN, rcK, act, res
state == <<obs, prev, progress, rcN, rcK>>
vars  == <<obs, prev, progress, rcN, rcK, act, res>>

U32Lens  == {"iter", "eval"}                     \* Target = u32
LtLens   == {"iter", "eval", "fval"}             \* less-than-n is instantiated on these
CoLens   == {"iter", "eval", "fval", "obj"}      \* change-of with the PartialEq checker
DeltaLens == {"iter", "eval", "obj"}             \* change-of with the delta checker (Ord + Sub)

---------------------------------------------------------------------------
(* Fractions.  Reduce(v, n) is value/n in lowest terms; v/0 follows the    *)
(* arithmetic the code computes in: 0/0 is "not a number" <<0,0>>, v/0 is  *)
(* "infinite" <<1,0>>.                                                     *)
Frac(a, b) == [num |-> a, den |-> b]
RECURSIVE GCD(_, _)
GCD(a, b) == IF b = 0 THEN a ELSE GCD(b, a % b)
Reduce(v, n) == IF n = 0 THEN Frac(IF v = 0 THEN 0 ELSE 1, 0)
                ELSE Frac(v \div GCD(v, n), n \div GCD(v, n))

---------------------------------------------------------------------------
(* Formulas: nodes [k, o, c]; k in {"leaf","not","and","or"}; o = scripted *)
(* outcome of a leaf ("t","f","e" = error), "-" otherwise; c = children.   *)
(* Identity of a node = its position: root 1, i-th child of x = 10x + i.   *)
Leaf(o)  == [k |-> "leaf", o |-> o, c |-> <<>>]
Node(k, c) == [k |-> k, o |-> "-", c |-> c]
NoForm   == Leaf("-")

Neg(r)  == IF r = "t" THEN "f" ELSE IF r = "f" THEN "t" ELSE r
Comb(k, a, b) == IF k = "and" THEN (IF a = "t" /\ b = "t" THEN "t" ELSE "f")
                              ELSE (IF a = "t" \/ b = "t" THEN "t" ELSE "f")
Unit(k) == IF k = "and" THEN "t" ELSE "f"

(* Operational reading: operands are evaluated from left to right, every   *)
(* one of them, whatever the earlier ones said; an operand error ends the  *)
(* evaluation with that error.                                             *)
RECURSIVE Ev(_, _), EvSeq(_, _, _, _, _)
Ev(node, id) ==
    CASE node.k = "leaf" -> [r |-> node.o, log |-> <<id>>]
      [] node.k = "not"  -> LET x == Ev(node.c[1], 10 * id + 1) IN [r |-> Neg(x.r), log |-> x.log]
      [] OTHER           -> EvSeq(node.k, node.c, id, 1, [r |-> Unit(node.k), log |-> <<>>])
EvSeq(k, cs, id, i, acc) ==
    IF i > Len(cs) THEN acc
    ELSE LET x  == Ev(cs[i], 10 * id + i)
             lg == acc.log \o x.log IN
         IF x.r = "e" THEN [r |-> "e", log |-> lg]
         ELSE EvSeq(k, cs, id, i + 1, [r |-> Comb(k, acc.r, x.r), log |-> lg])

---------------------------------------------------------------------------
R(k, b, log, p, t) == [k |-> k, b |-> b, log |-> log, p |-> p, t |-> t]
B2N(b) == IF b THEN 1 ELSE 0
RB(b)  == R("bool", B2N(b), <<>>, NoVal, NoVal)
RErr   == R("err", NoVal, <<>>, NoVal, NoVal)
ROk    == R("ok", NoVal, <<>>, NoVal, NoVal)
A(op, l, n, d, f, x, y, z, fm) ==
    [op |-> op, l |-> l, n |-> n, d |-> d, f |-> f, x |-> x, y |-> y, z |-> z, fm |-> fm]

Readable(l) == obs[l] >= 0

(* The environment changes what lens l sees (v = NoVal / Gone: takes it away). *)
SetObs(l, v) ==
    /\ obs' = [obs EXCEPT ![l] = v]
    /\ res' = ROk
    /\ UNCHANGED <<prev, progress, rcN, rcK>>

LtInit(l) ==
    /\ progress' = [progress EXCEPT ![l] = Frac(0, 1)]
    /\ res' = ROk
    /\ UNCHANGED <<obs, prev, rcN, rcK>>

LessThanN(l, n) ==
    IF ~Readable(l) THEN res' = RErr /\ UNCHANGED state
    ELSE /\ res' = RB(obs[l] < n)
         /\ progress' = [progress EXCEPT ![l] = Reduce(obs[l], n)]
         /\ UNCHANGED <<obs, prev, rcN, rcK>>

EveryN(l, n) ==
    IF ~Readable(l) THEN res' = RErr /\ UNCHANGED state
    ELSE res' = RB(obs[l] % n = 0) /\ UNCHANGED state

Abs(x) == IF x < 0 THEN -x ELSE x
Differs(d, a, b) == IF d = NoVal THEN a # b ELSE Abs(a - b) >= d

CoInit(l) ==
    /\ prev' = [prev EXCEPT ![l] = NoVal]
    /\ res' = ROk
    /\ UNCHANGED <<obs, progress, rcN, rcK>>

ChangeOf(l, d) ==
    IF ~Readable(l) THEN res' = RErr /\ UNCHANGED state
    ELSE LET changed == prev[l] = NoVal \/ Differs(d, obs[l], prev[l]) IN
         /\ res' = RB(changed)
         /\ prev' = IF changed THEN [prev EXCEPT ![l] = obs[l]] ELSE prev
         /\ UNCHANGED <<obs, progress, rcN, rcK>>

(* optimum-reached on the best value seen through lens "obj"; `opt` is the known *)
(* optimum of the problem, eps < 0 is refused by the constructor.                *)
Optimum(eps, opt) ==
    /\ res' = IF eps < 0 THEN R("ctor_err", NoVal, <<>>, NoVal, NoVal)
              ELSE RB(Readable("obj") /\ obs["obj"] <= opt + eps)
    /\ UNCHANGED state

(* The same decision on values handed over with the call (float-neighbour cases  *)
(* of the harness: best is x - (opt + eps) representable steps away from the     *)
(* threshold); f = "some" | "none" | "absent" says whether a best value exists.  *)
OptimumAt(eps, opt, best, f) ==
    /\ res' = IF eps < 0 THEN R("ctor_err", NoVal, <<>>, NoVal, NoVal)
              ELSE RB(f = "some" /\ best <= opt + eps)
    /\ UNCHANGED state

(* random-chance: the reply is not determined, except at p = 0 and p = 1;  *)
(* evaluations and hits are counted per probability.                       *)
RandomChance(pt) ==
    \E b \in BOOLEAN :
        /\ pt = 0 => ~b
        /\ pt = 10 => b
        /\ res' = RB(b)
        /\ rcN' = [rcN EXCEPT ![pt] = @ + 1]
        /\ rcK' = [rcK EXCEPT ![pt] = @ + B2N(b)]
        /\ UNCHANGED <<obs, prev, progress>>

(* |K - N p| <= 6 sqrt(N p (1-p)), in tenths: (10K - N pt)^2 <= 36 N pt (10 - pt). *)
(* The guard on D keeps TLC's 32-bit integers from overflowing.                   *)
WithinSixSigma(n, k, pt) ==
    LET D == Abs(10 * k - n * pt) IN D <= 40000 /\ D * D <= 36 * n * pt * (10 - pt)

(* End of a series of random-chance evaluations: enabled only if the observed *)
(* frequency is compatible with the configured probability.                   *)
RcEnd(pt) ==
    /\ WithinSixSigma(rcN[pt], rcK[pt], pt)
    /\ res' = ROk
    /\ rcN' = [rcN EXCEPT ![pt] = 0]
    /\ rcK' = [rcK EXCEPT ![pt] = 0]
    /\ UNCHANGED <<obs, prev, progress>>

Logic(fm) ==
    LET x == Ev(fm, 1) IN
    /\ res' = IF x.r = "e" THEN R("err", NoVal, x.log, NoVal, NoVal)
              ELSE R("bool", B2N(x.r = "t"), x.log, NoVal, NoVal)
    /\ UNCHANGED state

(* Loop(while less-than-n(iterations), counting body), step by step: test,  *)
(* pass, increment.  s = [v, p, t, log]: counter, passes, tests, the counter *)
(* values the body saw.                                                      *)
RECURSIVE LoopRun(_, _)
LoopRun(n, s) ==
    IF s.v < n THEN LoopRun(n, [v |-> s.v + 1, p |-> s.p + 1, t |-> s.t + 1, log |-> Append(s.log, s.v)])
    ELSE [s EXCEPT !.t = s.t + 1]

(* f = "init": init + require + execute as a configuration run does (init   *)
(* puts the counter to 0); f = "exec": execute only, from the current state. *)
Loop(n, f) ==
    LET v0 == IF f = "init" THEN 0 ELSE obs["iter"] IN
    IF v0 < 0 THEN       \* nothing to read: the first test fails with an error
        /\ res' = R("err", NoVal, <<>>, 0, 1)
        /\ progress' = [progress EXCEPT !["iter"] = Frac(0, 1)]
        /\ UNCHANGED <<obs, prev, rcN, rcK>>
    ELSE LET s == LoopRun(n, [v |-> v0, p |-> 0, t |-> 0, log |-> <<>>]) IN
        /\ res' = R("ok", NoVal, s.log, s.p, s.t)
        /\ obs' = [obs EXCEPT !["iter"] = s.v]
        /\ progress' = [progress EXCEPT !["iter"] = Reduce(s.v, n)]
        /\ UNCHANGED <<prev, rcN, rcK>>

---------------------------------------------------------------------------
Do(a) ==
    /\ act' = a
    /\ CASE a.op = "set"        -> SetObs(a.l, a.x)
         [] a.op = "lt_init"    -> LtInit(a.l)
         [] a.op = "lt"         -> LessThanN(a.l, a.n)
         [] a.op = "every"      -> EveryN(a.l, a.n)
         [] a.op = "co_init"    -> CoInit(a.l)
         [] a.op = "co"         -> ChangeOf(a.l, a.d)
         [] a.op = "optimum"    -> Optimum(a.n, a.y)
         [] a.op = "optimum_at" -> OptimumAt(a.n, a.y, a.x, a.f)
         [] a.op = "rc"         -> RandomChance(a.n)
         [] a.op = "rc_end"     -> RcEnd(a.n)
         [] a.op = "logic"      -> Logic(a.fm)
         [] a.op = "loop"       -> Loop(a.n, a.f)

(* Formulas offered by the model: depth <= d, exactly n leaves, arity <= MaxArity. *)
Outcomes == {"t", "f", "e"}
RECURSIVE Forms(_, _), FSeqs(_, _, _)
Forms(d, n) ==
    (IF n = 1 THEN {Leaf(o) : o \in Outcomes} ELSE {})
    \cup (IF d = 0 THEN {}
          ELSE {Node("not", <<x>>) : x \in Forms(d - 1, n)}
               \cup UNION {{Node(k, cs) : cs \in FSeqs(d - 1, n, len)} :
                            k \in {"and", "or"}, len \in 0..MaxArity})
FSeqs(d, n, len) ==
    IF len = 0 THEN (IF n = 0 THEN {<<>>} ELSE {})
    ELSE UNION {{<<x>> \o s : x \in Forms(d, m), s \in FSeqs(d, n - m, len - 1)} : m \in 0..n}

(* The formulas offered to `logic`: UNION {Forms(MaxDepth, n) : n \in 0..MaxLeaves}  *)
(* (not defined as a constant: TLC would build that set before it starts).          *)

Z == NoVal
Acts ==
    (IF "set" \in Ops THEN
        {A("set", l, Z, Z, "-", v, Z, Z, NoForm) : l \in Lens, v \in Val \cup {NoVal}}
        \cup {A("set", "obj", Z, Z, "-", Gone, Z, Z, NoForm) : l \in Lens \cap {"obj"}}
     ELSE {})
    \cup (IF "lt" \in Ops THEN
        {A("lt", l, n, Z, "-", Z, Z, Z, NoForm) : l \in Lens \cap LtLens, n \in Ns}
        \cup {A("lt_init", l, Z, Z, "-", Z, Z, Z, NoForm) : l \in Lens \cap LtLens}
     ELSE {})
    \cup (IF "every" \in Ops THEN
        {A("every", l, n, Z, "-", Z, Z, Z, NoForm) : l \in Lens \cap U32Lens, n \in Ns \ {0}}
     ELSE {})
    \cup (IF "co" \in Ops THEN
        {A("co", l, Z, Z, "-", Z, Z, Z, NoForm) : l \in Lens \cap CoLens}
        \cup {A("co", l, Z, d, "-", Z, Z, Z, NoForm) : l \in Lens \cap DeltaLens, d \in Ds}
        \cup {A("co_init", l, Z, Z, "-", Z, Z, Z, NoForm) : l \in Lens \cap CoLens}
     ELSE {})
    \cup (IF "optimum" \in Ops /\ "obj" \in Lens THEN
        {A("optimum", "obj", e, Z, "-", Z, o, Z, NoForm) : e \in Eps \cup {-1}, o \in Opts}
        \cup {A("optimum_at", "-", e, Z, f, b, o, 0, NoForm) :
                 e \in Eps \cup {-1}, o \in Opts, b \in Val, f \in {"some", "none", "absent"}}
     ELSE {})
    \cup (IF "rc" \in Ops THEN
        {A("rc", "-", pt, Z, "-", Z, Z, Z, NoForm) : pt \in Pts}
        \cup {A("rc_end", "-", pt, Z, "-", Z, Z, Z, NoForm) : pt \in Pts}
     ELSE {})
    \cup (IF "loop" \in Ops /\ "iter" \in Lens THEN
        {A("loop", "iter", n, Z, f, Z, Z, Z, NoForm) : n \in Ns, f \in {"init", "exec"}}
     ELSE {})

(* A fresh run: nothing observable yet, every condition initialised. *)
InitialState == << [l \in Lens |-> IF l = "obj" THEN Gone ELSE NoVal],
                   [l \in Lens |-> NoVal],
                   [l \in Lens |-> Frac(0, 1)],
                   [p \in Pts |-> 0],
                   [p \in Pts |-> 0] >>

Init == /\ obs = InitialState[1] /\ prev = InitialState[2] /\ progress = InitialState[3]
        /\ rcN = InitialState[4] /\ rcK = InitialState[5]
        /\ act = A("init", "-", Z, Z, "-", Z, Z, Z, NoForm)
        /\ res = ROk

(* A known optimum is a lower bound of every objective value: optimum-reached is only *)
(* asked about best values that are not below it ("within epsilon" is then one-sided). *)
OptDomain(a) == /\ a.op = "optimum" /\ Readable("obj") => obs["obj"] >= a.y
                /\ a.op = "optimum_at" => a.x >= a.y

(* `logic` is offered every one of these formulas exactly once.  The top node is chosen here, *)
(* its operands from Sub(m) (depth <= MaxDepth - 1, exactly m leaves), so that TLC never has *)
(* to build the set of all formulas (MaxArity <= 3).                                         *)
SubForms == IF MaxDepth = 0 THEN [m \in 0..MaxLeaves |-> {}]       \* a constant: TLC evaluates it once
            ELSE [m \in 0..MaxLeaves |-> Forms(MaxDepth - 1, m)]
Sub(m) == SubForms[m]
LogicAct(fm) == Do(A("logic", "-", Z, Z, "-", Z, Z, Z, fm))
AndOr == {"and", "or"}
LogicNext ==
    /\ "logic" \in Ops
    /\ \/ MaxLeaves >= 1 /\ \E o \in Outcomes : LogicAct(Leaf(o))
       \/ MaxDepth >= 1 /\
          \/ \E k \in AndOr : LogicAct(Node(k, <<>>))
          \/ \E n1 \in 0..MaxLeaves : \E x \in Sub(n1) :
                \/ LogicAct(Node("not", <<x>>))
                \/ MaxArity >= 1 /\ \E k \in AndOr : LogicAct(Node(k, <<x>>))
                \/ MaxArity >= 2 /\ \E n2 \in 0..(MaxLeaves - n1) : \E y \in Sub(n2) :
                      \/ \E k \in AndOr : LogicAct(Node(k, <<x, y>>))
                      \/ MaxArity >= 3 /\ \E n3 \in 0..(MaxLeaves - n1 - n2) : \E z \in Sub(n3) :
                            \E k \in AndOr : LogicAct(Node(k, <<x, y, z>>))

Next == \/ \E a \in Acts : (a.op = "rc" => rcN[a.n] < MaxTrials) /\ OptDomain(a) /\ Do(a)
        \/ LogicNext

Spec == Init /\ [][Next]_vars

---------------------------------------------------------------------------
(* Properties: the clauses of C10, stated on (state before, call, reply,   *)
(* state after) without reference to the action bodies above.              *)

TypeOK ==
    /\ \A l \in Lens : obs[l] \in Nat \cup {NoVal, Gone} /\ prev[l] \in Nat \cup {NoVal}
    /\ \A l \in Lens : progress[l].num \in Nat /\ progress[l].den \in Nat
    /\ \A p \in Pts : rcN[p] \in Nat /\ rcK[p] \in 0..rcN[p]
    /\ res.k \in {"ok", "err", "bool", "ctor_err"}
    /\ res.b \in {0, 1, NoVal}

Is(op) == act'.op = op
Told(b) == res'.k = "bool" /\ res'.b = B2N(b)
OthersKeep(f, g, l) == \A m \in Lens : m # l => f[m] = g[m]

\* a condition that cannot read its value says so and changes nothing
UnreadableIsError ==
    [][ act'.op \in {"lt", "every", "co"} /\ obs[act'.l] < 0 => res'.k = "err" /\ state' = state ]_vars

\* less-than-n: true exactly while the value is below n; writes progress = value / n
\* (as a fraction: num * n = value * den; the value of v / 0 is left to the arithmetic)
LessThanExact ==
    [][ Is("lt") /\ obs[act'.l] >= 0 =>
          LET v == obs[act'.l]  n == act'.n  pr == progress'[act'.l] IN
          /\ Told(v < n)
          /\ n > 0 => pr.den > 0 /\ pr.num * n = v * pr.den
          /\ n = 0 => pr.den = 0
          /\ OthersKeep(progress', progress, act'.l)
          /\ <<obs, prev, rcN, rcK>>' = <<obs, prev, rcN, rcK>> ]_vars

\* every-n: true exactly on the multiples of n
EveryExact ==
    [][ Is("every") /\ obs[act'.l] >= 0 =>
          /\ Told(\E q \in 0..obs[act'.l] : q * act'.n = obs[act'.l])
          /\ state' = state ]_vars

\* change-of: true exactly when the value differs, by the chosen measure, from the one
\* last reported (or nothing was reported yet); it then reports the new value.
\* (That prev IS the last reported value is the invariant PrevIsLastReported of MC_Conditions.)
ChangeExact ==
    [][ Is("co") /\ obs[act'.l] >= 0 =>
          LET v == obs[act'.l]  q == prev[act'.l]  d == act'.d IN
          /\ Told(q = NoVal \/ (d = NoVal /\ v # q) \/ (d # NoVal /\ (v - q >= d \/ q - v >= d)))
          /\ prev'[act'.l] = (IF res'.b = 1 THEN v ELSE q)
          /\ OthersKeep(prev', prev, act'.l)
          /\ <<obs, progress, rcN, rcK>>' = <<obs, progress, rcN, rcK>> ]_vars

\* optimum-reached: true exactly when a best value exists and is within eps of the optimum
\* (asked only about best values not below the optimum, see OptDomain)
OptimumExact ==
    [][ /\ Is("optimum") /\ act'.n >= 0 =>
              Told(obs["obj"] >= 0 /\ Abs(obs["obj"] - act'.y) <= act'.n) /\ state' = state
        /\ Is("optimum_at") /\ act'.n >= 0 =>
              Told(act'.f = "some" /\ Abs(act'.x - act'.y) <= act'.n) /\ state' = state ]_vars

\* random-chance: never at p = 0, always at p = 1; every evaluation is counted
ChanceCounted ==
    [][ Is("rc") => /\ res'.k = "bool"
                    /\ act'.n = 0 => res'.b = 0
                    /\ act'.n = 10 => res'.b = 1
                    /\ rcN'[act'.n] = rcN[act'.n] + 1
                    /\ rcK'[act'.n] = rcK[act'.n] + res'.b ]_vars

\* and / or / not: declarative reading of a formula
RECURSIVE Holds(_), LeafIds(_, _), HasErr(_)
Holds(node) ==
    CASE node.k = "leaf" -> node.o = "t"
      [] node.k = "not"  -> ~Holds(node.c[1])
      [] node.k = "and"  -> \A i \in 1..Len(node.c) : Holds(node.c[i])
      [] node.k = "or"   -> \E i \in 1..Len(node.c) : Holds(node.c[i])
HasErr(node) ==
    IF node.k = "leaf" THEN node.o = "e" ELSE \E i \in 1..Len(node.c) : HasErr(node.c[i])
\* set of <<id, outcome>> of all operands
LeafIds(node, id) ==
    IF node.k = "leaf" THEN {<<id, node.o>>}
    ELSE UNION {LeafIds(node.c[i], 10 * id + i) : i \in 1..Len(node.c)}
Count(s, x) == Cardinality({i \in 1..Len(s) : s[i] = x})

\* without errors: every operand exactly once, result = the Boolean combination;
\* with an erring operand: the reply is that error, no operand twice, an erring operand
\* was evaluated last and nothing after it.
LogicExact ==
    [][ Is("logic") =>
          LET fm == act'.fm  ids == LeafIds(fm, 1)  lg == res'.log IN
          /\ \A i \in 1..Len(lg) : \E p \in ids : p[1] = lg[i]
          /\ IF ~HasErr(fm)
             THEN /\ Told(Holds(fm))
                  /\ \A p \in ids : Count(lg, p[1]) = 1
             ELSE /\ res'.k = "err"
                  /\ \A p \in ids : Count(lg, p[1]) <= 1
                  /\ Len(lg) >= 1
                  /\ <<lg[Len(lg)], "e">> \in ids
                  /\ \A i \in 1..(Len(lg) - 1) : <<lg[i], "e">> \notin ids
          /\ state' = state ]_vars

\* an initialised loop bounded by less-than-n(iterations) makes exactly n passes, tests
\* n + 1 times, its body sees the counter values 0 .. n-1, and it leaves progress n / n
LoopExact ==
    [][ Is("loop") /\ act'.f = "init" =>
          LET n == act'.n IN
          /\ res'.k = "ok" /\ res'.p = n /\ res'.t = n + 1
          /\ res'.log = [i \in 1..n |-> i - 1]
          /\ obs'["iter"] = n
          /\ n > 0 => progress'["iter"] = Frac(1, 1) ]_vars

\* a loop entered with the counter at v makes max(n - v, 0) passes
LoopFromAnywhere ==
    [][ Is("loop") /\ act'.f = "exec" /\ obs["iter"] >= 0 =>
          LET n == act'.n  v == obs["iter"]  k == IF n > v THEN n - v ELSE 0 IN
          /\ res'.k = "ok" /\ res'.p = k /\ res'.t = k + 1
          /\ res'.log = [i \in 1..k |-> v + i - 1]
          /\ obs'["iter"] = v + k ]_vars

=============================================================================
