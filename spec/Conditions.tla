----------------------------- MODULE Conditions -----------------------------
(***************************************************************************)
(* mahf conditions (src/conditions/common.rs, logical.rs) and the          *)
(* iteration-bounded `Loop` (src/components/control_flow.rs).              *)
(*                                                                         *)
(* Abstract state                                                          *)
(*   obs[l]      value currently seen through lens l (NoVal = the lens has *)
(*               nothing to read, Gone = its state type is not present)    *)
(*   prev[l]     value the change-of condition on lens l last reported     *)
(*   progress[l] reduced fraction value/n written by less-than-n on lens l *)
(*   rcN, rcK    per probability (in tenths): random-chance evaluations    *)
(*               and how many of them fired                                *)
(* One action `Do(a)` per public call: the environment changing an observed*)
(* value, `Condition::init`, `Condition::evaluate`, running a `Loop`.      *)
(*                                                                         *)
(* Floats never appear: observed values are naturals (the harness maps     *)
(* them to u32 or to dyadic floats), progress is a fraction.  The SIGNED   *)
(* lenses "sval" (an f64 state, in halves) and "ival" (an i32 state) see   *)
(* negative, zero and fractional values: the number k is coded as the      *)
(* natural SOff + k (order-preserving, so "below n" reads the same on      *)
(* codes), bounds n likewise; f = "nz" on a call says that its zero bound  *)
(* / value is the float -0.0 (equal to +0.0 in every comparison, but       *)
(* value / -0.0 has the opposite sign).                                    *)
(* On the float lenses "fval" / "sval" the code NaNV stands for an         *)
(* observed value (or a bound n) that is NOT A NUMBER: unordered with      *)
(* everything, itself included -- never below anything, never equal to     *)
(* anything; offered by the models whose Ops contain "nan".                *)
(* One shape per variable: act = [op,l,n,d,f,x,y,z,fm,pg],                 *)
(* res = [k,b,log,p,t,ev]                                                  *)
(***************************************************************************)
EXTENDS Integers, Sequences, FiniteSets

CONSTANTS Lens,       \* subset of {"iter", "eval", "fval", "obj", "sval", "ival"}
          Val,        \* observed values offered to `set` (naturals)
          Ns,         \* parameters n of less-than-n / every-n / loops
          Ds,         \* thresholds of the delta checker
          Pts,        \* probabilities of random-chance, in tenths (0..10)
          Ops,        \* operation families enabled in Next
          MaxTrials,  \* model-checking bound on rcN
          MaxDepth, MaxArity, MaxLeaves,   \* bounds of the formulas offered to `logic`
          Eps, Opts,  \* epsilons (naturals; -1 is always offered too) and known optima offered to `optimum`
          MaxPSize, MaxPDepth   \* bounds (nodes, nesting) of the loop/scope programs offered to `nest`

NoVal == -1           \* nothing there / no Boolean / PartialEq checker instead of a threshold
Gone  == -2           \* the state type the lens reads is absent altogether

VARIABLES obs, prev, progress, rcN, rcK, act, res
state == <<obs, prev, progress, rcN, rcK>>
vars  == <<obs, prev, progress, rcN, rcK, act, res>>

U32Lens  == {"iter", "eval"}                     \* Target = u32
SLens    == {"sval", "ival"}                     \* signed targets: f64 (in halves), i32
LtLens   == {"iter", "eval", "fval", "sval", "ival"}   \* less-than-n is instantiated on these
SOff     == 100000                               \* code of the number 0 on a signed lens
RV(l, c) == IF l \in SLens THEN c - SOff ELSE c  \* the number a code stands for (in units of the lens)
Sgn(x)   == IF x > 0 THEN 1 ELSE IF x < 0 THEN -1 ELSE 0
CoLens   == {"iter", "eval", "fval", "obj", "sval", "ival"}   \* change-of with the PartialEq checker
DeltaLens == {"iter", "eval", "obj", "ival"}     \* change-of with the delta checker (Ord + Sub)
FLens    == {"fval", "sval"}                     \* Target = f64: the value seen (and the bound) may be NaN
NaNV     == 900000                               \* code of "not a number" on a float lens
Unord(l, v, n) == l \in FLens /\ (v = NaNV \/ n = NaNV)   \* v and n cannot be compared

---------------------------------------------------------------------------
(* Fractions.  Reduce(v, n) is value/n in lowest terms; v/0 follows the    *)
(* arithmetic the code computes in: 0/0 is "not a number" <<0,0>>, v/0 is  *)
(* "infinite" <<1,0>>.                                                     *)
Frac(a, b) == [num |-> a, den |-> b]
RECURSIVE GCD(_, _)
GCD(a, b) == IF b = 0 THEN a ELSE GCD(b, a % b)
Reduce(v, n) == IF n = 0 THEN Frac(IF v = 0 THEN 0 ELSE 1, 0)
                ELSE Frac(v \div GCD(v, n), n \div GCD(v, n))
(* The same for integers of either sign: the denominator is positive, the   *)
(* sign sits in the numerator; v / 0 is <<1,0>> / <<-1,0>> / <<0,0>> for    *)
(* positive / negative / zero v, with the signs swapped when the zero is    *)
(* the negative zero (nz).                                                  *)
AbsZ(x) == IF x < 0 THEN -x ELSE x
Quo(v, n, nz) ==
    IF n = 0 THEN Frac((IF nz THEN -1 ELSE 1) * Sgn(v), 0)
    ELSE LET g == GCD(AbsZ(v), AbsZ(n)) IN Frac(Sgn(n) * Sgn(v) * (AbsZ(v) \div g), AbsZ(n) \div g)
\* value / n as less-than-n on lens l writes it (codes v, n)
Ratio(l, v, n, f) == IF l \in SLens THEN Quo(RV(l, v), RV(l, n), f = "nz") ELSE Reduce(v, n)

---------------------------------------------------------------------------
(* Formulas: nodes [k, o, c]; k in {"leaf","not","and","or"}; o = scripted *)
(* outcome of a leaf ("t","f","e" = error), "-" otherwise; c = children.   *)
(* Identity of a node = its position: root 1, i-th child of x = 10x + i.   *)
Leaf(o)  == [k |-> "leaf", o |-> o, c |-> <<>>]
Node(k, c) == [k |-> k, o |-> "-", c |-> c]
NoForm   == Leaf("-")

Neg(r)  == IF r = "t" THEN "f" ELSE IF r = "f" THEN "t" ELSE r
Comb(k, a, b) == IF k = "and" THEN (IF a = "t" /\ b = "t" THEN "t" ELSE "f")
                              ELSE (IF a = "t" \/ b = "t" THEN "t" ELSE "f")
Unit(k) == IF k = "and" THEN "t" ELSE "f"

(* Operational reading: operands are evaluated from left to right, every   *)
(* one of them, whatever the earlier ones said; an operand error ends the  *)
(* evaluation with that error.                                             *)
RECURSIVE Ev(_, _), EvSeq(_, _, _, _, _)
Ev(node, id) ==
    CASE node.k = "leaf" -> [r |-> node.o, log |-> <<id>>]
      [] node.k = "not"  -> LET x == Ev(node.c[1], 10 * id + 1) IN [r |-> Neg(x.r), log |-> x.log]
      [] OTHER           -> EvSeq(node.k, node.c, id, 1, [r |-> Unit(node.k), log |-> <<>>])
EvSeq(k, cs, id, i, acc) ==
    IF i > Len(cs) THEN acc
    ELSE LET x  == Ev(cs[i], 10 * id + i)
             lg == acc.log \o x.log IN
         IF x.r = "e" THEN [r |-> "e", log |-> lg]
         ELSE EvSeq(k, cs, id, i + 1, [r |-> Comb(k, acc.r, x.r), log |-> lg])

---------------------------------------------------------------------------
R(k, b, log, p, t) == [k |-> k, b |-> b, log |-> log, p |-> p, t |-> t, ev |-> <<>>]
B2N(b) == IF b THEN 1 ELSE 0
RB(b)  == R("bool", B2N(b), <<>>, NoVal, NoVal)
RErr   == R("err", NoVal, <<>>, NoVal, NoVal)
ROk    == R("ok", NoVal, <<>>, NoVal, NoVal)
(* Programs of `nest`: nodes [k, n, c]; k in {"block","tick","set","loop","scope"}; n = bound *)
(* of a loop / value of a set; c = children.  Identity by position as for formulas.           *)
PNode(k, n, c) == [k |-> k, n |-> n, c |-> c]
NoProg == PNode("none", 0, <<>>)
A(op, l, n, d, f, x, y, z, fm) ==
    [op |-> op, l |-> l, n |-> n, d |-> d, f |-> f, x |-> x, y |-> y, z |-> z, fm |-> fm, pg |-> NoProg]

Readable(l) == obs[l] >= 0

(* The environment changes what lens l sees (v = NoVal / Gone: takes it away). *)
SetObs(l, v) ==
    /\ obs' = [obs EXCEPT ![l] = v]
    /\ res' = ROk
    /\ UNCHANGED <<prev, progress, rcN, rcK>>

LtInit(l) ==
    /\ progress' = [progress EXCEPT ![l] = Frac(0, 1)]
    /\ res' = ROk
    /\ UNCHANGED <<obs, prev, rcN, rcK>>

LessThanN(l, n, f) ==
    IF ~Readable(l) THEN res' = RErr /\ UNCHANGED state
    ELSE IF Unord(l, obs[l], n) THEN              \* not below n; value / n is not a number either
         /\ res' = RB(FALSE)
         /\ progress' = [progress EXCEPT ![l] = Frac(0, 0)]
         /\ UNCHANGED <<obs, prev, rcN, rcK>>
    ELSE /\ res' = RB(obs[l] < n)
         /\ progress' = [progress EXCEPT ![l] = Ratio(l, obs[l], n, f)]
         /\ UNCHANGED <<obs, prev, rcN, rcK>>

EveryN(l, n) ==
    IF ~Readable(l) THEN res' = RErr /\ UNCHANGED state
    ELSE res' = RB(obs[l] % n = 0) /\ UNCHANGED state

Abs(x) == IF x < 0 THEN -x ELSE x
Differs(d, a, b) == IF d = NoVal THEN a # b \/ a = NaNV ELSE Abs(a - b) >= d    \* (NaN differs from NaN)

CoInit(l) ==
    /\ prev' = [prev EXCEPT ![l] = NoVal]
    /\ res' = ROk
    /\ UNCHANGED <<obs, progress, rcN, rcK>>

ChangeOf(l, d) ==
    IF ~Readable(l) THEN res' = RErr /\ UNCHANGED state
    ELSE LET changed == prev[l] = NoVal \/ Differs(d, obs[l], prev[l]) IN
         /\ res' = RB(changed)
         /\ prev' = IF changed THEN [prev EXCEPT ![l] = obs[l]] ELSE prev
         /\ UNCHANGED <<obs, progress, rcN, rcK>>

(* optimum-reached on the best value seen through lens "obj"; `opt` is the known *)
(* optimum of the problem, eps < 0 is refused by the constructor.                *)
Optimum(eps, opt) ==
    /\ res' = IF eps < 0 THEN R("ctor_err", NoVal, <<>>, NoVal, NoVal)
              ELSE RB(Readable("obj") /\ obs["obj"] <= opt + eps)
    /\ UNCHANGED state

(* The same decision on values handed over with the call (float-neighbour cases  *)
(* of the harness: best is x - (opt + eps) representable steps away from the     *)
(* threshold); f = "some" | "none" | "absent" says whether a best value exists.  *)
OptimumAt(eps, opt, best, f) ==
    /\ res' = IF eps < 0 THEN R("ctor_err", NoVal, <<>>, NoVal, NoVal)
              ELSE RB(f = "some" /\ best <= opt + eps)
    /\ UNCHANGED state

(* random-chance: the reply is not determined, except at p = 0 and p = 1;  *)
(* evaluations and hits are counted per probability.                       *)
RandomChance(pt) ==
    \E b \in BOOLEAN :
        /\ pt = 0 => ~b
        /\ pt = 10 => b
        /\ res' = RB(b)
        /\ rcN' = [rcN EXCEPT ![pt] = @ + 1]
        /\ rcK' = [rcK EXCEPT ![pt] = @ + B2N(b)]
        /\ UNCHANGED <<obs, prev, progress>>

(* |K - N p| <= 6 sqrt(N p (1-p)), in tenths: (10K - N pt)^2 <= 36 N pt (10 - pt). *)
(* The guard on D keeps TLC's 32-bit integers from overflowing.                   *)
WithinSixSigma(n, k, pt) ==
    LET D == Abs(10 * k - n * pt) IN D <= 40000 /\ D * D <= 36 * n * pt * (10 - pt)

(* End of a series of random-chance evaluations: enabled only if the observed *)
(* frequency is compatible with the configured probability.                   *)
RcEnd(pt) ==
    /\ WithinSixSigma(rcN[pt], rcK[pt], pt)
    /\ res' = ROk
    /\ rcN' = [rcN EXCEPT ![pt] = 0]
    /\ rcK' = [rcK EXCEPT ![pt] = 0]
    /\ UNCHANGED <<obs, prev, progress>>

\* a condition is initialised before it is evaluated: `not`, `and`, `or` hand the initialisation on to every operand,
\* from left to right (logged as the negated id of each scripted operand)
RECURSIVE InitLog(_, _)
InitLog(node, id) ==
    IF node.k = "leaf" THEN <<0 - id>>
    ELSE LET RECURSIVE Go(_, _)
             Go(i, acc) == IF i > Len(node.c) THEN acc ELSE Go(i + 1, acc \o InitLog(node.c[i], 10 * id + i))
         IN Go(1, <<>>)
Logic(fm) ==
    LET y == Ev(fm, 1)
        x == [r |-> y.r, log |-> InitLog(fm, 1) \o y.log] IN
    /\ res' = IF x.r = "e" THEN R("err", NoVal, x.log, NoVal, NoVal)
              ELSE R("bool", B2N(x.r = "t"), x.log, NoVal, NoVal)
    /\ UNCHANGED state

(* Loop(while less-than-n(iterations), counting body), step by step: test,  *)
(* pass, increment.  s = [v, p, t, log]: counter, passes, tests, the counter *)
(* values the body saw.                                                      *)
RECURSIVE LoopRun(_, _)
LoopRun(n, s) ==
    IF s.v < n THEN LoopRun(n, [v |-> s.v + 1, p |-> s.p + 1, t |-> s.t + 1, log |-> Append(s.log, s.v)])
    ELSE [s EXCEPT !.t = s.t + 1]

(* f = "init": init + require + execute as a configuration run does (init   *)
(* puts the counter to 0); f = "exec": execute only, from the current state. *)
Loop(n, f) ==
    LET v0 == IF f = "init" THEN 0 ELSE obs["iter"] IN
    IF v0 < 0 THEN       \* nothing to read: the first test fails with an error
        /\ res' = R("err", NoVal, <<>>, 0, 1)
        /\ progress' = [progress EXCEPT !["iter"] = Frac(0, 1)]
        /\ UNCHANGED <<obs, prev, rcN, rcK>>
    ELSE LET s == LoopRun(n, [v |-> v0, p |-> 0, t |-> 0, log |-> <<>>]) IN
        /\ res' = R("ok", NoVal, s.log, s.p, s.t)
        /\ obs' = [obs EXCEPT !["iter"] = s.v]
        /\ progress' = [progress EXCEPT !["iter"] = Reduce(s.v, n)]
        /\ UNCHANGED <<prev, rcN, rcK>>

(* Loop(while less-than-n(signed lens l), body raising the value by d > 0    *)
(* per pass), run as a configuration run does (init, require, execute): test, *)
(* pass, raise -- and the loop counts its passes on "iter".  s as above, with *)
(* the values the body saw in log.                                            *)
RECURSIVE SLoopRun(_, _, _)
SLoopRun(n, d, s) ==
    IF s.v < n THEN SLoopRun(n, d, [v |-> s.v + d, p |-> s.p + 1, t |-> s.t + 1, log |-> Append(s.log, s.v)])
    ELSE [s EXCEPT !.t = s.t + 1]

SLoop(l, n, d, f) ==
    IF ~Readable(l) THEN       \* nothing to read: the first test fails with an error
        /\ res' = R("err", NoVal, <<>>, 0, 1)
        /\ progress' = [progress EXCEPT ![l] = Frac(0, 1)]
        /\ obs' = [m \in Lens |-> IF m = "iter" THEN 0 ELSE obs[m]]
        /\ UNCHANGED <<prev, rcN, rcK>>
    ELSE IF Unord(l, obs[l], n) THEN     \* the value is not below n: the first test ends the loop
        /\ d > 0
        /\ res' = R("ok", NoVal, <<>>, 0, 1)
        /\ obs' = [m \in Lens |-> IF m = "iter" THEN 0 ELSE obs[m]]
        /\ progress' = [progress EXCEPT ![l] = Frac(0, 0)]
        /\ UNCHANGED <<prev, rcN, rcK>>
    ELSE LET s == SLoopRun(n, d, [v |-> obs[l], p |-> 0, t |-> 0, log |-> <<>>]) IN
        /\ d > 0
        /\ res' = R("ok", NoVal, s.log, s.p, s.t)
        /\ obs' = [m \in Lens |-> IF m = l THEN s.v ELSE IF m = "iter" THEN s.p ELSE obs[m]]
        /\ progress' = [progress EXCEPT ![l] = Ratio(l, s.v, n, f)]
        /\ UNCHANGED <<prev, rcN, rcK>>

---------------------------------------------------------------------------
(* Loops and scopes nested in one another (`nest`).  A program is a tree of *)
(*   loop(n, body)  Loop(while less-than-n(iterations), body)               *)
(*   scope(body)    Scope: the body is initialised and run in a child state *)
(*   tick           a component that reports what it sees                   *)
(*   set(v)         a component that inserts Iterations(v) into its scope   *)
(* run as a configuration run does (init, require, execute) on the current  *)
(* state.  The state is a chain of scopes (root first); each scope may own  *)
(* an iteration counter `it` and a progress `pr`; reads and in-place writes *)
(* go to the innermost scope that owns one, inserts to the top scope.       *)
(* The reply is the sequence of observations [id, k, v, num, den]:          *)
(*   k = "test": loop id has just evaluated its condition on counter v,     *)
(*   k = "tick": tick id ran, k = "in" / "out": just before scope id is     *)
(*   entered / just after it is left; v = the counter visible there,        *)
(*   num/den = the progress visible there.                                  *)
NoFr == Frac(-9, -9)                      \* no progress visible
Fr(it, pr) == [it |-> it, pr |-> pr]
PE(id, k, v, fr) == [id |-> id, k |-> k, v |-> v, num |-> fr.num, den |-> fr.den]
MaxOf(S) == CHOOSE x \in S : \A y \in S : y <= x
OwnerIt(ch) == LET S == {i \in DOMAIN ch : ch[i].it # NoVal} IN IF S = {} THEN 0 ELSE MaxOf(S)
OwnerPr(ch) == LET S == {i \in DOMAIN ch : ch[i].pr # NoFr} IN IF S = {} THEN 0 ELSE MaxOf(S)
VisIt(ch) == IF OwnerIt(ch) = 0 THEN NoVal ELSE ch[OwnerIt(ch)].it
VisPr(ch) == IF OwnerPr(ch) = 0 THEN NoFr ELSE ch[OwnerPr(ch)].pr
Seen(s, id, k) == [s EXCEPT !.ev = Append(@, PE(id, k, VisIt(s.ch), VisPr(s.ch)))]

(* s = [ch, ev, ok]: scope chain, observations so far, no error so far.     *)
RECURSIVE PInitNode(_, _), PInitBody(_, _, _), PExecBody(_, _, _, _), PExecNode(_, _, _), PLoop(_, _, _)
\* Loop::init: counter 0 and the condition's progress 0 into the top scope, then the body;
\* a Scope initialises its body only when it is executed
PInitNode(node, s) ==
    IF node.k = "loop" THEN PInitBody(node.c, 1, [s EXCEPT !.ch[Len(s.ch)] = Fr(0, Frac(0, 1))]) ELSE s
PInitBody(c, i, s) == IF i > Len(c) THEN s ELSE PInitBody(c, i + 1, PInitNode(c[i], s))
PExecBody(c, pid, i, s) ==
    IF i > Len(c) \/ ~s.ok THEN s ELSE PExecBody(c, pid, i + 1, PExecNode(c[i], 10 * pid + i, s))
PExecNode(node, id, s) ==
    CASE node.k = "tick"  -> Seen(s, id, "tick")
      [] node.k = "set"   -> [s EXCEPT !.ch[Len(s.ch)].it = node.n]
      [] node.k = "scope" ->
            LET s1 == [Seen(s, id, "in") EXCEPT !.ch = Append(@, Fr(NoVal, NoFr))]
                s2 == PExecBody(node.c, id, 1, PInitBody(node.c, 1, s1))
                s3 == [s2 EXCEPT !.ch = SubSeq(@, 1, Len(@) - 1)]
            IN IF s2.ok THEN Seen(s3, id, "out") ELSE s3
      [] node.k = "loop"  -> PLoop(node, id, [s EXCEPT !.ch[Len(s.ch)].pr = Frac(0, 1)])   \* condition re-initialised
\* test (writes progress = counter / n where the progress lives), pass, increment (where the counter lives)
PLoop(node, id, s) ==
    LET v == VisIt(s.ch) IN
    IF ~s.ok THEN s
    ELSE IF v = NoVal THEN [s EXCEPT !.ok = FALSE]
    ELSE LET s1 == Seen([s EXCEPT !.ch[OwnerPr(s.ch)].pr = Reduce(v, node.n)], id, "test") IN
         IF v < node.n
         THEN LET s2 == PExecBody(node.c, id, 1, s1) IN
              IF ~s2.ok THEN s2 ELSE PLoop(node, id, [s2 EXCEPT !.ch[OwnerIt(s2.ch)].it = @ + 1])
         ELSE s1

\* a `set` that shares its scope with a loop around it could keep that loop running forever: not offered
RECURSIVE SetInLoop(_, _)
SetInLoop(c, inloop) ==
    \E i \in DOMAIN c : \/ c[i].k = "set" /\ inloop
                        \/ c[i].k = "loop" /\ SetInLoop(c[i].c, TRUE)
                        \/ c[i].k = "scope" /\ SetInLoop(c[i].c, FALSE)
RECURSIVE PKinds(_)
PKinds(c) == \A i \in DOMAIN c : c[i].k \in {"tick", "set", "loop", "scope"} /\ c[i].n >= 0 /\ PKinds(c[i].c)

Nest(pg) ==
    LET s0 == [ch |-> <<Fr(obs["iter"], progress["iter"])>>, ev |-> <<>>, ok |-> TRUE]
        s  == PExecBody(pg.c, 1, 1, PInitBody(pg.c, 1, s0)) IN
    /\ pg.k = "block" /\ PKinds(pg.c) /\ ~SetInLoop(pg.c, FALSE)
    /\ res' = [R(IF s.ok THEN "ok" ELSE "err", NoVal, <<>>, NoVal, NoVal) EXCEPT !.ev = s.ev]
    /\ obs' = [obs EXCEPT !["iter"] = s.ch[1].it]
    /\ progress' = [progress EXCEPT !["iter"] = s.ch[1].pr]
    /\ UNCHANGED <<prev, rcN, rcK>>

---------------------------------------------------------------------------
Do(a) ==
    /\ act' = a
    /\ CASE a.op = "set"        -> SetObs(a.l, a.x)
         [] a.op = "lt_init"    -> LtInit(a.l)
         [] a.op = "lt"         -> LessThanN(a.l, a.n, a.f)
         [] a.op = "sloop"      -> SLoop(a.l, a.n, a.d, a.f)
         [] a.op = "every"      -> EveryN(a.l, a.n)
         [] a.op = "co_init"    -> CoInit(a.l)
         [] a.op = "co"         -> ChangeOf(a.l, a.d)
         [] a.op = "optimum"    -> Optimum(a.n, a.y)
         [] a.op = "optimum_at" -> OptimumAt(a.n, a.y, a.x, a.f)
         [] a.op = "rc"         -> RandomChance(a.n)
         [] a.op = "rc_end"     -> RcEnd(a.n)
         [] a.op = "logic"      -> Logic(a.fm)
         [] a.op = "loop"       -> Loop(a.n, a.f)
         [] a.op = "nest"       -> Nest(a.pg)

(* Formulas offered by the model: depth <= d, exactly n leaves, arity <= MaxArity. *)
Outcomes == {"t", "f", "e"}
RECURSIVE Forms(_, _), FSeqs(_, _, _)
Forms(d, n) ==
    (IF n = 1 THEN {Leaf(o) : o \in Outcomes} ELSE {})
    \cup (IF d = 0 THEN {}
          ELSE {Node("not", <<x>>) : x \in Forms(d - 1, n)}
               \cup UNION {{Node(k, cs) : cs \in FSeqs(d - 1, n, len)} :
                            k \in {"and", "or"}, len \in 0..MaxArity})
FSeqs(d, n, len) ==
    IF len = 0 THEN (IF n = 0 THEN {<<>>} ELSE {})
    ELSE UNION {{<<x>> \o s : x \in Forms(d, m), s \in FSeqs(d, n - m, len - 1)} : m \in 0..n}

(* The formulas offered to `logic`: UNION {Forms(MaxDepth, n) : n \in 0..MaxLeaves}  *)
(* (not defined as a constant: TLC would build that set before it starts).          *)

Z == NoVal
\* the values / bounds of Val / Ns offered on lens l: the codes of signed numbers on the signed lenses,
\* the (small) naturals on the others
IsSCode(c) == c >= SOff \div 2
ValOf(l) == {v \in Val : (l \in SLens) = IsSCode(v)}
NsOf(l)  == {n \in Ns : (l \in SLens) = IsSCode(n)}
Acts ==
    (IF "set" \in Ops THEN
        UNION {{A("set", l, Z, Z, "-", v, Z, Z, NoForm) : v \in ValOf(l) \cup {NoVal}} : l \in Lens}
        \cup {A("set", "obj", Z, Z, "-", Gone, Z, Z, NoForm) : l \in Lens \cap {"obj"}}
        \cup {A("set", "sval", Z, Z, "nz", SOff, Z, Z, NoForm) : l \in Lens \cap {"sval"}}      \* -0.0
        \cup (IF "nan" \in Ops THEN {A("set", l, Z, Z, "-", NaNV, Z, Z, NoForm) : l \in Lens \cap FLens} ELSE {})
     ELSE {})
    \cup (IF "lt" \in Ops THEN
        UNION {{A("lt", l, n, Z, "-", Z, Z, Z, NoForm) : n \in NsOf(l)} : l \in Lens \cap LtLens}
        \cup {A("lt", "sval", SOff, Z, "nz", Z, Z, Z, NoForm) : l \in Lens \cap {"sval"}}       \* n = -0.0
        \cup (IF "nan" \in Ops THEN {A("lt", l, NaNV, Z, "-", Z, Z, Z, NoForm) : l \in Lens \cap LtLens \cap FLens} ELSE {})
        \cup {A("lt_init", l, Z, Z, "-", Z, Z, Z, NoForm) : l \in Lens \cap LtLens}
     ELSE {})
    \cup (IF "sloop" \in Ops THEN
        UNION {{A("sloop", l, n, d, "-", Z, Z, Z, NoForm) : n \in NsOf(l), d \in Ds \ {0}} : l \in Lens \cap SLens}
        \cup {A("sloop", "sval", SOff, d, "nz", Z, Z, Z, NoForm) : l \in Lens \cap {"sval"}, d \in Ds \ {0}}
     ELSE {})
    \cup (IF "every" \in Ops THEN
        UNION {{A("every", l, n, Z, "-", Z, Z, Z, NoForm) : n \in NsOf(l) \ {0}} : l \in Lens \cap U32Lens}
     ELSE {})
    \cup (IF "co" \in Ops THEN
        {A("co", l, Z, Z, "-", Z, Z, Z, NoForm) : l \in Lens \cap CoLens}
        \cup {A("co", l, Z, d, "-", Z, Z, Z, NoForm) : l \in Lens \cap DeltaLens, d \in Ds}
        \cup {A("co_init", l, Z, Z, "-", Z, Z, Z, NoForm) : l \in Lens \cap CoLens}
     ELSE {})
    \cup (IF "optimum" \in Ops /\ "obj" \in Lens THEN
        {A("optimum", "obj", e, Z, "-", Z, o, Z, NoForm) : e \in Eps \cup {-1}, o \in Opts}
        \cup {A("optimum_at", "-", e, Z, f, b, o, 0, NoForm) :
                 e \in Eps \cup {-1}, o \in Opts, b \in Val, f \in {"some", "none", "absent"}}
     ELSE {})
    \cup (IF "rc" \in Ops THEN
        {A("rc", "-", pt, Z, "-", Z, Z, Z, NoForm) : pt \in Pts}
        \cup {A("rc_end", "-", pt, Z, "-", Z, Z, Z, NoForm) : pt \in Pts}
     ELSE {})
    \cup (IF "loop" \in Ops /\ "iter" \in Lens THEN
        {A("loop", "iter", n, Z, f, Z, Z, Z, NoForm) : n \in NsOf("iter"), f \in {"init", "exec"}}
     ELSE {})

(* A fresh run: nothing observable yet, every condition initialised. *)
InitialState == << [l \in Lens |-> IF l = "obj" THEN Gone ELSE NoVal],
                   [l \in Lens |-> NoVal],
                   [l \in Lens |-> Frac(0, 1)],
                   [p \in Pts |-> 0],
                   [p \in Pts |-> 0] >>

Init == /\ obs = InitialState[1] /\ prev = InitialState[2] /\ progress = InitialState[3]
        /\ rcN = InitialState[4] /\ rcK = InitialState[5]
        /\ act = A("init", "-", Z, Z, "-", Z, Z, Z, NoForm)
        /\ res = ROk

(* A known optimum is a lower bound of every objective value: optimum-reached is only *)
(* asked about best values that are not below it ("within epsilon" is then one-sided). *)
OptDomain(a) == /\ a.op = "optimum" /\ Readable("obj") => obs["obj"] >= a.y
                /\ a.op = "optimum_at" => a.x >= a.y

(* `logic` is offered every one of these formulas exactly once.  The top node is chosen here, *)
(* its operands from Sub(m) (depth <= MaxDepth - 1, exactly m leaves), so that TLC never has *)
(* to build the set of all formulas (MaxArity <= 3).                                         *)
SubForms == IF MaxDepth = 0 THEN [m \in 0..MaxLeaves |-> {}]       \* a constant: TLC evaluates it once
            ELSE [m \in 0..MaxLeaves |-> Forms(MaxDepth - 1, m)]
Sub(m) == SubForms[m]
LogicAct(fm) == Do(A("logic", "-", Z, Z, "-", Z, Z, Z, fm))
AndOr == {"and", "or"}
LogicNext ==
    /\ "logic" \in Ops
    /\ \/ MaxLeaves >= 1 /\ \E o \in Outcomes : LogicAct(Leaf(o))
       \/ MaxDepth >= 1 /\
          \/ \E k \in AndOr : LogicAct(Node(k, <<>>))
          \/ \E n1 \in 0..MaxLeaves : \E x \in Sub(n1) :
                \/ LogicAct(Node("not", <<x>>))
                \/ MaxArity >= 1 /\ \E k \in AndOr : LogicAct(Node(k, <<x>>))
                \/ MaxArity >= 2 /\ \E n2 \in 0..(MaxLeaves - n1) : \E y \in Sub(n2) :
                      \/ \E k \in AndOr : LogicAct(Node(k, <<x, y>>))
                      \/ MaxArity >= 3 /\ \E n3 \in 0..(MaxLeaves - n1 - n2) : \E z \in Sub(n3) :
                            \E k \in AndOr : LogicAct(Node(k, <<x, y, z>>))

(* The programs offered to `nest`: every forest of at most MaxPSize nodes nested at most      *)
(* MaxPDepth deep, loop bounds from Ns, set values from Val; offered on the state of a fresh   *)
(* run (from other states: the random histories of the harness).                               *)
RECURSIVE PNodes(_, _), PBodies(_, _)
PNodes(m, d) ==
    (IF m = 1 THEN {PNode("tick", 0, <<>>)} \cup {PNode("set", v, <<>>) : v \in Val} ELSE {})
    \cup (IF d = 0 THEN {}
          ELSE UNION {{PNode("loop", n, b) : n \in Ns} \cup {PNode("scope", 0, b)} : b \in PBodies(m - 1, d - 1)})
PBodies(sz, d) ==
    IF sz = 0 THEN {<<>>}
    ELSE UNION {{<<x>> \o r : x \in PNodes(m, d), r \in PBodies(sz - m, d)} : m \in 1..sz}
NestProgs == UNION {PBodies(sz, MaxPDepth) : sz \in 0..MaxPSize}     \* a constant: TLC evaluates it once
NestNext ==
    /\ "nest" \in Ops /\ "iter" \in Lens
    /\ obs["iter"] = NoVal /\ progress["iter"] = Frac(0, 1)
    /\ \E b \in NestProgs : ~SetInLoop(b, FALSE) /\ Do([A("nest", "iter", Z, Z, "init", Z, Z, Z, NoForm)
                                                          EXCEPT !.pg = PNode("block", 0, b)])

Next == \/ \E a \in Acts : (a.op = "rc" => rcN[a.n] < MaxTrials) /\ OptDomain(a) /\ Do(a)
        \/ LogicNext
        \/ NestNext

Spec == Init /\ [][Next]_vars

---------------------------------------------------------------------------
(* Properties: the clauses of C10, stated on (state before, call, reply,   *)
(* state after) without reference to the action bodies above.              *)

TypeOK ==
    /\ \A l \in Lens : obs[l] \in Nat \cup {NoVal, Gone} /\ prev[l] \in Nat \cup {NoVal}
    /\ \A l \in Lens : progress[l].num \in (IF l \in SLens THEN Int ELSE Nat) /\ progress[l].den \in Nat
    /\ \A p \in Pts : rcN[p] \in Nat /\ rcK[p] \in 0..rcN[p]
    /\ res.k \in {"ok", "err", "bool", "ctor_err"}
    /\ res.b \in {0, 1, NoVal}

Is(op) == act'.op = op
Told(b) == res'.k = "bool" /\ res'.b = B2N(b)
OthersKeep(f, g, l) == \A m \in Lens : m # l => f[m] = g[m]

\* a condition that cannot read its value says so and changes nothing
UnreadableIsError ==
    [][ act'.op \in {"lt", "every", "co"} /\ obs[act'.l] < 0 => res'.k = "err" /\ state' = state ]_vars

\* less-than-n: true exactly while the value is below n; writes progress = value / n
\* (as a fraction: num * n = value * den; the value of v / 0 is left to the arithmetic)
\* (v, n: the NUMBERS seen and given -- of either sign on the signed lenses, where dividing by a
\* negative n turns the order of the quotients round but not the truth of "v is below n")
\* a value that is not a number is not below n, and n that is not a number has nothing below it
LessThanUnordered ==
    [][ Is("lt") /\ obs[act'.l] >= 0 /\ Unord(act'.l, obs[act'.l], act'.n) =>
          /\ Told(FALSE)
          /\ progress'[act'.l].den = 0 /\ progress'[act'.l].num = 0
          /\ OthersKeep(progress', progress, act'.l)
          /\ <<obs, prev, rcN, rcK>>' = <<obs, prev, rcN, rcK>> ]_vars
LessThanExact ==
    [][ Is("lt") /\ obs[act'.l] >= 0 /\ ~Unord(act'.l, obs[act'.l], act'.n) =>
          LET v == RV(act'.l, obs[act'.l])  n == RV(act'.l, act'.n)  pr == progress'[act'.l] IN
          /\ Told(v < n)
          /\ n # 0 => pr.den > 0 /\ pr.num * n = v * pr.den
          /\ n = 0 => pr.den = 0 /\ pr.num = (IF act'.f = "nz" THEN -1 ELSE 1) * Sgn(v)
          /\ OthersKeep(progress', progress, act'.l)
          /\ <<obs, prev, rcN, rcK>>' = <<obs, prev, rcN, rcK>> ]_vars

\* every-n: true exactly on the multiples of n
EveryExact ==
    [][ Is("every") /\ obs[act'.l] >= 0 =>
          /\ Told(\E q \in 0..obs[act'.l] : q * act'.n = obs[act'.l])
          /\ state' = state ]_vars

\* change-of: true exactly when the value differs, by the chosen measure, from the one
\* last reported (or nothing was reported yet); it then reports the new value.
\* (That prev IS the last reported value is the invariant PrevIsLastReported of MC_Conditions.)
ChangeExact ==
    [][ Is("co") /\ obs[act'.l] >= 0 =>
          LET v == obs[act'.l]  q == prev[act'.l]  d == act'.d IN
          /\ Told(q = NoVal \/ (d = NoVal /\ (v # q \/ v = NaNV)) \/ (d # NoVal /\ (v - q >= d \/ q - v >= d)))
          /\ prev'[act'.l] = (IF res'.b = 1 THEN v ELSE q)
          /\ OthersKeep(prev', prev, act'.l)
          /\ <<obs, progress, rcN, rcK>>' = <<obs, progress, rcN, rcK>> ]_vars

\* optimum-reached: true exactly when a best value exists and is within eps of the optimum
\* (asked only about best values not below the optimum, see OptDomain)
OptimumExact ==
    [][ /\ Is("optimum") /\ act'.n >= 0 =>
              Told(obs["obj"] >= 0 /\ Abs(obs["obj"] - act'.y) <= act'.n) /\ state' = state
        /\ Is("optimum_at") /\ act'.n >= 0 =>
              Told(act'.f = "some" /\ Abs(act'.x - act'.y) <= act'.n) /\ state' = state ]_vars

\* random-chance: never at p = 0, always at p = 1; every evaluation is counted
ChanceCounted ==
    [][ Is("rc") => /\ res'.k = "bool"
                    /\ act'.n = 0 => res'.b = 0
                    /\ act'.n = 10 => res'.b = 1
                    /\ rcN'[act'.n] = rcN[act'.n] + 1
                    /\ rcK'[act'.n] = rcK[act'.n] + res'.b ]_vars

\* and / or / not: declarative reading of a formula
RECURSIVE Holds(_), LeafIds(_, _), HasErr(_)
Holds(node) ==
    CASE node.k = "leaf" -> node.o = "t"
      [] node.k = "not"  -> ~Holds(node.c[1])
      [] node.k = "and"  -> \A i \in 1..Len(node.c) : Holds(node.c[i])
      [] node.k = "or"   -> \E i \in 1..Len(node.c) : Holds(node.c[i])
HasErr(node) ==
    IF node.k = "leaf" THEN node.o = "e" ELSE \E i \in 1..Len(node.c) : HasErr(node.c[i])
\* set of <<id, outcome>> of all operands
LeafIds(node, id) ==
    IF node.k = "leaf" THEN {<<id, node.o>>}
    ELSE UNION {LeafIds(node.c[i], 10 * id + i) : i \in 1..Len(node.c)}
Count(s, x) == Cardinality({i \in 1..Len(s) : s[i] = x})

\* without errors: every operand exactly once, result = the Boolean combination;
\* with an erring operand: the reply is that error, no operand twice, an erring operand
\* was evaluated last and nothing after it.
\* (stated for a reply r, so that recorded replies can be judged by it directly: the ORDER in which operands are
\* initialised or evaluated is not part of the statement)
LogicOk(fm, r) ==
          LET ids == LeafIds(fm, 1)
              all == r.log
              \* the log starts with the initialisations (negated ids): every operand once, before any evaluation
              ni == Cardinality(ids)
              lg == SubSeq(all, ni + 1, Len(all)) IN
          /\ Len(all) >= ni
          /\ \A p \in ids : Count(SubSeq(all, 1, ni), 0 - p[1]) = 1
          /\ \A i \in 1..Len(lg) : \E p \in ids : p[1] = lg[i]
          /\ IF ~HasErr(fm)
             THEN /\ r.k = "bool" /\ r.b = B2N(Holds(fm))
                  /\ \A p \in ids : Count(lg, p[1]) = 1
             ELSE /\ r.k = "err"
                  /\ \A p \in ids : Count(lg, p[1]) <= 1
                  /\ Len(lg) >= 1
                  /\ <<lg[Len(lg)], "e">> \in ids
                  /\ \A i \in 1..(Len(lg) - 1) : <<lg[i], "e">> \notin ids
LogicExact ==
    [][ Is("logic") => LogicOk(act'.fm, res') /\ state' = state ]_vars

\* an initialised loop bounded by less-than-n(iterations) makes exactly n passes, tests
\* n + 1 times, its body sees the counter values 0 .. n-1, and it leaves progress n / n
LoopExact ==
    [][ Is("loop") /\ act'.f = "init" =>
          LET n == act'.n IN
          /\ res'.k = "ok" /\ res'.p = n /\ res'.t = n + 1
          /\ res'.log = [i \in 1..n |-> i - 1]
          /\ obs'["iter"] = n
          /\ n > 0 => progress'["iter"] = Frac(1, 1) ]_vars

\* a loop entered with the counter at v makes max(n - v, 0) passes
LoopFromAnywhere ==
    [][ Is("loop") /\ act'.f = "exec" /\ obs["iter"] >= 0 =>
          LET n == act'.n  v == obs["iter"]  k == IF n > v THEN n - v ELSE 0 IN
          /\ res'.k = "ok" /\ res'.p = k /\ res'.t = k + 1
          /\ res'.log = [i \in 1..k |-> v + i - 1]
          /\ obs'["iter"] = v + k ]_vars

\* a loop driven by less-than-n on a signed lens, whose body raises the value by d per pass from v0:
\* it makes exactly the passes "while the value is below n" implies -- every pass made was due, the
\* loop stopped at the first value that is not below n (p = 0 if v0 is not) -- tests once more,
\* its body sees v0, v0 + d, ..., counts the passes, and leaves progress = last value / n
\* ... and a loop whose value is not a number when it is tested stops there: no pass, one test
SLoopUnordered ==
    [][ Is("sloop") /\ obs[act'.l] >= 0 /\ Unord(act'.l, obs[act'.l], act'.n) =>
          /\ res'.k = "ok" /\ res'.p = 0 /\ res'.t = 1 /\ res'.log = <<>>
          /\ obs'[act'.l] = obs[act'.l] ]_vars
SLoopExact ==
    [][ Is("sloop") /\ obs[act'.l] >= 0 /\ ~Unord(act'.l, obs[act'.l], act'.n) =>
          LET l == act'.l  v0 == obs[l]  n == act'.n  d == act'.d  p == res'.p
              pr == progress'[l]  vn == RV(l, v0 + p * d)  nn == RV(l, n) IN
          /\ res'.k = "ok" /\ p >= 0 /\ res'.t = p + 1
          /\ \A k \in 0..(p - 1) : v0 + k * d < n
          /\ ~(v0 + p * d < n)
          /\ res'.log = [i \in 1..p |-> v0 + (i - 1) * d]
          /\ obs'[l] = v0 + p * d
          /\ "iter" \in Lens => obs'["iter"] = p
          /\ nn # 0 => pr.den > 0 /\ pr.num * nn = vn * pr.den
          /\ nn = 0 => pr.den = 0 /\ pr.num = (IF act'.f = "nz" THEN -1 ELSE 1) * Sgn(vn)
          /\ \A m \in Lens \ {l, "iter"} : obs'[m] = obs[m]
          /\ OthersKeep(progress', progress, l)
          /\ <<prev, rcN, rcK>>' = <<prev, rcN, rcK>> ]_vars

---------------------------------------------------------------------------
(* Loops under scopes.  Stated on the program text and the observations,   *)
(* without the scope chain: in a program in which every scope hosts at most *)
(* one loop (WellScoped: a loop nested in another loop sits in a Scope of   *)
(* its own, as the Loop documentation demands) and nothing else writes the  *)
(* counter, every loop counts on its own: the observations are those of the *)
(* lexical reading below, where a tick / a scope border sees the counter    *)
(* and progress k / n of the innermost loop running around it (0 and 0/1    *)
(* before that loop starts in the scope that hosts it, n and n/n after it), *)
(* whatever loops run further inside or outside.                            *)
RECURSIVE LL(_, _)
LL(c, i) == IF i > Len(c) THEN 0
            ELSE (IF c[i].k = "loop" THEN 1 + LL(c[i].c, 1) ELSE 0) + LL(c, i + 1)
LevelLoops(c) == LL(c, 1)                     \* loops that share the scope of this body
RECURSIVE HasSet(_), WellScoped(_), ScopesOK(_)
HasSet(c) == \E i \in DOMAIN c : c[i].k = "set" \/ HasSet(c[i].c)
ScopesOK(c) == \A i \in DOMAIN c : /\ c[i].k = "scope" => WellScoped(c[i].c)
                                   /\ c[i].k = "loop" => ScopesOK(c[i].c)
WellScoped(c) == LevelLoops(c) <= 1 /\ ScopesOK(c)

Env(v, fr) == [v |-> v, fr |-> fr]
Start(c, env) == IF LevelLoops(c) > 0 THEN Env(0, Frac(0, 1)) ELSE env
RECURSIVE IBody(_, _, _, _), INode(_, _, _), ILoop(_, _, _, _)
IBody(c, pid, i, r) ==
    IF i > Len(c) THEN r
    ELSE LET x == INode(c[i], 10 * pid + i, r.env) IN
         IBody(c, pid, i + 1, [ev |-> r.ev \o x.ev, env |-> x.env])
INode(node, id, env) ==
    CASE node.k = "tick"  -> [ev |-> <<PE(id, "tick", env.v, env.fr)>>, env |-> env]
      [] node.k = "scope" ->
            LET b == IBody(node.c, id, 1, [ev |-> <<>>, env |-> Start(node.c, env)]) IN
            [ev |-> <<PE(id, "in", env.v, env.fr)>> \o b.ev \o <<PE(id, "out", env.v, env.fr)>>, env |-> env]
      [] node.k = "loop"  -> ILoop(node, id, 0, <<>>)
ILoop(node, id, k, acc) ==                    \* n passes with the counter at 0 .. n-1, n + 1 tests
    LET e == Env(k, Reduce(k, node.n))
        t == Append(acc, PE(id, "test", k, e.fr)) IN
    IF k < node.n THEN ILoop(node, id, k + 1, t \o IBody(node.c, id, 1, [ev |-> <<>>, env |-> e]).ev)
    ELSE [ev |-> t, env |-> e]

NestExact ==
    [][ Is("nest") /\ WellScoped(act'.pg.c) /\ ~HasSet(act'.pg.c) =>
          LET c == act'.pg.c
              r == IBody(c, 1, 1, [ev |-> <<>>, env |-> Start(c, Env(obs["iter"], progress["iter"]))]) IN
          /\ res'.k = "ok" /\ res'.ev = r.ev
          /\ obs'["iter"] = r.env.v /\ progress'["iter"] = r.env.fr
          /\ OthersKeep(obs', obs, "iter") /\ OthersKeep(progress', progress, "iter")
          /\ <<prev, rcN, rcK>>' = <<prev, rcN, rcK>> ]_vars

\* the same in the words of the property: every loop of such a program tests its condition on
\* 0, 1, .., n, again and again (n passes and n + 1 tests per run of the loop), showing progress v / n
RECURSIVE LoopsOf(_, _)
LoopsOf(c, pid) == UNION {(IF c[i].k = "loop" THEN {<<10 * pid + i, c[i].n>>} ELSE {})
                          \cup LoopsOf(c[i].c, 10 * pid + i) : i \in DOMAIN c}
Sel(ev, id, k) == SelectSeq(ev, LAMBDA e : e.id = id /\ e.k = k)
NestOwnCounter ==
    [][ Is("nest") /\ WellScoped(act'.pg.c) /\ ~HasSet(act'.pg.c) =>
          \A p \in LoopsOf(act'.pg.c, 1) :
              LET t == Sel(res'.ev, p[1], "test")  n == p[2] IN
              /\ Len(t) % (n + 1) = 0
              /\ \A i \in 1..Len(t) : /\ t[i].v = (i - 1) % (n + 1)
                                      /\ Frac(t[i].num, t[i].den) = Reduce(t[i].v, n) ]_vars

\* whatever runs inside a scope (loops, sets, further scopes), the counter and progress seen
\* just after the scope are those seen just before it -- for every program offered
ScopeIsolates ==
    [][ Is("nest") /\ res'.k = "ok" =>
          \A id \in {res'.ev[i].id : i \in DOMAIN res'.ev} :
              LET a == Sel(res'.ev, id, "in")  b == Sel(res'.ev, id, "out") IN
              /\ Len(a) = Len(b)
              /\ \A i \in 1..Len(a) : <<a[i].v, a[i].num, a[i].den>> = <<b[i].v, b[i].num, b[i].den>> ]_vars

=============================================================================
