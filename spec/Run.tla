-------------------------------- MODULE Run --------------------------------
(***************************************************************************)
(* A run of a shipped heuristic template as seen through the step observer *)
(* (cfg(mahf_verif) hook in Block::execute): one record after every        *)
(* component of every block, plus block enter/exit records.  Each record   *)
(* carries the projected state; the actions say which successor records a  *)
(* correct run can produce.  Floats are projected (DESIGN §2.4): solutions *)
(* to tags, objective values to dense ranks (INF = +inf, NoObj = 0).       *)
(*                                                                         *)
(* Clauses:  C05 Fresh (no individual anywhere reports an objective value  *)
(* that is not f(solution));  C06 evaluation steps and exact counting;     *)
(* C07 best-so-far monotone / strict / covers its source / equals the      *)
(* minimum ever returned;  C16 stack effects, balanced passes, one         *)
(* population at the end, exact iteration count, population-size bounds.   *)
(***************************************************************************)
EXTENDS Naturals, Integers, Sequences, FiniteSets, TLC, Json

CONSTANTS Clauses,   \* which properties' clauses are enforced: subset of {"C05", "C06", "C07", "C16", ...}
          Known      \* ids of known findings (known_findings.json) whose named deviation is tolerated
On(c) == c \in Clauses

\* A clause `ok` that the pinned code is known to break in one specific, named way: the deviation is
\* accepted only where it applies, only if listed, and every use is reported (KNOWN-FINDING line).
Dev(ok, id, applies) == ok \/ (applies /\ id \in Known /\ PrintT(<<"KF", id>>))

Effects == JsonDeserialize("effects.json")   \* component name -> [d: stack delta, need: min height]
Composite == {"Block", "Loop", "Branch", "Scope"}
NoObj == 0
INF == 1000000

VARIABLES hdr,      \* "start" record of the run: template, parameters, n, size bounds, ctor outcome
          prev,     \* previous record (= projected state after the previous step)
          frames,   \* stack of [role, h] of the blocks being executed
          done,     \* run finished
          minr,     \* PSO: per particle, the best rank it has ever been evaluated at (history)
          minx      \* minimum the objective function returned so far, NOT counting what a named deviation says is never
                    \* offered to the best-individual update (ILS: the evaluation of the perturbed solution)

rvars == <<hdr, prev, frames, done, minr, minx>>

Last(s) == s[Len(s)]
Zero == [ev |-> "zero", h |-> 0, sizes |-> <<>>, top |-> <<>>, topr |-> <<>>, uneval |-> 0, topmin |-> NoObj,
         stale |-> 0, evals |-> 0, iters |-> 0, calls |-> 0, best |-> NoObj, minseen |-> NoObj, sd |-> 1, xk |-> "-"]

NoHdr == [template |-> "-"]
RInit == hdr = NoHdr /\ prev = Zero /\ frames = <<>> /\ done = TRUE /\ minr = <<>> /\ minx = NoObj

Start(r) == /\ done
            /\ hdr' = r /\ prev' = Zero /\ frames' = <<>> /\ done' = FALSE /\ minr' = <<>> /\ minx' = NoObj

MinOf(q) == CHOOSE m \in {q[j] : j \in 1..Len(q)} : \A j \in 1..Len(q) : m <= q[j]
InLoop(fs) == \E i \in 1..Len(fs) : fs[i].role = "loop_body"
Name(r) == IF r.ev = "step" THEN r.name ELSE "-"

\* ---- C18: particle swarm (fields of r.x are harness-evaluated float predicates and rank projections)
Pso(r) ==
    /\ r.x.vmax_ok = 1                               \* every velocity component within [-v_max, v_max]
    /\ InLoop(frames) => r.x.nv = r.x.np /\ r.x.npb = r.x.np     \* one entry per particle, always (inside the swarm's loop)
    /\ Name(r) = "ParticleVelocitiesUpdate" =>
          /\ r.x.moved = 1                           \* each particle moved by exactly its new velocity
          /\ r.x.vexact # 0                          \* (c1 = c2 = 0) the stored weight scaled the old velocity
          /\ r.x.vrange # 0                          \* (any c1, c2) ... up to the two attraction terms, each between 0 and c * (best - x)
          /\ r.x.wsched # 0                          \* ... and it is the weight the schedule prescribes for this pass
    /\ Name(r) = "Linear" => r.x.wexact = 1          \* weight = linear interpolation at the loop's progress
    /\ Name(r) = "PersonalBestParticlesUpdate" =>
          /\ Len(r.x.pbr) = Len(r.topr) /\ Len(prev.x.pbr) = Len(r.topr)
          /\ \A i \in 1..Len(r.topr) :
                 r.x.pbr[i] = (IF r.topr[i] < prev.x.pbr[i] THEN r.topr[i] ELSE prev.x.pbr[i])   \* strictly better
          /\ r.x.pbr = minr                          \* = best position that particle was ever evaluated at
    /\ (Name(r) = "GlobalBestParticleUpdate" /\ Len(r.x.pbr) > 0 /\ r.x.npb = r.x.np) =>
          r.x.gbr = MinOf(r.x.pbr)                   \* global best = best personal best
    \* (sw = 1: from this record on another swarm of the run is observed -- nothing to compare it with)
    /\ (prev.xk = "pso" /\ r.x.sw = 0 /\ Name(r) \notin {"PersonalBestParticlesInit", "PersonalBestParticlesUpdate"}) =>
          r.x.pbr = prev.x.pbr                       \* memories change only in their update components
    /\ (prev.xk = "pso" /\ r.x.sw = 0 /\ Name(r) # "GlobalBestParticleUpdate") => r.x.gbr = prev.x.gbr

\* A pass of the swarm's loop is complete: whatever the pass consists of (with or without a weight schedule, whichever
\* order its book-keeping steps have), every personal best is the best position that particle was ever evaluated at
\* and the global best is the best personal best.  (minr is the history kept by this specification.)
PsoPassEnd(r) ==
    (Len(minr) > 0 /\ Len(r.x.pbr) = Len(minr) /\ r.x.npb = r.x.np) =>
        /\ r.x.pbr = minr
        /\ r.x.gbr = MinOf(r.x.pbr)

\* the per-particle history of evaluated positions starts afresh when another swarm takes over
MinrKeep(r) == IF r.xk = "pso" /\ r.x.sw = 1 THEN <<>> ELSE minr

\* ---- C19: ant colony
Aco(r) ==
    /\ r.x.finite # 0 /\ r.x.sym # 0                 \* trails finite, non-negative, symmetric
    \* max-min variant: an update leaves every trail within [min, max] (the initial level is the caller's choice)
    /\ Name(r) = "MinMaxPheromoneUpdate" => r.x.bounds # 0
    /\ Name(r) = "AcoGeneration" =>
          /\ r.x.perm_ok = 1                         \* every tour a permutation of all cities starting at 0
          /\ r.x.greedy_ok = 1                       \* the first tour is greedy w.r.t. the current trails
          /\ Len(r.sizes) >= 1
    /\ Name(r) \in {"AsPheromoneUpdate", "MinMaxPheromoneUpdate"} => r.x.cell_ok # 0   \* evaporate, then deposit

\* ---- C20: chemical reaction optimisation
CroUpdates == {"OnWallIneffectiveCollisionUpdate", "DecompositionUpdate", "SynthesisUpdate",
               "IntermolecularIneffectiveCollisionUpdate"}
Cro(r) ==
    r.x.on = 1 =>
      /\ r.x.cons = 1                                \* energy conserved up to rounding, at every step
      /\ r.x.ke_ok = 1 /\ r.x.buf_ok = 1             \* no negative kinetic energy / buffer
      /\ r.x.nm = r.x.nb                             \* one molecule record per individual
      /\ r.x.best_le = 1                             \* ... in the same order (each molecule's best belongs to its individual)
      /\ Name(r) \in CroUpdates => r.h = prev.h - 2  \* consumes exactly reactant and product populations

\* ---- C17 (template level): cool, then accept -- the Metropolis decision of pass k uses t_0 * alpha^k
\* r.x (harness: sa_extra) describes, root scope first, the scope chain of temperatures -- own[j] = 1: scope j holds a
\* Temperature of its own, tid[j]: which value (interned bits, 0 = none), tit[j] / tnx[j]: it is that SA's
\* t_0 * alpha^(its passes) / ... ^(its passes + 1) -- and the operands the acceptance is about to see: ranks cur / cand of the
\* single individuals in the two top populations (NoObj: the stack has another shape), curt = tag of the current solution,
\* pcl = class of exp(-(f(cand) - f(cur)) / T) at the temperature in force.
SaDepth(r) == Len(r.x.tid)
SaChain(r) ==                                        \* every SA keeps its own temperature, in its own scope
    LET k  == SaDepth(r)
        pk == SaDepth(prev) IN
    /\ k = r.sd /\ Len(r.x.own) = k
    /\ k \in {pk - 1, pk, pk + 1}
    \* within a scope only the cooling component changes a temperature ...
    /\ (k = pk /\ Name(r) # "GeometricCooling") => r.x.tid = prev.x.tid /\ r.x.own = prev.x.own
    \* ... namely the one of its own SA (innermost scope), by exactly one multiplication with that SA's alpha;
    \* the temperatures of the enclosing scopes stay as they are
    /\ Name(r) = "GeometricCooling" =>
          /\ k = pk /\ r.x.own = prev.x.own /\ r.x.own[k] = 1
          /\ r.x.cool1 = 1
          /\ \A j \in 1..(k - 1) : r.x.tid[j] = prev.x.tid[j]
    \* entering a scope: an SA initialised there starts at its own t_0 in the NEW scope (shadowing); the
    \* temperatures of the enclosing SAs are not overwritten
    /\ k = pk + 1 =>
          /\ SubSeq(r.x.tid, 1, pk) = prev.x.tid /\ SubSeq(r.x.own, 1, pk) = prev.x.own
          /\ r.x.own[k] = 1 => r.x.tit[k] = 1
    \* leaving it: the nested temperature is gone, the enclosing ones are what they were
    /\ k = pk - 1 => r.x.tid = SubSeq(prev.x.tid, 1, k) /\ r.x.own = SubSeq(prev.x.own, 1, k)

SaDecision(r) ==                                     \* the Metropolis rule on the recorded populations
    LET cur  == prev.x.cur
        cand == prev.x.cand IN
    /\ cur # NoObj /\ cand # NoObj                   \* two evaluated single individuals: current below, candidate on top
    /\ Len(prev.top) = 1 /\ Len(r.top) = 1 /\ Len(r.topr) = 1
    \* one population holding the survivor
    /\ <<r.top[1], r.topr[1]>> \in {<<prev.x.curt, cur>>, <<prev.top[1], cand>>}
    \* a candidate at least as good as the CURRENT solution always replaces it -- whatever else the state
    \* remembers (best individual, enclosing temperatures)
    /\ cand <= cur => r.top = prev.top /\ r.topr = <<cand>>
    \* a worse one never as T -> 0, always as T -> infinity (T = the temperature of this SA)
    /\ (cand > cur /\ prev.x.pcl = "zero") => r.top = <<prev.x.curt>> /\ r.topr = <<cur>>
    /\ prev.x.pcl = "one" => r.top = prev.top /\ r.topr = <<cand>>

Sa(r) ==
    /\ Name(r) = "ExponentialAnnealingAcceptance" =>
          /\ prev.ev = "step" /\ prev.name = "GeometricCooling"      \* directly after the cooling step
          /\ r.x.t_next = 1                           \* temperature in force = t_0 * alpha^(completed passes + 1)
          /\ r.x.own[SaDepth(r)] = 1                  \* ... and it is this SA's own, in this SA's scope
          /\ SaDecision(r)
    /\ Name(r) = "GeometricCooling" => r.x.t_next = 1                \* multiplied exactly once per pass
    /\ Name(r) \in {"All", "PopulationEvaluator", "BestIndividualUpdate"} => r.x.t_iters = 1   \* nobody else changes it
    /\ prev.xk = "sa" => SaChain(r)
    \* once per pass, for every SA loop (an enclosing SA is not cooled by the passes of a nested one): at the end of a pass
    \* the temperature of the loop's scope is t_0 * alpha^(completed passes + 1), after the loop t_0 * alpha^passes
    /\ (r.ev = "exit" /\ r.role = "loop_body") => r.x.own[SaDepth(r)] = 1 /\ r.x.tnx[SaDepth(r)] = 1
    /\ Name(r) = "Loop" => r.x.own[SaDepth(r)] = 1 /\ r.x.tit[SaDepth(r)] = 1

IsIls == hdr.template \in {"real_ils", "permutation_ils"}
IsFa == hdr.template \in {"real_fa", "real_fa@A"}
\* r.smin: the least value the objective function returned since the previous record (NoObj: it was not called).
\* KF_IlsScopeWiring_Best names ONE evaluation whose result is never offered to the best-update: the evaluation step of
\* the perturbed solution (the evaluation step of the ILS main loop itself, in the run's own scope).  Everything else
\* the objective function returns -- start point, every local-search point -- is covered by the statement.
NeverOffered(r) == /\ IsIls /\ r.ev = "step" /\ r.name = "PopulationEvaluator" /\ r.sd = 1
                   /\ Len(frames) > 0 /\ Last(frames).role = "loop_body"
LeastOf(a, b) == IF a = NoObj THEN b ELSE IF b = NoObj THEN a ELSE IF a < b THEN a ELSE b
MinX(r) == IF NeverOffered(r) THEN minx ELSE LeastOf(minx, r.smin)

\* ---- what every record must satisfy, relative to the previous one
Common(r) ==
    /\ On("C05") => r.stale = 0                      \* C05: nobody reports a value that is not f(solution)
    /\ r.h = Len(r.sizes)
    /\ (On("C06") /\ r.sd = prev.sd) =>
         /\ r.evals - prev.evals = r.calls - prev.calls      \* C06: counted = really called, at every step
         /\ r.evals >= prev.evals
    /\ (On("C07") /\ r.sd = prev.sd) =>
         \* C07: the recorded best only improves, and only the update component changes it
         /\ prev.best # NoObj => r.best # NoObj /\ r.best <= prev.best
         /\ (r.ev # "step" \/ r.name # "BestIndividualUpdate") => r.best = prev.best
    /\ (On("C17") /\ r.xk = "sa") => Sa(r)
    /\ (On("C18") /\ r.xk = "pso") => Pso(r)
    /\ (On("C19") /\ r.xk = "aco") => Aco(r)
    /\ (On("C20") /\ r.xk = "cro") => Cro(r)

Enter(r) == /\ r.ev = "enter"
            /\ Common(r)
            /\ r.sizes = prev.sizes /\ r.calls = prev.calls
            /\ frames' = Append(frames, [role |-> r.role, h |-> r.h])
            /\ minr' = MinrKeep(r)
            /\ minx' = MinX(r)
            /\ UNCHANGED <<hdr, done>> /\ prev' = r

\* C07, "reported best = minimum the objective function returned", with the two named deviations of the pinned code:
\* ILS never offers the perturbed solution to the best-update; the firefly update evaluates every intermediate
\* position of a moving firefly itself and only the final position reaches the population (and the best-update)
\* (mx: the minimum over everything but the evaluations the ILS finding names -- the finding explains a best that is
\* worse than the minimum returned only if it still is the minimum of all the rest)
BestIsMin(b, m, mx) ==
    IF IsFa THEN Dev(b = m, "KF_FireflyIntermediate_Best", b > m)
    ELSE Dev(b = m, "KF_IlsScopeWiring_Best", IsIls /\ b > m /\ b = mx)

Exit(r) == /\ r.ev = "exit"
           /\ Len(frames) > 0
           /\ Common(r)
           /\ r.sizes = prev.sizes /\ r.calls = prev.calls
           /\ LET f == Last(frames)
                  rest == SubSeq(frames, 1, Len(frames) - 1) IN
              /\ r.role = f.role
              \* C16: each loop pass ends with the stack at the height it had before the pass
              /\ (On("C16") /\ f.role = "loop_body") =>
                    \* KF: the ILS templates leave one extra population behind per pass of their main loop
                    Dev(r.h = f.h, "KF_IlsScopeWiring_Leak",
                        IsIls /\ ~InLoop(rest) /\ r.h = f.h + 1)
              \* C16: at the end of every pass of the main loop the population size is within bounds
              /\ (On("C16") /\ f.role = "loop_body" /\ ~InLoop(rest) /\ r.sd = 1) =>
                    /\ r.h >= 1
                    /\ Last(r.sizes) >= hdr.size_lo /\ Last(r.sizes) <= hdr.size_hi
              \* C07: a run may end after any pass of its main loop, so what holds at the end of a run holds here:
              \* the recorded best is the minimum the objective function returned so far
              /\ (On("C07") /\ f.role = "loop_body" /\ ~InLoop(rest) /\ r.sd = 1 /\ r.calls > 0) =>
                    BestIsMin(r.best, r.minseen, MinX(r))
              \* C18: the swarm's memories are consistent whenever a pass of its loop is complete
              /\ (On("C18") /\ r.xk = "pso" /\ f.role = "loop_body" /\ ~InLoop(rest) /\ r.x.sw = 0) => PsoPassEnd(r)
              /\ frames' = rest
           /\ minr' = MinrKeep(r)
           /\ minx' = MinX(r)
           /\ UNCHANGED <<hdr, done>> /\ prev' = r

StepLeaf(r) ==
    /\ r.ev = "step" /\ r.name \notin Composite
    /\ r.name \in DOMAIN Effects
    /\ Common(r)
    /\ On("C16") => /\ prev.h >= Effects[r.name].need   \* C16: operands are where the component expects them
                    /\ r.h = prev.h + Effects[r.name].d \* C16: stack effect of this component kind
    /\ (On("C06") /\ r.name = "PopulationEvaluator" /\ prev.h >= 1) =>      \* C06
         /\ r.sizes = prev.sizes
         /\ r.top = prev.top                         \* same solutions in the same order
         /\ r.uneval = 0                             \* everyone evaluated (with f(solution): stale = 0)
         /\ r.sd = prev.sd => r.evals = prev.evals + Last(prev.sizes)
         /\ r.calls = prev.calls + Last(prev.sizes)  \* exactly |population| objective calls
    /\ (On("C07") /\ r.name = "BestIndividualUpdate") =>     \* C07
         /\ r.sizes = prev.sizes /\ r.top = prev.top /\ r.topr = prev.topr
         /\ Last(r.sizes) > 0 /\ r.sd = prev.sd =>
              /\ r.best = (IF prev.best = NoObj \/ r.topmin < prev.best THEN r.topmin ELSE prev.best)
              /\ r.best <= r.topmin                  \* at least as good as everyone it was updated from
    /\ minr' = IF r.name = "PopulationEvaluator" /\ r.xk = "pso"
               THEN IF Len(MinrKeep(r)) = Len(r.topr)
                    THEN [i \in 1..Len(r.topr) |-> IF r.topr[i] < minr[i] THEN r.topr[i] ELSE minr[i]]
                    ELSE r.topr
               ELSE MinrKeep(r)
    /\ minx' = MinX(r)
    /\ UNCHANGED <<hdr, frames, done>> /\ prev' = r

StepComposite(r) ==
    /\ r.ev = "step" /\ r.name \in Composite
    /\ Common(r)
    /\ r.sizes = prev.sizes /\ r.calls = prev.calls
    /\ minr' = MinrKeep(r)
    /\ minx' = MinX(r)
    /\ UNCHANGED <<hdr, frames, done>> /\ prev' = r

End(r) == /\ r.ev = "end"
          /\ ~done
          /\ On("C16") =>
               /\ hdr.ctor = "ok"                    \* valid parameters are accepted
               /\ r.result = "ok"                    \* runs to its termination condition without error or panic
               /\ frames = <<>>
               /\ Dev(prev.h = 1, "KF_IlsScopeWiring_Leak", IsIls /\ prev.h = 1 + hdr.n)   \* one population at the end of the run
               /\ r.iters = hdr.n                    \* exactly the requested number of iterations
          \* reported evaluations = objective invocations  (KF: ILS does not count the evaluations of its inner scope)
          /\ (On("C06") /\ r.result = "ok") => Dev(r.evals = r.calls, "KF_IlsScopeWiring_Count", IsIls /\ r.evals < r.calls)
          \* reported best = minimum ever returned
          /\ (On("C07") /\ r.result = "ok" /\ r.calls > 0) =>
                BestIsMin(prev.best, r.minseen, minx)
          \* C19: generation always yields its tours and the updates are well-formed: an ant-colony run never aborts
          /\ (On("C19") /\ hdr.xk = "aco") => r.result = "ok"
          \* C20: "all steps of CRO template runs": every pass performs one of the four reactions, none aborts
          /\ (On("C20") /\ hdr.xk = "cro") => r.result = "ok" /\ r.iters = hdr.n
          /\ (On("C17") /\ hdr.xk = "sa") => r.result = "ok" /\ r.iters = hdr.n
          /\ (On("C18") /\ hdr.xk = "pso") =>
                /\ r.result = "ok"
                /\ r.iters = hdr.n
          /\ done' = TRUE /\ frames' = <<>>
          /\ UNCHANGED <<hdr, minr, minx>> /\ prev' = prev

Do(r) == CASE r.ev = "start" -> Start(r)
           [] r.ev = "enter" -> Enter(r)
           [] r.ev = "exit" -> Exit(r)
           [] r.ev = "step" -> StepLeaf(r) \/ StepComposite(r)
           [] r.ev = "end" -> End(r)
=============================================================================
