------------------------------- MODULE Borrow -------------------------------
(***************************************************************************)
(* Dynamic borrowing on top of the registry (C02):                         *)
(*  - every bound cell (scope i, type t) carries a RefCell flag: any       *)
(*    number of shared guards xor one exclusive guard; `guards[g]` is the  *)
(*    guard kept alive in slot g by the caller (i = 0: slot free);         *)
(*  - all `&mut self` calls of the registry are possible only while no     *)
(*    guard is alive (rustc enforces that; mirrored so that every model    *)
(*    behaviour is executable);                                            *)
(*  - try_get_multiple_mut / get_multiple_mut and the tuple trait's own     *)
(*    entry points (src/state/registry/multi.rs), on the registry or an    *)
(*    ancestor;                                                            *)
(*  - the convenience accessors of State (src/state/mod.rs: iterations,    *)
(*    evaluations, best_individual, best_objective_value, populations,     *)
(*    populations_mut, random_mut, log) as forms of acquire / read / write *)
(*    (tables AccSh .. AccType in Registry.tla);                           *)
(*  - State::holding (src/state/mod.rs): take T out of the scope that      *)
(*    holds it, run a body next to the rest of the state, put T back into  *)
(*    the scope it came from whether or not the body fails.                *)
(* act = [op, t, v, w, d, f, ts, vs]  (Registry's fields + type/value      *)
(* tuples for the multi-borrow);  res as in Registry.                      *)
(***************************************************************************)
EXTENDS Registry

CONSTANTS MaxG,       \* number of guard slots
          MaxHold,    \* bound on nesting of holding (model checking)
          Tuples      \* type tuples tried by the multi-borrow (model checking)

VARIABLES guards, held
bvars == <<scopes, act, res, guards, held>>

Slots == 1..MaxG
Free  == [i |-> 0, t |-> NoT, k |-> "-"]
Live(g) == guards[g].i # 0
NoGuards == \A g \in Slots : ~Live(g)
OnCell(i, t) == {g \in Slots : guards[g].i = i /\ guards[g].t = t}
ExOn(i, t) == {g \in OnCell(i, t) : guards[g].k = "ex"}
ShOn(i, t) == {g \in OnCell(i, t) : guards[g].k = "sh"}
CanSh(i, t) == ExOn(i, t) = {}
CanEx(i, t) == OnCell(i, t) = {}
FreeSlots == {g \in Slots : ~Live(g)}
MinOf(S) == CHOOSE x \in S : \A y \in S : x <= y

ShForms == {"try_borrow", "borrow", "try_borrow_value", "borrow_value", "try_get_value", "get_value"} \cup AccSh
ExForms == {"try_borrow_mut", "borrow_mut", "try_borrow_value_mut", "borrow_value_mut"} \cup AccEx
KindOf(f) == IF f \in ExForms THEN "ex" ELSE "sh"
Refused(f) == IF f \in AccOption THEN R("none", NoVal)
              ELSE IF f \in PanicForms \cup AccPanic THEN R("panic", NoVal)
              ELSE IF f \in ExForms THEN R("conflict_mut", NoVal) ELSE R("conflict_imm", NoVal)
Grantable(i, t, f) == IF KindOf(f) = "ex" THEN CanEx(i, t) ELSE CanSh(i, t)

BA(op, t, v, w, d, f, ts, vs) ==
    [op |-> op, t |-> t, v |-> v, w |-> w, d |-> d, f |-> f, ts |-> ts, vs |-> vs]
Lift(a) == BA(a.op, a.t, a.v, a.w, a.d, a.f, <<>>, <<>>)

---------------------------------------------------------------------------
(* guard operations (all through &self)                                     *)
Acquire(t, d, f) ==          \* keep the guard alive in the smallest free slot
    LET i == Find(t, View(d)) IN
    /\ UNCHANGED <<scopes, held>>
    /\ IF i = 0 THEN res' = Missing(f) /\ UNCHANGED guards
       ELSE IF ~Grantable(i, t, f) THEN res' = Refused(f) /\ UNCHANGED guards
       ELSE /\ res' = R("ok", scopes[i][t])
            /\ guards' = [guards EXCEPT ![MinOf(FreeSlots)] = [i |-> i, t |-> t, k |-> KindOf(f)]]

Release(g) ==
    /\ guards' = [guards EXCEPT ![g] = Free]
    /\ res' = R("ok", NoVal)
    /\ UNCHANGED <<scopes, held>>

ReadVia(g) ==
    /\ res' = R("ok", scopes[guards[g].i][guards[g].t])
    /\ UNCHANGED <<scopes, guards, held>>

WriteVia(g, v) ==
    /\ res' = R("ok", scopes[guards[g].i][guards[g].t])
    /\ scopes' = SetCell(guards[g].i, guards[g].t, v)
    /\ UNCHANGED <<guards, held>>

(* temporary guards: taken and dropped inside one call *)
TempRead(t, d, f) ==
    LET i == Find(t, View(d)) IN
    /\ UNCHANGED <<scopes, guards, held>>
    /\ res' = IF i = 0 THEN Missing(f)
              ELSE IF ~Grantable(i, t, f) THEN Refused(f) ELSE R("ok", scopes[i][t])

TempWrite(t, v, d, f) ==
    LET i == Find(t, View(d)) IN
    /\ UNCHANGED <<guards, held>>
    /\ IF i = 0 THEN res' = Missing(f) /\ UNCHANGED scopes
       ELSE IF ~CanEx(i, t) THEN res' = Refused(f) /\ UNCHANGED scopes
       ELSE res' = R("ok", scopes[i][t]) /\ scopes' = SetCell(i, t, v)

SetValueB(t, v, d) ==        \* a conflict is reported as None, nothing changes
    LET i == Find(t, View(d)) IN
    /\ UNCHANGED <<guards, held>>
    /\ IF i = 0 \/ ~CanEx(i, t) THEN res' = R("none", NoVal) /\ UNCHANGED scopes
       ELSE res' = R("some", scopes[i][t]) /\ scopes' = SetCell(i, t, v)

---------------------------------------------------------------------------
(* several exclusive references at once (needs &mut self: no guard alive)   *)
Range(s) == {s[j] : j \in 1..Len(s)}
HasDup(ts) == \E j, k \in 1..Len(ts) : j # k /\ ts[j] = ts[k]

\* the public entry points: the two registry methods, the tuple trait's own `try_get_mut` (a safe public method of
\* the public trait MultiStateTuple) and its `distinct` predicate; all of them callable on the registry itself or on
\* an ancestor reached through parent_mut() (d > 0)
MultiForms == {"try_get_multiple_mut", "get_multiple_mut", "tuple_try_get_mut", "tuple_distinct"}

RECURSIVE WriteAll(_, _, _, _, _)
WriteAll(s, ts, vs, j, top) ==
    IF j > Len(ts) THEN s
    ELSE LET i == Find(ts[j], top) IN
         WriteAll([s EXCEPT ![i][ts[j]] = vs[j]], ts, vs, j + 1, top)

MultiMut(ts, vs, f, d) ==
    /\ UNCHANGED <<guards, held>>
    /\ IF f = "tuple_distinct" THEN
            res' = R("bool", IF HasDup(ts) THEN 0 ELSE 1) /\ UNCHANGED scopes
       ELSE IF HasDup(ts) \/ \E j \in 1..Len(ts) : Find(ts[j], View(d)) = 0 THEN
            \* refused; WHICH error is reported for a tuple that both repeats a type and names a missing one is open
            /\ res' \in {R(IF f = "get_multiple_mut" THEN "panic" ELSE k, NoVal) :
                            k \in (IF HasDup(ts) THEN {"duplicate"} ELSE {})
                                   \cup (IF \E j \in 1..Len(ts) : Find(ts[j], View(d)) = 0 THEN {"notfound"} ELSE {})}
            /\ UNCHANGED scopes
       ELSE \* v = 1: the references were pairwise distinct objects and each write read back
            res' = R("ok", 1) /\ scopes' = WriteAll(scopes, ts, vs, 1, View(d))

---------------------------------------------------------------------------
(* holding: take out, run body, put back                                    *)
HeldIdx == {held[j].i : j \in 1..Len(held)}

HoldEnter(t) ==
    LET i == Find(t, Len0) IN
    /\ UNCHANGED guards
    /\ IF i = 0 THEN res' = R("notfound", NoVal) /\ UNCHANGED <<scopes, held>>
       ELSE /\ res' = R("ok", scopes[i][t])
            /\ scopes' = SetCell(i, t, NoVal)
            /\ held' = Append(held, [t |-> t, i |-> i, v |-> scopes[i][t]])

HoldWrite(v) ==              \* the body writes through its &mut T
    /\ res' = R("ok", held[Len(held)].v)
    /\ held' = [held EXCEPT ![Len(held)].v = v]
    /\ UNCHANGED <<scopes, guards>>

HoldExit(f) ==               \* f = "ok" | "fail": the body returns Ok / Err
    LET h == held[Len(held)] IN
    /\ res' = R(IF f = "ok" THEN "ok" ELSE "err", h.v)
    /\ scopes' = SetCell(h.i, h.t, h.v)
    /\ held' = SubSeq(held, 1, Len(held) - 1)
    /\ UNCHANGED guards

InnerState(t, v, f) ==       \* with_inner_state: push a scope, run the body (inserts t := v there), pop it again;
                             \* f = "ok" | "fail": the body returns Ok / Err.  Either way the caller's chain is as before.
    /\ res' = R(IF f = "ok" THEN "ok" ELSE "err", v)
    /\ UNCHANGED <<scopes, guards, held>>

---------------------------------------------------------------------------
RegistryMutOps == {"insert", "remove", "get_mut", "entry", "push", "pop"}

DoB(a) ==
    CASE a.op = "acquire"   -> act' = a /\ Acquire(a.t, a.d, a.f)
      [] a.op = "release"   -> act' = a /\ Release(a.v)
      [] a.op = "read_via"  -> act' = a /\ ReadVia(a.v)
      [] a.op = "write_via" -> act' = a /\ WriteVia(a.v, a.w)
      [] a.op = "read"      -> act' = a /\ TempRead(a.t, a.d, a.f)
      [] a.op = "write"     -> act' = a /\ TempWrite(a.t, a.v, a.d, a.f)
      [] a.op = "set_value" -> act' = a /\ SetValueB(a.t, a.v, a.d)
      [] a.op = "multi"     -> act' = a /\ MultiMut(a.ts, a.vs, a.f, a.d)
      [] a.op = "hold_enter" -> act' = a /\ HoldEnter(a.t)
      [] a.op = "hold_write" -> act' = a /\ HoldWrite(a.v)
      [] a.op = "hold_exit"  -> act' = a /\ HoldExit(a.f)
      [] a.op = "inner"      -> act' = a /\ InnerState(a.t, a.v, a.f)
      [] OTHER -> Do(a) /\ UNCHANGED <<guards, held>>      \* plain registry call

(* what the caller can issue in the current state *)
AccHere == {f \in AccForms : AccType(f) \in Type}      \* the accessors whose type is part of the universe
SharedActs ==
    {BA("acquire", t, NoVal, NoVal, d, f, <<>>, <<>>) :
         t \in Type, d \in Depths, f \in ((ShForms \cup ExForms) \ AccForms) \ {"try_get_value", "get_value"}}
    \cup {BA("read", t, NoVal, NoVal, d, f, <<>>, <<>>) : t \in Type, d \in Depths, f \in ReadForms}
    \cup {BA("write", t, v, NoVal, d, f, <<>>, <<>>) : t \in Type, v \in Val, d \in Depths, f \in WriteForms}
    \* the convenience accessors: kept (those that return a guard), used and dropped at once, written through
    \cup {BA("acquire", AccType(f), NoVal, NoVal, 0, f, <<>>, <<>>) : f \in AccHere \cap AccGuard}
    \cup {BA("read", AccType(f), NoVal, NoVal, 0, f, <<>>, <<>>) : f \in AccHere}
    \cup {BA("write", AccType(f), v, NoVal, 0, f, <<>>, <<>>) : f \in AccHere \cap AccEx, v \in Val}
    \cup {BA("set_value", t, v, NoVal, d, "-", <<>>, <<>>) : t \in Type, v \in Val, d \in Depths}
    \cup {BA("contains", t, NoVal, NoVal, d, "-", <<>>, <<>>) : t \in Type, d \in Depths}
    \cup {BA("release", NoT, g, NoVal, 0, "-", <<>>, <<>>) : g \in {x \in Slots : Live(x)}}
    \cup {BA("read_via", NoT, g, NoVal, 0, "-", <<>>, <<>>) : g \in {x \in Slots : Live(x)}}
    \cup {BA("write_via", NoT, g, w, 0, "-", <<>>, <<>>) :
             g \in {x \in Slots : Live(x) /\ guards[x].k = "ex"}, w \in Val}

MutActs ==
    {Lift(a) : a \in {x \in Acts : x.op \in RegistryMutOps}}
    \cup {BA("multi", NoT, NoVal, NoVal, d, f, ts, [j \in 1..Len(ts) |-> (j % 2)]) :
             ts \in Tuples, f \in MultiForms, d \in Depths}
    \cup {BA("hold_enter", t, NoVal, NoVal, 0, "-", <<>>, <<>>) : t \in Type}
    \cup {BA("inner", t, v, NoVal, 0, f, <<>>, <<>>) : t \in Type, v \in Val, f \in {"ok", "fail"}}
    \cup (IF Len(held) > 0
          THEN {BA("hold_write", NoT, v, NoVal, 0, "-", <<>>, <<>>) : v \in Val}
               \cup {BA("hold_exit", NoT, NoVal, NoVal, 0, f, <<>>, <<>>) : f \in {"ok", "fail"}}
          ELSE {})

Enabled(a) ==
    /\ a.op = "acquire" => FreeSlots # {}
    /\ a.op = "push" => Len0 < MaxDepth
    /\ a.op = "hold_enter" => Len(held) < MaxHold
    \* a scope from which a state is currently taken out is not popped by the body
    /\ a.op = "pop" => \A i \in HeldIdx : i < Len0

BInit == /\ Init
         /\ guards = [g \in Slots |-> Free]
         /\ held = <<>>

BNext == \E a \in SharedActs \cup (IF NoGuards THEN MutActs ELSE {}) : Enabled(a) /\ DoB(a)

BSpec == BInit /\ [][BNext]_bvars

---------------------------------------------------------------------------
(* Properties of C02, stated without Find / the action bodies.              *)

Cells == {<<i, t>> : i \in 1..Len0, t \in Type}

\* many readers xor one writer, per cell; guards sit on bound cells only
ReadersXorWriter ==
    \A c \in Cells : /\ Cardinality(ExOn(c[1], c[2])) <= 1
                     /\ ExOn(c[1], c[2]) # {} => ShOn(c[1], c[2]) = {}
GuardsOnBoundCells ==
    \A g \in Slots : Live(g) => /\ guards[g].i \in 1..Len0
                                /\ scopes[guards[g].i][guards[g].t] # NoVal

\* a request is granted iff the flag of the *resolved cell* allows it: guards on other
\* types or on the same type in other scopes never matter
GrantDependsOnlyOnCell ==
    [][ act'.op \in {"acquire", "read", "write"} =>
          LET t == act'.t
              i == Innermost(scopes, t, Len0 - act'.d)
              ex == act'.f \in ExForms \/ act'.op = "write"
              compatible == IF ex THEN OnCell(i, t) = {} ELSE ExOn(i, t) = {} IN
          IF i = 0 THEN res'.k \in {"notfound", "panic", "none"}
          ELSE /\ (res'.k = "ok") <=> compatible
               /\ res'.k = "ok" => res'.v = scopes[i][t] ]_bvars

\* a refused request is an error (a panic only from the panicking accessors), never granted,
\* and changes nothing
ConflictsAreErrors ==
    [][ res'.k \in {"conflict_imm", "conflict_mut", "notfound", "duplicate", "panic"} =>
          /\ scopes' = scopes /\ guards' = guards /\ held' = held
          /\ res'.k = "panic" => act'.f \in PanicForms \cup AccPanic \cup {"take", "get_multiple_mut"}
          /\ res'.k = "conflict_imm" => act'.f \in ShForms
          /\ res'.k = "conflict_mut" => act'.f \in ExForms ]_bvars

\* the convenience accessors of State: each looks up ITS type, resolves it to the innermost binding, needs exactly
\* the borrow mode it is documented with (a reader is served next to any number of shared guards, a writer only
\* alone), hands out / uses a guard of that mode, and refuses the way its signature says: None from the Option
\* readers, a panic from the wrappers of the panicking forms -- never the other way round, and nothing changes
AccessorsSound ==
    [][ act'.f \in AccForms =>
          LET f == act'.f
              t == AccType(f)
              i == Innermost(scopes, t, Len0)
              compatible == IF f \in AccEx THEN OnCell(i, t) = {} ELSE ExOn(i, t) = {} IN
          /\ act'.t = t /\ act'.d = 0 /\ held' = held
          /\ (res'.k = "ok") <=> (i # 0 /\ compatible)
          /\ res'.k = "ok" => res'.v = scopes[i][t]
          /\ res'.k # "ok" => /\ res'.k = (IF f \in AccOption THEN "none" ELSE "panic")
                              /\ scopes' = scopes /\ guards' = guards
          /\ act'.op = "read" => scopes' = scopes /\ guards' = guards
          /\ act'.op = "write" => /\ f \in AccEx /\ guards' = guards
                                  /\ res'.k = "ok" => scopes'[i][t] = act'.v
          /\ (act'.op = "acquire" /\ res'.k = "ok") =>
                /\ f \in AccGuard /\ scopes' = scopes
                /\ \E g \in Slots : /\ ~Live(g)
                                     /\ guards'[g] = [i |-> i, t |-> t, k |-> IF f \in AccEx THEN "ex" ELSE "sh"]
                                     /\ \A h \in Slots \ {g} : guards'[h] = guards[h] ]_bvars

\* set_value under a conflicting guard replies None and changes nothing
SetValueRespectsGuards ==
    [][ act'.op = "set_value" =>
          LET i == Innermost(scopes, act'.t, Len0 - act'.d) IN
          IF i = 0 \/ OnCell(i, act'.t) # {} THEN res'.k = "none" /\ scopes' = scopes
          ELSE res'.k = "some" /\ res'.v = scopes[i][act'.t] /\ scopes'[i][act'.t] = act'.v ]_bvars

\* only acquire / release change the set of live guards, and only their own slot
GuardSlotsStable ==
    [][ /\ act'.op \notin {"acquire", "release"} => guards' = guards
        /\ act'.op = "release" => /\ guards'[act'.v] = Free
                                  /\ \A g \in Slots \ {act'.v} : guards'[g] = guards[g]
        /\ act'.op = "acquire" => \A g \in Slots : Live(g) => guards'[g] = guards[g] ]_bvars

\* what is written through an exclusive guard is what every later reader sees
WriteVisible ==
    [][ act'.op = "write_via" =>
          /\ guards[act'.v].k = "ex"
          /\ scopes'[guards[act'.v].i][guards[act'.v].t] = act'.w
          /\ \A c \in Cells : c # <<guards[act'.v].i, guards[act'.v].t>> =>
                 scopes'[c[1]][c[2]] = scopes[c[1]][c[2]] ]_bvars
ReadViaExact ==
    [][ act'.op = "read_via" => res'.v = scopes[guards[act'.v].i][guards[act'.v].t]
                                /\ scopes' = scopes ]_bvars

\* multi-borrow: fails iff a type repeats or is missing -- through every public entry point; else distinct objects,
\* each member the innermost binding of its type in the caller's view, whatever the order of the members
MultiBorrowSound ==
    [][ act'.op = "multi" =>
          LET ts == act'.ts
              top == Len0 - act'.d
              dup == \E j, k \in 1..Len(ts) : j # k /\ ts[j] = ts[k]
              missing == \E j \in 1..Len(ts) : Innermost(scopes, ts[j], top) = 0 IN
          IF act'.f = "tuple_distinct" THEN res' = R("bool", IF dup THEN 0 ELSE 1) /\ scopes' = scopes
          ELSE
          /\ (res'.k = "ok") <=> (~dup /\ ~missing)
          /\ (dup /\ ~missing) => res'.k \in {"duplicate", "panic"}
          /\ res'.k = "duplicate" => dup
          /\ res'.k = "ok" =>
                /\ res'.v = 1
                /\ \A j \in 1..Len(ts) : scopes'[Innermost(scopes, ts[j], top)][ts[j]] = act'.vs[j]
                /\ \A c \in Cells : (\A j \in 1..Len(ts) : c # <<Innermost(scopes, ts[j], top), ts[j]>>)
                                       => scopes'[c[1]][c[2]] = scopes[c[1]][c[2]] ]_bvars

\* holding: the state is taken from the innermost scope holding it and comes back into
\* exactly that scope with the value the body left in it, whether the body fails or not
HoldRoundTrip ==
    [][ /\ act'.op = "hold_enter" /\ res'.k = "ok" =>
             LET i == Innermost(scopes, act'.t, Len0) IN
             /\ scopes'[i][act'.t] = NoVal
             /\ held'[Len(held')] = [t |-> act'.t, i |-> i, v |-> scopes[i][act'.t]]
             /\ \A c \in Cells : c # <<i, act'.t>> => scopes'[c[1]][c[2]] = scopes[c[1]][c[2]]
        /\ act'.op = "hold_exit" =>
             LET h == held[Len(held)] IN
             /\ res'.k = (IF act'.f = "ok" THEN "ok" ELSE "err")
             /\ scopes'[h.i][h.t] = h.v
             /\ held' = SubSeq(held, 1, Len(held) - 1)
             /\ \A c \in Cells : c # <<h.i, h.t>> => scopes'[c[1]][c[2]] = scopes[c[1]][c[2]] ]_bvars

\* C01/C03: a scope pushed for an inner run is popped again whether the run succeeds or fails; what the run
\* inserted lives in that scope only (and is handed back to the caller on success)
InnerStateBalanced ==
    [][ act'.op = "inner" => /\ scopes' = scopes /\ guards' = guards /\ held' = held
                             /\ res'.k = (IF act'.f = "ok" THEN "ok" ELSE "err")
                             /\ res'.v = act'.v ]_bvars

BTypeOK == /\ scopes \in Seq(MapT) /\ Len0 >= 1
           /\ \A g \in Slots : guards[g].k \in {"-", "sh", "ex"}
           /\ Len(held) <= MaxHold
=============================================================================
