---------------------------- MODULE MC_Operators ----------------------------
(* Model-checking wrapper of Operators: bounded universe of individuals,    *)
(* one family of operators per run (Mode), every behaviour is               *)
(*      init --load(st)--> st --one component execution--> result.          *)
(* McSpec checks the action properties over every result the relations      *)
(* allow; Total says the relations never forbid everything; ExportSpec      *)
(* prints the enumerated input space (stack, call) for replay on mahf.      *)
EXTENDS Operators, TLC, Json

CONSTANTS Ind,      \* set of individuals <<tag, rank>> populations are built from
          MaxLen,   \* maximal length of a loaded population
          Mode      \* "sel" | "repl" | "sa"

\* universes (a cfg file cannot write tuples): ties (2, 3), an infinite member (4)
Ind3 == {<<1, 0>>, <<2, 1>>, <<4, 999>>}
Ind4 == {<<1, 0>>, <<2, 1>>, <<3, 1>>, <<4, 999>>}
Ind5 == {<<1, 0>>, <<2, 1>>, <<3, 1>>, <<5, 2>>, <<4, 999>>}
Ind6 == Ind5 \cup {<<6, 999>>}

Pops(m) == SeqsUpTo(Ind, m)
Bottom  == << <<7, 0>> >>          \* a population lying below the operands

SaPairs == {q \in Ind \X Ind : Tag(q[1]) # Tag(q[2])}   \* current, candidate

McLoadStacks ==
    CASE Mode = "sel"  -> {<<p>> : p \in Pops(MaxLen)} \cup {<<Bottom, p>> : p \in Pops(1)}
      [] Mode = "repl" -> {<<p, q>> : p \in Pops(MaxLen), q \in Pops(MaxLen)}
                          \cup {<<Bottom, p, q>> : p \in Pops(1), q \in Pops(1)}
      [] Mode = "sa"   -> {<< <<p[1]>>, <<p[2]>> >> : p \in SaPairs}
                          \cup {<<Bottom, <<p[1]>>, <<p[2]>> >> : p \in SaPairs}

\* SA: the prepared state also holds a BestIndividual -- none, the best rank of the universe (better than or equal
\* to the current solution, as after an accepted worsening move), or the better of the two operands
SaBests(st) == {NoBest, 0, Min2(Rank(st[Len(st) - 1][1]), Rank(st[Len(st)][1]))}
McLoadActs == IF Mode = "sa" THEN UNION {{ALoad(st, b) : b \in SaBests(st)} : st \in McLoadStacks}
              ELSE LoadActs

\* DE selections return (2y+1) * |source| members: they are enabled for sources of at most 3
\* members (a source of 4 already has 24^4 allowed results for DERand)
McActs == IF act.op = "init" THEN McLoadActs
          ELSE IF act.op = "load"
               THEN {a \in Acts : a.op \in DeOps => Len(stack[Len(stack)]) <= 3}
               ELSE {}

McNext == \E a \in McActs : \E c \in Cand(a, stack, temp, best) : Step(a, c.r, c.s, c.t, c.b)
McSpec == Init /\ [][McNext]_vars

\* the relations are satisfiable for every enabled call (the spec never forbids everything)
Total == act.op = "load" =>
            \A a \in McActs : \E c \in Cand(a, stack, temp, best) : Rel(a, stack, temp, best, c.r, c.s, c.t, c.b)

\* "mu random ones": the relation of RandomReplacement prefers no position -- for every mu,
\* every choice of min(mu, n) positions of parents ++ offspring is an allowed result
At(s, S) == LET RECURSIVE Go(_)
                Go(i) == IF i > Len(s) THEN <<>> ELSE (IF i \in S THEN <<s[i]>> ELSE <<>>) \o Go(i + 1)
            IN Go(1)
RandomAnySubset ==
    (Mode = "repl" /\ act.op = "load" /\ Len(stack) >= 2) =>
        LET par == Under(stack)  off == Top(stack)  tot == par \o off IN
        \A mu \in 0..MaxN : \A S \in SUBSET (DOMAIN tot) :
            Cardinality(S) = Min2(mu, Len(tot)) => OkRepl(A("random_repl", mu, 0), par, off, At(tot, S))

\* input-space export: one line per (loaded stack, enabled call)
ExportNext == \E a \in McActs :
                 IF a.op = "load" THEN \E c \in Cand(a, stack, temp, best) : Step(a, c.r, c.s, c.t, c.b)
                 ELSE act' = a /\ UNCHANGED <<stack, temp, best, res>>
ExportSpec == Init /\ [][ExportNext]_vars
PrintCase == act'.op = "load" \/ PrintT(<<"CASE", ToJson([stack |-> stack, best |-> best, act |-> act'])>>)
=============================================================================
