------------------------------- MODULE MC_Bh -------------------------------
EXTENDS Bh, Json
McView == <<xs, fs, fb, ph>>
P1 == {<<0>>, <<1>>, <<2>>, <<3>>}
P2 == {<<0, 0>>, <<0, 1>>, <<1, 0>>, <<1, 1>>, <<2, 1>>}
D1 == {<<0>>, <<3>>}
D2s == {<<0, 0>>, <<2, 1>>}
\* one line per prepared state and component (the outcome is random in the implementation: only `from` and `act` are used)
PrintEdge == PrintT(<<"EDGE", ToJson([from |-> [xs |-> xs, fs |-> fs, fb |-> fb], act |-> act'])>>)
=============================================================================
