----------------------------- MODULE MC_Boundary -----------------------------
(* Model-checking wrapper of Boundary: the lattice of F widths on both     *)
(* sides of the domain, the prepared populations, VIEW hiding act/res,     *)
(* export of every transition as one JSON line, and the function-level     *)
(* laws of the repair functions over the whole lattice.                    *)
EXTENDS Boundary, TLC, Json

CONSTANT F

McLattice == (-8 * F)..(8 + 8 * F)
Size == 16 * F + 9

\* dimension j of the prepared solution sits at another lattice point than dimension 1
Shift(k, j) == (-8 * F) + ((k + 8 * F + 11 * (j - 1)) % Size)
Sol(k) == [j \in 1..D |-> LatC(Shift(k, j))]
NonLat(c) == [j \in 1..D |-> C(c, NoK)]

McInitPops ==
    {<<Ind(0, Sol(k))>> : k \in McLattice}                                  \* every lattice point
    \cup {<<>>}                                                             \* empty population
    \cup {<<Ind(0, Sol(k)), Ind(0, Sol(8 - k))>> : k \in {-9, -8, -1, 0, 3, 8, 9, 16, 17} \cap McLattice}
    \cup {<<Ind(0, NonLat(c))>> : c \in {"below", "inside", "above", "below_r", "above_r"}}
    \cup {<<Ind(0, Sol(-8)), Ind(0, NonLat("above")), Ind(0, Sol(4))>>}
    \* evaluated individuals that need repair (repair after evaluation), alone and mixed with unevaluated ones
    \cup {<<Ind(1, Sol(k))>> : k \in {-9, -1, 0, 4, 8, 9, 17} \cap McLattice}
    \cup {<<Ind(1, Sol(-8)), Ind(0, Sol(12)), Ind(1, NonLat("above"))>>}

McCands == {C("inside", NoK), LatC(0), LatC(8), LatC(5), C("above_r", NoK), C("below_r", NoK)}

\* for multi-dimensional exports: one outcome per non-functional repair keeps the graph small
\* (the replayed code decides the outcome anyway, TLC judges what it did)
McCands1 == {C("inside", NoK)}

McCands3 == {C("inside", NoK), LatC(8), C("above_r", NoK)}

McView == <<stack, kind, dim>>

PrintEdge == PrintT(<<"EDGE", ToJson([from |-> [stack |-> stack, kind |-> kind, dim |-> dim],
                                      act |-> act', res |-> res',
                                      to |-> [stack |-> stack', kind |-> kind', dim |-> dim']])>>)

ASSUME RepairLaws(McLattice)
=============================================================================
