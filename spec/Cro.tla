-------------------------------- MODULE Cro --------------------------------
(***************************************************************************)
(* Chemical reaction optimisation, the four elementary reaction updates    *)
(* (src/components/misc/cro.rs) over INTEGER energies:                      *)
(*   pe[i]  potential energy = objective value of individual i             *)
(*   ke[i]  kinetic energy of molecule i     buffer  central energy buffer *)
(*   sol[i] the solution (a point of the search space, named by a small    *)
(*          integer) individual i holds.  Objective values are whatever    *)
(*          the evaluation returned when the individual was evaluated: two *)
(*          individuals may hold the SAME solution with DIFFERENT objective *)
(*          values (noisy objective functions), the same solution with the *)
(*          same value (copies), or different solutions with equal values. *)
(*          A molecule is named by its position, never by what it holds.   *)
(*          Products hold the point named Fresh -- which may well be a     *)
(*          point a bystander (or the reactant itself) holds already.      *)
(*   below  number of populations underneath the reaction's population     *)
(*          (a caller's own populations: CRO used as a step of another      *)
(*          heuristic); they are nobody's operands.                         *)
(* Reactants are named by their index in the population; products by their *)
(* objective values; random splits are nondeterministic integer choices.   *)
(* The stack layout [.., population, reactants, products] is reduced to    *)
(* `h` (height): every update consumes the two upper populations.          *)
(* Energies are in units the caller chooses (the binding runs the same     *)
(* integer state at several power-of-two units, see Trace_Cro).            *)
(* act = [op, i, j, p1, p2];  res = [k] (accepted | rejected | err).       *)
(***************************************************************************)
EXTENDS Naturals, Integers, Sequences, FiniteSets

CONSTANTS MaxE,      \* energies explored by the model checker: 0..MaxE
          MaxMol,    \* number of molecules explored
          MaxSol,    \* number of distinct solutions the initial individuals hold (1: everybody holds the same point)
          MaxBelow   \* populations underneath the reaction's population: 0..MaxBelow

VARIABLES pe, ke, sol, buffer, below, h, act, res
cvars == <<pe, ke, sol, buffer, below, h, act, res>>

A(op, i, j, p1, p2) == [op |-> op, i |-> i, j |-> j, p1 |-> p1, p2 |-> p2]
N == Len(pe)
Fresh == 1
RECURSIVE SumSeq(_)
SumSeq(q) == IF Len(q) = 0 THEN 0 ELSE q[1] + SumSeq(Tail(q))
Total(p, k, b) == SumSeq(p) + SumSeq(k) + b
Remove(q, j) == SubSeq(q, 1, j - 1) \o SubSeq(q, j + 1, Len(q))

\* on-wall ineffective collision of molecule i producing a neighbour with objective p1
OnWall(i, p1) ==
    LET e == pe[i] + ke[i] - p1 IN
    /\ act' = A("on_wall", i, 0, p1, 0) /\ h' = h - 2 /\ UNCHANGED below
    /\ IF e >= 0
       THEN \E a \in 0..e :                         \* kinetic share a, the rest goes to the buffer
              /\ pe' = [pe EXCEPT ![i] = p1] /\ ke' = [ke EXCEPT ![i] = a]
              /\ sol' = [sol EXCEPT ![i] = Fresh]
              /\ buffer' = buffer + (e - a) /\ res' = [k |-> "accepted"]
       ELSE UNCHANGED <<pe, ke, sol, buffer>> /\ res' = [k |-> "rejected"]

\* decomposition of molecule i into two molecules with objectives p1, p2 (may draw from the buffer)
Decompose(i, p1, p2) ==
    LET e == pe[i] + ke[i] - (p1 + p2) IN
    /\ act' = A("decompose", i, 0, p1, p2) /\ h' = h - 2 /\ UNCHANGED below
    /\ \/ /\ e >= 0
          /\ \E a \in 0..e :
               /\ pe' = Append([pe EXCEPT ![i] = p1], p2)
               /\ ke' = Append([ke EXCEPT ![i] = a], e - a)
               /\ sol' = Append([sol EXCEPT ![i] = Fresh], Fresh)
               /\ buffer' = buffer /\ res' = [k |-> "accepted"]
       \/ /\ e < 0
          /\ \E x \in 0..buffer :                   \* energy drawn from the buffer
               IF e + x >= 0
               THEN \E a \in 0..(e + x) :
                      /\ pe' = Append([pe EXCEPT ![i] = p1], p2)
                      /\ ke' = Append([ke EXCEPT ![i] = a], e + x - a)
                      /\ sol' = Append([sol EXCEPT ![i] = Fresh], Fresh)
                      /\ buffer' = buffer - x /\ res' = [k |-> "accepted"]
               ELSE UNCHANGED <<pe, ke, sol, buffer>> /\ res' = [k |-> "rejected"]

\* inter-molecular ineffective collision of molecules i # j producing p1, p2
Intermolecular(i, j, p1, p2) ==
    LET e == pe[i] + ke[i] + pe[j] + ke[j] - (p1 + p2) IN
    /\ act' = A("intermolecular", i, j, p1, p2) /\ h' = h - 2 /\ UNCHANGED below
    /\ IF e >= 0
       THEN \E a \in 0..e :
              /\ pe' = [pe EXCEPT ![i] = p1, ![j] = p2]
              /\ ke' = [ke EXCEPT ![i] = a, ![j] = e - a]
              /\ sol' = [sol EXCEPT ![i] = Fresh, ![j] = Fresh]
              /\ buffer' = buffer /\ res' = [k |-> "accepted"]
       ELSE UNCHANGED <<pe, ke, sol, buffer>> /\ res' = [k |-> "rejected"]

\* synthesis of molecules i # j into one molecule with objective p1: both reactants disappear and the product gets ONE
\* record; which slot it takes is not fixed by the statement (the code uses a reactant's slot), only that the
\* individual and its molecule record sit at the same position k and everyone else keeps their relative order
InsertAt(q, k, x) == SubSeq(q, 1, k - 1) \o <<x>> \o SubSeq(q, k, Len(q))
Without2(q, i, j) == IF i < j THEN Remove(Remove(q, j), i) ELSE Remove(Remove(q, i), j)
Synthesis(i, j, p1) ==
    LET e == pe[i] + ke[i] + pe[j] + ke[j] - p1 IN
    /\ act' = A("synthesis", i, j, p1, 0) /\ h' = h - 2 /\ UNCHANGED below
    /\ IF e >= 0
       THEN /\ \E k \in 1..(N - 1) :
                 /\ pe' = InsertAt(Without2(pe, i, j), k, p1)
                 /\ ke' = InsertAt(Without2(ke, i, j), k, e)
                 /\ sol' = InsertAt(Without2(sol, i, j), k, Fresh)
            /\ buffer' = buffer /\ res' = [k |-> "accepted"]
       ELSE UNCHANGED <<pe, ke, sol, buffer>> /\ res' = [k |-> "rejected"]

\* the initialisation component executed (again) on a state that already holds molecule records: afterwards there is
\* exactly one fresh record per individual, each with the configured initial kinetic energy; the buffer is kept
Reinit(k0) ==
    /\ h = below + 1 /\ act' = A("init", 0, 0, k0, 0) /\ res' = [k |-> "ok"] /\ h' = h
    /\ ke' = [i \in 1..N |-> k0] /\ UNCHANGED <<pe, sol, buffer, below>>

\* a second reaction system initialised and used inside a child scope (its own molecule records and buffer shadow the
\* caller's): when the scope is left, the caller's records and buffer are what they were
ScopedInit(k0) ==
    /\ h = below + 1 /\ act' = A("scoped_init", 0, 0, k0, 0) /\ res' = [k |-> "ok"] /\ h' = h
    /\ UNCHANGED <<pe, ke, sol, buffer, below>>

\* the template puts reactants and products on the stack before each update
Prepare == /\ h = below + 1 /\ h' = h + 2 /\ act' = A("prepare", 0, 0, 0, 0) /\ res' = [k |-> "ok"]
           /\ UNCHANGED <<pe, ke, sol, buffer, below>>

E == 0..MaxE
\* which individuals share a solution: every partition of the positions into at most MaxSol classes (named in order of
\* first occurrence -- the names themselves mean nothing)
Sols == 1..MaxSol
SolPattern(q) == q[1] = 1 /\ \A i \in 2..Len(q) : q[i] > 1 => \E j \in 1..(i - 1) : q[j] = q[i] - 1
CInit == /\ pe \in UNION {[1..n -> E] : n \in 1..MaxMol}
         /\ ke \in [1..Len(pe) -> E]
         /\ sol \in {q \in [1..Len(pe) -> Sols] : SolPattern(q)}
         /\ buffer \in E
         /\ below \in 0..MaxBelow
         /\ h = below + 1 /\ act = A("init", 0, 0, 0, 0) /\ res = [k |-> "ok"]
Bounded == /\ N <= MaxMol /\ buffer <= 3 * MaxE
           /\ \A i \in 1..N : ke[i] <= 3 * MaxE
\* one reaction update, named by its action record (shared by the model checker and the trace specification)
Do(a) == CASE a.op = "init" -> Reinit(a.p1)
           [] a.op = "scoped_init" -> ScopedInit(a.p1)
           [] a.op = "on_wall" -> OnWall(a.i, a.p1)
           [] a.op = "decompose" -> Decompose(a.i, a.p1, a.p2)
           [] a.op = "intermolecular" -> Intermolecular(a.i, a.j, a.p1, a.p2)
           [] a.op = "synthesis" -> Synthesis(a.i, a.j, a.p1)
Acts == {A("on_wall", i, 0, p, 0) : i \in 1..N, p \in E}
        \cup (IF N < MaxMol THEN {A("decompose", i, 0, p1, p2) : i \in 1..N, p1 \in E, p2 \in E} ELSE {})
        \cup {A("intermolecular", x[1], x[2], p1, p2) : x \in {y \in (1..N) \X (1..N) : y[1] # y[2]}, p1 \in E, p2 \in E}
        \cup {A("synthesis", x[1], x[2], p, 0) : x \in {y \in (1..N) \X (1..N) : y[1] # y[2]}, p \in E}
CNext == \/ Prepare
         \/ \E k0 \in E : Reinit(k0) \/ ScopedInit(k0)
         \/ /\ h = below + 3 /\ \E a \in Acts : Do(a)
CSpec == CInit /\ [][CNext]_cvars

---------------------------------------------------------------------------
\* every update conserves energy
Conserved == [][act'.op \notin {"init"} => Total(pe', ke', buffer') = Total(pe, ke, buffer)]_cvars
\* no molecule or the buffer ever has negative energy
NonNegative == buffer >= 0 /\ \A i \in 1..Len(ke) : ke[i] >= 0
\* exactly one molecule record per individual
Aligned == Len(ke) = Len(pe) /\ Len(sol) = Len(pe) /\ Len(pe) >= 1
\* an update consumes exactly the reactant and product populations, however many populations lie underneath
ConsumesTwo == [][act'.op \in {"on_wall", "decompose", "intermolecular", "synthesis"} =>
                     h = below + 3 /\ h' = below + 1 /\ below' = below]_cvars
\* a rejected reaction changes nothing; an accepted one changes only the molecules taking part -- whatever the
\* bystanders hold (be it the very solution of a reactant)
Locality ==
    [][ /\ res'.k = "rejected" => pe' = pe /\ ke' = ke /\ sol' = sol /\ buffer' = buffer
        /\ (act'.op \in {"on_wall", "intermolecular"} /\ res'.k = "accepted") =>
              /\ Len(pe') = Len(pe)
              /\ \A x \in 1..Len(pe) : (x # act'.i /\ x # act'.j) => pe'[x] = pe[x] /\ ke'[x] = ke[x] /\ sol'[x] = sol[x]
        /\ (act'.op = "synthesis" /\ res'.k = "accepted") => Len(pe') = Len(pe) - 1
        /\ (act'.op = "decompose" /\ res'.k = "accepted") =>
              /\ Len(pe') = Len(pe) + 1
              /\ \A x \in 1..Len(pe) : x # act'.i => pe'[x] = pe[x] /\ ke'[x] = ke[x] /\ sol'[x] = sol[x] ]_cvars
=============================================================================
