---------------------------- MODULE MC_Variation ----------------------------
(* Model-checking wrapper of Variation: enumerates the bounded input space *)
(* of the helper functions (every case is one transition from the initial  *)
(* state and is exported as one JSON line), and a small constructive model *)
(* of the component executions against which the recogniser `CompRel` and  *)
(* the independently stated component properties are checked.              *)
EXTENDS Variation, TLC, Json

CONSTANTS MaxPerm,    \* all permutations of 0..n-1 for n <= MaxPerm, all index tuples / ranges / insertion points
          ExtraLens,  \* further lengths for which identity and reversal are enumerated
          MaxPar,     \* parents over {0,1} x {2,3} up to this length, all cut tuples and masks; the second parent
                      \*   has the length of the first or ANY OTHER length in 1..MaxPar + 1
          LabLens,    \* lengths of the position-labelled parent pair (10+j / 20+j), all cut tuples; the second
                      \*   parent has the length n of the first or a length in n-2..n+1
          MaxCyc,     \* all pairs of permutations up to this length (cycle crossover)
          MaxArith,   \* arithmetic crossover: parents over ArithVals up to this length (of equal or unequal
                      \*   length), alphas in {0..4}/4
          ArithVals,
          MaxArithX,  \* arithmetic crossover on extreme genes: parents over the ranks ArithXVals up to this length,
          ArithXVals, \*   every alpha index 0..AlphaTop
          CompN,      \* component model: populations of up to CompN individuals
          CompD       \* component model: dimensions 2..CompD

RECURSIVE InjSeqs(_, _)     \* sequences of k distinct elements of 0..n-1
InjSeqs(n, k) == IF k = 0 THEN {<<>>}
                 ELSE UNION {{Append(t, x) : x \in (0..n - 1) \ Range(t)} : t \in InjSeqs(n, k - 1)}
Perms(n)  == InjSeqs(n, n)
IdP(n)    == [j \in 1..n |-> j - 1]
RevP(n)   == [j \in 1..n |-> n - j]
PermInputs == UNION {Perms(n) : n \in 1..MaxPerm} \cup UNION {{IdP(n), RevP(n)} : n \in ExtraLens}
Tuples(n) == UNION {InjSeqs(n, k) : k \in 2..n}

Cuts(n) == UNION {InjSeqs(n, k) : k \in 1..n - 1}

---------------------------------------------------------------------------
(* Constructive model of the components (what an ideal implementation may  *)
(* answer), used to check that CompRel accepts every ideal behaviour,      *)
(* rejects corrupted ones, and implies the properties of C13.              *)
RECURSIVE Prod(_)          \* all sequences choosing the j-th element from sets[j]
Prod(sets) == IF sets = <<>> THEN {<<>>}
              ELSE {<<x>> \o t : x \in sets[1], t \in Prod(Tail(sets))}
PermsOf(s) == {[j \in 1..Len(s) |-> s[ix[j] + 1]] : ix \in Perms(Len(s))}
Lab(j, d)  == [c \in 1..d |-> 10 * j + c]                 \* position-labelled individual
LabPop(n, d, off) == [j \in 1..n |-> Lab(j + off, d)]
(* populations with DUPLICATES: individual j is a copy of individual       *)
(* pat[j] <= j (pat[j] = j: a new one); every pattern = every partition of *)
(* the positions: distinct individuals, identical adjacent parents,        *)
(* copies across pairs, converged populations                              *)
Pats(n) == {pat \in [1..n -> 1..n] : \A j \in 1..n : pat[j] <= j /\ pat[pat[j]] = pat[j]}
DupPops(n, d) == {[j \in 1..n |-> Lab(pat[j], d)] : pat \in Pats(n)}
(* ... and RAGGED ones: every individual has length d or d + 1, not all    *)
(* the same (both orders of a long and a short parent, with duplicates)    *)
RagPops(n, d) == {pop \in {[j \in 1..n |-> Lab(pat[j], ln[pat[j]])] : pat \in Pats(n), ln \in [1..n -> {d, d + 1}]} :
                    Ragged(pop)}
HasDup(pin) == \E m \in 1..(Len(pin) \div 2) : pin[2 * m - 1] = pin[2 * m]
PermPops(d) == {<<>>} \cup {<<p>> : p \in Perms(d)} \cup {<<IdP(d), p>> : p \in Perms(d)}
BitPops(d)  == {<<>>} \cup {<<p>> : p \in [1..d -> {0, 1}]}  \cup {<<[c \in 1..d |-> c % 2], p>> : p \in [1..d -> {0, 1}]}
Zeros(n, d) == [j \in 1..n |-> [c \in 1..d |-> 0]]
Dims == 2..CompD
IdsMC == {"Global", "A"}    \* identifiers of the component model (the third, B, is exercised on the code only)

OkR(a, out) == CR("ok", out, a.base, Height(a), <<>>, <<>>)
ErrR(k) == CR(k, <<>>, <<>>, 1, <<>>, <<>>)

(* ArithmeticCrossover in the component model.  The real vectors are       *)
(* abstract: an individual is its tag (TagPops: every pattern of           *)
(* duplicates), and the float predicates the harness would log are derived *)
(* from the PROVENANCE of every output:                                    *)
(*   t  its tag (0 = a new vector; a child of two identical parents may    *)
(*      also be bit-identical to them),                                    *)
(*   m, k  the pair it stems from and its place in it (m = 0: the odd      *)
(*      remainder), ch = 1 a child / 0 a kept parent,                      *)
(*   in = 1  a child that lies between the parents of its pair,            *)
(*   cs = 1  (first of a pair) it and the next output sum to the parents.  *)
(* Ideal behaviour: in = cs = 1.  A vector lies between the parents of     *)
(* pair m2 / two outputs sum to the parents of pair m2 if that follows     *)
(* from the provenance (generic position otherwise).                       *)
PV(t, m, k, ch, in, cs) == [t |-> t, m |-> m, k |-> k, ch |-> ch, in |-> in, cs |-> cs]
TagRow(t, d) == [c \in 1..d |-> t]
TagPops(n, d) == {[j \in 1..n |-> TagRow(pat[j], d)] : pat \in Pats(n)}
PairTags(a, m) == {a.pin[2 * m - 1][1], a.pin[2 * m][1]}
Identical(a, m) == a.pin[2 * m - 1] = a.pin[2 * m]
KeptPV(a, m) == <<PV(a.pin[2 * m - 1][1], m, 1, 0, 1, 1), PV(a.pin[2 * m][1], m, 2, 0, 1, 1)>>
KidsPV(a, m, x, y, in, cs) == IF a.both = 1 THEN <<PV(x, m, 1, 1, in, cs), PV(y, m, 2, 1, 1, 1)>> ELSE <<PV(x, m, 1, 1, in, cs)>>
KidTags(a, m) == {0} \cup (IF Identical(a, m) THEN {a.pin[2 * m][1]} ELSE {})
ArithPairOut(a, m) ==
    (IF a.pr # 2 THEN {KeptPV(a, m)} ELSE {})
    \cup (IF a.pr # 0 THEN {KidsPV(a, m, x, y, 1, 1) : x, y \in KidTags(a, m)} ELSE {})
RECURSIVE FlatSeq(_)
FlatSeq(ss) == IF ss = <<>> THEN <<>> ELSE ss[1] \o FlatSeq(Tail(ss))
RestPV(a) == LET n == Len(a.pin) IN IF n % 2 = 1 THEN <<PV(a.pin[n][1], 0, 1, 0, 1, 0)>> ELSE <<>>
ArithProvs(a) == {FlatSeq(ch) \o RestPV(a) : ch \in Prod([m \in 1..(Len(a.pin) \div 2) |-> ArithPairOut(a, m)])}
ArithReply(a, pv) ==
    LET np == Len(a.pin) \div 2
        between(x, m2) == IF x.t # 0 THEN (IF x.t \in PairTags(a, m2) THEN 1 ELSE 0)
                          ELSE IF x.in = 1 /\ PairTags(a, x.m) = PairTags(a, m2) THEN 1 ELSE 0
        cons(o, m2) == IF /\ o + 1 <= Len(pv) /\ pv[o].m # 0 /\ pv[o].m = pv[o + 1].m /\ pv[o].k = 1 /\ pv[o + 1].k = 2
                          /\ pv[o].cs = 1 /\ PairTags(a, pv[o].m) = PairTags(a, m2)
                       THEN 1 ELSE 0
    IN [CR("ok", [o \in 1..Len(pv) |-> TagRow(pv[o].t, a.dim)], a.base, Height(a), <<>>, <<>>)
          EXCEPT !.pred  = [o \in 1..Len(pv) |-> [m2 \in 1..np |-> between(pv[o], m2)]],
                 !.pred2 = [o \in 1..Len(pv) |-> [m2 \in 1..np |-> cons(o, m2)]]]
(* behaviours that break C13, as provenances (every other pair behaves     *)
(* ideally: kept if pc # 1, crossed if pc = 1)                             *)
ArithBad(a) ==
    LET np == Len(a.pin) \div 2
        Def(m) == IF a.pr # 2 THEN KeptPV(a, m) ELSE KidsPV(a, m, 0, 0, 1, 1)
        First(x) == FlatSeq([m \in 1..np |-> IF m = 1 THEN x ELSE Def(m)]) \o RestPV(a)
    IN \* identical parents are kept although pc = 1 and one child per pair is due; every pair is kept
       (IF a.pr = 2 /\ a.both = 0 /\ \E m \in 1..np : Identical(a, m)
        THEN {FlatSeq([m \in 1..np |-> IF Identical(a, m) THEN KeptPV(a, m) ELSE Def(m)]) \o RestPV(a)} ELSE {})
       \cup (IF a.pr = 2 /\ a.both = 0 /\ np >= 1 THEN {FlatSeq([m \in 1..np |-> KeptPV(a, m)]) \o RestPV(a)} ELSE {})
       \* a pair is crossed although pc = 0
       \cup (IF a.pr = 0 /\ np >= 1 THEN {First(KidsPV(a, 1, 0, 0, 1, 1))} ELSE {})
       \* one new vector too many
       \cup {pv \o <<PV(0, 0, 1, 1, 0, 0)>> : pv \in ArithProvs(a)}
       \* a child outside the hull of its parents; two children that do not sum to their parents
       \cup (IF a.pr # 0 /\ np >= 1 THEN {First(KidsPV(a, 1, 0, 0, 0, 1))} ELSE {})
       \cup (IF a.pr # 0 /\ np >= 1 /\ a.both = 1 THEN {First(KidsPV(a, 1, 0, 0, 1, 0))} ELSE {})

(* replies of an instance that obeys the parameters in `a` (reg, mag: below) *)
GenE(a) ==
    LET n == Len(a.pin) d == a.dim IN
    CASE a.c \in RealMut ->
            IF a.pr = 3 \/ a.st = StBad THEN {ErrR("err")}
            ELSE IF a.pr = 0 THEN {OkR(a, a.pin)}
            ELSE {OkR(a, o) : o \in [1..n -> [1..d -> {0, 1}]]}
      [] a.c = "BitFlipMutation" ->
            IF a.pr = 3 THEN {ErrR("err")}
            ELSE IF a.pr = 0 THEN {OkR(a, a.pin)}
            ELSE IF a.pr = 2 THEN {OkR(a, [j \in 1..n |-> [c \in 1..d |-> 1 - a.pin[j][c]]])}
            ELSE {OkR(a, o) : o \in [1..n -> [1..d -> {0, 1}]]}
      [] a.c = "PartialRandomBitstring" ->
            IF a.pr = 3 THEN {ErrR("err")}
            ELSE IF a.pr = 0 THEN {OkR(a, a.pin)}
            ELSE {OkR(a, o) : o \in {o \in [1..n -> [1..d -> {0, 1}]] :
                    \A j \in 1..n : \A c \in 1..d :
                        /\ a.p2 = 0 => o[j][c] = (IF a.pr = 2 THEN 0 ELSE o[j][c] * a.pin[j][c])
                        /\ a.p2 = 2 => o[j][c] = (IF a.pr = 2 THEN 1 ELSE Hi(o[j][c], a.pin[j][c]))}}
      [] a.c = "ScrambleMutation" ->
            IF a.pr = 3 THEN {ErrR("err")}
            ELSE IF a.pr = 0 THEN {OkR(a, a.pin)}
            ELSE {OkR(a, o) : o \in Prod([j \in 1..n |-> PermsOf(a.pin[j])])}
      [] a.c = "SwapMutation" ->
            IF a.np < 2 THEN {ErrR("ctor_err")}
            ELSE IF n > 0 /\ a.np > d THEN {ErrR("err")}
            ELSE {OkR(a, o) : o \in Prod([j \in 1..n |-> {CircularSwap(a.pin[j], ix) : ix \in InjSeqs(d, a.np)}])}
      [] a.c = "InversionMutation" ->
            {OkR(a, o) : o \in Prod([j \in 1..n |->
                {Rev(a.pin[j], x[1], x[2]) : x \in {x \in InjSeqs(d + 1, 2) : x[1] < x[2]}} \cup {a.pin[j]}])}
      [] a.c = "InsertionMutation" ->
            {OkR(a, o) : o \in Prod([j \in 1..n |->
                {Translocate(a.pin[j], e, e + 1, i) : e \in 0..d - 1, i \in 0..d - 1}])}
      [] a.c = "TranslocationMutation" ->
            {OkR(a, o) : o \in Prod([j \in 1..n |->
                UNION {{Translocate(a.pin[j], x[1], x[2], i) : i \in 0..d - (x[2] - x[1])}
                       : x \in {x \in InjSeqs(d + 1, 2) : x[1] < x[2]}}])}
      [] a.c \in GeneX ->
            LET Kids(p1, p2) ==
                    CASE a.c = "NPointCrossover"  ->
                            {MultiPointAny(p1, p2, ix) : ix \in InjSeqs(Lo(Len(p1), Len(p2)), a.np)}
                      [] a.c = "UniformCrossover" -> {Uniform(p1, p2, m) : m \in [1..d -> {0, 1}]}
                      [] OTHER -> {CycleX(p1, p2)}
                PairOut(p1, p2) ==
                    (IF a.pr # 2 THEN {<<p1, p2>>} ELSE {}) \cup
                    (IF a.pr # 0 THEN {IF a.both = 1 THEN k ELSE <<k[1]>> : k \in Kids(p1, p2)} ELSE {})
                Flat(ss) == IF Len(ss) = 0 THEN <<>> ELSE IF Len(ss) = 1 THEN ss[1] ELSE ss[1] \o ss[2]
                pairs == [m \in 1..(n \div 2) |-> PairOut(a.pin[2 * m - 1], a.pin[2 * m])]
                tail == IF n % 2 = 1 THEN <<a.pin[n]>> ELSE <<>>
            IN {OkR(a, Flat(ch) \o tail) : ch \in Prod(pairs)}
      [] a.c = "ArithmeticCrossover" -> {ArithReply(a, pv) : pv \in ArithProvs(a)}
      [] a.c \in DEX ->
            LET Sets == IF a.pr = 2 THEN {1..d}
                        ELSE IF a.c = "DEBinomialCrossover"
                             THEN {S \in SUBSET (1..d) : S # {} /\ (a.pr = 0 => Cardinality(S) = 1)}
                             ELSE {S \in SUBSET (1..d) : CircularRun(S, d) /\ (a.pr = 0 => Cardinality(S) = 1)}
            IN {OkR(a, o) : o \in Prod([j \in 1..n |->
                    {[c \in 1..d |-> IF c \in S THEN a.base[j][c] ELSE a.pin[j][c]] : S \in Sets}])}
      [] OTHER -> {}

(* ... with the observations: the parameter states read back, and for      *)
(* UniformMutation the magnitude classes (every moved coordinate in the    *)
(* same class m, for every class the effective bound allows)               *)
Dress(a, r) ==
    LET reg == IF a.c \in IdComps /\ r.k \in {"ok", "err"}
               THEN [k \in 1..Len(IdSeq) |-> RegOf(a)[IdSeq[k]]] ELSE <<>>
        blt == IF r.k \in {"ok", "err"} THEN <<Built(a).pr, Built(a).p2, Built(a).both, a.st, a.np>> ELSE <<>>
    IN [r EXCEPT !.reg = reg, !.built = blt]
Gen(a) ==
    LET e == Eff(a)
    IN UNION {
        IF a.c = "UniformMutation" /\ r.k = "ok"
        THEN {[Dress(a, r) EXCEPT !.mag = [j \in 1..Len(r.out) |-> [c \in 1..Len(r.out[j]) |-> r.out[j][c] * m]]]
              : m \in 1..e.st}
        ELSE {Dress(a, r)}
        : r \in GenE(e)}

Nrel(np, d) == IF 1 <= np /\ np < d THEN 0 ELSE 1
\* strengths: exactly 0 (ladder index 1), the next one, the largest (f64::MAX), an invalid one
St(c) == IF c \in StrComps THEN {1, 2, StTop, StBad} ELSE {0}
BaseCases(d) ==
        {[CA(c, 0, pr, 0, 0, d, 1, Zeros(n, d), <<>>) EXCEPT !.st = st] : c \in RealMut, pr \in 0..3, n \in 0..2, st \in {0, 1, 2, StTop, StBad}}
        \cup {CA("BitFlipMutation", 0, pr, 0, 0, d, 1, pin, <<>>) : pr \in 0..3, pin \in BitPops(d)}
        \cup {CA("PartialRandomBitstring", 0, pr, p2, 0, d, 1, pin, <<>>) : pr \in 0..3, p2 \in 0..2, pin \in BitPops(d)}
        \cup {CA("ScrambleMutation", 0, pr, 0, 0, d, 1, pin, <<>>) : pr \in 0..3, pin \in PermPops(d)}
        \cup {CA("SwapMutation", np, 0, 0, 0, d, Nrel(np, d), pin, <<>>) : np \in 0..d + 1, pin \in PermPops(d)}
        \cup {CA(c, 0, 0, 0, 0, d, 1, pin, <<>>) :
                c \in {"InversionMutation", "InsertionMutation", "TranslocationMutation"}, pin \in PermPops(d)}
        \cup UNION {{CA("NPointCrossover", np, pr, 0, both, d, 0, pin, <<>>) :
                        np \in 1..d - 1, pr \in 0..2, both \in {0, 1}, pin \in DupPops(n, d) \cup RagPops(n, d)}
                    : n \in 0..CompN}
        \cup UNION {{CA("UniformCrossover", 0, pr, 0, both, d, 1, pin, <<>>) :
                        pr \in 0..2, both \in {0, 1}, pin \in DupPops(n, d)}
                    : n \in 0..CompN}
        \cup {CA("CycleCrossover", 0, pr, 0, both, d, 1, pin, <<>>) :
                pr \in 0..2, both \in {0, 1},
                pin \in PermPops(d) \cup {<<IdP(d), RevP(d), RevP(d)>>, <<RevP(d), RevP(d), IdP(d)>>}}
        \cup UNION {{CA("ArithmeticCrossover", 0, pr, 0, both, d, 1, pin, <<>>) :
                        pr \in 0..2, both \in {0, 1}, pin \in TagPops(n, d)}
                    : n \in 0..CompN}
        \* DE crossovers: distinct mutants over distinct bases; duplicates among the mutants; mutants identical to
        \* their bases (a mutation without effect, a converged population)
        \cup UNION {UNION {{CA(c, 0, pr, 0, 0, d, 1, pin, base) : c \in DEX, pr \in 0..2, base \in {LabPop(n, d, 4), pin}}
                           : pin \in DupPops(n, d)}
                    : n \in 0..2}
(* a base case built through constructor ct instead of `new`: the          *)
(* arguments ct does not take are dropped                                  *)
Via(a, ct) == [a EXCEPT !.ctor = ct,
                        !.pr = IF FixPr(ct) # NoVal THEN NoVal ELSE a.pr,
                        !.p2 = IF FixP2(ct) # NoVal THEN NoVal ELSE a.p2,
                        !.both = IF FixBoth(ct) # NoVal THEN NoVal ELSE a.both]
(* every constructor of every component on every base case of the smallest *)
(* dimension; the larger dimensions through `new`                          *)
CtorCases(d) == UNION {{Via(a, ct) : ct \in (IF d = 2 THEN Ctors(a.c) ELSE {"new"})}
                       : a \in {b \in BaseCases(d) : b.st \in St(b.c)}}
(* instances under identifier i, alone or with a sibling under another      *)
(* identifier, with at most one adaptation, on one-individual populations  *)
IdBase == {a \in BaseCases(2) : /\ a.c \in IdComps /\ a.st = (IF a.c \in StrComps THEN 1 ELSE 0) /\ a.pr # 1 /\ a.p2 # 1
                                /\ a.pin \in {Zeros(1, 2), <<IdP(2)>>}}
SibSt(c) == IF c \in StrComps THEN {2, StBad} ELSE {0}
\* (s = i: an earlier instance under the executed instance's own identifier; up = 1: in the enclosing scope)
Sibs(c, i) == {<<>>} \cup {<<[id |-> s, pr |-> x, st |-> y, up |-> u]>> : s \in IdsMC, x \in {0, 2, 3}, y \in SibSt(c), u \in {0, 1}}
Adapts(c, i, sb) ==
    LET ids == {i} \cup {sb[k].id : k \in DOMAIN sb} IN
    {<<>>} \cup {<<[id |-> t, w |-> 1, v |-> x]>> : t \in ids, x \in {0, 3}}
           \cup (IF c \in StrComps THEN {<<[id |-> t, w |-> 2, v |-> y]>> : t \in ids, y \in {2, StBad}} ELSE {})
IdCases == UNION {UNION {{[Via(a, ct) EXCEPT !.id = i, !.sibs = sb, !.adapt = ad] : ad \in Adapts(a.c, i, sb)}
                         : sb \in Sibs(a.c, i)}
                  : a \in IdBase, ct \in IdCtors, i \in IdsMC}
CompCases == UNION {CtorCases(d) : d \in Dims} \cup IdCases

GenStep(a, r) == cact' = a /\ cres' = r /\ UNCHANGED <<act, res>>

(* The cases are partitioned into groups, one initial state per group      *)
(* (first parent / permutation of a helper, or a component): TLC enumerates *)
(* the cases of a group as the successors of its initial state, with nested *)
(* quantifiers instead of one huge set of records, and in parallel.         *)
VARIABLE grp
ParentsP == UNION {[1..n -> {0, 1}] : n \in 1..MaxPar} \cup {[j \in 1..n |-> 10 + j] : n \in LabLens}
ArithP   == UNION {[1..n -> ArithVals] : n \in 1..MaxArith}
ArithXP  == UNION {[1..n -> ArithXVals] : n \in 1..MaxArithX}
CycP     == UNION {Perms(n) : n \in 1..MaxCyc}
CompIx == <<"NormalMutation", "UniformMutation", "PartialRandomSpread", "BitFlipMutation",
            "PartialRandomBitstring", "ScrambleMutation", "SwapMutation", "InversionMutation",
            "InsertionMutation", "TranslocationMutation", "NPointCrossover", "UniformCrossover",
            "CycleCrossover", "DEBinomialCrossover", "DEExponentialCrossover", "ArithmeticCrossover">>
ASSUME {a.c : a \in CompCases} = Range(CompIx)
(* the constructor table, for the completeness check against the harness and the source *)
ASSUME PrintT(<<"CTORS", ToJson([c \in Comps |-> Ctors(c)])>>)
Groups == {<<1>> \o p : p \in PermInputs} \cup {<<2>> \o p : p \in PermInputs}
          \cup {<<3>> \o p : p \in ParentsP} \cup {<<4>> \o p : p \in ParentsP}
          \cup {<<5>> \o p : p \in ArithP} \cup {<<6>> \o p : p \in CycP}
          \cup {<<7, k>> : k \in DOMAIN CompIx} \cup {<<8>> \o p : p \in ArithXP}
Mates(p) == IF p[1] >= 10 THEN {[j \in 1..Len(p) |-> 20 + j]} ELSE [1..Len(p) -> {2, 3}]
(* second parents of another length than the first                         *)
UMates(p) == LET n == Len(p) IN
             IF p[1] >= 10 THEN {[j \in 1..m |-> 20 + j] : m \in ((n - 2)..(n + 1)) \ {n}}
             ELSE UNION {[1..m -> {2, 3}] : m \in (1..MaxPar + 1) \ {n}}
(* masks that swap only positions both parents have                        *)
UMasks(n, m) == {[k \in 1..Hi(n, m) |-> IF k <= Lo(n, m) THEN mk[k] ELSE 0] : mk \in [1..Lo(n, m) -> {0, 1}]}

NextFn ==
    LET p == Tail(grp) n == Len(grp) - 1 IN
    CASE grp[1] = 1 -> \E ix \in Tuples(n) : \E op \in SwapOps : DoFn(A(op, p, <<>>, ix, 0, 0, 0))
      [] grp[1] = 2 -> \E a \in 0..n - 1 : \E b \in a..n : \E i \in 0..Lo(n - 1, n - (b - a)) : \E op \in TransOps :
                          DoFn(A(op, p, <<>>, <<>>, a, b, i))
      [] grp[1] = 3 -> \/ \E q \in Mates(p) : \E ix \in Cuts(n) : DoFn(A("multi_point", p, q, ix, 0, 0, 0))
                       \/ \E q \in UMates(p) : \E ix \in Cuts(Lo(n, Len(q))) : DoFn(A("multi_point", p, q, ix, 0, 0, 0))
      [] grp[1] = 4 -> \/ \E q \in Mates(p) : \E m \in [1..n -> {0, 1}] : DoFn(A("uniform", p, q, m, 0, 0, 0))
                       \/ \E q \in UMates(p) : \E m \in UMasks(n, Len(q)) : DoFn(A("uniform", p, q, m, 0, 0, 0))
      [] grp[1] = 5 -> \/ \E q \in [1..n -> ArithVals] : \E al \in [1..n -> 0..4] : DoFn(A("arithmetic", p, q, al, 0, 0, 0))
                       \/ \E m \in (1..MaxArith) \ {n} : \E q \in [1..m -> ArithVals] : \E al \in [1..Hi(n, m) -> 0..4] :
                              DoFn(A("arithmetic", p, q, al, 0, 0, 0))
      [] grp[1] = 6 -> \E q \in Perms(n) : DoFn(A("cycle", p, q, <<>>, 0, 0, 0))
      [] grp[1] = 8 -> \E q \in [1..n -> ArithXVals] : \E al \in [1..n -> 0..AlphaTop] : DoFn(A("arith_x", p, q, al, 0, 0, 0))
      [] OTHER -> FALSE
NextComp ==
    grp[1] = 7 /\ \E a \in {a \in CompCases : a.c = CompIx[grp[2]]} : \E r \in Gen(a) : GenStep(a, r)

Fresh == act.op = "init" /\ cact.c = "-"
MCInit == Init /\ grp \in Groups
Next == Fresh /\ (NextFn \/ NextComp) /\ UNCHANGED grp
Spec == MCInit /\ [][Next]_<<vars, grp>>

(* the recogniser used in trace validation accepts every ideal behaviour   *)
RelAccepts == cact.c # "-" => ValidComp(cact) /\ CompRel(cact, cres)
(* ... and rejects corrupted replies                                       *)
Corrupt(r) ==
    {[r EXCEPT !.k = "panic"]}
    \cup (IF r.k = "ok" THEN {[r EXCEPT !.out = Append(r.out, [c \in 1..cact.dim |-> 77])],
                              [r EXCEPT !.h = r.h + 1]} ELSE {})
    \cup (IF r.k = "ok" /\ Len(r.out) > 0 THEN {[r EXCEPT !.out[1][1] = 77]} ELSE {})
    \cup (IF r.reg # <<>> THEN {[r EXCEPT !.reg[1][1] = (r.reg[1][1] + 1) % 4],     \* another rate under Global
                                [r EXCEPT !.reg = <<>>]} ELSE {})
    \cup (IF r.built # <<>> THEN {[r EXCEPT !.built[k] = IF r.built[k] = 0 THEN 1 ELSE 0] : k \in 1..5} ELSE {})
    \cup (IF r.mag # <<>> /\ Len(r.mag) > 0 /\ r.k = "ok"
          THEN {[r EXCEPT !.mag[1][1] = Eff(cact).st + 1]} ELSE {})              \* moved further than the bound
    \* offspring counts that do not follow pc / insert_both (whatever the parents look like): with pc = 1 and
    \* insert-single both parents of every pair are kept; with pc in {0, 1} an individual is missing
    \cup (IF r.k = "ok" /\ cact.c \in GeneX /\ Eff(cact).pr = 2 /\ Eff(cact).both = 0 /\ Len(cact.pin) >= 2
          THEN {[r EXCEPT !.out = cact.pin]} ELSE {})
    \cup (IF r.k = "ok" /\ cact.c \in GeneX /\ Eff(cact).pr # 1 /\ Len(r.out) >= 1
          THEN {[r EXCEPT !.out = Tail(r.out)]} ELSE {})
    \* ragged pair, both children inserted: the second child replaced by a copy of the first (one parental length
    \* and the genes of one tail lost), a child that lost its last gene
    \cup (IF r.k = "ok" /\ cact.c = "NPointCrossover" /\ Eff(cact).both = 1 /\ Len(r.out) >= 2
             /\ Len(r.out[1]) # Len(r.out[2])
          THEN {[r EXCEPT !.out[2] = r.out[1]],
                [r EXCEPT !.out[1] = SubSeq(r.out[1], 1, Len(r.out[1]) - 1)]} ELSE {})
RelRejects == (cact.c # "-" /\ cact.c # "ArithmeticCrossover") => \A r2 \in Corrupt(cres) : ~CompRel(cact, r2)
(* (ArithmeticCrossover: the predicates must stay consistent with the      *)
(* outputs, so the replies are corrupted at the level of the provenance)   *)
ArithRejects ==
    cact.c = "ArithmeticCrossover" =>
        /\ ~CompRel(cact, [cres EXCEPT !.k = "panic"]) /\ ~CompRel(cact, [cres EXCEPT !.h = cres.h + 1])
        /\ \A pv \in ArithBad(Eff(cact)) : ~CompRel(cact, Dress(cact, ArithReply(Eff(cact), pv)))

ArithValsDefault == {-1, 0, 3}
ArithValsWide == {-2, -1, 0, 3, 5}

(* multi-point crossover of parents of unequal length: the relation        *)
(* accepts the reference, the reference is what the transcribed algorithm  *)
(* computes, and replies in which a child lost / duplicated a tail, a gene *)
(* or a length are rejected                                                *)
MultiPointUAccepts == UnequalMP(act) => MultiPointURel(act, res)
MultiPointUTwin == UnequalMP(act) => MultiPointUAlg(act.p, act.q, act.p, act.q, act.ix) = <<res.c1, res.c2>>
MPCorrupt(r) == LET mn == Lo(Len(act.p), Len(act.q)) IN
    {[r EXCEPT !.c2 = r.c1], [r EXCEPT !.c1 = r.c2], [r EXCEPT !.k = "panic"],
     [r EXCEPT !.c1 = SubSeq(r.c1, 1, Len(r.c1) - 1)], [r EXCEPT !.c2 = Append(r.c2, 77)],
     [r EXCEPT !.c1[1] = 77], [r EXCEPT !.c2[Len(r.c2)] = 77],
     \* both children end with the tail of the same parent
     [r EXCEPT !.c1 = SubSeq(r.c1, 1, mn - 1) \o SubSeq(r.c2, mn, Len(r.c2))],
     [r EXCEPT !.c2 = SubSeq(r.c2, 1, mn - 1) \o SubSeq(r.c1, mn, Len(r.c1))]}
MultiPointURejects == UnequalMP(act) => \A r2 \in MPCorrupt(res) : ~MultiPointURel(act, r2)

(* the relation used for extreme genes accepts the exact reference and     *)
(* rejects replies with one gene outside / not finite / not conserved /    *)
(* not the parental gene at an end of the alpha range                      *)
ArithXAccepts == act.op = "arith_x" => ArithXRel(act, res)
XCorrupt(r) == UNION {{[r EXCEPT !.c1[j] = r.c1[j] + x], [r EXCEPT !.c2[j] = r.c2[j] + x]} : j \in 1..Len(r.c1), x \in 1..4}
               \cup {[r EXCEPT !.c1[j] = r.c1[j] - 40] : j \in 1..Len(r.c1)}
               \cup {[r EXCEPT !.c1[j] = (r.c1[j] % 10) + 40] : j \in {jj \in 1..Len(r.c1) : act.ix[jj] \in {0, AlphaTop}}}
               \cup {[r EXCEPT !.k = "panic"]}
ArithXRejects == act.op = "arith_x" => \A r2 \in XCorrupt(res) : ~ArithXRel(act, r2)

PrintCase == /\ (act'.op \in FnOps) => PrintT(<<"CASE", ToJson([act |-> act', res |-> res'])>>)
             /\ (cact'.c # "-") => PrintT(<<"CCASE", cact'.c, cres'.k, IF cres'.out = cact'.pin THEN 0 ELSE 1, cact'.ctor,
                                            IF cact'.sibs # <<>> THEN 1 ELSE 0, IF cact'.adapt # <<>> THEN 1 ELSE 0,
                                            \* an identical adjacent pair / a ragged population, by insert_both and pc
                                            IF HasDup(cact'.pin) THEN 10 * Eff(cact').both + Eff(cact').pr + 1 ELSE 0,
                                            IF Ragged(cact'.pin) THEN 10 * Eff(cact').both + Eff(cact').pr + 1 ELSE 0>>)
=============================================================================
