---------------------------- MODULE Trace_Memory ----------------------------
EXTENDS Memory, TLC, Json, IOUtils
Rec == ndJsonDeserialize(IOEnv.TRACE)
VARIABLE l
TraceInit == MInit /\ l = 1
Reset == /\ Rec[l].act.op = "reset"
         /\ pop' = <<>> /\ best' = NoInd /\ arch' = <<>> /\ shownK' = <<>> /\ evals' = 0 /\ calls' = 0 /\ reg' = <<1, 0>>
         /\ act' = Rec[l].act /\ res' = R("ok", 0)
Step == /\ Rec[l].act.op # "reset"
        /\ CASE Rec[l].act.op = "archive_update" -> ArchiveUpdate(Rec[l].arch)
             [] Rec[l].act.op = "archive_into_population" -> ReinsertInto(Rec[l].pop)
             [] Rec[l].act.op \in UserMutOps -> UserMutation(Rec[l].act, Rec[l].pop)
             [] Rec[l].act.op = "user_select_replace" -> UserSelectReplace(Rec[l].act, Rec[l].pop)
             [] OTHER -> Do(Rec[l].act)
        /\ res' = Rec[l].res
        /\ pop' = Rec[l].pop /\ best' = Rec[l].best /\ arch' = Rec[l].arch
        /\ evals' = Rec[l].evals /\ calls' = Rec[l].calls
TraceNext == l <= Len(Rec) /\ (Reset \/ Step) /\ l' = l + 1
TraceSpec == TraceInit /\ [][TraceNext]_<<mvars, l>>
\* the archive invariant is also evaluated in every state of every implementation trace
TraceDone == PrintT(<<"TRACE_RESULT", TLCGet("stats").diameter - 1, Len(Rec)>>)
=============================================================================
