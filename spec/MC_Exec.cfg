SPECIFICATION ESpec
CONSTANTS
  LeafVariants = {"plain", "ins0", "req0"}
  MaxStmts = 2
  MaxScript = 2
  MaxFault = 3
INVARIANT TypeOK InitOnceOutsideScopes RequireBeforeExecute FirstErrorStopsAll ScopesClosedAtEnd CondReinitAndTestBeforePass BodyOnlyAfterTrueTest RootAccounting ScopeEntryFresh
CHECK_DEADLOCK FALSE
