--------------------------- MODULE MC_Populations ---------------------------
EXTENDS Populations, TLC, Json
McView == stack
PopsQ == {<<>>, <<1>>, <<2, 1>>}
PopsT == {<<>>, <<1>>, <<2, 1>>, <<1, 1>>, <<3, 1, 2>>}
PrintEdge == PrintT(<<"EDGE", ToJson([from |-> stack, act |-> act', res |-> res', to |-> stack'])>>)
=============================================================================
