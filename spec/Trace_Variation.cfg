SPECIFICATION TraceSpec
POSTCONDITION TraceDone
CHECK_DEADLOCK FALSE
