SPECIFICATION HSpec
CONSTANTS
  Lens = {"iter"}
  Val = {0, 1, 2}
  Ns = {}
  Ds = {1, 2}
  Pts = {0, 5, 10}
  Ops = {"set", "co"}
  MaxTrials = 0
  MaxDepth = 0
  MaxArity = 0
  MaxLeaves = 0
  Eps = {}
  Opts = {}
  MaxPSize = 0
  MaxPDepth = 0
  MaxHist = 4
VIEW HView
CONSTRAINT HBound
INVARIANT TypeOK PrevIsLastReported RepliesFollowHistory
PROPERTY ChangeExact UnreadableIsError
CHECK_DEADLOCK FALSE
