------------------------------ MODULE Logging ------------------------------
(***************************************************************************)
(* C15, log part: mahf's Logger component placed in configurations run by  *)
(* the reference interpreter of Exec.tla.  A case = (program over ins0 /    *)
(* log leaves, condition script, rule set); the caller's state holds a      *)
(* pass counter, K0 only where a leaf inserted it, U = 7, never MISSING.    *)
(* Properties are stated over the produced log and the ghost record of      *)
(* Logger executions (what each saw, which triggers fired).                 *)
(***************************************************************************)
EXTENDS Exec

VARIABLE rules
lvars == <<prog, script, fault, full, rules>>

\* a rule set is given by the LogConfig calls that make it (Exec.tla: Expand); Rule = one `with` (`with_auto` for PG)
Add(tk, via, srcs) == [tk |-> tk, via |-> via, srcs |-> srcs]
Rule(tk, src) == Add(tk, IF src = "PG" THEN "auto" ELSE "with", <<src>>)
Common(tk) == Add(tk, "common", <<>>)
RuleSets ==
    { <<>>,
      <<Rule("always", "K0")>>, <<Rule("never", "K0")>>, <<Rule("every2", "U")>>, <<Rule("scripted", "K0")>>,
      <<Rule("always", "MISSING")>>, <<Rule("always", "IT")>>,
      <<Rule("always", "K0"), Rule("always", "K0")>>,        \* repeated name: first rule wins
      <<Rule("never", "K0"), Rule("always", "K0")>>,
      \* a shadowed rule's (stateful) trigger is still evaluated, once per execution
      <<Rule("every2", "K0"), Rule("scripted", "K0")>>,
      <<Rule("always", "BV")>>, <<Rule("every2", "BV"), Rule("always", "U")>>,       \* a lens over a memory that is still empty
      <<Rule("always", "PG")>>, <<Rule("every2", "PG"), Rule("always", "K0")>>,     \* a float state (values above 1 too)
      <<Rule("always", "U"), Rule("scripted", "U"), Rule("scripted", "K0")>>,
      <<Rule("scripted", "U"), Rule("every2", "K0")>>,
      <<Rule("every2", "IT"), Rule("always", "U"), Rule("scripted", "MISSING")>>,
      \* steps that bring names no earlier step had, next to steps that lack names earlier steps had (name table of the exports)
      <<Rule("scripted", "U"), Rule("late", "K0")>>, <<Rule("late", "PG"), Rule("scripted", "MISSING"), Rule("late", "U")>>,
      \* every convenience of LogConfig: the shorthand for the common values (alone, shadowed by / shadowing a spelled-out
      \* rule of the same name, next to the progress of the OTHER counter), several extractors under one trigger, whole states
      <<Common("always")>>, <<Common("every2"), Rule("always", "PE")>>,
      <<Rule("never", "EV"), Common("always")>>, <<Common("never"), Add("always", "auto", <<"PI">>)>>,
      <<Add("always", "many", <<"K0", "U">>)>>, <<Add("every2", "many", <<"U", "PE", "U", "IT">>), Rule("always", "EV")>>,
      <<Add("always", "many", <<>>), Add("always", "auto", <<"K0">>)>>,
      <<Add("every2", "auto", <<"EV">>), Add("always", "auto", <<"MISSING">>)>> }

LInit == /\ prog \in Programs(MaxStmts)
         /\ script \in Scripts(MaxScript)
         /\ fault = <<"none", 0>>
         /\ rules \in RuleSets
         /\ full = RunProgX(prog, script, fault, Expand(rules), 0)
LNext == UNCHANGED lvars
LSpec == LInit /\ [][LNext]_lvars

Log == full.log
LX == full.lx
\* (the rules in force at an execution are part of its ghost record: seeded scopes add rules while the run is under way)
FiringIdx == {k \in 1..Len(LX) : \E j \in 1..Len(LX[k].rules) : LX[k].fired[j] = 1}
RECURSIVE Nth(_, _)
Nth(S, n) == LET m == CHOOSE x \in S : \A y \in S : x <= y IN IF n = 1 THEN m ELSE Nth(S \ {m}, n - 1)

\* exactly one step per Logger execution in which at least one trigger fired, in execution order;
\* executions in which nothing fires add nothing
OneStepPerFiringExecution == Len(Log) = Cardinality(FiringIdx)

Names(step) == {step[i].n : i \in 1..Len(step)}
FiredSrcs(x) == {x.rules[j].src : j \in {j \in 1..Len(x.rules) : x.fired[j] = 1}}
\* what the named source holds: K0 / U / IT themselves; PG, EV (evaluations), PI (progress of the iterations) and PE
\* (progress of the evaluations) are kept next to K0 by the leaves as 3 K0, K0 + 10, K0 + 20, K0 + 30
VisAt(sc, src) == IF src \in {"MISSING", "BV"} THEN NoVal
                  ELSE IF src \in {"PG", "EV", "PI", "PE"}
                       THEN (IF Vis(sc, "K0") = NoVal THEN NoVal
                             ELSE CASE src = "PG" -> 3 * Vis(sc, "K0") [] src = "EV" -> Vis(sc, "K0") + 10
                                    [] src = "PI" -> Vis(sc, "K0") + 20 [] src = "PE" -> Vis(sc, "K0") + 30)
                  ELSE Vis(sc, src)

\* a step holds one entry per fired rule (one per name), each with the value the state had at that
\* moment (null if the source state is missing), together with the current iteration count, first
StepsExact ==
    \A k \in 1..Len(Log) :
        LET x == LX[Nth(FiringIdx, k)]
            step == Log[k] IN
        /\ Names(step) = FiredSrcs(x) \cup {"IT"}
        /\ Len(step) = Cardinality(Names(step))                    \* no name twice
        /\ step[1].n = "IT" \/ "IT" \in FiredSrcs(x)
        /\ \A i \in 1..Len(step) : step[i].v = VisAt(x.sc, step[i].n)
        /\ \A i \in 1..Len(step) : step[i].n \in {"MISSING", "BV"} => step[i].v = NoVal

\* entries keep rule order (first rule wins for a repeated name)
RuleOrderKept ==
    \A k \in 1..Len(Log) :
        LET x == LX[Nth(FiringIdx, k)]
            step == Log[k]
            first(src) == CHOOSE j \in 1..Len(x.rules) : x.rules[j].src = src /\ x.fired[j] = 1
                              /\ \A j2 \in 1..Len(x.rules) : (x.rules[j2].src = src /\ x.fired[j2] = 1) => j <= j2 IN
        \A a, b \in 1..Len(step) :
            (a < b /\ step[a].n \in FiredSrcs(x) /\ step[b].n \in FiredSrcs(x) /\ (step[a].n # "IT" \/ "IT" \in FiredSrcs(x))
               /\ (step[1].n # "IT" \/ "IT" \in FiredSrcs(x) \/ a > 1))
              => first(step[a].n) < first(step[b].n)

LTypeOK == full.end.result = "ok"
=============================================================================
