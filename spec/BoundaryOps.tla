---------------------------- MODULE BoundaryOps ----------------------------
(***************************************************************************)
(* Constant-level definitions shared by Boundary (one action per component *)
(* execution) and BoundaryLoop (the repair loops step by step).            *)
(*                                                                         *)
(* A coordinate of a real-valued solution is seen relative to the domain   *)
(* [lo, hi] of its dimension (w = hi - lo):                                *)
(*   class c : below | at_lo | inside | at_hi | above          (P-class)   *)
(*             below_r / above_r = outside, but within the rounding error  *)
(*             of the bound arithmetic (harness: 8 eps max(|lo|,|hi|))     *)
(*             far_below / far_above = finite, more than 1e15 widths away  *)
(*             nan | posinf | neginf                                       *)
(*   lattice index k : x = lo + k*w/8 exactly, NoK if x is no such point   *)
(* so k = 0 is the lower and k = 8 the upper bound.  Integer and Boolean   *)
(* genes (permutations, bitstrings) are coordinates of class "int".        *)
(***************************************************************************)
EXTENDS Integers, Sequences, FiniteSets

NoK == 999999
NoN == 999999

InsideC  == {"at_lo", "inside", "at_hi"}
RoundC   == {"below_r", "above_r"}            \* outside by rounding only
BelowC   == {"below", "below_r", "far_below"}   \* far_*: more than 1e15 widths away (finite)
AboveC   == {"above", "above_r", "far_above"}
OutsideC == BelowC \cup AboveC
RealC    == InsideC \cup OutsideC \cup {"nan", "posinf", "neginf"}

ClassOfK(k) == IF k < 0 THEN "below" ELSE IF k = 0 THEN "at_lo" ELSE IF k < 8 THEN "inside"
               ELSE IF k = 8 THEN "at_hi" ELSE "above"

C(c, k)  == [c |-> c, k |-> k]
LatC(k)  == C(ClassOfK(k), k)
G(v)     == C("int", v)                        \* integer / Boolean gene

\* class and lattice index of a logged coordinate agree
WellFormed(x) == /\ x.c \in RealC
                 /\ x.k # NoK => x.c = ClassOfK(x.k)
                 /\ x.c \in {"at_lo", "at_hi"} => x.k = (IF x.c = "at_lo" THEN 0 ELSE 8)

IsInside(x) == x.c \in InsideC

---------------------------------------------------------------------------
(* The repair functions on lattice indices.                                *)
SatK(k) == IF k < 0 THEN 0 ELSE IF k > 8 THEN 8 ELSE k            \* Saturation: clamp

ReflectK(k) == IF k < 0 THEN -k ELSE IF k > 8 THEN 16 - k ELSE k  \* one reflection at the violated bound
DistK(k)    == IF k < 0 THEN -k ELSE IF k > 8 THEN k - 8 ELSE 0   \* distance outside, the loop variant

\* Mirror: reflect until inside the CLOSED interval; fuel = the variant
RECURSIVE MirrorFuel(_, _)
MirrorFuel(k, fuel) == IF DistK(k) = 0 THEN k
                       ELSE IF fuel = 0 THEN NoK
                       ELSE MirrorFuel(ReflectK(k), fuel - 1)
MirrorK(k) == MirrorFuel(k, DistK(k))

\* function-level laws over a set of lattice indices
RepairLaws(K) ==
    \A k \in K :
        /\ DistK(SatK(k)) = 0 /\ DistK(MirrorK(k)) = 0 /\ MirrorK(k) # NoK          \* inside, terminates
        /\ DistK(k) = 0 => (SatK(k) = k /\ MirrorK(k) = k)                           \* inside untouched
        /\ SatK(SatK(k)) = SatK(k) /\ MirrorK(MirrorK(k)) = MirrorK(k)               \* idempotent
        /\ DistK(k) > 0 => DistK(ReflectK(k)) < DistK(k)                             \* variant decreases
=============================================================================
