---------------------------- MODULE Trace_Borrow ----------------------------
EXTENDS Borrow, TLC, Json, IOUtils
Rec == ndJsonDeserialize(IOEnv.TRACE)
VARIABLE l
TraceInit == BInit /\ l = 1
Reset == /\ Rec[l].act.op = "reset"
         /\ scopes' = <<EmptyMap>> /\ act' = Rec[l].act /\ res' = R("ok", NoVal)
         /\ guards' = [g \in Slots |-> Free] /\ held' = <<>>
Step == /\ Rec[l].act.op # "reset"
        /\ Rec[l].act.d < Len(scopes)
        /\ DoB(Rec[l].act)
        /\ res' = Rec[l].res
        /\ scopes' = Rec[l].scopes
        /\ guards' = Rec[l].guards
        /\ held' = Rec[l].held
TraceNext == l <= Len(Rec) /\ (Reset \/ Step) /\ l' = l + 1
TraceSpec == TraceInit /\ [][TraceNext]_<<bvars, l>>
TraceDone == PrintT(<<"TRACE_RESULT", TLCGet("stats").diameter - 1, Len(Rec)>>)
=============================================================================
