------------------------------ MODULE Objective ------------------------------
(***************************************************************************)
(* mahf objective values (src/problems/objective/{single,multi}.rs).       *)
(*                                                                         *)
(* SingleObjective = validated f64 wrapper, MultiObjective = validated     *)
(* Vec<f64>.  The abstract carrier is                                      *)
(*     Ext = {NAN, NEGINF} \cup finite integers \cup {POSINF}              *)
(* encoded as integers so that the numeric order of the extended reals IS  *)
(* the integer order of the codes (NEGINF < every finite < POSINF); NAN is *)
(* a code outside that range and is unordered.                             *)
(*                                                                         *)
(* `vals` = set of abstract values obtained so far through the public API  *)
(* (every operand of a later call is taken from it).  Every public call is *)
(* one action Do(a); `res` is the reply of the abstract object.            *)
(*                                                                         *)
(* Two bindings of the carrier to f64 (variable `mode`):                   *)
(*   "exact": finite code k is the float k (small integers, exact IEEE     *)
(*            arithmetic, no rounding/overflow: the model keeps |r| <= B)  *)
(*   "rank" : finite code r is the dense rank of the float among all the   *)
(*            floats of the run (P-rank, DESIGN 2.4): order facts carry    *)
(*            over exactly, arithmetic is judged by class only (ArithRank) *)
(*   "sci"  : finite code = position of the float on a LATTICE of floats   *)
(*            with few significant bits but the FULL exponent range of f64 *)
(*            (subnormals, MIN_POSITIVE, the binades next to f64::MAX).    *)
(*            The code is an order-preserving integer (so every order fact *)
(*            carries over exactly) from which exponent and significand    *)
(*            are recovered; the spec computes sums, products and          *)
(*            quotients exactly on it, including gradual underflow         *)
(*            (round to nearest, ties to even, at 2^-1074) and overflow,   *)
(*            and so says which NUMBER every arithmetic operator has to    *)
(*            hand out for operands of extreme magnitude.  A result that   *)
(*            leaves the lattice is judged by its class (reply "off").     *)
(*                                                                         *)
(* The spec states the IDEAL: an arithmetic operator whose IEEE result is  *)
(* NaN or -inf does not yield an objective value (reply "illegal").        *)
(*                                                                         *)
(* act = [op, f, a, b, ca, cb, xs, ys]   res = [k, v, c, s]   one shape.   *)
(***************************************************************************)
EXTENDS Integers, Sequences, FiniteSets

CONSTANTS M,        \* constructor inputs / scalar operands of the model: -M..M and the specials
          B,        \* finite results are kept while |r| <= B (no overflow in the model)
          MaxList,  \* longest list handed to sort/min/max in the model
          VecDom,   \* component values of multi-objective vectors in the model
          MaxVec,   \* longest multi-objective vector in the model
          SciIn,    \* positive lattice codes offered in mode "sci" ({}: the model runs in mode "exact")
          SciNeg    \* those offered with a negative sign as well (a TLC configuration has no negative literals)

NAN    == 2000000
POSINF == 1000000
NEGINF == -1000000
NoVal  == 3000000
NoC    == "-"

VARIABLES vals, mode, act, res
vars == <<vals, mode, act, res>>

IsFin(v)   == v > NEGINF /\ v < POSINF
IsLegal(v) == IsFin(v) \/ v = POSINF
ClassOf(v) == IF v = NAN THEN "nan" ELSE IF v = NEGINF THEN "neginf" ELSE IF v = POSINF THEN "posinf"
              ELSE IF v < 0 THEN "neg" ELSE IF v = 0 THEN "zero" ELSE "pos"
Classes      == {"nan", "neginf", "neg", "zero", "pos", "posinf"}
LegalClasses == {"neg", "zero", "pos", "posinf"}

R(k, v)        == [k |-> k, v |-> v, c |-> NoC, s |-> <<>>]
RC(k, v, c)    == [k |-> k, v |-> v, c |-> c, s |-> <<>>]
RS(k, s)       == [k |-> k, v |-> NoVal, c |-> NoC, s |-> s]
A(op, f, a, b, ca, cb, xs, ys) ==
    [op |-> op, f |-> f, a |-> a, b |-> b, ca |-> ca, cb |-> cb, xs |-> xs, ys |-> ys]

---------------------------------------------------------------------------
(* IEEE-754 on the carrier, the rules that matter at this level.           *)
Sg(v) == IF v < 0 THEN -1 ELSE IF v > 0 THEN 1 ELSE 0          \* v # NAN
Inf(s) == IF s > 0 THEN POSINF ELSE NEGINF

NegE(a) == IF a = NAN THEN NAN ELSE IF a = POSINF THEN NEGINF ELSE IF a = NEGINF THEN POSINF ELSE -a

AddE(a, b) == IF a = NAN \/ b = NAN THEN NAN
              ELSE IF ~IsFin(a) THEN (IF ~IsFin(b) /\ b # a THEN NAN ELSE a)
              ELSE IF ~IsFin(b) THEN b
              ELSE a + b

SubE(a, b) == AddE(a, NegE(b))

MulE(a, b) == IF a = NAN \/ b = NAN THEN NAN
              ELSE IF ~IsFin(a) \/ ~IsFin(b)
                   THEN (IF Sg(a) * Sg(b) = 0 THEN NAN ELSE Inf(Sg(a) * Sg(b)))
              ELSE a * b

\* exact quotient of finite a by finite b # 0, NoVal when b does not divide a (not representable)
Quot(a, b) == LET Q == {q \in -(IF a < 0 THEN -a ELSE a)..(IF a < 0 THEN -a ELSE a) : q * b = a}
              IN IF Q = {} THEN NoVal ELSE CHOOSE q \in Q : TRUE

\* the model's zero is +0.0
DivE(a, b) == IF a = NAN \/ b = NAN THEN NAN
              ELSE IF ~IsFin(a) THEN (IF ~IsFin(b) THEN NAN
                                      ELSE Inf(Sg(a) * (IF b < 0 THEN -1 ELSE 1)))
              ELSE IF ~IsFin(b) THEN 0
              ELSE IF b = 0 THEN (IF a = 0 THEN NAN ELSE Inf(Sg(a)))
              ELSE Quot(a, b)

IEEE(op, a, b) == CASE op = "neg" -> NegE(a)
                    [] op = "add" -> AddE(a, b)
                    [] op = "sub" -> SubE(a, b)
                    [] op = "mul" -> MulE(a, b)
                    [] op = "div" -> DivE(a, b)

ArithOps == {"neg", "add", "sub", "mul", "div"}

(* Class-level IEEE (sound for every f64, including rounding to zero,      *)
(* overflow to +-inf and the sign of a zero divisor): the classes the      *)
(* result can have, given the classes of the operands.                     *)
FlipC(c) == CASE c = "neg" -> "pos" [] c = "pos" -> "neg" [] c = "neginf" -> "posinf"
              [] c = "posinf" -> "neginf" [] OTHER -> c
SgC(c)  == IF c \in {"neg", "neginf"} THEN -1 ELSE IF c \in {"pos", "posinf"} THEN 1 ELSE 0
FinC(c) == c \in {"neg", "zero", "pos"}
InfC(s) == IF s > 0 THEN "posinf" ELSE "neginf"
SgnC(s) == IF s > 0 THEN "pos" ELSE "neg"

AddC(ca, cb) ==
    IF ca = "nan" \/ cb = "nan" THEN {"nan"}
    ELSE IF ~FinC(ca) THEN (IF ~FinC(cb) /\ cb # ca THEN {"nan"} ELSE {ca})
    ELSE IF ~FinC(cb) THEN {cb}
    ELSE IF ca = "zero" THEN {cb}
    ELSE IF cb = "zero" THEN {ca}
    ELSE IF ca = cb THEN {ca, InfC(SgC(ca))}          \* same sign: may overflow
    ELSE {"neg", "zero", "pos"}

MulC(ca, cb) ==
    IF ca = "nan" \/ cb = "nan" THEN {"nan"}
    ELSE IF ~FinC(ca) \/ ~FinC(cb)
         THEN (IF SgC(ca) * SgC(cb) = 0 THEN {"nan"} ELSE {InfC(SgC(ca) * SgC(cb))})
    ELSE IF ca = "zero" \/ cb = "zero" THEN {"zero"}
    ELSE {SgnC(SgC(ca) * SgC(cb)), "zero", InfC(SgC(ca) * SgC(cb))}   \* underflow / overflow

DivC(ca, cb) ==
    IF ca = "nan" \/ cb = "nan" THEN {"nan"}
    ELSE IF ~FinC(ca) THEN (IF ~FinC(cb) THEN {"nan"}
                            ELSE IF cb = "zero" THEN {"posinf", "neginf"}   \* +0.0 or -0.0
                            ELSE {InfC(SgC(ca) * SgC(cb))})
    ELSE IF ~FinC(cb) THEN {"zero"}
    ELSE IF cb = "zero" THEN (IF ca = "zero" THEN {"nan"} ELSE {"posinf", "neginf"})
    ELSE IF ca = "zero" THEN {"zero"}
    ELSE {SgnC(SgC(ca) * SgC(cb)), "zero", InfC(SgC(ca) * SgC(cb))}

AbsOp(op, ca, cb) == CASE op = "neg" -> {FlipC(ca)}
                       [] op = "add" -> AddC(ca, cb)
                       [] op = "sub" -> AddC(ca, FlipC(cb))
                       [] op = "mul" -> MulC(ca, cb)
                       [] op = "div" -> DivC(ca, cb)

---------------------------------------------------------------------------
(* Mode "sci": arithmetic on operands of extreme magnitude, exactly.        *)
(*                                                                          *)
(* A binary floating-point format F = [pf, pl, lo, hi]: pf fraction bits,   *)
(* smallest positive (subnormal) value 2^lo, largest exponent hi (so every  *)
(* finite value is below 2^(hi+1)); f64 = [52, .., -1074, 1023].  The       *)
(* LATTICE of F are its values with at most pl + 1 significant bits,        *)
(*     2^e * (1 + f / 2^pl),   lo <= e <= hi,  0 <= f < 2^pl,               *)
(* (those of them the format can represent: in the subnormal range the      *)
(* lowest set bit must not lie below 2^lo), coded by the integer            *)
(*     LCode = (e - lo) * 2^pl + f + 1          (negative values: -LCode,   *)
(*                                               zero: 0)                   *)
(* whose order is the numeric order.  All arithmetic below is on integers   *)
(* below 2^30 (TLC's integers have 32 bits): significands and exponents.    *)
(* The laws that say these definitions ARE correctly rounded IEEE           *)
(* arithmetic are SciLaws at the end of the module (checked by TLC over     *)
(* whole small formats).                                                    *)
Fmt(pf, pl, lo, hi) == [pf |-> pf, pl |-> pl, lo |-> lo, hi |-> hi]
F64  == Fmt(52, 8, -1074, 1023)
OFFP == 2500000          \* a positive finite float that is not on the lattice
OFFN == -2500000         \* a negative one
P2(n) == 2^n             \* 0 <= n <= 30
AbsI(x) == IF x < 0 THEN -x ELSE x
BitLen(n) == CHOOSE b \in 1..30 : P2(b - 1) <= n /\ n < P2(b)          \* 1 <= n < 2^30

LCode(F, e, f) == (e - F.lo) * P2(F.pl) + f + 1
LMax(F)        == LCode(F, F.hi, P2(F.pl) - 1)
\* a positive code c is the value LN * 2^LK
LN(F, c) == P2(F.pl) + ((c - 1) % P2(F.pl))
LK(F, c) == F.lo + ((c - 1) \div P2(F.pl)) - F.pl
\* c is the code of a value of the format (or zero)
LatOK(F, c) == LET m == AbsI(c) IN
    \/ c = 0
    \/ /\ m <= LMax(F)
       /\ LK(F, m) < F.lo => LN(F, m) % P2(F.lo - LK(F, m)) = 0

(* The float nearest to the magnitude N * 2^k, N >= 1 (ties to even; gradual *)
(* underflow; overflow).  inx = FALSE: the magnitude is exactly N * 2^k;     *)
(* inx = TRUE: N is odd, N >= 3, and the magnitude lies strictly between     *)
(* (N - 1) * 2^k and (N + 1) * 2^k (a quotient with a remainder: sticky bit).*)
(* Reply [t, n, k]: t = "fin": the float n * 2^k (n = 0: zero), "inf":       *)
(* overflow, "off": a float with more significant bits than the lattice has  *)
(* (an inexact quotient of two lattice values differs from every lattice     *)
(* value by more than 2^-(2 pl + 2) of itself, which rounding to more than   *)
(* 2 pl + 4 bits cannot bridge), "unk": not determined by the bits at hand.  *)
RR(t, n, k) == [t |-> t, n |-> n, k |-> k]
RoundMag(F, N, k, inx) ==
    LET bl == BitLen(N)
        e  == k + bl - 1                                   \* 2^e <= magnitude < 2^(e+1)
        u  == IF e - F.pf > F.lo THEN e - F.pf ELSE F.lo   \* exponent of the last bit that is kept
        sh == u - k IN
    IF e > F.hi THEN RR("inf", 0, 0)
    ELSE IF sh <= 0 THEN (IF ~inx THEN RR("fin", N, k)
                          ELSE IF F.pf >= 2 * F.pl + 4 /\ bl >= 2 * F.pl + 5 THEN RR("off", 0, 0)
                          ELSE RR("unk", 0, 0))
    ELSE IF inx /\ sh < 2 THEN RR("unk", 0, 0)
    ELSE IF sh > bl + 1 THEN RR("fin", 0, u)               \* below a quarter of the smallest step
    ELSE LET q    == N \div P2(sh)
             r    == N % P2(sh)
             half == P2(sh - 1)
             q2   == IF r > half \/ (r = half /\ q % 2 = 1) THEN q + 1 ELSE q IN
         IF q2 = 0 THEN RR("fin", 0, u)
         ELSE IF u + BitLen(q2) - 1 > F.hi THEN RR("inf", 0, 0)
         ELSE RR("fin", q2, u)

\* lattice code of the float n * 2^k (n >= 1), OFFP if it has more than pl + 1 significant bits
EncodeMag(F, n, k) ==
    LET bl == BitLen(n)
        w  == F.pl + 1 IN
    IF bl <= w THEN LCode(F, k + bl - 1, n * P2(w - bl) - P2(F.pl))
    ELSE IF n % P2(bl - w) # 0 THEN OFFP
    ELSE LCode(F, k + bl - 1, (n \div P2(bl - w)) - P2(F.pl))

\* magnitude result: a code, 0, POSINF, OFFP, or NoVal (not determined)
Finish(F, r) == IF r.t = "inf" THEN POSINF
                ELSE IF r.t = "unk" THEN NoVal
                ELSE IF r.t = "off" THEN OFFP
                ELSE IF r.n = 0 THEN 0
                ELSE EncodeMag(F, r.n, r.k)
Signed(s, m) == IF m = NoVal \/ s > 0 THEN m ELSE IF m = POSINF THEN NEGINF ELSE -m

\* product / quotient / sum of two non-zero lattice values (signed codes)
LMul(F, a, b) ==
    LET x == AbsI(a)  y == AbsI(b) IN
    Signed(Sg(a) * Sg(b), Finish(F, RoundMag(F, LN(F, x) * LN(F, y), LK(F, x) + LK(F, y), FALSE)))

\* quotient bits computed before the sticky bit: enough to round (pf + 4), or enough to know that an
\* inexact quotient is off the lattice (2 pl + 4)
DivBits(F) == IF F.pf < 2 * F.pl THEN F.pf + 4 ELSE 2 * F.pl + 4
\* rounded magnitude of x / y from s quotient bits and a sticky bit
DivAt(F, x, y, s) ==
    LET num == LN(F, x) * P2(s)
        q   == num \div LN(F, y)
        rem == num % LN(F, y)
        k   == LK(F, x) - LK(F, y) - s IN
    IF rem = 0 THEN RoundMag(F, q, k, FALSE) ELSE RoundMag(F, 2 * q + 1, k - 1, TRUE)
\* (a quotient that has to be cut right at the sticky bit is computed with one bit more)
LDiv(F, a, b) ==
    LET x == AbsI(a)  y == AbsI(b)
        r == DivAt(F, x, y, DivBits(F)) IN
    Signed(Sg(a) * Sg(b), Finish(F, IF r.t = "unk" THEN DivAt(F, x, y, DivBits(F) + 1) ELSE r))

(* Sum.  Summands at most AlignMax binades apart are added exactly.  Further apart (d = distance  *)
(* of the exponents, |b| < |a|): from d = pf + 3 on, b is below a quarter of a's last place and the  *)
(* sum is a; up to d = pf, b is at least one unit of a's last place, so the sum is not a, and it    *)
(* differs from a by less than 2^(2 - d) |a|, while lattice values differ from a by at least        *)
(* 2^(-pl - 1) |a|: it is off the lattice (d >= pl + 3), with the sign of a.  In between            *)
(* (d = pf + 1, pf + 2) ties decide: not determined here.                                           *)
AlignMax(F) == IF F.pl + 4 < 18 THEN F.pl + 4 ELSE 18
LAdd(F, a, b) ==
    LET x  == AbsI(a)  y == AbsI(b)
        ka == LK(F, x)  kb == LK(F, y)
        d  == AbsI(ka - kb)
        km == IF ka < kb THEN ka ELSE kb
        big == IF ka > kb THEN a ELSE b IN
    IF d > AlignMax(F)
    THEN (IF d >= F.pf + 3 THEN big
          ELSE IF d <= F.pf THEN Signed(Sg(big), OFFP)
          ELSE NoVal)
    ELSE LET sum == Sg(a) * LN(F, x) * P2(ka - km) + Sg(b) * LN(F, y) * P2(kb - km) IN
         IF sum = 0 THEN 0
         ELSE Signed(Sg(sum), Finish(F, RoundMag(F, AbsI(sum), km, FALSE)))

\* IEEE on the carrier of mode "sci": the special cases as above, finite non-zero operands on the lattice
Plain(a) == a # NAN /\ IsFin(a) /\ a # 0
SciAdd(a, b) == IF Plain(a) /\ Plain(b) THEN LAdd(F64, a, b) ELSE AddE(a, b)
SciMul(a, b) == IF Plain(a) /\ Plain(b) THEN LMul(F64, a, b) ELSE MulE(a, b)
SciDiv(a, b) == IF Plain(a) /\ Plain(b) THEN LDiv(F64, a, b) ELSE DivE(a, b)
SciOp(op, a, b) == CASE op = "neg" -> NegE(a)
                     [] op = "add" -> SciAdd(a, b)
                     [] op = "sub" -> SciAdd(a, NegE(b))
                     [] op = "mul" -> SciMul(a, b)
                     [] op = "div" -> SciDiv(a, b)
IsOff(r) == r \in {OFFP, OFFN}
\* an operand / input of mode "sci"
SciArg(v) == v \in {NAN, NEGINF, POSINF} \/ LatOK(F64, v)

---------------------------------------------------------------------------
(* Comparison as the code does it: derived PartialOrd on the f64, and      *)
(* Ord::cmp = partial_cmp().unwrap().   -1 / 0 / 1, 2 = None, 3 = panic.   *)
PartialCmpF(a, b) == IF a = NAN \/ b = NAN THEN 2
                     ELSE IF a < b THEN -1 ELSE IF a > b THEN 1 ELSE 0
CmpF(a, b) == IF PartialCmpF(a, b) = 2 THEN 3 ELSE PartialCmpF(a, b)

CmpForms == {"cmp", "partial_cmp", "lt", "le", "gt", "ge", "eq", "ne"}
Bool(p) == IF p THEN 1 ELSE 0

CmpReply(f, a, b) ==
    LET p == PartialCmpF(a, b) IN
    CASE f = "cmp"         -> IF p = 2 THEN R("panic", NoVal) ELSE R("ord", p)
      [] f = "partial_cmp" -> R("ord", p)
      [] f = "lt" -> R("bool", Bool(p = -1))
      [] f = "le" -> R("bool", Bool(p \in {-1, 0}))
      [] f = "gt" -> R("bool", Bool(p = 1))
      [] f = "ge" -> R("bool", Bool(p \in {0, 1}))
      [] f = "eq" -> R("bool", Bool(p = 0))
      [] f = "ne" -> R("bool", Bool(p # 0))

\* insertion sort by CmpF (any comparison sort gives the same list of codes)
RECURSIVE InsertSorted(_, _)
InsertSorted(s, v) == IF s = <<>> THEN <<v>>
                      ELSE IF CmpF(v, Head(s)) \in {-1, 0} THEN <<v>> \o s
                      ELSE <<Head(s)>> \o InsertSorted(Tail(s), v)
RECURSIVE SortF(_)
SortF(s) == IF s = <<>> THEN <<>> ELSE InsertSorted(SortF(Tail(s)), Head(s))

Range(s) == {s[i] : i \in DOMAIN s}

(* Equality as the code does it (PartialEq, what Vec::dedup / contains /   *)
(* position use) and Vec::dedup = drop every element equal to its          *)
(* predecessor.  Binary search is asked on lists sorted by the numeric     *)
(* order only (its contract).                                              *)
EqF(a, b) == PartialCmpF(a, b) = 0
RECURSIVE DedupF(_)
DedupF(s) == IF Len(s) <= 1 THEN s
             ELSE IF EqF(s[1], s[2]) THEN DedupF(Tail(s))       \* equal values: same code, either one
             ELSE <<s[1]>> \o DedupF(Tail(s))
IsSorted(s) == \A i \in 1..(Len(s) - 1) : s[i] <= s[i + 1]
MinOf(S) == CHOOSE x \in S : \A y \in S : x <= y

---------------------------------------------------------------------------
(* MultiObjective: TryFrom and PartialOrd::partial_cmp transcribed from    *)
(* multi.rs (equality first, then length, then the has_better / has_worse  *)
(* loop).  Reply codes as above (2 = None).                                *)
VecErr(xs) == IF \E i \in DOMAIN xs : xs[i] = NAN THEN "err_nan"
              ELSE IF \E i \in DOMAIN xs : xs[i] = NEGINF THEN "err_neginf"
              ELSE "ok"

ParetoF(u, v) ==
    IF u = v THEN 0
    ELSE IF Len(u) # Len(v) THEN 2
    ELSE LET better == \E i \in DOMAIN u : u[i] < v[i]
             worse  == \E i \in DOMAIN u : u[i] > v[i]
         IN IF better /\ ~worse THEN -1 ELSE IF worse /\ ~better THEN 1 ELSE 2

MCmpForms == {"partial_cmp", "eq", "ne", "lt", "le", "gt", "ge"}

MCmpReply(f, u, v) ==
    LET p == ParetoF(u, v) IN
    CASE f = "partial_cmp" -> R("ord", p)
      [] f = "eq" -> R("bool", Bool(u = v))
      [] f = "ne" -> R("bool", Bool(u # v))
      [] f = "lt" -> R("bool", Bool(p = -1))
      [] f = "le" -> R("bool", Bool(p \in {-1, 0}))
      [] f = "gt" -> R("bool", Bool(p = 1))
      [] f = "ge" -> R("bool", Bool(p \in {0, 1}))

---------------------------------------------------------------------------
(* Actions.                                                                *)
TryFrom(x, cx) ==
    IF x = NAN THEN res' = R("err_nan", NoVal) /\ UNCHANGED vals
    ELSE IF x = NEGINF THEN res' = R("err_neginf", NoVal) /\ UNCHANGED vals
    ELSE res' = RC("ok", x, cx) /\ vals' = vals \cup {x}

Const ==   \* SingleObjective::INFINITY, SingleObjective::default()
    res' = RC("ok", POSINF, "posinf") /\ vals' = vals \cup {POSINF}

\* exact arithmetic (modes "exact" and "sci"): the IDEAL operator hands out the numeric result,
\* and never an illegal value.  A result that leaves the lattice of mode "sci" is a legal finite
\* value the carrier has no code for: reply "off" with its sign, not tracked in vals.
Raw(op, a, b) == IF mode = "sci" THEN SciOp(op, a, b) ELSE IEEE(op, a, b)
Arith(op, a, b) ==
    LET r == Raw(op, a, b) IN
    /\ r # NoVal                       \* quotient representable / result determined
    /\ IF IsOff(r) THEN res' = RC("off", NoVal, ClassOf(r)) /\ UNCHANGED vals
       ELSE IF IsLegal(r) THEN res' = RC("val", r, ClassOf(r)) /\ vals' = vals \cup {r}
       ELSE res' = RC("illegal", NoVal, NoC) /\ UNCHANGED vals

\* class-level arithmetic (mode "rank"): w = the observed result [k, v, c, s]; its rank is
\* unconstrained, its class must be one IEEE allows AND legal
ArithRank(op, ca, cb, w) ==
    /\ res' = w
    /\ \/ /\ w.k = "val" /\ w.c \in AbsOp(op, ca, cb) \cap LegalClasses
          /\ IsLegal(w.v) /\ (w.c = "posinf") = (w.v = POSINF)
          /\ w.s = <<>>
          /\ vals' = vals \cup {w.v}
       \/ /\ w = RC("illegal", NoVal, NoC)
          /\ AbsOp(op, ca, cb) \cap {"nan", "neginf"} # {}
          /\ UNCHANGED vals

Cmp(f, a, b) == res' = CmpReply(f, a, b) /\ UNCHANGED vals

MinMax(op, a, b) ==   \* Ord::min / Ord::max
    /\ res' = (IF CmpF(a, b) = 3 THEN R("panic", NoVal)
               ELSE IF op = "min" THEN R("val", IF CmpF(a, b) = 1 THEN b ELSE a)
               ELSE R("val", IF CmpF(a, b) = 1 THEN a ELSE b))
    /\ UNCHANGED vals

IsFinite(a) == res' = R("bool", Bool(IsFin(a))) /\ UNCHANGED vals
Value(a)    == res' = R("val", a) /\ UNCHANGED vals          \* value(), f64::from

Sort(xs) == res' = RS("list", SortF(xs)) /\ UNCHANGED vals    \* Vec::sort()
ListMin(xs) ==                                                \* Iterator::min
    /\ res' = (IF xs = <<>> THEN R("none", NoVal) ELSE R("val", SortF(xs)[1]))
    /\ UNCHANGED vals
ListMax(xs) ==
    /\ res' = (IF xs = <<>> THEN R("none", NoVal) ELSE R("val", SortF(xs)[Len(xs)]))
    /\ UNCHANGED vals

\* Vec::dedup on the list as given (f = "raw") or after Vec::sort (f = "sorted")
Dedup(f, xs) == /\ res' = RS("list", IF f = "sorted" THEN DedupF(SortF(xs)) ELSE DedupF(xs))
                /\ UNCHANGED vals
\* slice::contains / Iterator::position(|o| *o == a): PartialEq
Contains(xs, a) == res' = R("bool", Bool(\E i \in DOMAIN xs : EqF(xs[i], a))) /\ UNCHANGED vals
Position(xs, a) ==
    /\ res' = (LET H == {i \in DOMAIN xs : EqF(xs[i], a)} IN
               IF H = {} THEN R("none", NoVal) ELSE R("idx", MinOf(H)))
    /\ UNCHANGED vals
\* slice::binary_search (Ord) on a sorted list: the element found (which of several equal ones
\* is unspecified, its value is not), or the insertion point
BSearch(xs, a) ==
    /\ IsSorted(xs)
    /\ res' = (IF \E i \in DOMAIN xs : CmpF(xs[i], a) = 0 THEN R("found", a)
               ELSE R("insert", Cardinality({i \in DOMAIN xs : CmpF(xs[i], a) = -1})))
    /\ UNCHANGED vals

MTryFrom(xs) ==   \* TryFrom<Vec<f64>> / TryFrom<&[f64]>; on success value() is read back
    /\ res' = (IF VecErr(xs) = "ok" THEN RS("ok", xs) ELSE RS(VecErr(xs), <<>>))
    /\ UNCHANGED vals
MCmp(f, u, v) == res' = MCmpReply(f, u, v) /\ UNCHANGED vals
MIsFinite(u)  == res' = R("bool", Bool(\A i \in DOMAIN u : IsFin(u[i]))) /\ UNCHANGED vals

IsArith(a) == a.op \in ArithOps
ExactModes == {"exact", "sci"}        \* the spec computes the result of an arithmetic operator itself
CO(v) == IF v = NoVal THEN NoC ELSE ClassOf(v)
\* a logged class agrees with the code of the value on the three specials
SpecialOK(v, c) == /\ (c = "nan") = (v = NAN) /\ (c = "neginf") = (v = NEGINF)
                   /\ (c = "posinf") = (v = POSINF) /\ c \in Classes
IsMulti(a) == a.op \in {"m_try_from", "m_cmp", "m_is_finite"}
LegalVec(u) == \A i \in DOMAIN u : IsLegal(u[i])

\* everything except class-level arithmetic
Do(a) ==
    /\ act' = a
    /\ UNCHANGED mode
    /\ (mode \in ExactModes /\ (IsArith(a) \/ a.op = "try_from")) => (a.ca = CO(a.a) /\ a.cb = CO(a.b))
    /\ (mode = "sci" /\ (IsArith(a) \/ a.op = "try_from")) => (SciArg(a.a) /\ (a.b = NoVal \/ SciArg(a.b)))
    /\ CASE a.op = "try_from"  -> SpecialOK(a.a, a.ca) /\ TryFrom(a.a, a.ca)
         [] a.op \in {"infinity", "default"} -> Const
         [] a.op = "neg"       -> mode \in ExactModes /\ a.a \in vals /\ Arith("neg", a.a, NoVal)
         [] a.op \in {"add", "sub"} ->
                mode \in ExactModes /\ a.a \in vals /\ a.b \in vals /\ Arith(a.op, a.a, a.b)
         [] a.op \in {"mul", "div"} ->
                mode \in ExactModes /\ a.a \in vals /\ Arith(a.op, a.a, a.b)   \* b: raw f64 scalar
         [] a.op = "cmp"       -> a.a \in vals /\ a.b \in vals /\ Cmp(a.f, a.a, a.b)
         [] a.op \in {"min", "max"} -> a.a \in vals /\ a.b \in vals /\ MinMax(a.op, a.a, a.b)
         [] a.op = "is_finite" -> a.a \in vals /\ IsFinite(a.a)
         [] a.op = "value"     -> a.a \in vals /\ Value(a.a)
         [] a.op = "sort"      -> Range(a.xs) \subseteq vals /\ Sort(a.xs)
         [] a.op = "list_min"  -> Range(a.xs) \subseteq vals /\ ListMin(a.xs)
         [] a.op = "list_max"  -> Range(a.xs) \subseteq vals /\ ListMax(a.xs)
         [] a.op = "dedup"     -> Range(a.xs) \subseteq vals /\ a.f \in {"raw", "sorted"} /\ Dedup(a.f, a.xs)
         [] a.op = "contains"  -> Range(a.xs) \subseteq vals /\ a.a \in vals /\ Contains(a.xs, a.a)
         [] a.op = "position"  -> Range(a.xs) \subseteq vals /\ a.a \in vals /\ Position(a.xs, a.a)
         [] a.op = "bsearch"   -> Range(a.xs) \subseteq vals /\ a.a \in vals /\ BSearch(a.xs, a.a)
         [] a.op = "m_try_from"  -> MTryFrom(a.xs)
         [] a.op = "m_cmp"       -> LegalVec(a.xs) /\ LegalVec(a.ys) /\ MCmp(a.f, a.xs, a.ys)
         [] a.op = "m_is_finite" -> LegalVec(a.xs) /\ MIsFinite(a.xs)

\* class-level arithmetic with the observed result as witness
DoRank(a, w) ==
    /\ act' = a
    /\ UNCHANGED mode
    /\ mode = "rank"
    /\ IsArith(a)
    /\ a.a \in vals
    /\ a.op \in {"add", "sub"} => a.b \in vals
    /\ SpecialOK(a.a, a.ca) /\ a.ca \in LegalClasses
    /\ IF a.op = "neg" THEN a.cb = NoC ELSE SpecialOK(a.b, a.cb)
    /\ a.op \in {"add", "sub"} => a.cb \in LegalClasses
    /\ ArithRank(a.op, a.ca, a.cb, w)

\* mode "sci", result not determined by the lattice arithmetic (summands 53 or 54 binades apart):
\* finite, judged by class with the observed result as witness
DoSciLoose(a, w) ==
    /\ act' = a
    /\ UNCHANGED mode
    /\ mode = "sci"
    /\ a.op \in {"add", "sub"}
    /\ a.a \in vals /\ a.b \in vals
    /\ SciArg(a.a) /\ SciArg(a.b) /\ a.ca = CO(a.a) /\ a.cb = CO(a.b)
    /\ SciOp(a.op, a.a, a.b) = NoVal
    /\ res' = w
    /\ \/ /\ w.k = "val" /\ w.c \in AbsOp(a.op, a.ca, a.cb) \cap {"neg", "zero", "pos"}
          /\ LatOK(F64, w.v) /\ w.c = CO(w.v) /\ w.s = <<>>
          /\ vals' = vals \cup {w.v}
       \/ /\ w = RC("off", NoVal, w.c) /\ w.c \in AbsOp(a.op, a.ca, a.cb) \cap {"neg", "pos"}
          /\ UNCHANGED vals

---------------------------------------------------------------------------
(* The bounded call alphabet of the model.                                 *)
Inputs == {NAN, NEGINF, POSINF} \cup (-M..M)
SeqsUpTo(S, n) == UNION {[1..k -> S] : k \in 0..n}
E == <<>>
InBound(r) == IsFin(r) => (r >= -B /\ r <= B)

Acts ==
    {A("try_from", "-", x, NoVal, CO(x), NoC, E, E) : x \in Inputs}
    \cup {A(c, "-", NoVal, NoVal, NoC, NoC, E, E) : c \in {"infinity", "default"}}
    \cup {A("neg", "-", a, NoVal, CO(a), NoC, E, E) : a \in vals}
    \cup {A(op, "-", a, b, CO(a), CO(b), E, E) : op \in {"add", "sub"}, a \in vals, b \in vals}
    \cup {A(op, "-", a, b, CO(a), CO(b), E, E) : op \in {"mul", "div"}, a \in vals, b \in Inputs}
    \cup {A("cmp", f, a, b, NoC, NoC, E, E) : f \in CmpForms, a \in vals, b \in vals}
    \cup {A(op, "-", a, b, NoC, NoC, E, E) : op \in {"min", "max"}, a \in vals, b \in vals}
    \cup {A("is_finite", "-", a, NoVal, NoC, NoC, E, E) : a \in vals}
    \cup {A("value", f, a, NoVal, NoC, NoC, E, E) : f \in {"value", "into_f64"}, a \in vals}
    \cup {A(op, "-", NoVal, NoVal, NoC, NoC, xs, E) :
              op \in {"sort", "list_min", "list_max"}, xs \in SeqsUpTo(vals, MaxList)}
    \cup {A("dedup", f, NoVal, NoVal, NoC, NoC, xs, E) :
              f \in {"raw", "sorted"}, xs \in SeqsUpTo(vals, MaxList)}
    \cup {A(op, "-", a, NoVal, NoC, NoC, xs, E) :
              op \in {"contains", "position"}, a \in vals, xs \in SeqsUpTo(vals, MaxList)}
    \cup {A("bsearch", "-", a, NoVal, NoC, NoC, xs, E) :
              a \in vals, xs \in {s \in SeqsUpTo(vals, MaxList) : IsSorted(s)}}

VecIn  == SeqsUpTo(VecDom \cup {NAN, NEGINF}, MaxVec)
Vecs   == SeqsUpTo(VecDom, MaxVec)
MActs ==
    {A("m_try_from", f, NoVal, NoVal, NoC, NoC, xs, E) : f \in {"vec", "slice"}, xs \in VecIn}
    \cup {A("m_cmp", f, NoVal, NoVal, NoC, NoC, u, v) : f \in MCmpForms, u \in Vecs, v \in Vecs}
    \cup {A("m_is_finite", "-", NoVal, NoVal, NoC, NoC, u, E) : u \in Vecs}

InitAct == A("init", "-", NoVal, NoVal, NoC, NoC, E, E)

(* Mode "sci" (SciIn # {}): construction of at most two values out of SciIn, zero and the      *)
(* specials, then every arithmetic operator once on them (scalars of * and / from the same      *)
(* set): all operand pairs of extreme magnitude, results not fed back.                          *)
SciInputs == {NAN, NEGINF, POSINF, 0} \cup SciIn \cup {-c : c \in SciNeg}
SciActs ==
    {A("try_from", "-", x, NoVal, CO(x), NoC, E, E) :
         x \in {y \in SciInputs : IsLegal(y) => Cardinality(vals \cup {y}) <= 2}}
    \cup (IF vals \subseteq SciInputs /\ Cardinality(vals) <= 2
          THEN {A("neg", "-", a, NoVal, CO(a), NoC, E, E) : a \in vals}
               \cup {A(op, "-", a, b, CO(a), CO(b), E, E) : op \in {"add", "sub"}, a \in vals, b \in vals}
               \cup {A(op, "-", a, b, CO(a), CO(b), E, E) : op \in {"mul", "div"}, a \in vals, b \in SciInputs}
          ELSE {})

Init == /\ vals = {}
        /\ mode = (IF SciIn = {} THEN "exact" ELSE "sci")
        /\ act = InitAct
        /\ res = R("ok", NoVal)

\* results leaving the bound are not explored ("arguments are kept small"); multi-objective
\* calls do not depend on vals and are explored from the initial state only
Next == IF SciIn = {}
        THEN \/ \E a \in Acts : (IsArith(a) => InBound(IEEE(a.op, a.a, a.b))) /\ Do(a)
             \/ vals = {} /\ \E a \in MActs : Do(a)
        ELSE \E a \in SciActs : Do(a)

Spec == Init /\ [][Next]_vars

---------------------------------------------------------------------------
(* Properties of C09, stated without reference to the action bodies.       *)

TypeOK == /\ vals \subseteq (Int \ {NoVal})
          /\ res.k \in {"ok", "err_nan", "err_neginf", "val", "illegal", "ord", "bool", "panic",
                        "list", "none", "idx", "found", "insert", "off"}

\* Objective values obtainable through the public API are never NaN or -inf.
Legal == vals \cap {NAN, NEGINF} = {}

\* ... and no reply hands one out either.
LegalReplies ==
    [][ /\ (res'.k \in {"ok", "val"} /\ ~IsMulti(act')) => IsLegal(res'.v)
        /\ res'.k \in {"ok", "list"} => \A i \in DOMAIN res'.s : IsLegal(res'.s[i])
        /\ res'.k = "off" => res'.c \in {"neg", "pos"} ]_vars      \* a finite value without a code

\* construction: exactly the NaN / -inf inputs are refused, everything else is kept as is
ConstructionExact ==
    [][ act'.op = "try_from" =>
          /\ (act'.a = NAN)    <=> (res'.k = "err_nan")
          /\ (act'.a = NEGINF) <=> (res'.k = "err_neginf")
          /\ (res'.k = "ok")   <=> IsLegal(act'.a)
          /\ res'.k = "ok" => res'.v = act'.a /\ act'.a \in vals' ]_vars

\* single objectives are totally ordered exactly like their numeric values (integer order of
\* the codes, POSINF on top): total, antisymmetric, transitive, agrees with equality
TotalOrder ==
    /\ \A a \in vals, b \in vals :
          /\ CmpF(a, b) \in {-1, 0, 1}
          /\ CmpF(a, b) = -CmpF(b, a)
          /\ (CmpF(a, b) = 0) <=> (a = b)
          /\ (CmpF(a, b) = -1) <=> (a < b)
    /\ \A a \in vals, b \in vals, c \in vals :
          (CmpF(a, b) \in {-1, 0} /\ CmpF(b, c) \in {-1, 0}) => CmpF(a, c) \in {-1, 0}

\* every comparison operator replies what the integer order says, and never fails
CmpSound ==
    [][ act'.op = "cmp" =>
          LET a == act'.a  b == act'.b  f == act'.f IN
          /\ res'.k # "panic"
          /\ f \in {"cmp", "partial_cmp"} =>
                res'.v = (IF a < b THEN -1 ELSE IF a > b THEN 1 ELSE 0)
          /\ f = "lt" => res'.v = Bool(a < b)
          /\ f = "le" => res'.v = Bool(a <= b)
          /\ f = "gt" => res'.v = Bool(a > b)
          /\ f = "ge" => res'.v = Bool(a >= b)
          /\ f = "eq" => res'.v = Bool(a = b)
          /\ f = "ne" => res'.v = Bool(a # b) ]_vars

Count(s, v) == Cardinality({i \in DOMAIN s : s[i] = v})

\* sorting, minimum and maximum never fail and are what their names say
SortMinMaxSound ==
    [][ /\ act'.op \in {"sort", "list_min", "list_max", "min", "max"} => res'.k # "panic"
        /\ act'.op = "sort" =>
              /\ Len(res'.s) = Len(act'.xs)
              /\ \A v \in Range(act'.xs) \cup Range(res'.s) : Count(res'.s, v) = Count(act'.xs, v)
              /\ \A i \in 1..(Len(res'.s) - 1) : res'.s[i] <= res'.s[i + 1]
        /\ act'.op = "list_min" =>
              IF act'.xs = <<>> THEN res'.k = "none"
              ELSE res'.v \in Range(act'.xs) /\ \A v \in Range(act'.xs) : res'.v <= v
        /\ act'.op = "list_max" =>
              IF act'.xs = <<>> THEN res'.k = "none"
              ELSE res'.v \in Range(act'.xs) /\ \A v \in Range(act'.xs) : res'.v >= v
        /\ act'.op = "min" => res'.v \in {act'.a, act'.b} /\ res'.v <= act'.a /\ res'.v <= act'.b
        /\ act'.op = "max" => res'.v \in {act'.a, act'.b} /\ res'.v >= act'.a /\ res'.v >= act'.b
      ]_vars

\* equality IS equality of the numeric values, consistently in everything built on it:
\* the comparison forms among themselves (== iff cmp = Equal iff neither < nor >), Vec::dedup
\* (after sorting: strictly increasing, same set of values -- no distinct value is dropped, no
\* duplicate survives; as given: exactly the elements that differ from their predecessor),
\* contains / position (first index holding that very value), binary search (found iff present,
\* else the number of smaller elements)
StrictlyIncreasing(s) == \A i \in 1..(Len(s) - 1) : s[i] < s[i + 1]
EqualityExact ==
    [][ /\ act'.op \in {"dedup", "contains", "position", "bsearch"} => res'.k # "panic"
        /\ act'.op = "dedup" /\ act'.f = "sorted" =>
              /\ res'.k = "list"
              /\ StrictlyIncreasing(res'.s)
              /\ Range(res'.s) = Range(act'.xs)
        /\ act'.op = "dedup" /\ act'.f = "raw" =>
              LET xs == act'.xs
                  keep == {i \in DOMAIN xs : i = 1 \/ xs[i] # xs[i - 1]} IN
              /\ res'.k = "list"
              /\ Len(res'.s) = Cardinality(keep)
              /\ \A i \in keep : res'.s[Cardinality({j \in keep : j <= i})] = xs[i]
        /\ act'.op = "contains" => res'.k = "bool" /\ res'.v = Bool(act'.a \in Range(act'.xs))
        /\ act'.op = "position" =>
              IF act'.a \in Range(act'.xs)
              THEN /\ res'.k = "idx" /\ res'.v \in DOMAIN act'.xs
                   /\ act'.xs[res'.v] = act'.a
                   /\ \A j \in 1..(res'.v - 1) : act'.xs[j] # act'.a
              ELSE res'.k = "none"
        /\ act'.op = "bsearch" =>
              IF act'.a \in Range(act'.xs) THEN res'.k = "found" /\ res'.v = act'.a
              ELSE /\ res'.k = "insert"
                   /\ res'.v = Cardinality({i \in DOMAIN act'.xs : act'.xs[i] < act'.a})
      ]_vars

\* multi-objective comparison IS Pareto dominance (minimisation)
Dominates(u, v) == /\ Len(u) = Len(v)
                   /\ \A i \in DOMAIN u : u[i] <= v[i]
                   /\ \E i \in DOMAIN u : u[i] < v[i]

ParetoSound ==
    [][ act'.op = "m_cmp" /\ act'.f = "partial_cmp" =>
          LET u == act'.xs  v == act'.ys IN
          /\ (res'.v = 0)  <=> (u = v)
          /\ (res'.v = -1) <=> Dominates(u, v)
          /\ (res'.v = 1)  <=> Dominates(v, u)
          /\ (res'.v = 2)  <=> (u # v /\ ~Dominates(u, v) /\ ~Dominates(v, u))
          /\ Len(u) # Len(v) => res'.v = 2 ]_vars

\* the laws, as statements about the comparison function over a set of vectors
ParetoLaws(V) ==
    /\ \A u \in V : ParetoF(u, u) = 0
    /\ \A u \in V, v \in V :
          /\ (ParetoF(u, v) = 0) <=> (u = v)                          \* agrees with equality
          /\ (ParetoF(u, v) = -1) <=> (ParetoF(v, u) = 1)             \* antisymmetric
          /\ ParetoF(u, v) = 2 <=> ParetoF(v, u) = 2
          /\ Len(u) # Len(v) => ParetoF(u, v) = 2                     \* different length
          /\ (Len(u) = Len(v) /\ (\E i \in DOMAIN u : u[i] < v[i]) /\ (\E i \in DOMAIN u : u[i] > v[i]))
                => ParetoF(u, v) = 2                                  \* trade-off
    /\ \A u \in V, v \in V, w \in V :
          /\ (ParetoF(u, v) = -1 /\ ParetoF(v, w) = -1) => ParetoF(u, w) = -1     \* transitive
          /\ (ParetoF(u, v) \in {-1, 0} /\ ParetoF(v, w) \in {-1, 0}) => ParetoF(u, w) \in {-1, 0}

---------------------------------------------------------------------------
(* Arithmetic on operands of extreme magnitude hands out the NUMBER.        *)
(*                                                                          *)
(* (1) Identities every correctly rounded arithmetic obeys, whatever the    *)
(* magnitude of x: x * 1 = x / 1 = x, x * -1 = x / -1 = -x (where legal),   *)
(* x / x = 1 and x - x = 0 for finite non-zero x, x + x = x * 2,            *)
(* x / 2 = x * 0.5 -- stated on (call, reply) only.                         *)
One  == LCode(F64, 0, 0)
Two  == LCode(F64, 1, 0)
Half == LCode(F64, -1, 0)
Gives(v) == IF IsOff(v) THEN res'.k = "off"
            ELSE IF IsLegal(v) THEN res'.k = "val" /\ res'.v = v
            ELSE res'.k = "illegal"
SciIdentities ==
    [][ (mode = "sci" /\ IsArith(act')) =>
          LET op == act'.op  a == act'.a  b == act'.b IN
          /\ (op \in {"mul", "div"} /\ b = One) => Gives(a)
          /\ (op \in {"mul", "div"} /\ b = -One) => Gives(NegE(a))
          /\ (op = "div" /\ b = a /\ Plain(a)) => Gives(One)
          /\ (op = "sub" /\ b = a /\ IsFin(a)) => Gives(0)
          /\ (op = "add" /\ b = 0) => Gives(a)
          /\ (op = "add" /\ b = a) => Gives(SciMul(a, Two))
          /\ (op = "div" /\ b = Two) => Gives(SciMul(a, Half))
          /\ (res'.k = "val" /\ res'.c \in {"neg", "zero", "pos"}) => LatOK(F64, res'.v) ]_vars

(* (2) The lattice arithmetic IS correctly rounded arithmetic of the format: *)
(* for every pair of lattice values of a small format F the result is the    *)
(* format value nearest to the exact rational result, ties going to the even *)
(* significand, below the smallest subnormal to zero or to it, from          *)
(* 2^(hi+1) - half a step on to infinity; results with more than pl + 1      *)
(* significant bits are reported as off the lattice with the right sign.     *)
(* Stated with rationals scaled to integers, without any of the definitions  *)
(* above except the code <-> value map (whose monotonicity is part of it).   *)
LatCodes(F) == {c \in 1..LMax(F) : LatOK(F, c)}
\* candidates <<q, u>> = q * 2^u: zero, subnormals and the first normal binade at u = lo, the normal
\* binades above, and 2^(hi+1), which stands for infinity
FCands(F) ==
    {<<q, F.lo>> : q \in 0..(P2(F.pf + 1) - 1)}
    \cup {<<q, u>> : q \in P2(F.pf)..(P2(F.pf + 1) - 1), u \in (F.lo + 1)..(F.hi - F.pf)}
    \cup {<<P2(F.pf), F.hi - F.pf + 1>>}
\* the candidate nearest to xn / xd (> 0), all candidates scaled by 2^-z
MinI(S) == CHOOSE x \in S : \A y \in S : x <= y
Nearest(F, xn, xd, z) ==
    LET Dist(c) == AbsI(xn - c[1] * P2(c[2] - z) * xd)
        m    == MinI({Dist(c) : c \in FCands(F)})
        best == {c \in FCands(F) : Dist(c) = m} IN
    IF Cardinality(best) = 1 THEN CHOOSE c \in best : TRUE
    ELSE CHOOSE c \in best : c[1] % 2 = 0
\* r (magnitude reply of the lattice arithmetic) says what the correctly rounded result c is
Agrees(F, r, c) ==
    LET z0  == F.lo - F.pl
        LV(k) == LN(F, k) * P2(LK(F, k) - z0)
        cv  == c[1] * P2(c[2] - z0)
        same == {k \in LatCodes(F) : LV(k) = cv} IN
    IF c[1] = 0 THEN r = 0
    ELSE IF c[2] = F.hi - F.pf + 1 THEN r = POSINF
    ELSE IF same = {} THEN r = OFFP
    ELSE r \in same
Mag(r) == IF r = NEGINF THEN POSINF ELSE IF r = NoVal \/ r = POSINF THEN r ELSE AbsI(r)
SgR(r) == IF r = NEGINF \/ (r # NoVal /\ r < 0) THEN -1 ELSE 1
SciLaws(F) ==
    LET C  == LatCodes(F)
        z0 == F.lo - F.pl
        LV(k) == LN(F, k) * P2(LK(F, k) - z0) IN
    /\ \A a \in C, b \in C : (a < b) <=> (LV(a) < LV(b))                 \* the code order is the numeric order
    /\ \A a \in C : EncodeMag(F, LN(F, a), LK(F, a)) = a
    /\ \A a \in C, b \in C :
          \* product: exact value LN(a) LN(b) 2^(LK(a) + LK(b)); scale 2^(2 z0)
          /\ Agrees(F, LMul(F, a, b),
                    Nearest(F, LN(F, a) * LN(F, b) * P2(LK(F, a) + LK(F, b) - 2 * z0), 1, 2 * z0))
          /\ LMul(F, -a, b) = Signed(-1, LMul(F, a, b)) /\ LMul(F, -a, -b) = LMul(F, a, b)
          \* quotient: LN(a) 2^(LK(a) - LK(b)) / LN(b); scale 2^zd
          /\ LET zd == F.lo - F.hi - F.pl - 1 IN
             Agrees(F, LDiv(F, a, b), Nearest(F, LN(F, a) * P2(LK(F, a) - LK(F, b) - zd), LN(F, b), zd))
          /\ LDiv(F, a, -b) = Signed(-1, LDiv(F, a, b)) /\ LDiv(F, -a, -b) = LDiv(F, a, b)
          \* sum and difference; scale 2^z0
          /\ \A sb \in {-1, 1} :
                LET x == LV(a) + sb * LV(b)
                    r == LAdd(F, a, sb * b) IN
                IF x = 0 THEN r = 0
                ELSE IF r = NoVal THEN AbsI(LK(F, a) - LK(F, b)) \in {F.pf + 1, F.pf + 2}   \* the only gap
                ELSE /\ SgR(r) = Sg(x)
                     /\ Agrees(F, Mag(r), Nearest(F, AbsI(x), 1, z0))
                     /\ LAdd(F, -a, -sb * b) = Signed(-1, r)

\* the class-level arithmetic used for arbitrary floats abstracts the exact one
AbsSound(S) ==
    \A op \in ArithOps : \A a \in S : \A b \in S :
        IEEE(op, a, b) # NoVal => ClassOf(IEEE(op, a, b)) \in AbsOp(op, ClassOf(a), ClassOf(b))

\* ... and the lattice one (S: codes of mode "sci")
SciAbsSound(S) ==
    \A op \in ArithOps : \A a \in S : \A b \in S :
        SciOp(op, a, b) # NoVal => ClassOf(SciOp(op, a, b)) \in AbsOp(op, ClassOf(a), ClassOf(b))

=============================================================================
