------------------------------ MODULE Objective ------------------------------
(***************************************************************************)
(* mahf objective values (src/problems/objective/{single,multi}.rs).       *)
(*                                                                         *)
(* SingleObjective = validated f64 wrapper, MultiObjective = validated     *)
(* Vec<f64>.  The abstract carrier is                                      *)
(*     Ext = {NAN, NEGINF} \cup finite integers \cup {POSINF}              *)
(* encoded as integers so that the numeric order of the extended reals IS  *)
(* the integer order of the codes (NEGINF < every finite < POSINF); NAN is *)
(* a code outside that range and is unordered.                             *)
(*                                                                         *)
(* `vals` = set of abstract values obtained so far through the public API  *)
(* (every operand of a later call is taken from it).  Every public call is *)
(* one action Do(a); `res` is the reply of the abstract object.            *)
(*                                                                         *)
(* Two bindings of the carrier to f64 (variable `mode`):                   *)
(*   "exact": finite code k is the float k (small integers, exact IEEE     *)
(*            arithmetic, no rounding/overflow: the model keeps |r| <= B)  *)
(*   "rank" : finite code r is the dense rank of the float among all the   *)
(*            floats of the run (P-rank, DESIGN 2.4): order facts carry    *)
(*            over exactly, arithmetic is judged by class only (ArithRank) *)
(*                                                                         *)
(* The spec states the IDEAL: an arithmetic operator whose IEEE result is  *)
(* NaN or -inf does not yield an objective value (reply "illegal").        *)
(*                                                                         *)
(* act = [op, f, a, b, ca, cb, xs, ys]   res = [k, v, c, s]   one shape.   *)
(***************************************************************************)
EXTENDS Integers, Sequences, FiniteSets

CONSTANTS M,        \* constructor inputs / scalar operands of the model: -M..M and the specials
          B,        \* finite results are kept while |r| <= B (no overflow in the model)
          MaxList,  \* longest list handed to sort/min/max in the model
          VecDom,   \* component values of multi-objective vectors in the model
          MaxVec    \* longest multi-objective vector in the model

NAN    == 2000000
POSINF == 1000000
NEGINF == -1000000
NoVal  == 3000000
NoC    == "-"

VARIABLES vals, mode, act, res
vars == <<vals, mode, act, res>>

IsFin(v)   == v > NEGINF /\ v < POSINF
IsLegal(v) == IsFin(v) \/ v = POSINF
ClassOf(v) == IF v = NAN THEN "nan" ELSE IF v = NEGINF THEN "neginf" ELSE IF v = POSINF THEN "posinf"
              ELSE IF v < 0 THEN "neg" ELSE IF v = 0 THEN "zero" ELSE "pos"
Classes      == {"nan", "neginf", "neg", "zero", "pos", "posinf"}
LegalClasses == {"neg", "zero", "pos", "posinf"}

R(k, v)        == [k |-> k, v |-> v, c |-> NoC, s |-> <<>>]
RC(k, v, c)    == [k |-> k, v |-> v, c |-> c, s |-> <<>>]
RS(k, s)       == [k |-> k, v |-> NoVal, c |-> NoC, s |-> s]
A(op, f, a, b, ca, cb, xs, ys) ==
    [op |-> op, f |-> f, a |-> a, b |-> b, ca |-> ca, cb |-> cb, xs |-> xs, ys |-> ys]

---------------------------------------------------------------------------
(* IEEE-754 on the carrier, the rules that matter at this level.           *)
Sg(v) == IF v < 0 THEN -1 ELSE IF v > 0 THEN 1 ELSE 0          \* v # NAN
Inf(s) == IF s > 0 THEN POSINF ELSE NEGINF

NegE(a) == IF a = NAN THEN NAN ELSE IF a = POSINF THEN NEGINF ELSE IF a = NEGINF THEN POSINF ELSE -a

AddE(a, b) == IF a = NAN \/ b = NAN THEN NAN
              ELSE IF ~IsFin(a) THEN (IF ~IsFin(b) /\ b # a THEN NAN ELSE a)
              ELSE IF ~IsFin(b) THEN b
              ELSE a + b

SubE(a, b) == AddE(a, NegE(b))

MulE(a, b) == IF a = NAN \/ b = NAN THEN NAN
              ELSE IF ~IsFin(a) \/ ~IsFin(b)
                   THEN (IF Sg(a) * Sg(b) = 0 THEN NAN ELSE Inf(Sg(a) * Sg(b)))
              ELSE a * b

\* exact quotient of finite a by finite b # 0, NoVal when b does not divide a (not representable)
Quot(a, b) == LET Q == {q \in -(IF a < 0 THEN -a ELSE a)..(IF a < 0 THEN -a ELSE a) : q * b = a}
              IN IF Q = {} THEN NoVal ELSE CHOOSE q \in Q : TRUE

\* the model's zero is +0.0
DivE(a, b) == IF a = NAN \/ b = NAN THEN NAN
              ELSE IF ~IsFin(a) THEN (IF ~IsFin(b) THEN NAN
                                      ELSE Inf(Sg(a) * (IF b < 0 THEN -1 ELSE 1)))
              ELSE IF ~IsFin(b) THEN 0
              ELSE IF b = 0 THEN (IF a = 0 THEN NAN ELSE Inf(Sg(a)))
              ELSE Quot(a, b)

IEEE(op, a, b) == CASE op = "neg" -> NegE(a)
                    [] op = "add" -> AddE(a, b)
                    [] op = "sub" -> SubE(a, b)
                    [] op = "mul" -> MulE(a, b)
                    [] op = "div" -> DivE(a, b)

ArithOps == {"neg", "add", "sub", "mul", "div"}

(* Class-level IEEE (sound for every f64, including rounding to zero,      *)
(* overflow to +-inf and the sign of a zero divisor): the classes the      *)
(* result can have, given the classes of the operands.                     *)
FlipC(c) == CASE c = "neg" -> "pos" [] c = "pos" -> "neg" [] c = "neginf" -> "posinf"
              [] c = "posinf" -> "neginf" [] OTHER -> c
SgC(c)  == IF c \in {"neg", "neginf"} THEN -1 ELSE IF c \in {"pos", "posinf"} THEN 1 ELSE 0
FinC(c) == c \in {"neg", "zero", "pos"}
InfC(s) == IF s > 0 THEN "posinf" ELSE "neginf"
SgnC(s) == IF s > 0 THEN "pos" ELSE "neg"

AddC(ca, cb) ==
    IF ca = "nan" \/ cb = "nan" THEN {"nan"}
    ELSE IF ~FinC(ca) THEN (IF ~FinC(cb) /\ cb # ca THEN {"nan"} ELSE {ca})
    ELSE IF ~FinC(cb) THEN {cb}
    ELSE IF ca = "zero" THEN {cb}
    ELSE IF cb = "zero" THEN {ca}
    ELSE IF ca = cb THEN {ca, InfC(SgC(ca))}          \* same sign: may overflow
    ELSE {"neg", "zero", "pos"}

MulC(ca, cb) ==
    IF ca = "nan" \/ cb = "nan" THEN {"nan"}
    ELSE IF ~FinC(ca) \/ ~FinC(cb)
         THEN (IF SgC(ca) * SgC(cb) = 0 THEN {"nan"} ELSE {InfC(SgC(ca) * SgC(cb))})
    ELSE IF ca = "zero" \/ cb = "zero" THEN {"zero"}
    ELSE {SgnC(SgC(ca) * SgC(cb)), "zero", InfC(SgC(ca) * SgC(cb))}   \* underflow / overflow

DivC(ca, cb) ==
    IF ca = "nan" \/ cb = "nan" THEN {"nan"}
    ELSE IF ~FinC(ca) THEN (IF ~FinC(cb) THEN {"nan"}
                            ELSE IF cb = "zero" THEN {"posinf", "neginf"}   \* +0.0 or -0.0
                            ELSE {InfC(SgC(ca) * SgC(cb))})
    ELSE IF ~FinC(cb) THEN {"zero"}
    ELSE IF cb = "zero" THEN (IF ca = "zero" THEN {"nan"} ELSE {"posinf", "neginf"})
    ELSE IF ca = "zero" THEN {"zero"}
    ELSE {SgnC(SgC(ca) * SgC(cb)), "zero", InfC(SgC(ca) * SgC(cb))}

AbsOp(op, ca, cb) == CASE op = "neg" -> {FlipC(ca)}
                       [] op = "add" -> AddC(ca, cb)
                       [] op = "sub" -> AddC(ca, FlipC(cb))
                       [] op = "mul" -> MulC(ca, cb)
                       [] op = "div" -> DivC(ca, cb)

---------------------------------------------------------------------------
(* Comparison as the code does it: derived PartialOrd on the f64, and      *)
(* Ord::cmp = partial_cmp().unwrap().   -1 / 0 / 1, 2 = None, 3 = panic.   *)
PartialCmpF(a, b) == IF a = NAN \/ b = NAN THEN 2
                     ELSE IF a < b THEN -1 ELSE IF a > b THEN 1 ELSE 0
CmpF(a, b) == IF PartialCmpF(a, b) = 2 THEN 3 ELSE PartialCmpF(a, b)

CmpForms == {"cmp", "partial_cmp", "lt", "le", "gt", "ge", "eq", "ne"}
Bool(p) == IF p THEN 1 ELSE 0

CmpReply(f, a, b) ==
    LET p == PartialCmpF(a, b) IN
    CASE f = "cmp"         -> IF p = 2 THEN R("panic", NoVal) ELSE R("ord", p)
      [] f = "partial_cmp" -> R("ord", p)
      [] f = "lt" -> R("bool", Bool(p = -1))
      [] f = "le" -> R("bool", Bool(p \in {-1, 0}))
      [] f = "gt" -> R("bool", Bool(p = 1))
      [] f = "ge" -> R("bool", Bool(p \in {0, 1}))
      [] f = "eq" -> R("bool", Bool(p = 0))
      [] f = "ne" -> R("bool", Bool(p # 0))

\* insertion sort by CmpF (any comparison sort gives the same list of codes)
RECURSIVE InsertSorted(_, _)
InsertSorted(s, v) == IF s = <<>> THEN <<v>>
                      ELSE IF CmpF(v, Head(s)) \in {-1, 0} THEN <<v>> \o s
                      ELSE <<Head(s)>> \o InsertSorted(Tail(s), v)
RECURSIVE SortF(_)
SortF(s) == IF s = <<>> THEN <<>> ELSE InsertSorted(SortF(Tail(s)), Head(s))

Range(s) == {s[i] : i \in DOMAIN s}

(* Equality as the code does it (PartialEq, what Vec::dedup / contains /   *)
(* position use) and Vec::dedup = drop every element equal to its          *)
(* predecessor.  Binary search is asked on lists sorted by the numeric     *)
(* order only (its contract).                                              *)
EqF(a, b) == PartialCmpF(a, b) = 0
RECURSIVE DedupF(_)
DedupF(s) == IF Len(s) <= 1 THEN s
             ELSE IF EqF(s[1], s[2]) THEN DedupF(Tail(s))       \* equal values: same code, either one
             ELSE <<s[1]>> \o DedupF(Tail(s))
IsSorted(s) == \A i \in 1..(Len(s) - 1) : s[i] <= s[i + 1]
MinOf(S) == CHOOSE x \in S : \A y \in S : x <= y

---------------------------------------------------------------------------
(* MultiObjective: TryFrom and PartialOrd::partial_cmp transcribed from    *)
(* multi.rs (equality first, then length, then the has_better / has_worse  *)
(* loop).  Reply codes as above (2 = None).                                *)
VecErr(xs) == IF \E i \in DOMAIN xs : xs[i] = NAN THEN "err_nan"
              ELSE IF \E i \in DOMAIN xs : xs[i] = NEGINF THEN "err_neginf"
              ELSE "ok"

ParetoF(u, v) ==
    IF u = v THEN 0
    ELSE IF Len(u) # Len(v) THEN 2
    ELSE LET better == \E i \in DOMAIN u : u[i] < v[i]
             worse  == \E i \in DOMAIN u : u[i] > v[i]
         IN IF better /\ ~worse THEN -1 ELSE IF worse /\ ~better THEN 1 ELSE 2

MCmpForms == {"partial_cmp", "eq", "ne", "lt", "le", "gt", "ge"}

MCmpReply(f, u, v) ==
    LET p == ParetoF(u, v) IN
    CASE f = "partial_cmp" -> R("ord", p)
      [] f = "eq" -> R("bool", Bool(u = v))
      [] f = "ne" -> R("bool", Bool(u # v))
      [] f = "lt" -> R("bool", Bool(p = -1))
      [] f = "le" -> R("bool", Bool(p \in {-1, 0}))
      [] f = "gt" -> R("bool", Bool(p = 1))
      [] f = "ge" -> R("bool", Bool(p \in {0, 1}))

---------------------------------------------------------------------------
(* Actions.                                                                *)
TryFrom(x, cx) ==
    IF x = NAN THEN res' = R("err_nan", NoVal) /\ UNCHANGED vals
    ELSE IF x = NEGINF THEN res' = R("err_neginf", NoVal) /\ UNCHANGED vals
    ELSE res' = RC("ok", x, cx) /\ vals' = vals \cup {x}

Const ==   \* SingleObjective::INFINITY, SingleObjective::default()
    res' = RC("ok", POSINF, "posinf") /\ vals' = vals \cup {POSINF}

\* exact arithmetic (mode "exact"): the IDEAL operator never yields an illegal value
Arith(op, a, b) ==
    LET r == IEEE(op, a, b) IN
    /\ r # NoVal                       \* quotient representable
    /\ IF IsLegal(r) THEN res' = RC("val", r, ClassOf(r)) /\ vals' = vals \cup {r}
       ELSE res' = RC("illegal", NoVal, NoC) /\ UNCHANGED vals

\* class-level arithmetic (mode "rank"): w = the observed result [k, v, c, s]; its rank is
\* unconstrained, its class must be one IEEE allows AND legal
ArithRank(op, ca, cb, w) ==
    /\ res' = w
    /\ \/ /\ w.k = "val" /\ w.c \in AbsOp(op, ca, cb) \cap LegalClasses
          /\ IsLegal(w.v) /\ (w.c = "posinf") = (w.v = POSINF)
          /\ w.s = <<>>
          /\ vals' = vals \cup {w.v}
       \/ /\ w = RC("illegal", NoVal, NoC)
          /\ AbsOp(op, ca, cb) \cap {"nan", "neginf"} # {}
          /\ UNCHANGED vals

Cmp(f, a, b) == res' = CmpReply(f, a, b) /\ UNCHANGED vals

MinMax(op, a, b) ==   \* Ord::min / Ord::max
    /\ res' = (IF CmpF(a, b) = 3 THEN R("panic", NoVal)
               ELSE IF op = "min" THEN R("val", IF CmpF(a, b) = 1 THEN b ELSE a)
               ELSE R("val", IF CmpF(a, b) = 1 THEN a ELSE b))
    /\ UNCHANGED vals

IsFinite(a) == res' = R("bool", Bool(IsFin(a))) /\ UNCHANGED vals
Value(a)    == res' = R("val", a) /\ UNCHANGED vals          \* value(), f64::from

Sort(xs) == res' = RS("list", SortF(xs)) /\ UNCHANGED vals    \* Vec::sort()
ListMin(xs) ==                                                \* Iterator::min
    /\ res' = (IF xs = <<>> THEN R("none", NoVal) ELSE R("val", SortF(xs)[1]))
    /\ UNCHANGED vals
ListMax(xs) ==
    /\ res' = (IF xs = <<>> THEN R("none", NoVal) ELSE R("val", SortF(xs)[Len(xs)]))
    /\ UNCHANGED vals

\* Vec::dedup on the list as given (f = "raw") or after Vec::sort (f = "sorted")
Dedup(f, xs) == /\ res' = RS("list", IF f = "sorted" THEN DedupF(SortF(xs)) ELSE DedupF(xs))
                /\ UNCHANGED vals
\* slice::contains / Iterator::position(|o| *o == a): PartialEq
Contains(xs, a) == res' = R("bool", Bool(\E i \in DOMAIN xs : EqF(xs[i], a))) /\ UNCHANGED vals
Position(xs, a) ==
    /\ res' = (LET H == {i \in DOMAIN xs : EqF(xs[i], a)} IN
               IF H = {} THEN R("none", NoVal) ELSE R("idx", MinOf(H)))
    /\ UNCHANGED vals
\* slice::binary_search (Ord) on a sorted list: the element found (which of several equal ones
\* is unspecified, its value is not), or the insertion point
BSearch(xs, a) ==
    /\ IsSorted(xs)
    /\ res' = (IF \E i \in DOMAIN xs : CmpF(xs[i], a) = 0 THEN R("found", a)
               ELSE R("insert", Cardinality({i \in DOMAIN xs : CmpF(xs[i], a) = -1})))
    /\ UNCHANGED vals

MTryFrom(xs) ==   \* TryFrom<Vec<f64>> / TryFrom<&[f64]>; on success value() is read back
    /\ res' = (IF VecErr(xs) = "ok" THEN RS("ok", xs) ELSE RS(VecErr(xs), <<>>))
    /\ UNCHANGED vals
MCmp(f, u, v) == res' = MCmpReply(f, u, v) /\ UNCHANGED vals
MIsFinite(u)  == res' = R("bool", Bool(\A i \in DOMAIN u : IsFin(u[i]))) /\ UNCHANGED vals

IsArith(a) == a.op \in ArithOps
CO(v) == IF v = NoVal THEN NoC ELSE ClassOf(v)
\* a logged class agrees with the code of the value on the three specials
SpecialOK(v, c) == /\ (c = "nan") = (v = NAN) /\ (c = "neginf") = (v = NEGINF)
                   /\ (c = "posinf") = (v = POSINF) /\ c \in Classes
IsMulti(a) == a.op \in {"m_try_from", "m_cmp", "m_is_finite"}
LegalVec(u) == \A i \in DOMAIN u : IsLegal(u[i])

\* everything except class-level arithmetic
Do(a) ==
    /\ act' = a
    /\ UNCHANGED mode
    /\ (mode = "exact" /\ (IsArith(a) \/ a.op = "try_from")) => (a.ca = CO(a.a) /\ a.cb = CO(a.b))
    /\ CASE a.op = "try_from"  -> SpecialOK(a.a, a.ca) /\ TryFrom(a.a, a.ca)
         [] a.op \in {"infinity", "default"} -> Const
         [] a.op = "neg"       -> mode = "exact" /\ a.a \in vals /\ Arith("neg", a.a, NoVal)
         [] a.op \in {"add", "sub"} ->
                mode = "exact" /\ a.a \in vals /\ a.b \in vals /\ Arith(a.op, a.a, a.b)
         [] a.op \in {"mul", "div"} ->
                mode = "exact" /\ a.a \in vals /\ Arith(a.op, a.a, a.b)      \* b: raw f64 scalar
         [] a.op = "cmp"       -> a.a \in vals /\ a.b \in vals /\ Cmp(a.f, a.a, a.b)
         [] a.op \in {"min", "max"} -> a.a \in vals /\ a.b \in vals /\ MinMax(a.op, a.a, a.b)
         [] a.op = "is_finite" -> a.a \in vals /\ IsFinite(a.a)
         [] a.op = "value"     -> a.a \in vals /\ Value(a.a)
         [] a.op = "sort"      -> Range(a.xs) \subseteq vals /\ Sort(a.xs)
         [] a.op = "list_min"  -> Range(a.xs) \subseteq vals /\ ListMin(a.xs)
         [] a.op = "list_max"  -> Range(a.xs) \subseteq vals /\ ListMax(a.xs)
         [] a.op = "dedup"     -> Range(a.xs) \subseteq vals /\ a.f \in {"raw", "sorted"} /\ Dedup(a.f, a.xs)
         [] a.op = "contains"  -> Range(a.xs) \subseteq vals /\ a.a \in vals /\ Contains(a.xs, a.a)
         [] a.op = "position"  -> Range(a.xs) \subseteq vals /\ a.a \in vals /\ Position(a.xs, a.a)
         [] a.op = "bsearch"   -> Range(a.xs) \subseteq vals /\ a.a \in vals /\ BSearch(a.xs, a.a)
         [] a.op = "m_try_from"  -> MTryFrom(a.xs)
         [] a.op = "m_cmp"       -> LegalVec(a.xs) /\ LegalVec(a.ys) /\ MCmp(a.f, a.xs, a.ys)
         [] a.op = "m_is_finite" -> LegalVec(a.xs) /\ MIsFinite(a.xs)

\* class-level arithmetic with the observed result as witness
DoRank(a, w) ==
    /\ act' = a
    /\ UNCHANGED mode
    /\ mode = "rank"
    /\ IsArith(a)
    /\ a.a \in vals
    /\ a.op \in {"add", "sub"} => a.b \in vals
    /\ SpecialOK(a.a, a.ca) /\ a.ca \in LegalClasses
    /\ IF a.op = "neg" THEN a.cb = NoC ELSE SpecialOK(a.b, a.cb)
    /\ a.op \in {"add", "sub"} => a.cb \in LegalClasses
    /\ ArithRank(a.op, a.ca, a.cb, w)

---------------------------------------------------------------------------
(* The bounded call alphabet of the model.                                 *)
Inputs == {NAN, NEGINF, POSINF} \cup (-M..M)
SeqsUpTo(S, n) == UNION {[1..k -> S] : k \in 0..n}
E == <<>>
InBound(r) == IsFin(r) => (r >= -B /\ r <= B)

Acts ==
    {A("try_from", "-", x, NoVal, CO(x), NoC, E, E) : x \in Inputs}
    \cup {A(c, "-", NoVal, NoVal, NoC, NoC, E, E) : c \in {"infinity", "default"}}
    \cup {A("neg", "-", a, NoVal, CO(a), NoC, E, E) : a \in vals}
    \cup {A(op, "-", a, b, CO(a), CO(b), E, E) : op \in {"add", "sub"}, a \in vals, b \in vals}
    \cup {A(op, "-", a, b, CO(a), CO(b), E, E) : op \in {"mul", "div"}, a \in vals, b \in Inputs}
    \cup {A("cmp", f, a, b, NoC, NoC, E, E) : f \in CmpForms, a \in vals, b \in vals}
    \cup {A(op, "-", a, b, NoC, NoC, E, E) : op \in {"min", "max"}, a \in vals, b \in vals}
    \cup {A("is_finite", "-", a, NoVal, NoC, NoC, E, E) : a \in vals}
    \cup {A("value", f, a, NoVal, NoC, NoC, E, E) : f \in {"value", "into_f64"}, a \in vals}
    \cup {A(op, "-", NoVal, NoVal, NoC, NoC, xs, E) :
              op \in {"sort", "list_min", "list_max"}, xs \in SeqsUpTo(vals, MaxList)}
    \cup {A("dedup", f, NoVal, NoVal, NoC, NoC, xs, E) :
              f \in {"raw", "sorted"}, xs \in SeqsUpTo(vals, MaxList)}
    \cup {A(op, "-", a, NoVal, NoC, NoC, xs, E) :
              op \in {"contains", "position"}, a \in vals, xs \in SeqsUpTo(vals, MaxList)}
    \cup {A("bsearch", "-", a, NoVal, NoC, NoC, xs, E) :
              a \in vals, xs \in {s \in SeqsUpTo(vals, MaxList) : IsSorted(s)}}

VecIn  == SeqsUpTo(VecDom \cup {NAN, NEGINF}, MaxVec)
Vecs   == SeqsUpTo(VecDom, MaxVec)
MActs ==
    {A("m_try_from", f, NoVal, NoVal, NoC, NoC, xs, E) : f \in {"vec", "slice"}, xs \in VecIn}
    \cup {A("m_cmp", f, NoVal, NoVal, NoC, NoC, u, v) : f \in MCmpForms, u \in Vecs, v \in Vecs}
    \cup {A("m_is_finite", "-", NoVal, NoVal, NoC, NoC, u, E) : u \in Vecs}

InitAct == A("init", "-", NoVal, NoVal, NoC, NoC, E, E)

Init == /\ vals = {}
        /\ mode = "exact"
        /\ act = InitAct
        /\ res = R("ok", NoVal)

\* results leaving the bound are not explored ("arguments are kept small"); multi-objective
\* calls do not depend on vals and are explored from the initial state only
Next == \/ \E a \in Acts : (IsArith(a) => InBound(IEEE(a.op, a.a, a.b))) /\ Do(a)
        \/ vals = {} /\ \E a \in MActs : Do(a)

Spec == Init /\ [][Next]_vars

---------------------------------------------------------------------------
(* Properties of C09, stated without reference to the action bodies.       *)

TypeOK == /\ vals \subseteq (Int \ {NoVal})
          /\ res.k \in {"ok", "err_nan", "err_neginf", "val", "illegal", "ord", "bool", "panic",
                        "list", "none", "idx", "found", "insert"}

\* Objective values obtainable through the public API are never NaN or -inf.
Legal == vals \cap {NAN, NEGINF} = {}

\* ... and no reply hands one out either.
LegalReplies ==
    [][ /\ (res'.k \in {"ok", "val"} /\ ~IsMulti(act')) => IsLegal(res'.v)
        /\ res'.k \in {"ok", "list"} => \A i \in DOMAIN res'.s : IsLegal(res'.s[i]) ]_vars

\* construction: exactly the NaN / -inf inputs are refused, everything else is kept as is
ConstructionExact ==
    [][ act'.op = "try_from" =>
          /\ (act'.a = NAN)    <=> (res'.k = "err_nan")
          /\ (act'.a = NEGINF) <=> (res'.k = "err_neginf")
          /\ (res'.k = "ok")   <=> IsLegal(act'.a)
          /\ res'.k = "ok" => res'.v = act'.a /\ act'.a \in vals' ]_vars

\* single objectives are totally ordered exactly like their numeric values (integer order of
\* the codes, POSINF on top): total, antisymmetric, transitive, agrees with equality
TotalOrder ==
    /\ \A a \in vals, b \in vals :
          /\ CmpF(a, b) \in {-1, 0, 1}
          /\ CmpF(a, b) = -CmpF(b, a)
          /\ (CmpF(a, b) = 0) <=> (a = b)
          /\ (CmpF(a, b) = -1) <=> (a < b)
    /\ \A a \in vals, b \in vals, c \in vals :
          (CmpF(a, b) \in {-1, 0} /\ CmpF(b, c) \in {-1, 0}) => CmpF(a, c) \in {-1, 0}

\* every comparison operator replies what the integer order says, and never fails
CmpSound ==
    [][ act'.op = "cmp" =>
          LET a == act'.a  b == act'.b  f == act'.f IN
          /\ res'.k # "panic"
          /\ f \in {"cmp", "partial_cmp"} =>
                res'.v = (IF a < b THEN -1 ELSE IF a > b THEN 1 ELSE 0)
          /\ f = "lt" => res'.v = Bool(a < b)
          /\ f = "le" => res'.v = Bool(a <= b)
          /\ f = "gt" => res'.v = Bool(a > b)
          /\ f = "ge" => res'.v = Bool(a >= b)
          /\ f = "eq" => res'.v = Bool(a = b)
          /\ f = "ne" => res'.v = Bool(a # b) ]_vars

Count(s, v) == Cardinality({i \in DOMAIN s : s[i] = v})

\* sorting, minimum and maximum never fail and are what their names say
SortMinMaxSound ==
    [][ /\ act'.op \in {"sort", "list_min", "list_max", "min", "max"} => res'.k # "panic"
        /\ act'.op = "sort" =>
              /\ Len(res'.s) = Len(act'.xs)
              /\ \A v \in Range(act'.xs) \cup Range(res'.s) : Count(res'.s, v) = Count(act'.xs, v)
              /\ \A i \in 1..(Len(res'.s) - 1) : res'.s[i] <= res'.s[i + 1]
        /\ act'.op = "list_min" =>
              IF act'.xs = <<>> THEN res'.k = "none"
              ELSE res'.v \in Range(act'.xs) /\ \A v \in Range(act'.xs) : res'.v <= v
        /\ act'.op = "list_max" =>
              IF act'.xs = <<>> THEN res'.k = "none"
              ELSE res'.v \in Range(act'.xs) /\ \A v \in Range(act'.xs) : res'.v >= v
        /\ act'.op = "min" => res'.v \in {act'.a, act'.b} /\ res'.v <= act'.a /\ res'.v <= act'.b
        /\ act'.op = "max" => res'.v \in {act'.a, act'.b} /\ res'.v >= act'.a /\ res'.v >= act'.b
      ]_vars

\* equality IS equality of the numeric values, consistently in everything built on it:
\* the comparison forms among themselves (== iff cmp = Equal iff neither < nor >), Vec::dedup
\* (after sorting: strictly increasing, same set of values -- no distinct value is dropped, no
\* duplicate survives; as given: exactly the elements that differ from their predecessor),
\* contains / position (first index holding that very value), binary search (found iff present,
\* else the number of smaller elements)
StrictlyIncreasing(s) == \A i \in 1..(Len(s) - 1) : s[i] < s[i + 1]
EqualityExact ==
    [][ /\ act'.op \in {"dedup", "contains", "position", "bsearch"} => res'.k # "panic"
        /\ act'.op = "dedup" /\ act'.f = "sorted" =>
              /\ res'.k = "list"
              /\ StrictlyIncreasing(res'.s)
              /\ Range(res'.s) = Range(act'.xs)
        /\ act'.op = "dedup" /\ act'.f = "raw" =>
              LET xs == act'.xs
                  keep == {i \in DOMAIN xs : i = 1 \/ xs[i] # xs[i - 1]} IN
              /\ res'.k = "list"
              /\ Len(res'.s) = Cardinality(keep)
              /\ \A i \in keep : res'.s[Cardinality({j \in keep : j <= i})] = xs[i]
        /\ act'.op = "contains" => res'.k = "bool" /\ res'.v = Bool(act'.a \in Range(act'.xs))
        /\ act'.op = "position" =>
              IF act'.a \in Range(act'.xs)
              THEN /\ res'.k = "idx" /\ res'.v \in DOMAIN act'.xs
                   /\ act'.xs[res'.v] = act'.a
                   /\ \A j \in 1..(res'.v - 1) : act'.xs[j] # act'.a
              ELSE res'.k = "none"
        /\ act'.op = "bsearch" =>
              IF act'.a \in Range(act'.xs) THEN res'.k = "found" /\ res'.v = act'.a
              ELSE /\ res'.k = "insert"
                   /\ res'.v = Cardinality({i \in DOMAIN act'.xs : act'.xs[i] < act'.a})
      ]_vars

\* multi-objective comparison IS Pareto dominance (minimisation)
Dominates(u, v) == /\ Len(u) = Len(v)
                   /\ \A i \in DOMAIN u : u[i] <= v[i]
                   /\ \E i \in DOMAIN u : u[i] < v[i]

ParetoSound ==
    [][ act'.op = "m_cmp" /\ act'.f = "partial_cmp" =>
          LET u == act'.xs  v == act'.ys IN
          /\ (res'.v = 0)  <=> (u = v)
          /\ (res'.v = -1) <=> Dominates(u, v)
          /\ (res'.v = 1)  <=> Dominates(v, u)
          /\ (res'.v = 2)  <=> (u # v /\ ~Dominates(u, v) /\ ~Dominates(v, u))
          /\ Len(u) # Len(v) => res'.v = 2 ]_vars

\* the laws, as statements about the comparison function over a set of vectors
ParetoLaws(V) ==
    /\ \A u \in V : ParetoF(u, u) = 0
    /\ \A u \in V, v \in V :
          /\ (ParetoF(u, v) = 0) <=> (u = v)                          \* agrees with equality
          /\ (ParetoF(u, v) = -1) <=> (ParetoF(v, u) = 1)             \* antisymmetric
          /\ ParetoF(u, v) = 2 <=> ParetoF(v, u) = 2
          /\ Len(u) # Len(v) => ParetoF(u, v) = 2                     \* different length
          /\ (Len(u) = Len(v) /\ (\E i \in DOMAIN u : u[i] < v[i]) /\ (\E i \in DOMAIN u : u[i] > v[i]))
                => ParetoF(u, v) = 2                                  \* trade-off
    /\ \A u \in V, v \in V, w \in V :
          /\ (ParetoF(u, v) = -1 /\ ParetoF(v, w) = -1) => ParetoF(u, w) = -1     \* transitive
          /\ (ParetoF(u, v) \in {-1, 0} /\ ParetoF(v, w) \in {-1, 0}) => ParetoF(u, w) \in {-1, 0}

\* the class-level arithmetic used for arbitrary floats abstracts the exact one
AbsSound(S) ==
    \A op \in ArithOps : \A a \in S : \A b \in S :
        IEEE(op, a, b) # NoVal => ClassOf(IEEE(op, a, b)) \in AbsOp(op, ClassOf(a), ClassOf(b))

=============================================================================
