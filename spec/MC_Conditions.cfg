SPECIFICATION Spec
CONSTANTS
  Lens = {"iter"}
  Val = {0, 1, 2, 3, 4, 5, 6}
  Ns = {0, 1, 2, 3, 4}
  Ds = {0, 1, 2, 3}
  Pts = {0, 5, 10}
  Ops = {"set", "lt", "every", "co", "loop"}
  MaxTrials = 2
  MaxDepth = 2
  MaxArity = 2
  MaxLeaves = 3
  Eps = {0}
  Opts = {0}
  MaxPSize = 0
  MaxPDepth = 0
VIEW McView
INVARIANT TypeOK
PROPERTY UnreadableIsError LessThanExact EveryExact ChangeExact OptimumExact ChanceCounted LogicExact LoopExact LoopFromAnywhere
ACTION_CONSTRAINT PrintEdge
CHECK_DEADLOCK FALSE
