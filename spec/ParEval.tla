------------------------------ MODULE ParEval ------------------------------
(***************************************************************************)
(* Parallel evaluation of a population (src/problems/evaluate.rs,          *)
(* `Parallel::evaluate` under rayon): workers claim individuals and finish *)
(* them in any order; each writes only its own individual's objective with *)
(* the value the objective function assigns to its solution (`want[i]`);   *)
(* nobody draws from the random generator.  Schedule independence as       *)
(* confluence: every interleaving ends in the state the sequential         *)
(* evaluator produces.                                                     *)
(***************************************************************************)
EXTENDS Naturals, Sequences, FiniteSets

CONSTANTS MaxN,     \* population sizes explored by the model checker
          Workers,  \* set of worker ids
          Vals      \* objective values (ranks, > 0)

NoObj == 0
VARIABLES n,        \* population size of this evaluation
          want,     \* [1..n -> Vals]: objective value of individual i's solution
          objs,     \* [1..n -> Vals \cup {NoObj}]: what the individuals carry
          busy,     \* [Workers -> 0..n]   (0 = idle)
          started,  \* individuals whose evaluation has started
          calls,    \* objective invocations made by this evaluation
          rngpos    \* draws made from the shared random generator during this evaluation
pvars == <<n, want, objs, busy, started, calls, rngpos>>

Begin(k, w) == /\ n = k /\ want = w
               /\ objs = [i \in 1..k |-> NoObj]
               /\ busy = [x \in Workers |-> 0]
               /\ started = {} /\ calls = 0 /\ rngpos = 0
PInit == \E k \in 0..MaxN : \E w \in [1..k -> Vals] : Begin(k, w)

Claim(w, i) == /\ busy[w] = 0 /\ i \in 1..n /\ i \notin started
               /\ busy' = [busy EXCEPT ![w] = i]
               /\ started' = started \cup {i}
               /\ calls' = calls + 1
               /\ UNCHANGED <<n, want, objs, rngpos>>
Finish(w) == /\ busy[w] # 0
             /\ objs' = [objs EXCEPT ![busy[w]] = want[busy[w]]]
             /\ busy' = [busy EXCEPT ![w] = 0]
             /\ UNCHANGED <<n, want, started, calls, rngpos>>
PNext == \E w \in Workers : Finish(w) \/ \E i \in 1..n : Claim(w, i)
PSpec == PInit /\ [][PNext]_pvars

Quiescent == started = 1..n /\ \A w \in Workers : busy[w] = 0
\* every schedule ends in the state the sequential evaluator produces
Confluent == Quiescent => /\ objs = want
                          /\ calls = n
                          /\ rngpos = 0
\* an individual is never evaluated twice; a value, once written, is the right one
OnceEach == /\ calls = Cardinality(started)
            /\ \A i \in 1..n : objs[i] # NoObj => (i \in started /\ objs[i] = want[i])
NoRandomness == rngpos = 0
\* no schedule gets stuck before quiescence
NoStuck == Quiescent \/ ENABLED PNext
=============================================================================
