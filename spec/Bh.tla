--------------------------------- MODULE Bh ---------------------------------
(***************************************************************************)
(* Beyond the listed properties: the two components of the black-hole      *)
(* algorithm (src/components/swarm/bh.rs, src/components/replacement/bh.rs) *)
(* on PREPARED states with integer positions and objective values.         *)
(*                                                                         *)
(*   xs[u]  position of individual u (a point with d integer coordinates)  *)
(*   fs[u]  its objective value (NoObj: not evaluated), fb the objective   *)
(*          value of the best individual on record (the black hole)        *)
(*                                                                         *)
(* move     BlackHoleParticlesUpdate: every individual moves, coordinate   *)
(*          by coordinate, by a random share in [0, 1) of the way towards  *)
(*          the best individual of the population; all become unevaluated. *)
(* horizon  EventHorizon: radius = fb / sum of objective values; every     *)
(*          individual other than the best one whose Euclidean distance to *)
(*          the best one is below the radius is replaced by a random point *)
(*          of the domain (and is unevaluated), all others are untouched.  *)
(*          dist < fb / S is decided exactly: fb > 0 /\ dist^2 S^2 < fb^2. *)
(* Which of several equally good individuals counts as "the best" is not   *)
(* fixed: the model chooses any of them.                                   *)
(***************************************************************************)
EXTENDS Naturals, Integers, Sequences, FiniteSets, TLC

CONSTANTS Pts,       \* points explored by the model checker (all of one dimension)
          Objs,      \* objective values explored (non-negative)
          MaxN,      \* population sizes 1..MaxN
          Dom        \* points of the domain explored as replacements

VARIABLES xs, fs, fb, ph, act, res
bvars == <<xs, fs, fb, ph, act, res>>

NoObj == -1
N == Len(xs)
RECURSIVE SumTo(_, _)
SumTo(f, n) == IF n = 0 THEN 0 ELSE f[n] + SumTo(f, n - 1)
Sum(f) == SumTo(f, Len(f))
MinOf(f) == CHOOSE m \in {f[u] : u \in 1..Len(f)} : \A u \in 1..Len(f) : m <= f[u]
Mins == {u \in 1..N : fs[u] = MinOf(fs)}
D2(p, q) == Sum([k \in 1..Len(p) |-> (p[k] - q[k]) * (p[k] - q[k])])
AllEvaluated == \A u \in 1..N : fs[u] # NoObj

\* dist(u, best) < fb / S, exactly (objective values are non-negative; S = 0: the radius is +inf for fb > 0, NaN for 0 / 0)
Near(u, idx) == LET S == Sum(fs) IN
                IF S = 0 THEN fb > 0 ELSE fb > 0 /\ D2(xs[u], xs[idx]) * S * S < fb * fb
Replaced(idx) == {u \in 1..N : u # idx /\ Near(u, idx)}

Horizon ==
    /\ ph = "ready" /\ N >= 1 /\ AllEvaluated
    /\ \E idx \in Mins :
         \E nx \in [Replaced(idx) -> Dom] :
            /\ xs' = [u \in 1..N |-> IF u \in Replaced(idx) THEN nx[u] ELSE xs[u]]
            /\ fs' = [u \in 1..N |-> IF u \in Replaced(idx) THEN NoObj ELSE fs[u]]
    /\ fb' = fb /\ ph' = "done" /\ act' = "horizon" /\ res' = "ok"

\* integer points a coordinate can reach on its way from x towards g (never g itself unless it starts there)
Way(x, g) == IF x = g THEN {x} ELSE IF x < g THEN x..(g - 1) ELSE (g + 1)..x
Move ==
    /\ ph = "ready" /\ N >= 1 /\ AllEvaluated
    /\ \E idx \in Mins :
         /\ xs' \in [1..N -> Pts]
         /\ \A u \in 1..N : \A k \in 1..Len(xs[u]) : xs'[u][k] \in Way(xs[u][k], xs[idx][k])
    /\ fs' = [u \in 1..N |-> NoObj]
    /\ fb' = fb /\ ph' = "done" /\ act' = "move" /\ res' = "ok"

Init == /\ xs \in UNION {[1..n -> Pts] : n \in 1..MaxN}
        /\ fs \in [1..Len(xs) -> Objs]
        /\ fb \in Objs
        /\ ph = "ready" /\ act = "prepare" /\ res = "ok"
Next == Horizon \/ Move
Spec == Init /\ [][Next]_bvars

---------------------------------------------------------------------------
\* the population keeps its size
SizeKept == [][Len(xs') = Len(xs) /\ Len(fs') = Len(xs')]_bvars
\* the event horizon never swallows the best individual
HorizonKeepsBest == [][act' = "horizon" => \E u \in Mins : xs'[u] = xs[u] /\ fs'[u] = fs[u]]_bvars
\* ... touches only individuals inside the radius around a best one, and leaves everyone it touches unevaluated
HorizonOnlyNear ==
    [][act' = "horizon" =>
          \E idx \in Mins : \A u \in 1..N :
              IF u \in Replaced(idx) THEN fs'[u] = NoObj /\ xs'[u] \in Dom
              ELSE xs'[u] = xs[u] /\ fs'[u] = fs[u]]_bvars
\* a radius of zero (black hole with objective value 0) or a far-away individual: nothing happens to it
HorizonFarSafe ==
    [][act' = "horizon" /\ fb = 0 => xs' = xs /\ fs' = fs]_bvars
\* the move takes every individual towards a best one (never past it), the best one stays, all become unevaluated
MoveTowards ==
    [][act' = "move" =>
          /\ \E idx \in Mins : /\ xs'[idx] = xs[idx]
                               /\ \A u \in 1..N : D2(xs'[u], xs[idx]) <= D2(xs[u], xs[idx])
          /\ \A u \in 1..N : fs'[u] = NoObj]_bvars
=============================================================================
