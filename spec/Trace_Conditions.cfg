SPECIFICATION TraceSpec
CONSTANTS
  Lens = {"iter", "eval", "fval", "obj", "sval", "ival"}
  Val = {}
  Ns = {}
  Ds = {}
  Pts = {0, 1, 2, 3, 4, 5, 6, 7, 8, 9, 10}
  Ops = {}
  MaxTrials = 0
  MaxDepth = 0
  MaxArity = 0
  MaxLeaves = 0
  Eps = {}
  Opts = {}
  MaxPSize = 0
  MaxPDepth = 0
POSTCONDITION TraceDone
CHECK_DEADLOCK FALSE
