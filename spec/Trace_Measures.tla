--------------------------- MODULE Trace_Measures ---------------------------
(***************************************************************************)
(* Every record is one call on the real components (harness driver        *)
(* `measures`): the action with its arguments, and the projected state     *)
(* afterwards: raw / max as the scaled integers of Measures.tla (computed  *)
(* by the harness from the Diversity record: value * max and max, times    *)
(* the scale, rounded; `exact` = 1 when the rounding error is below 1e-6), *)
(* nan = 1 when the normalised value is NaN, unit = 1 when it lies in      *)
(* [0, 1].  Named deviations (known findings) are accepted only when their *)
(* id is in Known, and print a KF line.                                    *)
(***************************************************************************)
EXTENDS Measures, Json, IOUtils
Rec == ndJsonDeserialize(IOEnv.TRACE)
VARIABLE l
TraceInit == Init /\ l = 1

Reset == /\ Rec[l].act.op = "reset"
         /\ part' = "none" /\ d' = 1 /\ pop' = <<>> /\ raw' = 0 /\ max' = 0
         /\ best' = NoVal /\ prev' = INF /\ swi' = 0 /\ mp' = <<0, 1>>
         /\ act' = Rec[l].act /\ res' = "ok"

\* a measurement = (A) the measure function on the current population, (B) the normalisation record's update.
\* mraw / mnan: what the measure function returned (called directly as well); raw / max / nan: the record afterwards.
TMeasure ==
    LET r == Rec[l]
        want == Raw(part, pop, d)
        single == part = "pw" /\ N(pop) = 1                           \* 0 / 0 pairs
        tdneg == part = "td" /\ N(pop) >= 1 /\ AllSame(pop)           \* mean(x^2) - mean(x)^2 rounds below zero
        accum == part = "pw" /\ N(pop) >= 3 /\ ~AllSame(pop)          \* the running sum is never reset
        fed == IF r.mnan = 1 THEN 0 ELSE r.mraw                       \* what reaches the record's maximum
    IN
    /\ r.act.op = "measure" /\ r.res = "ok"
    /\ IF r.mnan = 1
       THEN \/ (single /\ Dev(FALSE, "X_PairwiseSingle", TRUE))
            \/ (tdneg /\ ~single /\ Dev(FALSE, "X_TrueDiversityRounding", TRUE))
       ELSE /\ Dev(r.mraw = want /\ r.exact = 1, "X_PairwiseAccumulates", accum /\ (Exact(part, d) => r.mraw >= want))
    /\ MeasureWith(fed) /\ max' = r.max
    /\ IF r.mnan = 1 THEN r.nan = 1                                   \* NaN in, NaN out
       ELSE IF fed = 0 /\ max' = 0
            THEN Dev(r.nan = 0, "X_DiversityZeroByZero", r.nan = 1)   \* 0 / 0 in the normalisation
            ELSE r.nan = 0 /\ r.raw = r.mraw /\ r.unit = 1

TRand == LET r == Rec[l] IN
         /\ r.act.op = "rand" /\ r.res = "ok"
         /\ Rand(r.act.x[1], r.act.x[2], r.mp[1]) /\ r.inrange = 1

TStep == LET r == Rec[l] IN
         /\ r.act.op \notin {"reset", "measure", "rand"}
         /\ Do(r.act) /\ r.res = "ok"
         /\ r.act.op \in {"init_imp", "improve"} => swi' = r.swi
         /\ r.act.op = "init_div" => raw' = r.raw /\ max' = r.max /\ r.nan = 0
         /\ r.act.op = "map" => mp' = r.mp /\ r.exact = 1

TraceNext == l <= Len(Rec) /\ (Reset \/ TMeasure \/ TRand \/ TStep) /\ l' = l + 1
TraceSpec == TraceInit /\ [][TraceNext]_<<mvars, l>>
TraceDone == PrintT(<<"TRACE_RESULT", TLCGet("stats").diameter - 1, Len(Rec)>>)
=============================================================================
