-------------------------- MODULE Hist_Conditions --------------------------
(* Change-of over value histories: h records every change-of evaluation     *)
(* (lens, value seen, reply) since the condition's last init.  The property *)
(* "differs from the one it last reported" speaks about this history; the   *)
(* invariant ties the specification's `prev` to it for all histories of     *)
(* length <= MaxHist.                                                       *)
EXTENDS Conditions, TLC

CONSTANT MaxHist
VARIABLE h

HInit == Init /\ h = <<>>
HNext == /\ Next
         /\ h' = IF act'.op = "co" /\ res'.k = "bool"
                 THEN Append(h, [l |-> act'.l, v |-> obs[act'.l], b |-> res'.b])
                 ELSE IF act'.op = "co_init" THEN SelectSeq(h, LAMBDA e : e.l # act'.l)
                 ELSE h
HSpec == HInit /\ [][HNext]_<<vars, h>>

HView == <<state, h>>
HBound == Len(h) <= MaxHist

Max(S) == CHOOSE x \in S : \A y \in S : y <= x
Reported(l) == {i \in 1..Len(h) : h[i].l = l /\ h[i].b = 1}
LastReported(l) == IF Reported(l) = {} THEN NoVal ELSE h[Max(Reported(l))].v

PrevIsLastReported == \A l \in Lens : prev[l] = LastReported(l)

\* the reply at every position of the history is "differs from the last reported before it"
RepliesFollowHistory ==
    \A i \in 1..Len(h) :
        LET before == {j \in 1..(i - 1) : h[j].l = h[i].l /\ h[j].b = 1} IN
        before = {} => h[i].b = 1
=============================================================================
