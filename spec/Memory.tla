------------------------------- MODULE Memory -------------------------------
(***************************************************************************)
(* Individuals and the memory states fed from a population (unit level of  *)
(* C05, C06, C07):                                                         *)
(*  - an individual is [s, o]: solution tag and cached objective (rank of  *)
(*    F[s], NoObj = 0 when unevaluated); src/problems/individual.rs,       *)
(*    src/population.rs                                                    *)
(*  - `pop` is the current population of a State (top of the stack)        *)
(*  - `best`  = BestIndividual  (src/state/common.rs)                      *)
(*  - `arch`  = ElitistArchive  (src/components/archive.rs), capacity K    *)
(*  - `evals` = Evaluations counter, `calls` = objective invocations       *)
(*  - `reg` = which evaluator is registered under the identifiers Global   *)
(*    and A in the state's own scope: <<g, a>>, 0 = none, 1 = an evaluator *)
(*    calling the objective function once per individual, 2 = the user's   *)
(*    probing evaluator (twice, probes counted)                            *)
(* act = [op, i, s];  res = [k, v].                                        *)
(***************************************************************************)
EXTENDS Naturals, Sequences, FiniteSets

CONSTANTS Sols,      \* solution tags (positive integers)
          F,         \* objective rank of every solution: [Sols -> 1..INF]
          K,         \* archive capacity
          MaxPop,
          RegKinds   \* evaluator kinds offered to `register` / `evaluate_scoped` ({}: the registrations are not modelled)

NoObj == 0
INF == 1000000
NoInd == [s |-> 0, o |-> NoObj]

VARIABLES pop, best, arch, shownK, evals, calls, reg, act, res
mvars == <<pop, best, arch, shownK, evals, calls, reg, act, res>>

A(op, i, s) == [op |-> op, i |-> i, s |-> s]
R(k, v) == [k |-> k, v |-> v]
Ind(s, o) == [s |-> s, o |-> o]
Idx == 1..Len(pop)

RECURSIVE InsSorted(_, _)
InsSorted(x, q) == IF Len(q) = 0 THEN <<x>>
                   ELSE IF x <= q[1] THEN <<x>> \o q ELSE <<q[1]>> \o InsSorted(x, Tail(q))
RECURSIVE SortSeq(_)
SortSeq(q) == IF Len(q) = 0 THEN q ELSE InsSorted(q[1], SortSeq(Tail(q)))
Ranks(q) == [j \in 1..Len(q) |-> q[j].o]
FirstK(q, k) == SubSeq(q, 1, IF Len(q) < k THEN Len(q) ELSE k)
Min2(a, b) == IF a < b THEN a ELSE b

(* Evaluator kinds: 0 sequential, 1..3 parallel (on that many worker threads; 1 also: on the default pool), 4 the   *)
(* user's probing evaluator.  What distinguishes them for an observer is how often the objective function is called. *)
Track == RegKinds # {}
Mult(kind) == IF kind = 4 THEN 2 ELSE 1
\* `register` through insert_evaluator (a.i = 1), insert_evaluator_as::<Global> (2), insert_evaluator_as::<A> (3)
SlotOf(api) == IF api = 3 THEN 2 ELSE 1
\* what the state_init of the scope of `evaluate_scoped` registers (a.s): 9 nothing, k the kind k under the identifier
\* the body asks for, 10 + k the kind k under the OTHER identifier
ScopeRegs == {9} \cup RegKinds \cup {10 + k : k \in RegKinds}
\* the evaluator an evaluation step for identifier slot `id` finds inside that scope: the innermost registration
Effective(id, sreg) == IF sreg \in RegKinds THEN Mult(sreg) ELSE reg[id]

AllEvaluated == \A j \in Idx : pop[j].o # NoObj
RECURSIVE ArgMin(_, _, _)
ArgMin(q, j, m) == IF j > Len(q) THEN m      \* first minimum wins
                   ELSE ArgMin(q, j + 1, IF q[j].o < q[m].o THEN j ELSE m)

RECURSIVE Reinsert(_, _, _)
Reinsert(p, a, j) ==       \* push every archive member that is not already present (same solution and objective)
    IF j > Len(a) THEN p
    ELSE Reinsert(IF \E x \in 1..Len(p) : p[x] = a[j] THEN p ELSE Append(p, a[j]), a, j + 1)

Do(a) ==
  /\ act' = a
  /\ CASE a.op = "new" ->            \* Individual::new(sol, f(sol))
            /\ pop' = Append(pop, Ind(a.s, F[a.s])) /\ res' = R("ok", 0)
            /\ UNCHANGED <<best, arch, shownK, evals, calls, reg>>
       [] a.op = "new_unevaluated" ->
            /\ pop' = Append(pop, Ind(a.s, NoObj)) /\ res' = R("ok", 0)
            /\ UNCHANGED <<best, arch, shownK, evals, calls, reg>>
       [] a.op = "clone" ->          \* copies keep solution and objective together
            /\ pop' = Append(pop, pop[a.i]) /\ res' = R("ok", 0)
            /\ UNCHANGED <<best, arch, shownK, evals, calls, reg>>
       [] a.op = "clone_from" ->     \* pop[i].clone_from(&pop[s]): the target becomes an exact copy
            /\ pop' = [pop EXCEPT ![a.i] = pop[a.s]] /\ res' = R("ok", 0)
            /\ UNCHANGED <<best, arch, shownK, evals, calls, reg>>
       [] a.op = "remove" ->
            /\ pop' = SubSeq(pop, 1, a.i - 1) \o SubSeq(pop, a.i + 1, Len(pop)) /\ res' = R("ok", 0)
            /\ UNCHANGED <<best, arch, shownK, evals, calls, reg>>
       [] a.op = "solution_mut" ->   \* *ind.solution_mut() = s: mutable access leaves it unevaluated
            /\ pop' = [pop EXCEPT ![a.i] = Ind(a.s, NoObj)] /\ res' = R("ok", 0)
            /\ UNCHANGED <<best, arch, shownK, evals, calls, reg>>
       [] a.op = "solution_mut_peek" ->   \* mutable access without writing also invalidates
            /\ pop' = [pop EXCEPT ![a.i].o = NoObj] /\ res' = R("ok", 0)
            /\ UNCHANGED <<best, arch, shownK, evals, calls, reg>>
       [] a.op = "as_solutions_mut" -> \* hands out &mut to every solution; writes s into member i
            /\ pop' = [j \in Idx |-> IF j = a.i THEN Ind(a.s, NoObj) ELSE Ind(pop[j].s, NoObj)]
            /\ res' = R("ok", 0)
            /\ UNCHANGED <<best, arch, shownK, evals, calls, reg>>
       [] a.op = "as_solutions" ->   \* read-only view: reply = number of solutions, nothing changes
            /\ res' = R("ok", Len(pop)) /\ UNCHANGED <<pop, best, arch, shownK, evals, calls, reg>>
       [] a.op = "round_trip" ->     \* into_solutions().into_individuals(): same solutions, all unevaluated
            /\ pop' = [j \in Idx |-> Ind(pop[j].s, NoObj)] /\ res' = R("ok", 0)
            /\ UNCHANGED <<best, arch, shownK, evals, calls, reg>>
       [] a.op = "evaluate_with" ->  \* ind.evaluate_with(f)
            /\ pop' = [pop EXCEPT ![a.i].o = F[pop[a.i].s]] /\ res' = R("ok", 0)
            /\ calls' = calls + 1
            /\ UNCHANGED <<best, arch, shownK, evals, reg>>
       [] a.op = "set_objective" ->  \* ind.set_objective(f(sol)): reply = was evaluated before
            /\ pop' = [pop EXCEPT ![a.i].o = F[pop[a.i].s]]
            /\ res' = R("ok", IF pop[a.i].o # NoObj THEN 1 ELSE 0)
            /\ UNCHANGED <<best, arch, shownK, evals, calls, reg>>
       [] a.op = "evaluate" ->       \* PopulationEvaluator on the current population (a.s = 1: parallel evaluator)
            /\ pop' = [j \in Idx |-> Ind(pop[j].s, F[pop[j].s])]
            \* (a.s = 4: the user's evaluator calls the objective function twice per individual and adds its own probes
            \*  to the counter; the step adds the individuals it evaluated: reported = invoked either way)
            /\ LET m == IF a.s = 4 THEN 2 * Len(pop) ELSE Len(pop) IN evals' = evals + m /\ calls' = calls + m
            /\ res' = R("ok", 0)
            /\ reg' = IF Track THEN <<Mult(a.s), reg[2]>> ELSE reg      \* (the driver registers kind a.s under Global first)
            /\ UNCHANGED <<best, arch, shownK>>
       [] a.op = "register" ->       \* the evaluator registered last under an identifier is the registered one
            /\ reg' = [reg EXCEPT ![SlotOf(a.i)] = Mult(a.s)] /\ res' = R("ok", 0)
            /\ UNCHANGED <<pop, best, arch, shownK, evals, calls>>
       [] a.op = "evaluate_id" ->    \* PopulationEvaluator for identifier slot a.i, with whatever is registered there
            /\ pop' = [j \in Idx |-> Ind(pop[j].s, F[pop[j].s])]
            /\ LET m == reg[a.i] * Len(pop) IN evals' = evals + m /\ calls' = calls + m
            /\ res' = R("ok", 0)
            /\ UNCHANGED <<best, arch, shownK, reg>>
       [] a.op = "evaluate_scoped" -> \* Scope::new_with(state_init registering a.s, body = { leaf; probe; evaluate_with::<a.i>; probe }):
                                      \* the evaluator of the innermost registration is applied and the counter the body sees
                                      \* advances by what was counted (res.v = difference of the two probes); if there is no
                                      \* evaluator the scope fails before anything in it executes (res.v = leaves executed).
                                      \* The scope's registration ends with it.  WHERE the counter of a scope lives is not part
                                      \* of the statement: afterwards the caller's counter is what it was (the scope counted on
                                      \* one of its own, the pinned code) or has advanced by the same amount.
            /\ LET e == Effective(a.i, a.s) IN
               IF e = 0 THEN res' = R("err", 0) /\ UNCHANGED <<pop, calls, evals>>
               ELSE /\ pop' = [j \in Idx |-> Ind(pop[j].s, F[pop[j].s])]
                    /\ calls' = calls + e * Len(pop)
                    /\ evals' \in {evals, evals + e * Len(pop)}
                    /\ res' = R("ok", e * Len(pop))
            /\ UNCHANGED <<best, arch, shownK, reg>>
       [] a.op = "evaluate_missing" -> \* configuration asking for an evaluator id that is not registered, placed
                                       \* (a.s) at top level / in a loop body / if body / else body taken / else body
                                       \* not taken: fails in `require`; res.v = number of components that executed
            /\ res' = R("err", 0) /\ UNCHANGED <<pop, best, arch, shownK, evals, calls, reg>>
       [] a.op = "evaluate_nested" ->  \* scope^(a.s) { evaluate }; evaluate  on a copy of the population: the run
                                       \* succeeds and makes exactly 2 |pop| objective calls (res.v)
            /\ res' = R("ok", 2 * Len(pop)) /\ UNCHANGED <<pop, best, arch, shownK, evals, calls, reg>>
       [] a.op = "update_best" ->    \* BestIndividualUpdate: only a strictly better candidate replaces; which of
                                     \* several equally good minima is recorded is not fixed by the statement
            /\ IF Len(pop) = 0 THEN best' = best
               ELSE LET m == pop[ArgMin(pop, 1, 1)].o IN
                    IF best = NoInd \/ m < best.o
                    THEN best' \in {pop[j] : j \in {x \in Idx : pop[x].o = m}}
                    ELSE best' = best
            /\ res' = R("ok", 0)
            /\ UNCHANGED <<pop, arch, shownK, evals, calls, reg>>
       [] a.op = "init_run" ->       \* the init phase of a (further) run on this state: counter and memories start empty
            /\ best' = NoInd /\ arch' = <<>> /\ shownK' = <<>> /\ evals' = 0 /\ res' = R("ok", 0)
            /\ UNCHANGED <<pop, calls, reg>>

(* ElitistArchiveUpdate(K): afterwards the archive holds K best of archive + population; ties may   *)
(* be broken either way (unstable sort), so the new archive is any sequence allowed by the relation *)
ArchAllowed(na) ==
    LET all == arch \o pop
        want == FirstK(SortSeq(Ranks(all)), K) IN
    /\ Len(na) = Len(want)
    /\ Ranks(na) = want                                       \* sorted, the K smallest
    /\ \A x \in {na[j] : j \in 1..Len(na)} :                  \* taken from archive + population, not more often
          Cardinality({j \in 1..Len(na) : na[j] = x}) <= Cardinality({j \in 1..Len(all) : all[j] = x})
ArchiveUpdate(na) ==
    /\ act' = A("archive_update", 0, 0)
    /\ ArchAllowed(na)
    /\ arch' = na
    /\ shownK' = FirstK(SortSeq(shownK \o Ranks(pop)), K)
    /\ res' = R("ok", 0)
    /\ UNCHANGED <<pop, best, evals, calls, reg>>

(* ElitistArchiveIntoPopulation: every archive member that is not in the population yet joins it, once; *)
(* nobody already there is duplicated or lost.  WHERE the joining members are placed (the code appends   *)
(* them) and in which order is not fixed by the statement: the new population is any sequence allowed by *)
(* the relation (counted per individual).                                                                 *)
CountIn(q, x) == Cardinality({j \in 1..Len(q) : q[j] = x})
ReinsertAllowed(np) ==
    LET members == {pop[j] : j \in 1..Len(pop)} \cup {arch[j] : j \in 1..Len(arch)} \cup {np[j] : j \in 1..Len(np)} IN
    \A x \in members :
        CountIn(np, x) = CountIn(pop, x) + (IF CountIn(pop, x) = 0 /\ CountIn(arch, x) > 0 THEN 1 ELSE 0)
ReinsertInto(np) ==
    /\ act' = A("archive_into_population", 0, 0)
    /\ ReinsertAllowed(np)
    /\ pop' = np /\ res' = R("ok", 0)
    /\ UNCHANGED <<best, arch, shownK, evals, calls, reg>>
\* candidates in model checking: the joining members behind or in front of the population
RECURSIVE Missing(_, _, _)
Missing(p, a, j) == IF j > Len(a) THEN <<>>
                    ELSE IF (\E x \in 1..Len(p) : p[x] = a[j]) \/ (\E y \in 1..(j - 1) : a[y] = a[j]) THEN Missing(p, a, j + 1)
                    ELSE <<a[j]>> \o Missing(p, a, j + 1)
ReinsertCandidates == {Reinsert(pop, arch, 1), Missing(pop, arch, 1) \o pop}

(* A user-written operator driven through the helper combinators `mutation()` / `selection()` / `replacement()`       *)
(* (default bodies of Component::execute for the operator traits), possibly failing midway.  The operator writes    *)
(* a.s into the solution it is handed; at individual a.i (0: never) it fails -- "user_mutation": AFTER it has       *)
(* written, "user_mutation_v": BEFORE writing (it validates first).  What the statement fixes: an individual whose   *)
(* solution was handed out for writing and written is unevaluated; one whose solution is what it was may keep its    *)
(* value or lose it (the helper hands out every solution up front).  Whether a failing execution hands the           *)
(* population back (res.v = 1) or loses it (res.v = 0, the pinned code) is not fixed by the statement.               *)
UserMutOps == {"user_mutation", "user_mutation_v"}
Written(a, j) == a.i = 0 \/ j < a.i \/ (j = a.i /\ a.op = "user_mutation")
UserMutation(a, np) ==
    /\ act' = a
    /\ IF a.i = 0
       THEN /\ np = [j \in Idx |-> Ind(a.s, NoObj)] /\ res' = R("ok", 0)
       ELSE \/ np = <<>> /\ res' = R("err", 0)
            \/ /\ Len(np) = Len(pop) /\ res' = R("err", 1)
               /\ \A j \in Idx : IF Written(a, j) THEN np[j] = Ind(a.s, NoObj)
                                  ELSE np[j].s = pop[j].s /\ np[j].o \in {NoObj, pop[j].o}
    /\ pop' = np
    /\ UNCHANGED <<best, arch, shownK, evals, calls, reg>>
UserMutCandidates(a) ==
    IF a.i = 0 THEN {[j \in Idx |-> Ind(a.s, NoObj)]}
    ELSE {<<>>} \cup {[j \in Idx |-> IF Written(a, j) THEN Ind(a.s, NoObj) ELSE Ind(pop[j].s, IF j \in keep THEN pop[j].o ELSE NoObj)] :
                      keep \in SUBSET {j \in Idx : ~Written(a, j)}}

(* A user-written selection (picks member a.i twice) through `selection()`, then a user-written replacement (keeps    *)
(* parents followed by offspring) through `replacement()`; a.s = 0: both succeed, 1: the selection fails (nothing     *)
(* was pushed), 2: the replacement fails after it has taken both populations (handed back or lost, as above).          *)
UserSelectReplace(a, np) ==
    /\ act' = a
    /\ CASE a.s = 0 -> np = pop \o <<pop[a.i], pop[a.i]>> /\ res' = R("ok", 0)
         [] a.s = 1 -> np = pop /\ res' = R("err", 1)
         [] a.s = 2 -> \/ np = <<>> /\ res' = R("err", 0)
                       \/ np \in {pop, pop \o <<pop[a.i], pop[a.i]>>} /\ res' = R("err", 1)
    /\ pop' = np
    /\ UNCHANGED <<best, arch, shownK, evals, calls, reg>>
UserSelCandidates(a) == {<<>>, pop, pop \o <<pop[a.i], pop[a.i]>>}

Acts ==
  (IF Len(pop) < MaxPop
   THEN {A("new", 0, s) : s \in Sols} \cup {A("new_unevaluated", 0, s) : s \in Sols}
        \cup {A("clone", i, 0) : i \in Idx}
   ELSE {})
  \cup {A("clone_from", x, y) : x \in Idx, y \in Idx}
  \cup {A("remove", i, 0) : i \in Idx}
  \cup {A("solution_mut", i, s) : i \in Idx, s \in Sols}
  \cup {A("solution_mut_peek", i, 0) : i \in Idx}
  \cup {A("as_solutions_mut", i, s) : i \in Idx, s \in Sols}
  \cup {A("as_solutions", 0, 0), A("round_trip", 0, 0)}
  \cup {A("evaluate_with", i, 0) : i \in Idx} \cup {A("set_objective", i, 0) : i \in Idx}
  \cup {A("evaluate", 0, par) : par \in 0..4} \cup {A("evaluate_missing", 0, pl) : pl \in 0..4}   \* evaluate: 0 = sequential, 1..3 = parallel evaluator on k worker threads, 4 = user-written evaluator with counted probes
  \cup {A("evaluate_nested", 0, dp) : dp \in 1..3}
  \cup {A("register", api, k) : api \in 1..3, k \in RegKinds}
  \cup (IF Track THEN {A("evaluate_id", id, 0) : id \in {x \in 1..2 : reg[x] # 0}}
                     \cup {A("evaluate_scoped", id, sr) : id \in 1..2, sr \in ScopeRegs}
        ELSE {})
  \cup (IF AllEvaluated THEN {A("update_best", 0, 0)} ELSE {})
  \cup {A("init_run", 0, 0)}

\* candidates for the new archive in model checking: sequences over archive + population members
RECURSIVE SeqsOver(_, _)
SeqsOver(S, n) == IF n = 0 THEN {<<>>} ELSE {<<x>> \o q : x \in S, q \in SeqsOver(S, n - 1)}
ArchCandidates ==
    LET all == arch \o pop
        n == IF Len(all) < K THEN Len(all) ELSE K IN
    SeqsOver({all[j] : j \in 1..Len(all)}, n)

MInit == /\ pop = <<>> /\ best = NoInd /\ arch = <<>> /\ shownK = <<>> /\ evals = 0 /\ calls = 0
         /\ reg = <<1, 0>>          \* a sequential evaluator under the default identifier, nothing under A
         /\ act = A("init", 0, 0) /\ res = R("ok", 0)
UserMutActs == {A(op, i, s) : op \in UserMutOps, i \in 0..Len(pop), s \in Sols}
UserSelActs == IF Len(pop) + 2 <= MaxPop + 1 THEN {A("user_select_replace", i, s) : i \in Idx, s \in 0..2} ELSE {}
MNext == \/ \E a \in Acts : Do(a)
         \/ (AllEvaluated /\ \E na \in ArchCandidates : ArchiveUpdate(na))
         \/ (Len(pop) + Len(arch) <= MaxPop + 1 /\ \E np \in ReinsertCandidates : ReinsertInto(np))
         \/ \E a \in UserMutActs : \E np \in UserMutCandidates(a) : UserMutation(a, np)
         \/ \E a \in UserSelActs : \E np \in UserSelCandidates(a) : UserSelectReplace(a, np)
MSpec == MInit /\ [][MNext]_mvars

---------------------------------------------------------------------------
(* Properties, independent of the action bodies *)
Everyone == {pop[j] : j \in Idx} \cup {arch[j] : j \in 1..Len(arch)} \cup (IF best = NoInd THEN {} ELSE {best})

\* C05: an evaluated individual carries f(solution), wherever it sits
Fresh == \A x \in Everyone : x.o # NoObj => x.o = F[x.s]

\* C05: every access that can change a solution leaves the individual unevaluated
MutableAccessClears ==
  [][ /\ act'.op \in {"solution_mut", "solution_mut_peek"} => pop'[act'.i].o = NoObj
      /\ act'.op \in {"as_solutions_mut", "round_trip"} => \A j \in 1..Len(pop') : pop'[j].o = NoObj
      /\ act'.op \in {"solution_mut", "as_solutions_mut"} => pop'[act'.i].s = act'.s
      \* a user-written mutation behind the `mutation()` helper, failing or not: whoever was written is unevaluated
      /\ (act'.op \in UserMutOps /\ Len(pop') > 0) =>
            /\ Len(pop') = Len(pop)
            /\ \A j \in Idx : Written(act', j) => pop'[j] = Ind(act'.s, NoObj) ]_mvars
\* C05: copying / reading keep solution and objective together and change nothing else
CopyKeepsPair ==
  [][ /\ act'.op = "clone" => pop' = Append(pop, pop[act'.i])
      /\ act'.op = "clone_from" => pop'[act'.i] = pop[act'.s] /\ Len(pop') = Len(pop)
      /\ act'.op = "as_solutions" => pop' = pop
      \* selecting and moving between populations through the helpers: every member is a (solution, objective) pair
      \* that was there before
      /\ act'.op = "user_select_replace" => \A j \in 1..Len(pop') : \E x \in Idx : pop'[j] = pop[x] ]_mvars

\* C06: an evaluation step keeps order and solutions, evaluates everyone with f, counts exactly |pop|
EvaluateExact ==
  [][ act'.op = "evaluate" =>
        /\ Len(pop') = Len(pop)
        /\ \A j \in Idx : pop'[j].s = pop[j].s /\ pop'[j].o = F[pop[j].s]
        /\ evals' - evals = calls' - calls                 \* reported = invoked
        /\ calls' - calls = (IF act'.s = 4 THEN 2 ELSE 1) * Len(pop) ]_mvars
\* C06: "applies the REGISTERED evaluator": the one registered last under the requested identifier, innermost scope first
RegisteredApplied ==
  [][ /\ act'.op = "register" => reg'[SlotOf(act'.i)] = Mult(act'.s) /\ reg'[3 - SlotOf(act'.i)] = reg[3 - SlotOf(act'.i)]
      /\ act'.op \notin {"register", "evaluate"} => reg' = reg
      /\ act'.op = "evaluate_id" =>
            /\ Len(pop') = Len(pop)
            /\ \A j \in Idx : pop'[j].s = pop[j].s /\ pop'[j].o = F[pop[j].s]
            /\ evals' - evals = calls' - calls
            /\ calls' - calls = reg[act'.i] * Len(pop)
      /\ act'.op = "evaluate_scoped" =>
            LET own == act'.s \in RegKinds
                e == IF own THEN Mult(act'.s) ELSE reg[act'.i] IN
            /\ e = 0 => res'.k = "err" /\ res'.v = 0 /\ pop' = pop /\ calls' = calls     \* fails before anything executes
            /\ e # 0 =>                                     \* registered (by the scope or around it): the step runs
                 /\ res'.k = "ok" /\ res'.v = e * Len(pop) /\ calls' - calls = e * Len(pop)
                 /\ Len(pop') = Len(pop) /\ \A j \in Idx : pop'[j].s = pop[j].s /\ pop'[j].o = F[pop[j].s] ]_mvars
\* C06: the counter moves only with real objective calls made by evaluation steps
CountOnlyByEvaluate ==
  [][ /\ act'.op \notin {"evaluate", "evaluate_id", "evaluate_scoped", "init_run"} => evals' = evals
      /\ act'.op = "evaluate_scoped" => evals' - evals \in {0, calls' - calls}
      /\ act'.op = "init_run" => evals' = 0
      /\ act'.op \notin {"evaluate", "evaluate_id", "evaluate_scoped", "evaluate_with"} => calls' = calls
      /\ act'.op = "evaluate_missing" => res'.k = "err" /\ res'.v = 0 /\ pop' = pop
      /\ act'.op = "evaluate_nested" => res'.k = "ok" /\ res'.v = 2 * Len(pop) /\ pop' = pop ]_mvars

\* C07: the best only improves, is replaced only by a strictly better candidate, and right after an
\* update is at least as good as everyone in the population it was updated from
BestRules ==
  [][ /\ act'.op = "init_run" => best' = NoInd       \* a run starts without a best: what it reports was seen in that run
      /\ (act'.op # "init_run" /\ best # NoInd) => best' # NoInd /\ best'.o <= best.o
      /\ (act'.op # "init_run" /\ best # NoInd /\ best' # best) => best'.o < best.o
      /\ act'.op \notin {"update_best", "init_run"} => best' = best
      /\ act'.op = "update_best" /\ Len(pop) > 0 =>
            /\ \A j \in Idx : best'.o <= pop[j].o
            /\ best' = best \/ \E j \in Idx : best' = pop[j] ]_mvars

\* C07: the archive holds the K best it has been shown so far
ArchiveHoldsKBest == Ranks(arch) = shownK /\ Len(arch) <= K
\* C07: re-inserting the archive never duplicates an individual that is already there
NoDuplicateOnReinsert ==
  [][ act'.op = "archive_into_population" =>
        /\ \A j \in 1..Len(pop) : CountIn(pop', pop[j]) = CountIn(pop, pop[j])      \* nobody there is duplicated or lost
        /\ \A x \in 1..Len(arch) : CountIn(pop', arch[x]) >= 1                       \* every archive member is there
        /\ \A j \in 1..Len(pop') : CountIn(pop, pop'[j]) = 0 =>                      \* who joined is an archive member, once
              CountIn(arch, pop'[j]) >= 1 /\ CountIn(pop', pop'[j]) = 1 ]_mvars

MTypeOK == Len(pop) <= MaxPop + K + 1
=============================================================================
