SPECIFICATION SSpec
CONSTANTS
  NP = 3
  Ranks = {1, 2, 3}
INVARIANT PBestIsHistoryMin GBestIsMinPBest
PROPERTY PBestMonotone GBestMonotone
CHECK_DEADLOCK FALSE
