SPECIFICATION TraceSpec
CONSTANTS
  Ops = {}
  LoadStacks = {}
  MaxN = 0
POSTCONDITION TraceDone
CHECK_DEADLOCK FALSE
