----------------------------- MODULE Trace_Exec -----------------------------
(* Trace validation for Exec: a "case" record carries (prog, script, fault);   *)
(* the reference interpreter computes the run; every following "e" record must *)
(* be the next event of that run, the "end" record its end record.             *)
EXTENDS Exec, TLC, Json, IOUtils
Rec == ndJsonDeserialize(IOEnv.TRACE)
\* a decoded export (per step a name -> value map, here a list sorted by name) against the ordered log
AsSet(q) == {q[i] : i \in 1..Len(q)}
SameSteps(dec, log) == /\ Len(dec) = Len(log)
                       /\ \A k \in 1..Len(log) : Len(dec[k]) = Len(log[k]) /\ AsSet(dec[k]) = AsSet(log[k])
\* what a serialisation can show of a program: function pointers (a scope's state initialiser / merge) are not part of it
RECURSIVE Shown(_)
Shown(body) == [i \in 1..Len(body) |->
                  [k |-> body[i].k, v |-> IF body[i].k = "scope" THEN "-" ELSE body[i].v, b |-> Shown(body[i].b), e |-> Shown(body[i].e)]]
VARIABLES l, pos
tvars == <<evars, l, pos>>
TraceInit == /\ prog = <<>> /\ script = <<>> /\ fault = <<"none", 0>>
             /\ full = RunProg(<<>>, <<>>, <<"none", 0>>)
             /\ l = 1 /\ pos = 1
Case == /\ Rec[l].ev = "case"
        /\ pos = Len(full.out) + 1            \* the previous run was consumed completely
        \* C15: the configuration can be serialised, the serialisation names every component with its
        \* nesting (the program can be read back from it), and a clone serialises identically
        /\ Rec[l].ron_ok = 1 /\ Rec[l].clone_same = 1 /\ Rec[l].skel = Shown(Rec[l].prog)
        /\ prog' = Rec[l].prog /\ script' = Rec[l].script /\ fault' = Rec[l].fault
        /\ full' = RunProgX(Rec[l].prog, Rec[l].script, Rec[l].fault, Expand(Rec[l].rules), Rec[l].rootit)
        /\ pos' = 0
Event == /\ Rec[l].ev = "e"
         /\ pos < Len(full.out)
         /\ Rec[l].e = full.out[pos + 1]
         /\ pos' = pos + 1
         /\ UNCHANGED evars
EndRec == /\ Rec[l].ev = "end"
          /\ pos = Len(full.out)
          /\ Rec[l].end = full.end
          \* C15: the log holds exactly the expected steps, and both exports decode to it
          /\ Rec[l].log = full.log
          /\ SameSteps(Rec[l].logj, full.log) /\ SameSteps(Rec[l].logc, full.log)
          /\ pos' = pos + 1
          /\ UNCHANGED evars
TraceNext == l <= Len(Rec) /\ (Case \/ Event \/ EndRec) /\ l' = l + 1
TraceSpec == TraceInit /\ [][TraceNext]_tvars
TraceDone == PrintT(<<"TRACE_RESULT", TLCGet("stats").diameter - 1, Len(Rec)>>)
=============================================================================
