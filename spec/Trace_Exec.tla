----------------------------- MODULE Trace_Exec -----------------------------
(* Trace validation for Exec: a "case" record carries (prog, script, fault);   *)
(* the reference interpreter computes the run; every following "e" record must *)
(* be the next event of that run, the "end" record its end record.             *)
EXTENDS Exec, TLC, Json, IOUtils
Rec == ndJsonDeserialize(IOEnv.TRACE)
VARIABLES l, pos
tvars == <<evars, l, pos>>
TraceInit == /\ prog = <<>> /\ script = <<>> /\ fault = <<"none", 0>>
             /\ full = RunProg(<<>>, <<>>, <<"none", 0>>)
             /\ l = 1 /\ pos = 1
Case == /\ Rec[l].ev = "case"
        /\ pos = Len(full.out) + 1            \* the previous run was consumed completely
        /\ prog' = Rec[l].prog /\ script' = Rec[l].script /\ fault' = Rec[l].fault
        /\ full' = RunProg(Rec[l].prog, Rec[l].script, Rec[l].fault)
        /\ pos' = 0
Event == /\ Rec[l].ev = "e"
         /\ pos < Len(full.out)
         /\ Rec[l].e = full.out[pos + 1]
         /\ pos' = pos + 1
         /\ UNCHANGED evars
EndRec == /\ Rec[l].ev = "end"
          /\ pos = Len(full.out)
          /\ Rec[l].end = full.end
          /\ pos' = pos + 1
          /\ UNCHANGED evars
TraceNext == l <= Len(Rec) /\ (Case \/ Event \/ EndRec) /\ l' = l + 1
TraceSpec == TraceInit /\ [][TraceNext]_tvars
TraceDone == PrintT(<<"TRACE_RESULT", TLCGet("stats").diameter - 1, Len(Rec)>>)
=============================================================================
