SPECIFICATION Spec
CONSTANTS
  M = 1
  B = 2
  MaxList = 2
  VecDom = {0}
  MaxVec = 1
  SciIn = {1, 385, 13313, 13441, 137473, 274945, 275073, 406017, 536833, 537088}
  SciNeg = {1, 274945, 536833}
VIEW McView
INVARIANT TypeOK Legal TotalOrder
PROPERTY LegalReplies ConstructionExact SciIdentities
CHECK_DEADLOCK FALSE
