------------------------------ MODULE Variation ------------------------------
(***************************************************************************)
(* Variation operators of mahf (property C13).                             *)
(*                                                                         *)
(* Part 1 - the public helper functions (src/components/mutation/          *)
(* functional.rs, src/components/recombination/functional.rs) as pure      *)
(* functions over integer sequences.  One action `DoFn(a)` per call; `a`   *)
(* is the call with its arguments exactly as the Rust function receives    *)
(* them (indices are 0-based as in the code, sequences are 1-based TLA+    *)
(* sequences), `res` the reply.  The declarative definition is the oracle; *)
(* the two algorithms the code ships for circular swap and for slice       *)
(* translocation are transcribed next to it and TLC checks that all of     *)
(* them agree on the whole enumerated input space (twin agreement).        *)
(*                                                                         *)
(* Part 2 - the mutation / recombination components executed through the   *)
(* public Component API on a prepared State, as RELATIONS between the      *)
(* population(s) before and after (`CompRel`).  Real vectors never reach   *)
(* the spec: they are projected (DESIGN 2.4) to change masks, tags and     *)
(* harness-evaluated predicates.                                           *)
(*                                                                         *)
(* One shape per variable: act = [op,p,q,ix,a,b,i], res = [k,c1,c2],       *)
(* cact = [c,np,pr,p2,both,dim,nrel,pin,base], cres = [k,out,base,h,pred,  *)
(* pred2].                                                                 *)
(***************************************************************************)
EXTENDS Integers, Sequences, FiniteSets, TLC

VARIABLES act, res, cact, cres
vars == <<act, res, cact, cres>>

A(op, p, q, ix, a, b, i) == [op |-> op, p |-> p, q |-> q, ix |-> ix, a |-> a, b |-> b, i |-> i]
R(k, c1, c2) == [k |-> k, c1 |-> c1, c2 |-> c2]
CA(c, np, pr, p2, both, dim, nrel, pin, base) ==
    [c |-> c, np |-> np, pr |-> pr, p2 |-> p2, both |-> both, dim |-> dim, nrel |-> nrel,
     pin |-> pin, base |-> base]
CR(k, out, base, h, pred, pred2) ==
    [k |-> k, out |-> out, base |-> base, h |-> h, pred |-> pred, pred2 |-> pred2]

A0  == A("init", <<>>, <<>>, <<>>, 0, 0, 0)
R0  == R("ok", <<>>, <<>>)
CA0 == CA("-", 0, 0, 0, 0, 0, 0, <<>>, <<>>)
CR0 == CR("ok", <<>>, <<>>, 0, <<>>, <<>>)

---------------------------------------------------------------------------
(* Sequences.  (TLCEval forces the evaluation of arguments of recursive     *)
(* operators: TLC passes arguments lazily and would re-evaluate the nested *)
(* expression at every use, which is exponential in the recursion depth.)  *)
Range(s)     == {s[k] : k \in DOMAIN s}
IsInj(s)     == \A i, j \in DOMAIN s : i # j => s[i] # s[j]
Count(s, x)  == Cardinality({k \in DOMAIN s : s[k] = x})
SameElems(s, t) == /\ Len(s) = Len(t)
                   /\ \A x \in Range(s) \cup Range(t) : Count(s, x) = Count(t, x)
MinOf(S)     == CHOOSE x \in S : \A y \in S : x <= y
Lo(x, y)     == IF x <= y THEN x ELSE y
Hi(x, y)     == IF x <= y THEN y ELSE x
Sub(s, a, b) == SubSeq(s, a + 1, b)          \* the Rust slice s[a..b]

---------------------------------------------------------------------------
(* circular_swap / circular_swap2(permutation, indices):                   *)
(* the element at indices[k] moves to indices[k+1], cyclically.            *)
CircularSwap(s, ix) ==
    LET n == Len(ix) IN
    [j \in 1..Len(s) |->
        IF \E k \in 1..n : ix[k] + 1 = j
        THEN LET k == CHOOSE k \in 1..n : ix[k] + 1 = j
                 prev == IF k = 1 THEN n ELSE k - 1
             IN s[ix[prev] + 1]
        ELSE s[j]]

SwapAt(s, i, j) == [s EXCEPT ![i + 1] = s[j + 1], ![j + 1] = s[i + 1]]
RECURSIVE ApplySwaps(_, _)
ApplySwaps(s, pairs) == IF pairs = <<>> THEN s
                        ELSE ApplySwaps(TLCEval(SwapAt(s, pairs[1][1], pairs[1][2])), Tail(pairs))
(* circular_swap: reversed indices, circular windows, first window skipped *)
Pairs1(ix) == LET n == Len(ix) IN
    [k \in 1..n - 1 |-> IF k <= n - 2 THEN <<ix[n - k], ix[n - k - 1]>> ELSE <<ix[1], ix[n]>>]
(* circular_swap2: swap(last, first), then the buffer is eaten from the end *)
Pairs2(ix) == LET n == Len(ix) IN
    [k \in 1..n - 1 |-> IF k = 1 THEN <<ix[n], ix[1]>> ELSE <<ix[n - k + 2], ix[n - k + 1]>>]
CircularSwapAlg1(s, ix) == ApplySwaps(s, Pairs1(ix))
CircularSwapAlg2(s, ix) == ApplySwaps(s, Pairs2(ix))

(* translocate_slice / translocate_slice2(permutation, a..b, i):           *)
(* remove s[a..b), insert it at index i of what remains.                   *)
Translocate(s, a, b, i) ==
    LET rem == Sub(s, 0, a) \o Sub(s, b, Len(s))
    IN Sub(rem, 0, i) \o Sub(s, a, b) \o Sub(rem, i, Len(rem))
RotL(t, c) == Sub(t, c, Len(t)) \o Sub(t, 0, c)
RotR(t, c) == Sub(t, Len(t) - c, Len(t)) \o Sub(t, 0, Len(t) - c)
(* translocate_slice: in-place rotation of the affected window             *)
TranslocateRot(s, a, b, i) ==
    LET c == b - a IN
    IF i < a THEN Sub(s, 0, i) \o RotR(Sub(s, i, b), c) \o Sub(s, b, Len(s))
    ELSE IF i > a THEN Sub(s, 0, a) \o RotL(Sub(s, a, i + c), c) \o Sub(s, i + c, Len(s))
    ELSE s

(* multi_point_crossover(parent1, parent2, indices), equal lengths: the    *)
(* children exchange their tails at every cut.                             *)
CutsUpTo(ix, j) == Cardinality({k \in DOMAIN ix : ix[k] <= j})     \* j 0-based
MultiPoint(p, q, ix) ==
    << [j \in 1..Len(p) |-> IF CutsUpTo(ix, j - 1) % 2 = 0 THEN p[j] ELSE q[j]],
       [j \in 1..Len(p) |-> IF CutsUpTo(ix, j - 1) % 2 = 0 THEN q[j] ELSE p[j]] >>
RECURSIVE MultiPointAlg(_, _, _)
MultiPointAlg(c1, c2, ix) ==
    IF ix = <<>> THEN <<c1, c2>>
    ELSE LET d == ix[1] IN
         MultiPointAlg(TLCEval(Sub(c1, 0, d) \o Sub(c2, d, Len(c2))),
                       TLCEval(Sub(c2, 0, d) \o Sub(c1, d, Len(c1))), Tail(ix))

(* uniform_crossover(parent1, parent2, mask): swap where the mask is set   *)
Uniform(p, q, m) ==
    << [j \in 1..Len(p) |-> IF m[j] = 1 THEN q[j] ELSE p[j]],
       [j \in 1..Len(p) |-> IF m[j] = 1 THEN p[j] ELSE q[j]] >>

(* arithmetic_crossover with alphas = ix[j]/4; children are returned       *)
(* multiplied by 4 (exact in integers and, for small values, in f64)       *)
Arith4(p, q, ix) ==
    << [j \in 1..Len(p) |-> ix[j] * p[j] + (4 - ix[j]) * q[j]],
       [j \in 1..Len(p) |-> ix[j] * q[j] + (4 - ix[j]) * p[j]] >>

(* cycle_crossover(parent1, parent2): positions are partitioned into the   *)
(* cycles of pos -> position in parent1 of parent2[pos]; a cycle is        *)
(* numbered by (its least position, 1-based); odd cycles keep their        *)
(* parent, even cycles are exchanged.                                      *)
PosIn(p, x) == CHOOSE k \in DOMAIN p : p[k] = x
RECURSIVE Orbit(_, _, _, _)
Orbit(p, q, pos, acc) == IF pos \in acc THEN acc
                         ELSE Orbit(p, q, TLCEval(PosIn(p, q[pos])), TLCEval(acc \cup {pos}))
CycleLabel(p, q, j) == MinOf(Orbit(p, q, j, {}))
CycleX(p, q) ==
    << [j \in 1..Len(p) |-> IF CycleLabel(p, q, j) % 2 = 1 THEN p[j] ELSE q[j]],
       [j \in 1..Len(p) |-> IF CycleLabel(p, q, j) % 2 = 1 THEN q[j] ELSE p[j]] >>

---------------------------------------------------------------------------
(* Which calls are valid (the documented contract of each helper).         *)
SwapOps  == {"circular_swap", "circular_swap2"}
TransOps == {"translocate_slice", "translocate_slice2"}
PermOps  == SwapOps \cup TransOps
PairOps  == {"multi_point", "uniform", "arithmetic", "cycle"}
FnOps    == PermOps \cup PairOps

IdxIn(ix, n) == \A k \in DOMAIN ix : ix[k] \in 0..n - 1

ValidFn(a) ==
    LET n == Len(a.p) IN
    CASE a.op \in SwapOps  -> Len(a.ix) >= 2 /\ IsInj(a.ix) /\ IdxIn(a.ix, n)
      [] a.op \in TransOps -> /\ 0 <= a.a /\ a.a <= a.b /\ a.b <= n /\ a.a < n
                              /\ 0 <= a.i /\ a.i < n /\ a.i + (a.b - a.a) <= n
      [] a.op = "multi_point" -> /\ Len(a.q) = n /\ Len(a.ix) >= 1 /\ Len(a.ix) < n
                                 /\ IsInj(a.ix) /\ IdxIn(a.ix, n)
      [] a.op = "uniform"     -> Len(a.q) = n /\ Len(a.ix) = n /\ \A k \in 1..n : a.ix[k] \in {0, 1}
      [] a.op = "arithmetic"  -> Len(a.q) = n /\ Len(a.ix) = n /\ \A k \in 1..n : a.ix[k] \in 0..4
      [] a.op = "cycle"       -> Len(a.q) = n /\ IsInj(a.p) /\ IsInj(a.q) /\ Range(a.p) = Range(a.q)
      [] OTHER -> FALSE

Pair(k, cc) == R(k, cc[1], cc[2])

ApplyFn(a) ==
    CASE a.op \in SwapOps     -> R("ok", CircularSwap(a.p, a.ix), <<>>)
      [] a.op \in TransOps    -> R("ok", Translocate(a.p, a.a, a.b, a.i), <<>>)
      [] a.op = "multi_point" -> Pair("ok", MultiPoint(a.p, a.q, a.ix))
      [] a.op = "uniform"     -> Pair("ok", Uniform(a.p, a.q, a.ix))
      [] a.op = "arithmetic"  -> Pair("ok", Arith4(a.p, a.q, a.ix))
      [] a.op = "cycle"       -> Pair("ok", CycleX(a.p, a.q))

(* One helper call: a valid call never panics and returns the oracle value *)
DoFn(a) == /\ ValidFn(a)
           /\ act' = a
           /\ res' = ApplyFn(a)
           /\ UNCHANGED <<cact, cres>>

---------------------------------------------------------------------------
(* Theorems about the helpers, stated independently of ApplyFn; checked as *)
(* invariants over every enumerated call.                                  *)
FnTotal == act.op \in FnOps => res.k = "ok"

PermutationClosure ==
    /\ act.op \in PermOps =>
          /\ SameElems(res.c1, act.p)
          /\ (IsInj(act.p) => IsInj(res.c1))
    /\ act.op = "cycle" =>
          /\ SameElems(res.c1, act.p) /\ IsInj(res.c1)
          /\ SameElems(res.c2, act.p) /\ IsInj(res.c2)

(* every position holds one of the two parental genes, both are conserved  *)
GeneConservation ==
    act.op \in {"multi_point", "uniform", "cycle"} =>
        /\ Len(res.c1) = Len(act.p) /\ Len(res.c2) = Len(act.q)
        /\ \A j \in 1..Len(act.p) :
              \/ res.c1[j] = act.p[j] /\ res.c2[j] = act.q[j]
              \/ res.c1[j] = act.q[j] /\ res.c2[j] = act.p[j]

(* arithmetic crossover: convex combination, sum conserved                 *)
ArithConvex ==
    act.op = "arithmetic" =>
        /\ Len(res.c1) = Len(act.p) /\ Len(res.c2) = Len(act.p)
        /\ \A j \in 1..Len(act.p) :
              /\ 4 * Lo(act.p[j], act.q[j]) <= res.c1[j] /\ res.c1[j] <= 4 * Hi(act.p[j], act.q[j])
              /\ 4 * Lo(act.p[j], act.q[j]) <= res.c2[j] /\ res.c2[j] <= 4 * Hi(act.p[j], act.q[j])
              /\ res.c1[j] + res.c2[j] = 4 * (act.p[j] + act.q[j])

(* a circular swap moves exactly the chosen positions, one step each       *)
SwapMovesChosen ==
    act.op \in SwapOps =>
        /\ \A j \in 1..Len(act.p) : (\A k \in DOMAIN act.ix : act.ix[k] + 1 # j) => res.c1[j] = act.p[j]
        /\ \A k \in DOMAIN act.ix :
              res.c1[act.ix[(k % Len(act.ix)) + 1] + 1] = act.p[act.ix[k] + 1]

(* a translocation keeps the relative order inside and outside the slice   *)
TranslocateShape ==
    act.op \in TransOps =>
        /\ Sub(res.c1, act.i, act.i + (act.b - act.a)) = Sub(act.p, act.a, act.b)
        /\ Sub(res.c1, 0, act.i) \o Sub(res.c1, act.i + (act.b - act.a), Len(res.c1))
              = Sub(act.p, 0, act.a) \o Sub(act.p, act.b, Len(act.p))

(* twin implementations agree with each other and with the oracle          *)
TwinSwap ==
    act.op \in SwapOps =>
        /\ CircularSwapAlg1(act.p, act.ix) = CircularSwapAlg2(act.p, act.ix)
        /\ CircularSwapAlg1(act.p, act.ix) = res.c1
TwinTranslocate ==
    act.op \in TransOps => TranslocateRot(act.p, act.a, act.b, act.i) = res.c1
MultiPointTailSwaps ==
    act.op = "multi_point" => MultiPointAlg(act.p, act.q, act.ix) = <<res.c1, res.c2>>

(* cycle crossover exchanges whole cycles only                             *)
CycleWhole ==
    act.op = "cycle" =>
        \A j \in 1..Len(act.p) :
            LET j2 == PosIn(act.p, act.q[j]) IN (res.c1[j] = act.p[j]) <=> (res.c1[j2] = act.p[j2])

---------------------------------------------------------------------------
(* Part 2: components through the public Component API.                    *)
(*                                                                         *)
(* cact.c    component (struct name)                                       *)
(* cact.np   integer parameter: num_swap / n (points) / y                  *)
(* cact.pr   class of the rate (MutationRate as set up by `init`, or pc):  *)
(*           0 = exactly 0, 1 = strictly inside (0,1), 2 = exactly 1,      *)
(*           3 = outside [0,1]                                             *)
(* cact.p2   class of the second probability (PartialRandomBitstring::p)   *)
(* cact.both insert_both (1/0)                                             *)
(* cact.dim  problem dimension; cact.nrel = 0 iff 1 <= np < dim            *)
(* cact.pin  top population before (sequence of integer sequences);        *)
(* cact.base the population below it (DE crossovers), else <<>>            *)
(* cres.k    "ok" | "err" (execute returned Err) | "ctor_err" (constructor *)
(*           returned Err) | "panic" | "timeout" (watchdog)                *)
(* cres.out / cres.base / cres.h  top population, population below, stack  *)
(*           height after; cres.pred, cres.pred2 harness-side predicates   *)
(*                                                                         *)
(* Projections.  Integer encodings (bits, permutations, labelled genes)    *)
(* are logged as they are.  Real mutations: pin[j] = zeros, out[j][c] =    *)
(* 0 bit-identical / 1 changed and the component's range predicate holds / *)
(* 2 changed and it fails.  ArithmeticCrossover, DEMutation: pin[j] is     *)
(* filled with the tag j, out[o] with the tag of the bit-identical input   *)
(* vector (0 = new vector); pred / pred2 as described at the relations.    *)
RealMut == {"NormalMutation", "UniformMutation", "PartialRandomSpread"}
BitMut  == {"BitFlipMutation", "PartialRandomBitstring"}
PermMut == {"ScrambleMutation", "SwapMutation", "InversionMutation", "InsertionMutation",
            "TranslocationMutation"}
GeneX   == {"NPointCrossover", "UniformCrossover", "CycleCrossover"}
Cross   == GeneX \cup {"ArithmeticCrossover"}
DEX     == {"DEBinomialCrossover", "DEExponentialCrossover"}
Comps   == RealMut \cup BitMut \cup PermMut \cup Cross \cup DEX \cup {"DEMutation"}

SameShape(o, p) == Len(o) = Len(p) /\ \A j \in 1..Len(p) : Len(o[j]) = Len(p[j])
AllIn(o, S)     == \A j \in 1..Len(o) : \A c \in 1..Len(o[j]) : o[j][c] \in S

Height(a) == IF a.c \in DEX THEN 2 ELSE 1
(* execute returned Ok, the stack height and the population below are kept *)
Fine(a, r) == r.k = "ok" /\ r.h = Height(a) /\ r.base = a.base

Rev(s, a, b) == [j \in 1..Len(s) |-> IF a < j /\ j <= b THEN s[a + b + 1 - j] ELSE s[j]]

(* t is s after one cycle through exactly k positions (s injective)        *)
RECURSIVE Walk(_, _, _, _)
Walk(s, t, j, acc) == IF j \in acc THEN acc ELSE Walk(s, t, TLCEval(PosIn(t, s[j])), TLCEval(acc \cup {j}))
IsKCycle(s, t, k) ==
    /\ SameElems(s, t)
    /\ LET D == {j \in 1..Len(s) : s[j] # t[j]} IN
       /\ Cardinality(D) = k
       /\ \A j \in D : Walk(s, t, j, {}) = D

Switches(p1, c1) ==     \* number of positions where the source parent changes (starting in p1)
    Cardinality({j \in 1..Len(c1) : (c1[j] = p1[j]) # (IF j = 1 THEN TRUE ELSE c1[j - 1] = p1[j - 1])})
Complement(p1, p2, c1) == [j \in 1..Len(c1) |-> IF c1[j] = p1[j] THEN p2[j] ELSE p1[j]]

(* children of one crossed pair (parents carry pairwise distinct labels)   *)
ChildrenOK(a, p1, p2, c1, c2) ==
    /\ Len(c1) = Len(p1) /\ Len(c2) = Len(p2)
    /\ \A j \in 1..Len(p1) : c1[j] \in {p1[j], p2[j]}
    /\ c2 = Complement(p1, p2, c1)
    /\ a.c = "NPointCrossover" => Switches(p1, c1) = a.np
    /\ a.c = "CycleCrossover"  => <<c1, c2>> = CycleX(p1, p2)

(* pairing of parents and insertion of children (recombination/mod.rs):    *)
(* a pair is crossed (never if pc = 0, always if pc = 1) and replaced by   *)
(* both children / the first child, or both parents are kept; an odd       *)
(* remainder is kept.                                                      *)
RECURSIVE XMatch(_, _, _)
XMatch(a, ps, os) ==
    IF Len(ps) = 0 THEN os = <<>>
    ELSE IF Len(ps) = 1 THEN os = ps
    ELSE LET rest == SubSeq(ps, 3, Len(ps)) IN
         \/ /\ a.pr # 2 /\ Len(os) >= 2 /\ os[1] = ps[1] /\ os[2] = ps[2]
            /\ XMatch(a, rest, SubSeq(os, 3, Len(os)))
         \/ /\ a.pr # 0 /\ a.both = 1 /\ Len(os) >= 2
            /\ ChildrenOK(a, ps[1], ps[2], os[1], os[2])
            /\ XMatch(a, rest, SubSeq(os, 3, Len(os)))
         \/ /\ a.pr # 0 /\ a.both = 0 /\ Len(os) >= 1
            /\ ChildrenOK(a, ps[1], ps[2], os[1], Complement(ps[1], ps[2], os[1]))
            /\ XMatch(a, rest, Tail(os))

(* ArithmeticCrossover on real vectors: pin[j] = <<j,..>>, out[o] = tag of *)
(* the identical input or 0; pred[o][m] = 1 iff output o is coordinatewise *)
(* between the parents of pair m; pred2[o][m] = 1 iff out[o] + out[o+1] =  *)
(* sum of the parents of pair m (up to rounding; 0 if there is no o+1).    *)
RECURSIVE AMatch(_, _, _, _, _)
AMatch(a, r, m, o, npairs) ==    \* m = next pair, o = next output (both 1-based)
    LET no == Len(r.out) IN
    IF m > npairs THEN
        IF Len(a.pin) % 2 = 1 THEN o = no /\ r.out[o] = a.pin[Len(a.pin)] ELSE o = no + 1
    ELSE \/ /\ a.pr # 2 /\ o + 1 <= no /\ r.out[o] = a.pin[2 * m - 1] /\ r.out[o + 1] = a.pin[2 * m]
            /\ AMatch(a, r, m + 1, o + 2, npairs)
         \/ /\ a.pr # 0 /\ a.both = 1 /\ o + 1 <= no
            /\ Len(r.out[o]) = a.dim /\ Len(r.out[o + 1]) = a.dim
            /\ r.pred[o][m] = 1 /\ r.pred[o + 1][m] = 1 /\ r.pred2[o][m] = 1
            /\ AMatch(a, r, m + 1, o + 2, npairs)
         \/ /\ a.pr # 0 /\ a.both = 0 /\ o <= no
            /\ Len(r.out[o]) = a.dim /\ r.pred[o][m] = 1
            /\ AMatch(a, r, m + 1, o + 1, npairs)

(* DE crossovers: positions taken from the base individual                 *)
FromBase(a, r, j) == {c \in 1..a.dim : r.out[j][c] = a.base[j][c]}
CircularRun(S, d) ==    \* S is a non-empty run of consecutive positions modulo d
    /\ S # {}
    /\ \/ S = 1..d
       \/ Cardinality({c \in S : ((c % d) + 1) \notin S}) = 1

CompRel(a, r) ==
    CASE a.c \in RealMut ->
            IF a.pr = 3 THEN r.k = "err"
            ELSE /\ Fine(a, r) /\ SameShape(r.out, a.pin) /\ AllIn(r.out, {0, 1})
                 /\ a.pr = 0 => AllIn(r.out, {0})
      [] a.c = "BitFlipMutation" ->
            IF a.pr = 3 THEN r.k = "err"
            ELSE /\ Fine(a, r) /\ SameShape(r.out, a.pin) /\ AllIn(r.out, {0, 1})
                 /\ a.pr = 0 => r.out = a.pin
                 /\ a.pr = 2 => \A j \in 1..Len(a.pin) : \A c \in 1..Len(a.pin[j]) : r.out[j][c] = 1 - a.pin[j][c]
      [] a.c = "PartialRandomBitstring" ->
            IF a.pr = 3 THEN r.k = "err"
            ELSE /\ Fine(a, r) /\ SameShape(r.out, a.pin) /\ AllIn(r.out, {0, 1})
                 /\ a.pr = 0 => r.out = a.pin
                 /\ \A j \in 1..Len(a.pin) : \A c \in 1..Len(a.pin[j]) :
                       /\ a.p2 = 0 => r.out[j][c] <= a.pin[j][c]
                       /\ a.p2 = 2 => r.out[j][c] >= a.pin[j][c]
                       /\ (a.pr = 2 /\ a.p2 = 0) => r.out[j][c] = 0
                       /\ (a.pr = 2 /\ a.p2 = 2) => r.out[j][c] = 1
      [] a.c = "ScrambleMutation" ->
            IF a.pr = 3 THEN r.k = "err"
            ELSE /\ Fine(a, r) /\ Len(r.out) = Len(a.pin)
                 /\ \A j \in 1..Len(a.pin) : SameElems(r.out[j], a.pin[j])
                 /\ a.pr = 0 => r.out = a.pin
      [] a.c = "SwapMutation" ->
            \* documented: num_swap >= 2 is accepted; Err iff num_swap exceeds the solution length
            IF a.np < 2 THEN r.k = "ctor_err"
            ELSE IF \E j \in 1..Len(a.pin) : a.np > Len(a.pin[j]) THEN r.k = "err"
            ELSE /\ Fine(a, r) /\ Len(r.out) = Len(a.pin)
                 /\ \A j \in 1..Len(a.pin) : IsKCycle(a.pin[j], r.out[j], a.np)
      [] a.c = "InversionMutation" ->
            /\ Fine(a, r) /\ Len(r.out) = Len(a.pin)
            /\ \A j \in 1..Len(a.pin) : LET s == a.pin[j] IN
                  \E x \in 0..Len(s) : \E y \in x..Len(s) : r.out[j] = Rev(s, x, y)
      [] a.c = "InsertionMutation" ->
            /\ Fine(a, r) /\ Len(r.out) = Len(a.pin)
            /\ \A j \in 1..Len(a.pin) : LET s == a.pin[j] IN
                  \E e \in 0..Len(s) - 1 : \E i \in 0..Len(s) - 1 : r.out[j] = Translocate(s, e, e + 1, i)
      [] a.c = "TranslocationMutation" ->
            /\ Fine(a, r) /\ Len(r.out) = Len(a.pin)
            /\ \A j \in 1..Len(a.pin) : LET s == a.pin[j] IN
                  \* (s is injective: the slice that now starts at i is found by its first element)
                  /\ SameElems(r.out[j], s)
                  /\ \E i \in 0..Len(s) - 1 : \E c \in 1..Len(s) - i :
                        LET x == PosIn(s, r.out[j][i + 1]) - 1 IN
                        x + c <= Len(s) /\ r.out[j] = Translocate(s, x, x + c, i)
      [] a.c \in GeneX ->
            IF a.c = "NPointCrossover" /\ a.nrel # 0
            THEN r.k \in {"ok", "err"}    \* number of points outside 1..dim-1: undocumented, but no panic
            ELSE Fine(a, r) /\ XMatch(a, a.pin, r.out)
      [] a.c = "ArithmeticCrossover" ->
            Fine(a, r) /\ AMatch(a, r, 1, 1, Len(a.pin) \div 2)
      [] a.c = "DEMutation" ->
            \* documented: y in {1,2}; Err iff the population is not in the format [2y+1]*
            IF a.np \notin {1, 2} THEN r.k = "ctor_err"
            ELSE IF Len(a.pin) % (2 * a.np + 1) # 0 THEN r.k = "err"
            ELSE /\ Fine(a, r) /\ Len(r.out) = Len(a.pin) \div (2 * a.np + 1)
                 /\ \A o \in 1..Len(r.out) : Len(r.out[o]) = a.dim /\ r.pred[o] = <<1>>
      [] a.c \in DEX ->
            /\ Fine(a, r) /\ SameShape(r.out, a.pin)
            /\ \A j \in 1..Len(a.pin) :
                  /\ \A c \in 1..a.dim : r.out[j][c] \in {a.pin[j][c], a.base[j][c]}
                  /\ a.c = "DEBinomialCrossover" =>
                        /\ FromBase(a, r, j) # {}
                        /\ a.pr = 0 => Cardinality(FromBase(a, r, j)) = 1
                  /\ a.c = "DEExponentialCrossover" =>
                        /\ CircularRun(FromBase(a, r, j), a.dim)
                        /\ a.pr = 0 => Cardinality(FromBase(a, r, j)) = 1
                  /\ a.pr = 2 => r.out[j] = a.base[j]
      [] OTHER -> FALSE

(* consistency of the logged argument projections                          *)
ValidComp(a) ==
    /\ a.c \in Comps
    /\ a.pr \in 0..3 /\ a.p2 \in 0..3 /\ a.both \in {0, 1}
    /\ a.nrel = (IF 1 <= a.np /\ a.np < a.dim THEN 0 ELSE 1)
    /\ \A j \in 1..Len(a.pin) : Len(a.pin[j]) = a.dim
    /\ a.c \in DEX => SameShape(a.base, a.pin)
    /\ a.c \notin DEX => a.base = <<>>

(* One component execution: the observed reply must be allowed.            *)
DoComp(a, r) == /\ ValidComp(a)
                /\ CompRel(a, r)
                /\ cact' = a
                /\ cres' = r
                /\ UNCHANGED <<act, res>>

---------------------------------------------------------------------------
(* Properties of component executions, stated independently of CompRel.    *)
COk == cact.c # "-" /\ cres.k = "ok"

(* valid parameters and a valid population: no Err, no panic               *)
ParamsValid(a) ==
    /\ a.pr # 3
    /\ a.c = "SwapMutation" => a.np >= 2 /\ \A j \in 1..Len(a.pin) : a.np <= Len(a.pin[j])
    /\ a.c = "NPointCrossover" => a.nrel = 0
    /\ a.c = "DEMutation" => a.np \in {1, 2} /\ Len(a.pin) % (2 * a.np + 1) = 0
CompNoFailure == (cact.c # "-" /\ ParamsValid(cact)) => cres.k = "ok"

CompPermutationClosure ==
    (COk /\ cact.c \in PermMut) =>
        /\ Len(cres.out) = Len(cact.pin)
        /\ \A j \in 1..Len(cact.pin) : SameElems(cres.out[j], cact.pin[j])

CompDimensionKept ==
    (COk /\ cact.c \in RealMut \cup BitMut \cup PermMut \cup DEX) => SameShape(cres.out, cact.pin)

CompRateZero ==
    (COk /\ cact.pr = 0 /\ cact.c \in BitMut \cup {"ScrambleMutation"} \cup GeneX) => cres.out = cact.pin
CompRateZeroReal ==
    (COk /\ cact.pr = 0 /\ cact.c \in RealMut) => AllIn(cres.out, {0})

CompOffspringCount ==
    (COk /\ cact.c \in Cross /\ cact.nrel = 0) =>
        LET n == Len(cact.pin) IN
        /\ Len(cres.out) <= n
        /\ Len(cres.out) >= ((n \div 2) + (n % 2))
        /\ cact.both = 1 => Len(cres.out) = n
        /\ (cact.both = 0 /\ cact.pr = 2) => Len(cres.out) = ((n \div 2) + (n % 2))
        /\ cact.pr = 0 => Len(cres.out) = n
CompDEFormat ==
    (COk /\ cact.c = "DEMutation") => Len(cres.out) * (2 * cact.np + 1) = Len(cact.pin)

(* every offspring gene of a gene-exchanging crossover is a parental gene  *)
(* of the same position (labels are position-specific in the model)        *)
CompGenesFromParents ==
    (COk /\ cact.c \in GeneX /\ cact.nrel = 0) =>
        \A o \in 1..Len(cres.out) : \A c \in 1..Len(cres.out[o]) :
            \E j \in 1..Len(cact.pin) : cact.pin[j][c] = cres.out[o][c]
CompDEGenes ==
    (COk /\ cact.c \in DEX) =>
        \A j \in 1..Len(cres.out) : \A c \in 1..Len(cres.out[j]) :
            cres.out[j][c] \in {cact.pin[j][c], cact.base[j][c]}
CompStackKept == COk => cres.h = Height(cact) /\ cres.base = cact.base

Init == act = A0 /\ res = R0 /\ cact = CA0 /\ cres = CR0
=============================================================================
