------------------------------ MODULE Variation ------------------------------
(***************************************************************************)
(* Variation operators of mahf (property C13).                             *)
(*                                                                         *)
(* Part 1 - the public helper functions (src/components/mutation/          *)
(* functional.rs, src/components/recombination/functional.rs) as pure      *)
(* functions over integer sequences.  One action `DoFn(a)` per call; `a`   *)
(* is the call with its arguments exactly as the Rust function receives    *)
(* them (indices are 0-based as in the code, sequences are 1-based TLA+    *)
(* sequences), `res` the reply.  The declarative definition is the oracle; *)
(* the two algorithms the code ships for circular swap and for slice       *)
(* translocation are transcribed next to it and TLC checks that all of     *)
(* them agree on the whole enumerated input space (twin agreement).        *)
(*                                                                         *)
(* Part 2 - the mutation / recombination components executed through the   *)
(* public Component API on a prepared State, as RELATIONS between the      *)
(* population(s) before and after (`CompRel`).  Real vectors never reach   *)
(* the spec: they are projected (DESIGN 2.4) to change masks, tags and     *)
(* harness-evaluated predicates.                                           *)
(*                                                                         *)
(* One shape per variable: act = [op,p,q,ix,a,b,i], res = [k,c1,c2],       *)
(* cact = [c,ctor,id,np,pr,p2,both,st,sibs,adapt,dim,nrel,pin,base],       *)
(* cres = [k,out,base,h,pred,pred2,reg,mag,built].                         *)
(***************************************************************************)
EXTENDS Integers, Sequences, FiniteSets, TLC

VARIABLES act, res, cact, cres
vars == <<act, res, cact, cres>>

A(op, p, q, ix, a, b, i) == [op |-> op, p |-> p, q |-> q, ix |-> ix, a |-> a, b |-> b, i |-> i]
R(k, c1, c2) == [k |-> k, c1 |-> c1, c2 |-> c2]
NoVal == 99     \* "absent" in an integer field (an argument the constructor does not take, a state that is missing)
(* a component built by its plain constructor `new` under the default      *)
(* identifier `Global`, alone in the state, parameters never adapted       *)
CA(c, np, pr, p2, both, dim, nrel, pin, base) ==
    [c |-> c, ctor |-> "new", id |-> "Global", np |-> np, pr |-> pr, p2 |-> p2, both |-> both,
     st |-> 0, sibs |-> <<>>, adapt |-> <<>>, dim |-> dim, nrel |-> nrel, pin |-> pin, base |-> base]
CR(k, out, base, h, pred, pred2) ==
    [k |-> k, out |-> out, base |-> base, h |-> h, pred |-> pred, pred2 |-> pred2,
     reg |-> <<>>, mag |-> <<>>, built |-> <<>>]

A0  == A("init", <<>>, <<>>, <<>>, 0, 0, 0)
R0  == R("ok", <<>>, <<>>)
CA0 == CA("-", 0, 0, 0, 0, 0, 0, <<>>, <<>>)
CR0 == CR("ok", <<>>, <<>>, 0, <<>>, <<>>)

---------------------------------------------------------------------------
(* Sequences.  (TLCEval forces the evaluation of arguments of recursive     *)
(* operators: TLC passes arguments lazily and would re-evaluate the nested *)
(* expression at every use, which is exponential in the recursion depth.)  *)
Range(s)     == {s[k] : k \in DOMAIN s}
IsInj(s)     == \A i, j \in DOMAIN s : i # j => s[i] # s[j]
Count(s, x)  == Cardinality({k \in DOMAIN s : s[k] = x})
SameElems(s, t) == /\ Len(s) = Len(t)
                   /\ \A x \in Range(s) \cup Range(t) : Count(s, x) = Count(t, x)
MinOf(S)     == CHOOSE x \in S : \A y \in S : x <= y
Lo(x, y)     == IF x <= y THEN x ELSE y
Hi(x, y)     == IF x <= y THEN y ELSE x
Sub(s, a, b) == SubSeq(s, a + 1, b)          \* the Rust slice s[a..b]

---------------------------------------------------------------------------
(* circular_swap / circular_swap2(permutation, indices):                   *)
(* the element at indices[k] moves to indices[k+1], cyclically.            *)
CircularSwap(s, ix) ==
    LET n == Len(ix) IN
    [j \in 1..Len(s) |->
        IF \E k \in 1..n : ix[k] + 1 = j
        THEN LET k == CHOOSE k \in 1..n : ix[k] + 1 = j
                 prev == IF k = 1 THEN n ELSE k - 1
             IN s[ix[prev] + 1]
        ELSE s[j]]

SwapAt(s, i, j) == [s EXCEPT ![i + 1] = s[j + 1], ![j + 1] = s[i + 1]]
RECURSIVE ApplySwaps(_, _)
ApplySwaps(s, pairs) == IF pairs = <<>> THEN s
                        ELSE ApplySwaps(TLCEval(SwapAt(s, pairs[1][1], pairs[1][2])), Tail(pairs))
(* circular_swap: reversed indices, circular windows, first window skipped *)
Pairs1(ix) == LET n == Len(ix) IN
    [k \in 1..n - 1 |-> IF k <= n - 2 THEN <<ix[n - k], ix[n - k - 1]>> ELSE <<ix[1], ix[n]>>]
(* circular_swap2: swap(last, first), then the buffer is eaten from the end *)
Pairs2(ix) == LET n == Len(ix) IN
    [k \in 1..n - 1 |-> IF k = 1 THEN <<ix[n], ix[1]>> ELSE <<ix[n - k + 2], ix[n - k + 1]>>]
CircularSwapAlg1(s, ix) == ApplySwaps(s, Pairs1(ix))
CircularSwapAlg2(s, ix) == ApplySwaps(s, Pairs2(ix))

(* translocate_slice / translocate_slice2(permutation, a..b, i):           *)
(* remove s[a..b), insert it at index i of what remains.                   *)
Translocate(s, a, b, i) ==
    LET rem == Sub(s, 0, a) \o Sub(s, b, Len(s))
    IN Sub(rem, 0, i) \o Sub(s, a, b) \o Sub(rem, i, Len(rem))
RotL(t, c) == Sub(t, c, Len(t)) \o Sub(t, 0, c)
RotR(t, c) == Sub(t, Len(t) - c, Len(t)) \o Sub(t, 0, Len(t) - c)
(* translocate_slice: in-place rotation of the affected window             *)
TranslocateRot(s, a, b, i) ==
    LET c == b - a IN
    IF i < a THEN Sub(s, 0, i) \o RotR(Sub(s, i, b), c) \o Sub(s, b, Len(s))
    ELSE IF i > a THEN Sub(s, 0, a) \o RotL(Sub(s, a, i + c), c) \o Sub(s, i + c, Len(s))
    ELSE s

(* multi_point_crossover(parent1, parent2, indices), equal lengths: the    *)
(* children exchange their tails at every cut.                             *)
CutsUpTo(ix, j) == Cardinality({k \in DOMAIN ix : ix[k] <= j})     \* j 0-based
MultiPoint(p, q, ix) ==
    << [j \in 1..Len(p) |-> IF CutsUpTo(ix, j - 1) % 2 = 0 THEN p[j] ELSE q[j]],
       [j \in 1..Len(p) |-> IF CutsUpTo(ix, j - 1) % 2 = 0 THEN q[j] ELSE p[j]] >>
RECURSIVE MultiPointAlg(_, _, _)
MultiPointAlg(c1, c2, ix) ==
    IF ix = <<>> THEN <<c1, c2>>
    ELSE LET d == ix[1] IN
         MultiPointAlg(TLCEval(Sub(c1, 0, d) \o Sub(c2, d, Len(c2))),
                       TLCEval(Sub(c2, 0, d) \o Sub(c1, d, Len(c1))), Tail(ix))

(* Parents of UNEQUAL length.  The helpers accept them (the contracts only *)
(* bound the number of cuts / the mask and alpha lengths by both parents,  *)
(* the components cut inside `min(len1, len2)`, multi_point_crossover has  *)
(* a branch of its own for them).  What C13 demands of the two children is *)
(* `PairConserved`: they have the parents' lengths, every position inside  *)
(* the shorter parent holds the two parental genes of that position, one   *)
(* in each child, and a position beyond the shorter parent - which exists  *)
(* in one parent and therefore in one child only - holds the longer        *)
(* parent's gene of that position.  (For equal lengths this is the clause  *)
(* "each position holds one of the two parental genes, both conserved".)   *)
LongOf(p, q) == IF Len(p) >= Len(q) THEN p ELSE q
PairConserved(p, q, c1, c2) ==
    LET mn == Lo(Len(p), Len(q))
        long == LongOf(p, q)
    IN /\ \/ Len(c1) = Len(p) /\ Len(c2) = Len(q)
          \/ Len(c1) = Len(q) /\ Len(c2) = Len(p)
       /\ \A j \in 1..mn : (c1[j] = p[j] /\ c2[j] = q[j]) \/ (c1[j] = q[j] /\ c2[j] = p[j])
       /\ \A j \in (mn + 1)..Len(long) : (Len(c1) >= j => c1[j] = long[j]) /\ (Len(c2) >= j => c2[j] = long[j])
(* Which n-point crossover of unequal parents is returned is not           *)
(* documented, so a reply is judged by the relation only (MultiPointURel). *)
(* Constructive reference (model checking only) = what the helper does:    *)
(* the children exchange their HEADS at every cut but the last one given,  *)
(* and at the last one each keeps its head and continues with the tail of  *)
(* the other parent (child 1 ends like parent 2 and has its length).       *)
MultiPointU(p, q, ix) ==
    LET k == Len(ix)
        last == ix[k]
        own(j) == Cardinality({i \in 1..k - 1 : ix[i] > j - 1}) % 2 = 0     \* j 1-based, j <= last
    IN << [j \in 1..Len(q) |-> IF j <= last THEN (IF own(j) THEN p[j] ELSE q[j]) ELSE q[j]],
          [j \in 1..Len(p) |-> IF j <= last THEN (IF own(j) THEN q[j] ELSE p[j]) ELSE p[j]] >>
RECURSIVE MultiPointUAlg(_, _, _, _, _)
MultiPointUAlg(c1, c2, p, q, ix) ==
    IF ix = <<>> THEN <<c1, c2>>
    ELSE LET d == ix[1] IN
         IF Len(ix) > 1
         THEN MultiPointUAlg(TLCEval(Sub(c2, 0, d) \o Sub(c1, d, Len(c1))),
                             TLCEval(Sub(c1, 0, d) \o Sub(c2, d, Len(c2))), p, q, Tail(ix))
         ELSE << Sub(c1, 0, d) \o Sub(q, d, Len(q)), Sub(c2, 0, d) \o Sub(p, d, Len(p)) >>
MultiPointAny(p, q, ix) == IF Len(p) = Len(q) THEN MultiPoint(p, q, ix) ELSE MultiPointU(p, q, ix)

(* uniform_crossover(parent1, parent2, mask): swap where the mask is set.  *)
(* (Unequal lengths: only positions both parents have can be swapped; each *)
(* child is its parent with the swapped elements, so it keeps its length.) *)
Uniform(p, q, m) ==
    << [j \in 1..Len(p) |-> IF j <= Len(q) /\ m[j] = 1 THEN q[j] ELSE p[j]],
       [j \in 1..Len(q) |-> IF j <= Len(p) /\ m[j] = 1 THEN p[j] ELSE q[j]] >>

(* arithmetic_crossover with alphas = ix[j]/4; children are returned       *)
(* multiplied by 4 (exact in integers and, for small values, in f64).      *)
(* (Unequal lengths: the elements both parents have are interpolated, the  *)
(* others are kept.)                                                       *)
Arith4(p, q, ix) ==
    << [j \in 1..Len(p) |-> IF j <= Len(q) THEN ix[j] * p[j] + (4 - ix[j]) * q[j] ELSE 4 * p[j]],
       [j \in 1..Len(q) |-> IF j <= Len(p) THEN ix[j] * q[j] + (4 - ix[j]) * p[j] ELSE 4 * q[j]] >>

(* arithmetic_crossover on real genes far outside the exactly computable   *)
(* range (op "arith_x": +-f64::MAX, 1e17 next to 0.1, huge next to tiny,   *)
(* alpha at and next to the ends 0 and 1).  Floats do not reach the spec   *)
(* (DESIGN 2.4): a gene is logged as its RANK in the harness' strictly     *)
(* increasing table of finite values (P-rank), an alpha as its index in    *)
(* the increasing alpha table (0 = exactly 0.0, AlphaTop = exactly 1.0,    *)
(* everything between strictly inside), and each child gene as the code    *)
(*    cls + 10 * nearP + 20 * nearQ + 40 * cons     (P-class / P-pred)     *)
(* cls   0 finite and between the two parental genes of its position (the  *)
(*         interval is widened by 4 ulp of the respective end: the         *)
(*         rounding of two products and one sum), 1 below, 2 above,        *)
(*         3 NaN, 4 infinite;                                              *)
(* nearP / nearQ  within 4 ulp of the gene of parent 1 / parent 2;         *)
(* cons  the two children of the position sum to the sum of the parental   *)
(*       genes (halves compared, tolerance 8 ulp of the larger magnitude). *)
AlphaTop == 8
XCls(v)   == v % 10
XNearP(v) == (v \div 10) % 2 = 1
XNearQ(v) == (v \div 20) % 2 = 1
XCons(v)  == (v \div 40) % 2 = 1
(* What the property demands of one reply: every child gene is a convex    *)
(* combination of the parental genes - finite, between them, conserved     *)
(* across the two children - and the combination the given alpha selects   *)
(* where that is decidable without real arithmetic: alpha = 1 returns the  *)
(* genes of (parent1, parent2), alpha = 0 those of (parent2, parent1).     *)
ArithXRel(a, r) ==
    /\ r.k = "ok" /\ Len(r.c1) = Len(a.p) /\ Len(r.c2) = Len(a.p)
    /\ \A j \in 1..Len(a.p) :
          /\ XCls(r.c1[j]) = 0 /\ XCls(r.c2[j]) = 0
          /\ XCons(r.c1[j]) /\ XCons(r.c2[j])
          /\ a.ix[j] = AlphaTop => XNearP(r.c1[j]) /\ XNearQ(r.c2[j])
          /\ a.ix[j] = 0        => XNearQ(r.c1[j]) /\ XNearP(r.c2[j])
          /\ a.p[j] = a.q[j]    => XNearP(r.c1[j]) /\ XNearQ(r.c1[j]) /\ XNearP(r.c2[j]) /\ XNearQ(r.c2[j])
(* Constructive reference (model checking only): ranks read as integers,   *)
(* alpha = ix / AlphaTop, children multiplied by AlphaTop, then projected. *)
XCode(c, p, q, sum) ==
    (IF c < AlphaTop * Lo(p, q) THEN 1 ELSE IF c > AlphaTop * Hi(p, q) THEN 2 ELSE 0)
    + (IF c = AlphaTop * p THEN 10 ELSE 0) + (IF c = AlphaTop * q THEN 20 ELSE 0)
    + (IF sum = AlphaTop * (p + q) THEN 40 ELSE 0)
ArithXModel(a) ==
    LET k1(j) == a.ix[j] * a.p[j] + (AlphaTop - a.ix[j]) * a.q[j]
        k2(j) == a.ix[j] * a.q[j] + (AlphaTop - a.ix[j]) * a.p[j]
    IN R("ok", [j \in 1..Len(a.p) |-> XCode(k1(j), a.p[j], a.q[j], k1(j) + k2(j))],
               [j \in 1..Len(a.p) |-> XCode(k2(j), a.p[j], a.q[j], k1(j) + k2(j))])

(* cycle_crossover(parent1, parent2): positions are partitioned into the   *)
(* cycles of pos -> position in parent1 of parent2[pos]; a cycle is        *)
(* numbered by (its least position, 1-based); odd cycles keep their        *)
(* parent, even cycles are exchanged.                                      *)
PosIn(p, x) == CHOOSE k \in DOMAIN p : p[k] = x
RECURSIVE Orbit(_, _, _, _)
Orbit(p, q, pos, acc) == IF pos \in acc THEN acc
                         ELSE Orbit(p, q, TLCEval(PosIn(p, q[pos])), TLCEval(acc \cup {pos}))
CycleLabel(p, q, j) == MinOf(Orbit(p, q, j, {}))
CycleX(p, q) ==
    << [j \in 1..Len(p) |-> IF CycleLabel(p, q, j) % 2 = 1 THEN p[j] ELSE q[j]],
       [j \in 1..Len(p) |-> IF CycleLabel(p, q, j) % 2 = 1 THEN q[j] ELSE p[j]] >>

---------------------------------------------------------------------------
(* Which calls are valid (the documented contract of each helper).         *)
SwapOps  == {"circular_swap", "circular_swap2"}
TransOps == {"translocate_slice", "translocate_slice2"}
PermOps  == SwapOps \cup TransOps
PairOps  == {"multi_point", "uniform", "arithmetic", "arith_x", "cycle"}
FnOps    == PermOps \cup PairOps

IdxIn(ix, n) == \A k \in DOMAIN ix : ix[k] \in 0..n - 1

ValidFn(a) ==
    LET n == Len(a.p) IN
    CASE a.op \in SwapOps  -> Len(a.ix) >= 2 /\ IsInj(a.ix) /\ IdxIn(a.ix, n)
      [] a.op \in TransOps -> /\ 0 <= a.a /\ a.a <= a.b /\ a.b <= n /\ a.a < n
                              /\ 0 <= a.i /\ a.i < n /\ a.i + (a.b - a.a) <= n
      \* (the helper contracts: 1 <= number of cuts < both lengths; mask / alphas at least as long as both
      \*  parents.  Cuts lie inside the shorter parent; a mask swaps only positions both parents have.)
      [] a.op = "multi_point" -> /\ Len(a.ix) >= 1 /\ Len(a.ix) < n /\ Len(a.ix) < Len(a.q)
                                 /\ IsInj(a.ix) /\ IdxIn(a.ix, Lo(n, Len(a.q)))
      [] a.op = "uniform"     -> /\ Len(a.ix) >= Hi(n, Len(a.q)) /\ \A k \in DOMAIN a.ix : a.ix[k] \in {0, 1}
                                 /\ \A k \in DOMAIN a.ix : k > Lo(n, Len(a.q)) => a.ix[k] = 0
      [] a.op = "arithmetic"  -> Len(a.ix) >= Hi(n, Len(a.q)) /\ \A k \in DOMAIN a.ix : a.ix[k] \in 0..4
      [] a.op = "arith_x"     -> /\ Len(a.q) = n /\ Len(a.ix) = n /\ \A k \in 1..n : a.ix[k] \in 0..AlphaTop
                                 /\ \A k \in 1..n : a.p[k] >= 1 /\ a.q[k] >= 1
      [] a.op = "cycle"       -> Len(a.q) = n /\ IsInj(a.p) /\ IsInj(a.q) /\ Range(a.p) = Range(a.q)
      [] OTHER -> FALSE

Pair(k, cc) == R(k, cc[1], cc[2])

ApplyFn(a) ==
    CASE a.op \in SwapOps     -> R("ok", CircularSwap(a.p, a.ix), <<>>)
      [] a.op \in TransOps    -> R("ok", Translocate(a.p, a.a, a.b, a.i), <<>>)
      [] a.op = "multi_point" -> Pair("ok", MultiPointAny(a.p, a.q, a.ix))
      [] a.op = "uniform"     -> Pair("ok", Uniform(a.p, a.q, a.ix))
      [] a.op = "arithmetic"  -> Pair("ok", Arith4(a.p, a.q, a.ix))
      [] a.op = "cycle"       -> Pair("ok", CycleX(a.p, a.q))

(* One helper call: a valid call never panics and returns the oracle value *)
(* (for "arith_x": a reply related to the arguments by ArithXRel; for a    *)
(* multi-point crossover of parents of unequal length: by MultiPointURel). *)
UnequalMP(a) == a.op = "multi_point" /\ Len(a.p) # Len(a.q)
MultiPointURel(a, r) == r.k = "ok" /\ PairConserved(a.p, a.q, r.c1, r.c2)
\* (cycle crossover: WHICH cycles are exchanged is not part of the statement -- a reply is judged by the helper theorems
\*  PermutationClosure, GeneConservation and CycleWhole alone; the oracle CycleX is one admissible reply)
FnRel(a, r) == IF a.op = "arith_x" THEN ArithXRel(a, r)
               ELSE IF UnequalMP(a) THEN MultiPointURel(a, r)
               ELSE IF a.op = "cycle" THEN r.k = "ok" /\ Len(r.c1) = Len(a.p) /\ Len(r.c2) = Len(a.p)
               ELSE r = ApplyFn(a)
DoFn(a) == /\ ValidFn(a)
           /\ act' = a
           /\ IF a.op = "arith_x" THEN res' = ArithXModel(a) ELSE res' = ApplyFn(a)
           /\ UNCHANGED <<cact, cres>>

---------------------------------------------------------------------------
(* Theorems about the helpers, stated independently of ApplyFn; checked as *)
(* invariants over every enumerated call.                                  *)
FnTotal == act.op \in FnOps => res.k = "ok"

PermutationClosure ==
    /\ act.op \in PermOps =>
          /\ SameElems(res.c1, act.p)
          /\ (IsInj(act.p) => IsInj(res.c1))
    /\ act.op = "cycle" =>
          /\ SameElems(res.c1, act.p) /\ IsInj(res.c1)
          /\ SameElems(res.c2, act.p) /\ IsInj(res.c2)

(* every position holds one of the two parental genes, both are conserved; *)
(* the children have the parents' lengths (parents of equal and of unequal *)
(* length, see PairConserved)                                              *)
GeneConservation ==
    act.op \in {"multi_point", "uniform", "cycle"} =>
        PairConserved(act.p, act.q, res.c1, res.c2)

(* arithmetic crossover: convex combination, sum conserved; a position     *)
(* only one parent has keeps its gene                                      *)
ArithConvex ==
    act.op = "arithmetic" =>
        LET mn == Lo(Len(act.p), Len(act.q)) IN
        /\ Len(res.c1) = Len(act.p) /\ Len(res.c2) = Len(act.q)
        /\ \A j \in 1..mn :
              /\ 4 * Lo(act.p[j], act.q[j]) <= res.c1[j] /\ res.c1[j] <= 4 * Hi(act.p[j], act.q[j])
              /\ 4 * Lo(act.p[j], act.q[j]) <= res.c2[j] /\ res.c2[j] <= 4 * Hi(act.p[j], act.q[j])
              /\ res.c1[j] + res.c2[j] = 4 * (act.p[j] + act.q[j])
        /\ \A j \in (mn + 1)..Len(act.p) : res.c1[j] = 4 * act.p[j]
        /\ \A j \in (mn + 1)..Len(act.q) : res.c2[j] = 4 * act.q[j]

(* ... on extreme genes: finite, between the parents, conserved; the ends  *)
(* of the alpha range return the parental genes                            *)
ArithXConvex ==
    act.op = "arith_x" =>
        /\ Len(res.c1) = Len(act.p) /\ Len(res.c2) = Len(act.p)
        /\ \A j \in 1..Len(act.p) : \A v \in {res.c1[j], res.c2[j]} : XCls(v) = 0 /\ XCons(v)
ArithXEnds ==
    act.op = "arith_x" =>
        \A j \in 1..Len(act.p) :
            /\ act.ix[j] = AlphaTop => XNearP(res.c1[j]) /\ XNearQ(res.c2[j])
            /\ act.ix[j] = 0        => XNearQ(res.c1[j]) /\ XNearP(res.c2[j])

(* a circular swap moves exactly the chosen positions, one step each       *)
SwapMovesChosen ==
    act.op \in SwapOps =>
        /\ \A j \in 1..Len(act.p) : (\A k \in DOMAIN act.ix : act.ix[k] + 1 # j) => res.c1[j] = act.p[j]
        /\ \A k \in DOMAIN act.ix :
              res.c1[act.ix[(k % Len(act.ix)) + 1] + 1] = act.p[act.ix[k] + 1]

(* a translocation keeps the relative order inside and outside the slice   *)
TranslocateShape ==
    act.op \in TransOps =>
        /\ Sub(res.c1, act.i, act.i + (act.b - act.a)) = Sub(act.p, act.a, act.b)
        /\ Sub(res.c1, 0, act.i) \o Sub(res.c1, act.i + (act.b - act.a), Len(res.c1))
              = Sub(act.p, 0, act.a) \o Sub(act.p, act.b, Len(act.p))

(* twin implementations agree with each other and with the oracle          *)
TwinSwap ==
    act.op \in SwapOps =>
        /\ CircularSwapAlg1(act.p, act.ix) = CircularSwapAlg2(act.p, act.ix)
        /\ CircularSwapAlg1(act.p, act.ix) = res.c1
TwinTranslocate ==
    act.op \in TransOps => TranslocateRot(act.p, act.a, act.b, act.i) = res.c1
MultiPointTailSwaps ==
    (act.op = "multi_point" /\ Len(act.p) = Len(act.q)) => MultiPointAlg(act.p, act.q, act.ix) = <<res.c1, res.c2>>

(* cycle crossover exchanges whole cycles only                             *)
CycleWhole ==
    act.op = "cycle" =>
        \A j \in 1..Len(act.p) :
            LET j2 == PosIn(act.p, act.q[j]) IN (res.c1[j] = act.p[j]) <=> (res.c1[j2] = act.p[j2])

---------------------------------------------------------------------------
(* Part 2: components through the public Component API.                    *)
(*                                                                         *)
(* cact.c    component (struct name)                                       *)
(* cact.ctor the public constructor the executed instance was built with   *)
(* cact.id   its identifier ("Global" | "A" | "B"; "Global" for the        *)
(*           components that have no identifier parameter)                 *)
(* cact.np   integer parameter: num_swap / n (points) / y                  *)
(* cact.pr   ARGUMENT given to the constructor: class of the rate (rm or   *)
(*           pc): 0 = exactly 0, 1 = strictly inside (0,1), 2 = exactly 1, *)
(*           3 = outside [0,1]; NoVal if the constructor takes no rate     *)
(* cact.p2   argument: class of the second probability                     *)
(*           (PartialRandomBitstring::p; 5 = exactly 0.5), NoVal if not    *)
(*           taken                                                         *)
(* cact.both argument insert_both (1/0), NoVal if not taken                *)
(* cact.st   argument std_dev / bound of Normal-/UniformMutation: index in  *)
(*           the strength ladder 0, f64::MIN_POSITIVE, 1e-300, 0.125, 0.5, *)
(*           2, 8, 1e300, 1e308, f64::MAX (1..10: every non-negative       *)
(*           finite value is a documented deviation / bound, exactly 0,    *)
(*           the tiniest and the hugest included), 90 = NaN (invalid);     *)
(*           0 for the components without a strength                       *)
(* cact.sibs further instances of the same component initialised in the    *)
(*           same state: sequence of [id, pr, st, up] -- under OTHER       *)
(*           identifiers, or an EARLIER instance under the identifier of   *)
(*           the executed one (an earlier phase, a reused state): the      *)
(*           executed instance's own `init` comes after it.  up = 1: that  *)
(*           instance lives in the ENCLOSING scope, the executed one is    *)
(*           initialised and run in a child scope (as `Scope` does)        *)
(* cact.adapt adaptations made through the state after all `init`s, in     *)
(*           order: sequence of [id, w, v]: w = 1 MutationRate := class v, *)
(*           w = 2 MutationStrength := ladder index v, of identifier id    *)
(* The parameters an execution must obey are DERIVED by the spec from      *)
(* these arguments (Built, RegOf, Eff below), not logged by the harness.   *)
(* cact.dim  problem dimension; cact.nrel = 0 iff 1 <= np < the length of   *)
(*           the shortest individual (= dim unless the population is       *)
(*           ragged or empty)                                              *)
(* cact.pin  top population before (sequence of integer sequences);        *)
(* cact.base the population below it (DE crossovers), else <<>>            *)
(* cres.k    "ok" | "err" (execute returned Err) | "ctor_err" (constructor *)
(*           returned Err) | "panic" | "timeout" (watchdog)                *)
(* cres.out / cres.base / cres.h  top population, population below, stack  *)
(*           height after; cres.pred, cres.pred2 harness-side predicates   *)
(* cres.reg  the MutationRate / MutationStrength states read back after    *)
(*           the execution: for Global, A, B in this order <<class of the  *)
(*           rate, ladder index of the strength>>, NoVal where the state   *)
(*           is missing; <<>> for components without identifier            *)
(* cres.built the parameters of the built instance as it serialises them:  *)
(*           <<class of rm / pc, class of p, insert_both, ladder index of  *)
(*           std_dev / bound, num_swap / n / y>> (0 where the component    *)
(*           has no such field); <<>> if no instance was built             *)
(* cres.mag  UniformMutation: per coordinate the least ladder index k with *)
(*           |new - old| <= ladder[k] (0 = bit-identical, StTop + 1 =      *)
(*           beyond the ladder); <<>> for every other component            *)
(*                                                                         *)
(* Projections.  Integer encodings (bits, permutations, labelled genes)    *)
(* are logged as they are.  Real mutations: pin[j] = zeros, out[j][c] =    *)
(* 0 bit-identical / 1 changed and the component's range predicate holds / *)
(* 2 changed and it fails (Normal-, UniformMutation: finite - except for   *)
(* a NormalMutation whose deviation is so huge (ladder index >= StOver)    *)
(* that deviation times a normal deviate overflows by plain arithmetic;    *)
(* PartialRandomSpread: inside the domain).  ArithmeticCrossover, DEMutation: pin[j] is     *)
(* filled with the tag of individual j (j, or the least index of a         *)
(* bit-identical individual), out[o] with the tag of the bit-identical     *)
(* input vector (0 = new vector); pred / pred2 as described at the         *)
(* relations.                                                              *)
(* Populations of the crossovers contain DUPLICATES (identical adjacent    *)
(* parents, converged populations, copies across pairs: selection with     *)
(* replacement); populations of the n-point crossover are also RAGGED      *)
(* (individuals of unequal length; cact.dim stays the problem dimension).  *)
RealMut == {"NormalMutation", "UniformMutation", "PartialRandomSpread"}
BitMut  == {"BitFlipMutation", "PartialRandomBitstring"}
PermMut == {"ScrambleMutation", "SwapMutation", "InversionMutation", "InsertionMutation",
            "TranslocationMutation"}
GeneX   == {"NPointCrossover", "UniformCrossover", "CycleCrossover"}
Cross   == GeneX \cup {"ArithmeticCrossover"}
DEX     == {"DEBinomialCrossover", "DEExponentialCrossover"}
Comps   == RealMut \cup BitMut \cup PermMut \cup Cross \cup DEX \cup {"DEMutation"}

IdComps  == RealMut \cup BitMut \cup {"ScrambleMutation"}    \* struct<I: Identifier>, state keyed by Self
StrComps == {"NormalMutation", "UniformMutation"}           \* ... with a MutationStrength<Self>
IdSeq    == <<"Global", "A", "B">>
StTop    == 10                                               \* valid strengths: ladder indices 1..StTop
StOver   == 9                                                \* deviations >= 1e308: N(0, s) is not finite
StBad    == 90

(* Every public constructor of every component (the code's `impl` blocks). *)
Ctors(c) ==
    CASE c = "NormalMutation"         -> {"new", "new_with_id", "from_params", "new_dev"}
      [] c = "UniformMutation"        -> {"new", "new_with_id", "from_params", "new_bound"}
      [] c = "BitFlipMutation"        -> {"new", "new_with_id", "from_params"}
      [] c \in {"PartialRandomSpread", "ScrambleMutation"}
                                      -> {"new", "new_with_id", "from_params", "new_full"}
      [] c = "PartialRandomBitstring" -> {"new", "new_with_id", "from_params", "new_uniform", "new_full",
                                          "new_uniform_full"}
      [] c \in Cross                  -> {"new", "from_params", "new_insert_single", "new_insert_both"}
      [] OTHER                        -> {"new", "from_params"}
(* constructors that exist for every identifier (the others: Global only)  *)
IdCtors == {"new_with_id", "from_params"}

(* What a constructor decides by itself instead of taking it as argument   *)
(* (its name and documentation): "full" / "dev" / "bound" variants mutate  *)
(* with rate 1, "uniform" variants sample bits with p = 0.5, "insert       *)
(* single" keeps the first child of a pair, "insert both" both children.   *)
FixPr(ctor)   == IF ctor \in {"new_dev", "new_bound", "new_full", "new_uniform_full"} THEN 2 ELSE NoVal
Half == 5       \* class of a probability that is exactly 0.5
FixP2(ctor)   == IF ctor \in {"new_uniform", "new_uniform_full"} THEN Half ELSE NoVal
FixBoth(ctor) == IF ctor = "new_insert_single" THEN 0 ELSE IF ctor = "new_insert_both" THEN 1 ELSE NoVal
Or(fix, given) == IF fix # NoVal THEN fix ELSE given
(* the parameters of the instance as built                                 *)
Built(a) == [pr |-> Or(FixPr(a.ctor), a.pr), p2 |-> Or(FixP2(a.ctor), a.p2), both |-> Or(FixBoth(a.ctor), a.both)]

(* The identifier-keyed parameter states after every instance has been     *)
(* initialised (`init` inserts MutationRate<Self> / MutationStrength<Self> *)
(* with the values the instance was built with) and the adaptations have   *)
(* been written: identifier -> <<rate class, strength index>>.             *)
SibOf(a, i) == a.sibs[CHOOSE k \in DOMAIN a.sibs : a.sibs[k].id = i]
RECURSIVE Adapted(_, _)
Adapted(reg, ad) == IF ad = <<>> THEN reg
                    ELSE Adapted(TLCEval([reg EXCEPT ![ad[1].id][ad[1].w] = ad[1].v]), Tail(ad))
RegOf(a) ==
    LET str(x) == IF a.c \in StrComps THEN x ELSE NoVal
        inited == [i \in Range(IdSeq) |->
                     IF i = a.id THEN <<Built(a).pr, str(a.st)>>
                     ELSE IF \E k \in DOMAIN a.sibs : a.sibs[k].id = i
                          THEN <<SibOf(a, i).pr, str(SibOf(a, i).st)>>
                          ELSE <<NoVal, NoVal>>]
    IN Adapted(inited, a.adapt)

(* The parameters the executed instance has to obey: those of ITS OWN      *)
(* identifier as they stand in the state for the adaptable ones, the       *)
(* built ones otherwise.  (Same record shape as cact.)                     *)
Eff(a) ==
    LET b == Built(a) IN
    IF a.c \in IdComps
    THEN [a EXCEPT !.pr = RegOf(a)[a.id][1], !.p2 = b.p2, !.both = b.both,
                   !.st = IF a.c \in StrComps THEN RegOf(a)[a.id][2] ELSE a.st]
    ELSE [a EXCEPT !.pr = b.pr, !.p2 = b.p2, !.both = b.both]

SameShape(o, p) == Len(o) = Len(p) /\ \A j \in 1..Len(p) : Len(o[j]) = Len(p[j])
AllIn(o, S)     == \A j \in 1..Len(o) : \A c \in 1..Len(o[j]) : o[j][c] \in S

Height(a) == IF a.c \in DEX THEN 2 ELSE 1
(* execute returned Ok, the stack height and the population below are kept *)
Fine(a, r) == r.k = "ok" /\ r.h = Height(a) /\ r.base = a.base

Rev(s, a, b) == [j \in 1..Len(s) |-> IF a < j /\ j <= b THEN s[a + b + 1 - j] ELSE s[j]]

(* t is s after one cycle through exactly k positions (s injective)        *)
RECURSIVE Walk(_, _, _, _)
Walk(s, t, j, acc) == IF j \in acc THEN acc ELSE Walk(s, t, TLCEval(PosIn(t, s[j])), TLCEval(acc \cup {j}))
IsKCycle(s, t, k) ==
    /\ SameElems(s, t)
    /\ LET D == {j \in 1..Len(s) : s[j] # t[j]} IN
       /\ Cardinality(D) = k
       /\ \A j \in D : Walk(s, t, j, {}) = D

Switches(p1, c1) ==     \* number of positions where the source parent changes (starting in p1)
    Cardinality({j \in 1..Len(c1) : (c1[j] = p1[j]) # (IF j = 1 THEN TRUE ELSE c1[j - 1] = p1[j - 1])})
(* the other child of a pair given one child: the other parent's length,   *)
(* the other gene of every position both parents have, the longer parent's *)
(* gene beyond                                                             *)
Complement(p1, p2, c1) ==
    LET mn == Lo(Len(p1), Len(p2))
        long == LongOf(p1, p2)
    IN [j \in 1..(Len(p1) + Len(p2) - Len(c1)) |->
            IF j <= mn THEN (IF c1[j] = p1[j] THEN p2[j] ELSE p1[j]) ELSE long[j]]

(* c1 is the first child of an n-point crossover with exactly np cuts.     *)
(* Where the parents differ in every position the source of every gene is  *)
(* visible and the cuts are the positions where it changes; where parents  *)
(* share genes (duplicates in the population) some cut set must explain c1. *)
PosDistinct(p1, p2) == \A j \in 1..Len(p1) : p1[j] # p2[j]
NPointShape(np, p1, p2, c1) ==
    IF PosDistinct(p1, p2) THEN Switches(p1, c1) = np
    ELSE \E S \in SUBSET (0..Len(p1) - 1) :
            /\ Cardinality(S) = np
            /\ c1 = [j \in 1..Len(p1) |-> IF Cardinality({k \in S : k <= j - 1}) % 2 = 0 THEN p1[j] ELSE p2[j]]

(* children of one crossed pair.  Equal lengths (the parents may be equal  *)
(* or share genes): every gene of child 1 is a parental gene of its        *)
(* position, child 2 holds the other ones, n-point / cycle structure.      *)
(* Unequal lengths (accepted by the n-point crossover only): PairConserved. *)
ChildrenOK(a, p1, p2, c1, c2) ==
    IF Len(p1) = Len(p2)
    THEN /\ Len(c1) = Len(p1) /\ Len(c2) = Len(p2)
         /\ \A j \in 1..Len(p1) : c1[j] \in {p1[j], p2[j]}
         /\ c2 = Complement(p1, p2, c1)
         /\ a.c = "NPointCrossover" => NPointShape(a.np, p1, p2, c1)
         \* (whole cycles are exchanged -- which ones is not part of the statement: children that are permutations
         \*  of the parents' elements can only have exchanged whole cycles)
         /\ (a.c = "CycleCrossover" /\ IsInj(p1)) =>
                (Range(c1) = Range(p1) /\ IsInj(c1) /\ Range(c2) = Range(p1) /\ IsInj(c2))
    ELSE a.c = "NPointCrossover" /\ PairConserved(p1, p2, c1, c2)
(* ... of which only the first child is inserted                           *)
FirstChildOK(a, p1, p2, c1) ==
    IF Len(p1) = Len(p2)
    THEN ChildrenOK(a, p1, p2, c1, Complement(p1, p2, c1))
    ELSE /\ a.c = "NPointCrossover"
         /\ Len(c1) \in {Len(p1), Len(p2)}
         /\ PairConserved(p1, p2, c1, Complement(p1, p2, c1))

(* pairing of parents and insertion of children (recombination/mod.rs):    *)
(* a pair is crossed (never if pc = 0, always if pc = 1) and replaced by   *)
(* both children / the first child, or both parents are kept; an odd       *)
(* remainder is kept.  Whether the two parents of a pair are equal plays   *)
(* no role: a crossed pair of equal parents is replaced by one / two       *)
(* children like every other pair.                                         *)
RECURSIVE XMatch(_, _, _)
XMatch(a, ps, os) ==
    IF Len(ps) = 0 THEN os = <<>>
    ELSE IF Len(ps) = 1 THEN os = ps
    ELSE LET rest == SubSeq(ps, 3, Len(ps)) IN
         \/ /\ a.pr # 2 /\ Len(os) >= 2 /\ os[1] = ps[1] /\ os[2] = ps[2]
            /\ XMatch(a, rest, SubSeq(os, 3, Len(os)))
         \/ /\ a.pr # 0 /\ a.both = 1 /\ Len(os) >= 2
            /\ ChildrenOK(a, ps[1], ps[2], os[1], os[2])
            /\ XMatch(a, rest, SubSeq(os, 3, Len(os)))
         \/ /\ a.pr # 0 /\ a.both = 0 /\ Len(os) >= 1
            /\ FirstChildOK(a, ps[1], ps[2], os[1])
            /\ XMatch(a, rest, Tail(os))

(* ArithmeticCrossover on real vectors: pin[j] = <<t,..>> with t the tag   *)
(* of individual j = the least index of a bit-identical individual (j      *)
(* itself unless the population contains duplicates), out[o] = tag of      *)
(* the identical input or 0; pred[o][m] = 1 iff output o is finite and     *)
(* coordinatewise between the parents of pair m (each end widened by 4 ulp *)
(* of itself); pred2[o][m] = 1 iff out[o] + out[o+1] = sum of the parents  *)
(* of pair m (halves compared, up to rounding; 0 if there is no o+1).      *)
(* Populations are drawn from a box or from the table of extreme values.   *)
RECURSIVE AMatch(_, _, _, _, _)
AMatch(a, r, m, o, npairs) ==    \* m = next pair, o = next output (both 1-based)
    LET no == Len(r.out) IN
    IF m > npairs THEN
        IF Len(a.pin) % 2 = 1 THEN o = no /\ r.out[o] = a.pin[Len(a.pin)] ELSE o = no + 1
    ELSE \/ /\ a.pr # 2 /\ o + 1 <= no /\ r.out[o] = a.pin[2 * m - 1] /\ r.out[o + 1] = a.pin[2 * m]
            /\ AMatch(a, r, m + 1, o + 2, npairs)
         \/ /\ a.pr # 0 /\ a.both = 1 /\ o + 1 <= no
            /\ Len(r.out[o]) = a.dim /\ Len(r.out[o + 1]) = a.dim
            /\ r.pred[o][m] = 1 /\ r.pred[o + 1][m] = 1 /\ r.pred2[o][m] = 1
            /\ AMatch(a, r, m + 1, o + 2, npairs)
         \/ /\ a.pr # 0 /\ a.both = 0 /\ o <= no
            /\ Len(r.out[o]) = a.dim /\ r.pred[o][m] = 1
            /\ AMatch(a, r, m + 1, o + 1, npairs)

(* DE crossovers: positions taken from the base individual.  Where mutant  *)
(* and base differ in every position this set is visible (FromBase); where *)
(* they share genes (a mutation without effect, a converged population)    *)
(* SOME set of positions of the required form must explain the outcome.    *)
FromBase(a, r, j) == {c \in 1..a.dim : r.out[j][c] = a.base[j][c]}
CircularRun(S, d) ==    \* S is a non-empty run of consecutive positions modulo d
    /\ S # {}
    /\ \/ S = 1..d
       \/ Cardinality({c \in S : ((c % d) + 1) \notin S}) = 1
DEFormOK(a, S) ==
    /\ a.c = "DEBinomialCrossover" => S # {} /\ (a.pr = 0 => Cardinality(S) = 1)
    /\ a.c = "DEExponentialCrossover" => CircularRun(S, a.dim) /\ (a.pr = 0 => Cardinality(S) = 1)
DETaken(a, r, j) ==
    IF \A c \in 1..a.dim : a.pin[j][c] # a.base[j][c]
    THEN DEFormOK(a, FromBase(a, r, j))
    ELSE \E S \in SUBSET (1..a.dim) :
            /\ r.out[j] = [c \in 1..a.dim |-> IF c \in S THEN a.base[j][c] ELSE a.pin[j][c]]
            /\ DEFormOK(a, S)

(* UniformMutation: a coordinate moves by at most the bound               *)
MagOK(a, r) ==
    /\ SameShape(r.mag, a.pin)
    /\ \A j \in 1..Len(a.pin) : \A c \in 1..Len(a.pin[j]) :
          /\ (r.mag[j][c] = 0) <=> (r.out[j][c] = 0)
          /\ r.mag[j][c] <= a.st

(* `a` = the case with the parameters the instance has to obey (Eff)       *)
CompRelE(a, r) ==
    CASE a.c \in RealMut ->
            \* documented: Err iff the MutationRate or MutationStrength holds an invalid value
            IF a.pr = 3 \/ a.st = StBad THEN r.k = "err"
            ELSE /\ Fine(a, r) /\ SameShape(r.out, a.pin)
                 /\ AllIn(r.out, IF a.c = "NormalMutation" /\ a.st >= StOver THEN {0, 1, 2} ELSE {0, 1})
                 /\ a.pr = 0 => AllIn(r.out, {0})
                 /\ IF a.c = "UniformMutation" THEN MagOK(a, r) ELSE r.mag = <<>>
      [] a.c = "BitFlipMutation" ->
            IF a.pr = 3 THEN r.k = "err"
            ELSE /\ Fine(a, r) /\ SameShape(r.out, a.pin) /\ AllIn(r.out, {0, 1})
                 /\ a.pr = 0 => r.out = a.pin
                 /\ a.pr = 2 => \A j \in 1..Len(a.pin) : \A c \in 1..Len(a.pin[j]) : r.out[j][c] = 1 - a.pin[j][c]
      [] a.c = "PartialRandomBitstring" ->
            IF a.pr = 3 THEN r.k = "err"
            ELSE /\ Fine(a, r) /\ SameShape(r.out, a.pin) /\ AllIn(r.out, {0, 1})
                 /\ a.pr = 0 => r.out = a.pin
                 /\ \A j \in 1..Len(a.pin) : \A c \in 1..Len(a.pin[j]) :
                       /\ a.p2 = 0 => r.out[j][c] <= a.pin[j][c]
                       /\ a.p2 = 2 => r.out[j][c] >= a.pin[j][c]
                       /\ (a.pr = 2 /\ a.p2 = 0) => r.out[j][c] = 0
                       /\ (a.pr = 2 /\ a.p2 = 2) => r.out[j][c] = 1
      [] a.c = "ScrambleMutation" ->
            IF a.pr = 3 THEN r.k = "err"
            ELSE /\ Fine(a, r) /\ Len(r.out) = Len(a.pin)
                 /\ \A j \in 1..Len(a.pin) : SameElems(r.out[j], a.pin[j])
                 /\ a.pr = 0 => r.out = a.pin
      [] a.c = "SwapMutation" ->
            \* documented: num_swap >= 2 is accepted; Err iff num_swap exceeds the solution length
            IF a.np < 2 THEN r.k = "ctor_err"
            ELSE IF \E j \in 1..Len(a.pin) : a.np > Len(a.pin[j]) THEN r.k = "err"
            ELSE /\ Fine(a, r) /\ Len(r.out) = Len(a.pin)
                 /\ \A j \in 1..Len(a.pin) : IsKCycle(a.pin[j], r.out[j], a.np)
      [] a.c = "InversionMutation" ->
            /\ Fine(a, r) /\ Len(r.out) = Len(a.pin)
            /\ \A j \in 1..Len(a.pin) : LET s == a.pin[j] IN
                  \E x \in 0..Len(s) : \E y \in x..Len(s) : r.out[j] = Rev(s, x, y)
      [] a.c = "InsertionMutation" ->
            /\ Fine(a, r) /\ Len(r.out) = Len(a.pin)
            /\ \A j \in 1..Len(a.pin) : LET s == a.pin[j] IN
                  \E e \in 0..Len(s) - 1 : \E i \in 0..Len(s) - 1 : r.out[j] = Translocate(s, e, e + 1, i)
      [] a.c = "TranslocationMutation" ->
            /\ Fine(a, r) /\ Len(r.out) = Len(a.pin)
            /\ \A j \in 1..Len(a.pin) : LET s == a.pin[j] IN
                  \* (s is injective: the slice that now starts at i is found by its first element)
                  /\ SameElems(r.out[j], s)
                  /\ \E i \in 0..Len(s) - 1 : \E c \in 1..Len(s) - i :
                        LET x == PosIn(s, r.out[j][i + 1]) - 1 IN
                        x + c <= Len(s) /\ r.out[j] = Translocate(s, x, x + c, i)
      [] a.c \in GeneX ->
            IF a.c = "NPointCrossover" /\ a.nrel # 0
            THEN r.k \in {"ok", "err"}    \* number of points outside 1..dim-1: undocumented, but no panic
            ELSE Fine(a, r) /\ XMatch(a, a.pin, r.out)
      [] a.c = "ArithmeticCrossover" ->
            Fine(a, r) /\ AMatch(a, r, 1, 1, Len(a.pin) \div 2)
      [] a.c = "DEMutation" ->
            \* documented: y in {1,2}; Err iff the population is not in the format [2y+1]*
            IF a.np \notin {1, 2} THEN r.k = "ctor_err"
            ELSE IF Len(a.pin) % (2 * a.np + 1) # 0 THEN r.k = "err"
            ELSE /\ Fine(a, r) /\ Len(r.out) = Len(a.pin) \div (2 * a.np + 1)
                 /\ \A o \in 1..Len(r.out) : Len(r.out[o]) = a.dim /\ r.pred[o] = <<1>>
      [] a.c \in DEX ->
            /\ Fine(a, r) /\ SameShape(r.out, a.pin)
            /\ \A j \in 1..Len(a.pin) :
                  /\ \A c \in 1..a.dim : r.out[j][c] \in {a.pin[j][c], a.base[j][c]}
                  /\ DETaken(a, r, j)
                  /\ a.pr = 2 => r.out[j] = a.base[j]
      [] OTHER -> FALSE

(* the parameter states read back after the execution are the modelled     *)
(* ones: `init` wrote under the instance's own identifier, nothing else    *)
(* was touched                                                             *)
RegOK(a, r) ==
    IF a.c \in IdComps /\ r.k \in {"ok", "err"}
    THEN r.reg = [k \in 1..Len(IdSeq) |-> RegOf(a)[IdSeq[k]]]
    ELSE r.reg = <<>>

(* the instance serialises the parameters its constructor stands for       *)
BuiltOK(a, r) ==
    IF r.k \in {"ok", "err"}
    THEN r.built = <<Built(a).pr, Built(a).p2, Built(a).both, a.st, a.np>>
    ELSE r.built = <<>>

CompRel(a, r) == /\ RegOK(a, r)
                 /\ BuiltOK(a, r)
                 /\ a.c # "UniformMutation" => r.mag = <<>>
                 /\ CompRelE(Eff(a), r)

(* consistency of the logged argument projections                          *)
MaxLenOf(pop) == IF pop = <<>> THEN 0 ELSE CHOOSE x \in {Len(pop[j]) : j \in 1..Len(pop)} :
                                              \A j \in 1..Len(pop) : Len(pop[j]) <= x
MinLen(a) == IF a.pin = <<>> THEN a.dim ELSE MinOf({Len(a.pin[j]) : j \in 1..Len(a.pin)})
Ragged(pin) == \E i, j \in 1..Len(pin) : Len(pin[i]) # Len(pin[j])
ValidComp(a) ==
    /\ a.c \in Comps
    /\ a.ctor \in Ctors(a.c)
    /\ a.id \in Range(IdSeq)
    /\ a.id # "Global" => a.c \in IdComps /\ a.ctor \in IdCtors
    \* an argument is logged iff the constructor takes it
    /\ a.pr \in (IF FixPr(a.ctor) # NoVal THEN {NoVal} ELSE 0..3)
    /\ a.p2 \in (IF FixP2(a.ctor) # NoVal THEN {NoVal} ELSE 0..3 \cup {Half})
    /\ a.both \in (IF FixBoth(a.ctor) # NoVal THEN {NoVal} ELSE {0, 1})
    /\ a.st \in (IF a.c \in StrComps THEN 1..StTop \cup {StBad} ELSE {0})
    \* siblings: other identifiers of an identifier-generic component; adaptations address existing instances
    /\ a.c \notin IdComps => a.sibs = <<>> /\ a.adapt = <<>>
    /\ \A k \in DOMAIN a.sibs :
          /\ a.sibs[k].id \in Range(IdSeq)          \* (a.id itself: an earlier instance of the same identifier)
          /\ a.sibs[k].up \in {0, 1}
          /\ \A k2 \in DOMAIN a.sibs : k2 # k => a.sibs[k2].id # a.sibs[k].id
          /\ a.sibs[k].pr \in 0..3
          /\ a.sibs[k].st \in (IF a.c \in StrComps THEN 1..StTop \cup {StBad} ELSE {0})
    /\ \A k \in DOMAIN a.adapt :
          /\ a.adapt[k].id \in {a.id} \cup {a.sibs[k2].id : k2 \in DOMAIN a.sibs}
          /\ \/ a.adapt[k].w = 1 /\ a.adapt[k].v \in 0..3
             \/ a.adapt[k].w = 2 /\ a.c \in StrComps /\ a.adapt[k].v \in 1..StTop \cup {StBad}
    /\ a.nrel = (IF 1 <= a.np /\ a.np < MinLen(a) THEN 0 ELSE 1)
    \* every individual has the problem dimension, except in the ragged populations of the n-point crossover
    /\ \A j \in 1..Len(a.pin) : IF a.c = "NPointCrossover" THEN Len(a.pin[j]) >= 1 ELSE Len(a.pin[j]) = a.dim
    /\ a.c \in DEX => SameShape(a.base, a.pin)
    /\ a.c \notin DEX => a.base = <<>>

(* One component execution: the observed reply must be allowed.            *)
DoComp(a, r) == /\ ValidComp(a)
                /\ CompRel(a, r)
                /\ cact' = a
                /\ cres' = r
                /\ UNCHANGED <<act, res>>

---------------------------------------------------------------------------
(* Properties of component executions, stated independently of CompRel.    *)
COk == cact.c # "-" /\ cres.k = "ok"

(* The parameters an instance has to obey, read off the case directly: the *)
(* value last written under ITS OWN identifier (by its `init`, then by     *)
(* adaptations addressed to that identifier); whatever was built or        *)
(* written under another identifier is irrelevant.                         *)
RECURSIVE LastOwn(_, _, _, _)
LastOwn(ad, id, w, cur) ==
    IF ad = <<>> THEN cur
    ELSE LastOwn(Tail(ad), id, w, IF ad[1].id = id /\ ad[1].w = w THEN ad[1].v ELSE cur)
OwnPr(a)   == IF a.c \in IdComps THEN LastOwn(a.adapt, a.id, 1, Built(a).pr) ELSE Built(a).pr
OwnSt(a)   == IF a.c \in StrComps THEN LastOwn(a.adapt, a.id, 2, a.st) ELSE a.st
OwnP2(a)   == Built(a).p2
OwnBoth(a) == Built(a).both

(* the folded state model agrees with that reading: siblings never matter  *)
CompOwnParameters ==
    cact.c # "-" =>
        LET e == Eff(cact) IN
        e.pr = OwnPr(cact) /\ e.st = OwnSt(cact) /\ e.p2 = OwnP2(cact) /\ e.both = OwnBoth(cact)

(* valid parameters and a valid population: no Err, no panic               *)
ParamsValid(a) ==
    /\ OwnPr(a) # 3 /\ OwnSt(a) # StBad
    /\ a.c = "SwapMutation" => a.np >= 2 /\ \A j \in 1..Len(a.pin) : a.np <= Len(a.pin[j])
    /\ a.c = "NPointCrossover" => a.nrel = 0
    /\ a.c = "DEMutation" => a.np \in {1, 2} /\ Len(a.pin) % (2 * a.np + 1) = 0
CompNoFailure == (cact.c # "-" /\ ParamsValid(cact)) => cres.k = "ok"
(* ... and an invalid own rate / strength is reported as Err (documented)  *)
CompInvalidRejected ==
    (cact.c \in IdComps /\ (OwnPr(cact) = 3 \/ OwnSt(cact) = StBad)) => cres.k = "err"

CompPermutationClosure ==
    (COk /\ cact.c \in PermMut) =>
        /\ Len(cres.out) = Len(cact.pin)
        /\ \A j \in 1..Len(cact.pin) : SameElems(cres.out[j], cact.pin[j])

CompDimensionKept ==
    (COk /\ cact.c \in RealMut \cup BitMut \cup PermMut \cup DEX) => SameShape(cres.out, cact.pin)

CompRateZero ==
    (COk /\ OwnPr(cact) = 0 /\ cact.c \in BitMut \cup {"ScrambleMutation"} \cup GeneX) => cres.out = cact.pin
CompRateZeroReal ==
    (COk /\ OwnPr(cact) = 0 /\ cact.c \in RealMut) => AllIn(cres.out, {0})
(* a uniform mutation moves a coordinate by at most its own bound          *)
CompStrengthBound ==
    (COk /\ cact.c = "UniformMutation") => AllIn(cres.mag, 0..OwnSt(cact))

(* (the number of points of an n-point crossover lies in its valid range;   *)
(* the other crossovers have no such parameter: nrel says nothing there)   *)
PointsOK(a) == a.c = "NPointCrossover" => a.nrel = 0
(* offspring counts follow insert_both and the crossover probability - for *)
(* every crossover and whatever the parents look like (distinct, equal,    *)
(* of unequal length)                                                      *)
CompOffspringCount ==
    (COk /\ cact.c \in Cross /\ PointsOK(cact)) =>
        LET n == Len(cact.pin) IN
        /\ Len(cres.out) <= n
        /\ Len(cres.out) >= ((n \div 2) + (n % 2))
        /\ OwnBoth(cact) = 1 => Len(cres.out) = n
        /\ (OwnBoth(cact) = 0 /\ OwnPr(cact) = 2) => Len(cres.out) = ((n \div 2) + (n % 2))
        /\ OwnPr(cact) = 0 => Len(cres.out) = n
(* every convenience constructor builds the variant its name says          *)
CompCtorVariant ==
    LET n == Len(cact.pin) IN
    /\ (cact.c # "-" /\ cres.k \in {"ok", "err"}) =>
          /\ cact.ctor \in {"new_dev", "new_bound", "new_full", "new_uniform_full"} => cres.built[1] = 2
          /\ cact.ctor \in {"new_uniform", "new_uniform_full"} => cres.built[2] = Half
          /\ cact.ctor = "new_insert_single" => cres.built[3] = 0
          /\ cact.ctor = "new_insert_both" => cres.built[3] = 1
          /\ cact.ctor \in {"new", "from_params", "new_with_id"} =>
                cres.built = <<cact.pr, cact.p2, cact.both, cact.st, cact.np>>
    /\ (COk /\ cact.c \in Cross /\ PointsOK(cact)) =>
          /\ cact.ctor = "new_insert_both" => Len(cres.out) = n
          /\ (cact.ctor = "new_insert_single" /\ cact.pr = 2) => Len(cres.out) = ((n \div 2) + (n % 2))
    /\ (COk /\ cact.c = "PartialRandomBitstring" /\ cact.adapt = <<>>
            /\ cact.ctor \in {"new_full", "new_uniform_full"}) =>
          \* every bit is re-sampled: with p = 0 / p = 1 the outcome is determined
          /\ cact.p2 = 0 => AllIn(cres.out, {0})
          /\ cact.p2 = 2 => AllIn(cres.out, {1})
CompDEFormat ==
    (COk /\ cact.c = "DEMutation") => Len(cres.out) * (2 * cact.np + 1) = Len(cact.pin)

(* every offspring gene of a gene-exchanging crossover is a parental gene  *)
(* of the same position (labels are position-specific in the model)        *)
CompGenesFromParents ==
    (COk /\ cact.c \in GeneX /\ PointsOK(cact)) =>
        \A o \in 1..Len(cres.out) : \A c \in 1..Len(cres.out[o]) :
            \E j \in 1..Len(cact.pin) : c <= Len(cact.pin[j]) /\ cact.pin[j][c] = cres.out[o][c]
(* ... and with insert-both nothing is lost or duplicated: the population  *)
(* after holds, position by position, exactly the genes of the population  *)
(* before (as multisets), in individuals of the same lengths - whether the *)
(* parents of a pair are equal, share genes, or differ in length           *)
GenesAt(pop, c) == {j \in 1..Len(pop) : Len(pop[j]) >= c}
CompGenesConserved ==
    (COk /\ cact.c \in GeneX /\ PointsOK(cact) /\ OwnBoth(cact) = 1) =>
        /\ Len(cres.out) = Len(cact.pin)
        /\ \A n \in {Len(cact.pin[j]) : j \in 1..Len(cact.pin)} \cup {Len(cres.out[o]) : o \in 1..Len(cres.out)} :
              Cardinality({o \in 1..Len(cres.out) : Len(cres.out[o]) = n})
                  = Cardinality({j \in 1..Len(cact.pin) : Len(cact.pin[j]) = n})
        /\ \A c \in 1..MaxLenOf(cact.pin) :
              \A g \in {cact.pin[j][c] : j \in GenesAt(cact.pin, c)} \cup {cres.out[o][c] : o \in GenesAt(cres.out, c)} :
                  Cardinality({o \in GenesAt(cres.out, c) : cres.out[o][c] = g})
                      = Cardinality({j \in GenesAt(cact.pin, c) : cact.pin[j][c] = g})
CompDEGenes ==
    (COk /\ cact.c \in DEX) =>
        \A j \in 1..Len(cres.out) : \A c \in 1..Len(cres.out[j]) :
            cres.out[j][c] \in {cact.pin[j][c], cact.base[j][c]}
CompStackKept == COk => cres.h = Height(cact) /\ cres.base = cact.base

Init == act = A0 /\ res = R0 /\ cact = CA0 /\ cres = CR0
=============================================================================
