--------------------------- MODULE Trace_Memory_T ---------------------------
(* Trace_Memory with the objective tables used by the harness (tag -> rank). *)
EXTENDS Trace_Memory
FQ == (1 :> 2) @@ (2 :> 1) @@ (3 :> 2)
FR == (1 :> 2) @@ (2 :> 1) @@ (3 :> 2) @@ (4 :> 1000000) @@ (5 :> 3) @@ (6 :> 1)
=============================================================================
