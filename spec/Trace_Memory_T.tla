--------------------------- MODULE Trace_Memory_T ---------------------------
(* Trace_Memory with the objective tables used by the harness (tag -> rank). *)
EXTENDS Trace_Memory
FQ == (1 :> 2) @@ (2 :> 1) @@ (3 :> 2)
FR == (1 :> 2) @@ (2 :> 1) @@ (3 :> 2) @@ (4 :> 1000000) @@ (5 :> 3) @@ (6 :> 1)
\* ranks shifted by one; solutions 7 and 8 have the objective values 0.0 and -0.0: a tie
FZ == (1 :> 3) @@ (2 :> 2) @@ (3 :> 3) @@ (4 :> 1000000) @@ (5 :> 4) @@ (6 :> 2) @@ (7 :> 1) @@ (8 :> 1)
=============================================================================
