SPECIFICATION LoopSpec
CONSTANTS
  F = 4
INVARIANT NoStuck Bounded Computes Untouched CanFinish
PROPERTY Variant
CHECK_DEADLOCK FALSE
