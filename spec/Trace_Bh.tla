------------------------------ MODULE Trace_Bh ------------------------------
(***************************************************************************)
(* Every record is ONE execution of a black-hole component on a prepared   *)
(* state (integer positions and objective values).  Load puts the prepared *)
(* state into the variables of Bh.tla; React decides from that integer     *)
(* state which individuals the component may touch and requires the        *)
(* recorded per-individual facts: same[u] (position and objective value    *)
(* bit-identical, still evaluated), psame[u] (position bit-identical),     *)
(* ev2[u] (evaluated afterwards),                                           *)
(* indom[u] (new position inside the domain), tow[j] (every individual     *)
(* moved, coordinate by coordinate, into the closed interval between its   *)
(* old position and individual j's position).                              *)
(***************************************************************************)
EXTENDS Bh, Json, IOUtils
Rec == ndJsonDeserialize(IOEnv.TRACE)
VARIABLE l
tvars == <<bvars, l>>
TraceInit == /\ l = 1 /\ xs = <<<<0>>>> /\ fs = <<0>> /\ fb = 0 /\ ph = "done" /\ act = "prepare" /\ res = "ok"

Load == /\ ph = "done" /\ l <= Len(Rec)
        /\ xs' = Rec[l].xs /\ fs' = Rec[l].fs /\ fb' = Rec[l].fb
        /\ ph' = "ready" /\ act' = "prepare" /\ res' = "ok" /\ UNCHANGED l

React == /\ ph = "ready"
         /\ LET r == Rec[l] IN
            /\ r.res = "ok" /\ r.n2 = N
            /\ IF r.op = "horizon"
               THEN \E idx \in Mins : \A u \in 1..N :
                        IF u \in Replaced(idx) THEN r.ev2[u] = 0 /\ r.indom[u] = 1 ELSE r.same[u] = 1
               ELSE /\ \E idx \in Mins : r.tow[idx] = 1 /\ r.psame[idx] = 1
                    /\ \A u \in 1..N : r.ev2[u] = 0
            /\ act' = r.op
         /\ xs' = xs /\ fs' = fs /\ fb' = fb /\ res' = "ok"
         /\ ph' = "done" /\ l' = l + 1

TraceNext == Load \/ React
TraceSpec == TraceInit /\ [][TraceNext]_tvars
TraceDone == PrintT(<<"TRACE_RESULT", (TLCGet("stats").diameter - 1) \div 2, Len(Rec)>>)
=============================================================================
