--------------------------- MODULE Trace_Registry ---------------------------
(* Trace validation: every record of the ndjson file named by the          *)
(* environment variable TRACE must be a step of Registry!Do with exactly   *)
(* the logged reply and the logged projected state.                        *)
EXTENDS Registry, TLC, Json, IOUtils

Rec == ndJsonDeserialize(IOEnv.TRACE)

VARIABLE l

TraceInit == Init /\ l = 1

Reset == /\ Rec[l].act.op = "reset"
         /\ scopes' = <<EmptyMap>>
         /\ act' = Rec[l].act
         /\ res' = R("ok", NoVal)

Step == /\ Rec[l].act.op # "reset"
        /\ Rec[l].act.d < Len(scopes)
        /\ Do(Rec[l].act)
        /\ res' = Rec[l].res
        /\ scopes' = Rec[l].scopes

TraceNext == /\ l <= Len(Rec)
             /\ (Reset \/ Step)
             /\ l' = l + 1

TraceSpec == TraceInit /\ [][TraceNext]_<<vars, l>>

TraceDone == PrintT(<<"TRACE_RESULT", TLCGet("stats").diameter - 1, Len(Rec)>>)
=============================================================================
