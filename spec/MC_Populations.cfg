SPECIFICATION Spec
CONSTANTS
  Pops <- PopsQ
  Tags = {3}
  MaxHeight = 3
  MaxPopLen = 2
VIEW McView
INVARIANT TypeOK RotateCycle
PROPERTY ReadsExact NonPanickingReplyNone OthersUntouched PushEditExact RotateShiftsTopN
CHECK_DEADLOCK FALSE
