-------------------------------- MODULE Exec --------------------------------
(***************************************************************************)
(* Reference interpreter for mahf configurations (C03):                    *)
(*   Body ::= Stmt*                                                        *)
(*   Stmt ::= leaf | while(c, Body) | if(c, Body) | ifelse(c, Body, Body)  *)
(*          | scope(Body)                                                  *)
(* exactly what Configuration::builder()'s do_/while_/if_/if_else_/scope_  *)
(* produce (every body is a Block), run as Configuration::run does:        *)
(* init; require; execute, on a registry scope stack.                      *)
(*                                                                         *)
(* A statement is a record [k, v, b, e]: k kind, v leaf variant            *)
(* ("plain" | "ins0" | "req0" | "-"), b/e bodies.                          *)
(* Node identity = path of child indices: statement i of a body at path p  *)
(* is p \o <<i>>; its condition p \o <<i, 0>>; its first body p \o <<i, 1>>*)
(* and second body p \o <<i, 2>>.                                          *)
(*                                                                         *)
(* Leaves and conditions are the harness's instrumented ones:              *)
(*  - every init / require / execute call of a leaf and every init /       *)
(*    require / evaluate call of a condition emits one event carrying what *)
(*    it sees *before* acting: the whole scope stack projected on the keys *)
(*    IT (pass counter), K0 (leaf state), U (the caller's own state);      *)
(*  - leaf "ins0": init inserts K0 = 0 into the current scope; execute     *)
(*    increments the innermost visible K0;  leaf "req0": require demands   *)
(*    K0; "plain": nothing;  leaf "ent0": the same state managed through   *)
(*    the get-or-create accessors (entry().or_insert / or_insert_with /    *)
(*    or_default / Vacant::insert): init and execute create K0 = 0 in the  *)
(*    CURRENT scope iff no K0 is visible, execute then increments the      *)
(*    innermost visible one;                                               *)
(*  - a condition evaluation consumes the next entry of the global script  *)
(*    (exhausted = false);                                                 *)
(*  - fault <<ph, n>>: the n-th event of phase ph fails (returns Err)      *)
(*    after being logged and without acting.                               *)
(* The interpreter is big-step (recursive over the tree): one case =       *)
(* (program, script, fault) = one run = its event sequence + end record.   *)
(***************************************************************************)
EXTENDS Naturals, Sequences, FiniteSets

NoVal == 99
Keys == {"IT", "K0", "U"}
EmptyScope == [x \in Keys |-> NoVal]
RootScope == [EmptyScope EXCEPT !["U"] = 7]      \* the caller's own state

Leaf(v) == [k |-> "leaf", v |-> v, b |-> <<>>, e |-> <<>>]
While(b) == [k |-> "while", v |-> "-", b |-> b, e |-> <<>>]
If(b) == [k |-> "if", v |-> "-", b |-> b, e |-> <<>>]
IfElse(b, e) == [k |-> "ifelse", v |-> "-", b |-> b, e |-> e]
Scope(b) == [k |-> "scope", v |-> "-", b |-> b, e |-> <<>>]

---------------------------------------------------------------------------
(* interpreter state threaded through the walk *)
\* rules: the caller's log configuration, a sequence of [tk, src]: trigger kind ("always" | "never" |
\* "every2" | "scripted": fires on its 1st, 3rd, 4th evaluation | "late": on its 2nd, 4th, 5th) and the state that is extracted
\* ("K0" | "U" | "IT" | "MISSING" | ...); callers pass Expand(adds).  rootit = 0: the caller put a pass counter into its own state.
St0x(script, fault, rules, rootit) ==
    [sc |-> <<[RootScope EXCEPT !["IT"] = rootit]>>, out |-> <<>>, script |-> script, fault |-> fault,
     cnt |-> [init |-> 0, require |-> 0, exec |-> 0], st |-> "ok",
     fp |-> <<>>, fph |-> "-", rules |-> rules, tpos |-> [j \in 1..Len(rules) |-> 0], log |-> <<>>,
     lx |-> <<>>]      \* ghost: one record per Logger execution (what it saw, which rules fired)
St0(script, fault) == St0x(script, fault, <<>>, NoVal)

RECURSIVE FindKey(_, _, _)
FindKey(sc, x, i) == IF i = 0 THEN 0 ELSE IF sc[i][x] # NoVal THEN i ELSE FindKey(sc, x, i - 1)
Vis(sc, x) == LET i == FindKey(sc, x, Len(sc)) IN IF i = 0 THEN NoVal ELSE sc[i][x]

Ev(ph, kind, p, sc, b, fail) ==
    [ph |-> ph, kind |-> kind, p |-> p, sc |-> sc, b |-> b, fail |-> fail]

\* one logged call of phase ph; b = condition outcome (NoVal otherwise)
Emit(s, ph, kind, p, b) ==
    IF s.st # "ok" THEN s
    ELSE LET n == s.cnt[ph] + 1
             failing == s.fault = <<ph, n>> IN
         [s EXCEPT !.cnt[ph] = n,
                   !.out = Append(@, Ev(ph, kind, p, s.sc, b, IF failing THEN 1 ELSE 0)),
                   !.st = IF failing THEN "err" ELSE "ok",
                   !.fp = IF failing THEN p ELSE @,
                   !.fph = IF failing THEN ph ELSE @]

Fail(s, ph, p) == [s EXCEPT !.st = "err", !.fp = p, !.fph = ph]
Top(s) == Len(s.sc)
SetTop(s, x, v) == [s EXCEPT !.sc[Top(s)][x] = v]
Bump(s, x) == LET i == FindKey(s.sc, x, Top(s)) IN
              IF i = 0 THEN s ELSE [s EXCEPT !.sc[i][x] = @ + 1]

KeyOf(v) == "K0"
\* entry-style get-or-create: an existing binding (in whichever scope) is left alone, a missing one is created
\* in the current (innermost) scope
GetOrCreate(s, x) == IF Vis(s.sc, x) = NoVal THEN SetTop(s, x, 0) ELSE s

(* ---- the Logger component (src/logging/logger.rs), C15 ---------------------------------------- *)
TrigScript == <<1, 0, 1, 1, 0>>
LateScript == <<0, 1, 0, 1, 1>>      \* a trigger that stays silent at first: later steps bring names the log has not seen yet
Fires(s, j) ==            \* outcome of rule j's trigger when evaluated now
    LET r == s.rules[j] IN
    CASE r.tk = "always" -> 1
      [] r.tk = "never" -> 0
      [] r.tk = "every2" -> IF Vis(s.sc, "IT") % 2 = 0 THEN 1 ELSE 0
      [] r.tk = "scripted" -> IF s.tpos[j] < Len(TrigScript) THEN TrigScript[s.tpos[j] + 1] ELSE 0
      [] r.tk = "late" -> IF s.tpos[j] < Len(LateScript) THEN LateScript[s.tpos[j] + 1] ELSE 0
\* null if the source state is missing; PG is a float state the ins0 leaves keep next to K0 (0.75 * K0, logged in quarters)
\* next to K0 the ins0 leaves also keep the states the `with_common` shorthand names: EV = Evaluations (K0 + 10),
\* PI = Progress<ValueOf<Iterations>> (K0 + 20 quarters), and PE = Progress<ValueOf<Evaluations>> (K0 + 30 quarters)
Derived(k, src) == CASE src = "PG" -> 3 * k [] src = "EV" -> k + 10 [] src = "PI" -> k + 20 [] src = "PE" -> k + 30
SrcVal(s, src) == IF src \in {"MISSING", "BV"} THEN NoVal       \* (BV: best objective value, never recorded in these runs)
                  ELSE IF src \in {"PG", "EV", "PI", "PE"}
                       THEN (IF Vis(s.sc, "K0") = NoVal THEN NoVal ELSE Derived(Vis(s.sc, "K0"), src))
                  ELSE Vis(s.sc, src)
\* The caller describes its log configuration by the LogConfig calls it makes ("adds": [tk, via, srcs]); the rules they
\* stand for: `with(trigger, extractor)` and `with_auto::<T>(trigger)` one rule, `with_many(trigger, extractors)` one
\* rule per extractor with the same trigger, in order, `with_common(trigger)` the number of evaluations and the progress
\* of the iterations, in this order.
RECURSIVE Expand(_)
Expand(adds) ==
    IF Len(adds) = 0 THEN <<>>
    ELSE LET a == Head(adds) IN
         (IF a.via = "common" THEN <<[tk |-> a.tk, src |-> "EV"], [tk |-> a.tk, src |-> "PI"]>>
          ELSE [i \in 1..Len(a.srcs) |-> [tk |-> a.tk, src |-> a.srcs[i]]]) \o Expand(Tail(adds))
RECURSIVE Entries(_, _, _)
Entries(s, j, acc) ==     \* one entry per fired rule, in rule order; the first rule wins for a repeated name
    IF j > Len(s.rules) THEN acc
    ELSE LET src == s.rules[j].src
             dup == \E x \in 1..Len(acc) : acc[x].n = src IN
         Entries(s, j + 1, IF Fires(s, j) = 1 /\ ~dup THEN Append(acc, [n |-> src, v |-> SrcVal(s, src)]) ELSE acc)
LogExec(s) ==             \* every trigger is evaluated exactly once; a non-empty step gets the iteration first
    LET es == Entries(s, 1, <<>>)
        hasIt == \E x \in 1..Len(es) : es[x].n = "IT"
        step == IF hasIt THEN es ELSE <<[n |-> "IT", v |-> Vis(s.sc, "IT")]>> \o es
        s1 == [s EXCEPT !.tpos = [j \in 1..Len(s.rules) |-> IF s.rules[j].tk \in {"scripted", "late"} THEN @[j] + 1 ELSE @[j]],
                        !.lx = Append(@, [sc |-> s.sc, rules |-> s.rules, fired |-> [j \in 1..Len(s.rules) |-> Fires(s, j)]])]
    IN IF Len(es) = 0 THEN s1 ELSE [s1 EXCEPT !.log = Append(@, step)]

RECURSIVE InitB(_, _, _), InitS(_, _, _), ReqB(_, _, _), ReqS(_, _, _), ExecB(_, _, _), ExecS(_, _, _),
          LoopFrom(_, _, _)

\* ---- init phase
InitS(x, p, s) ==
    IF s.st # "ok" THEN s
    ELSE CASE x.k = "leaf" /\ x.v = "log" -> s
           [] x.k = "leaf" ->
                LET s1 == Emit(s, "init", "leaf", p, NoVal) IN
                IF s1.st = "ok" /\ x.v = "ins0" THEN SetTop(s1, KeyOf(x.v), 0)
                ELSE IF s1.st = "ok" /\ x.v = "ent0" THEN GetOrCreate(s1, KeyOf(x.v))
                ELSE s1
           [] x.k = "while" ->      \* insert the pass counter, init condition, init body
                InitB(x.b, p \o <<1>>, Emit(SetTop(s, "IT", 0), "init", "cond", p \o <<0>>, NoVal))
           [] x.k = "if" -> InitB(x.b, p \o <<1>>, Emit(s, "init", "cond", p \o <<0>>, NoVal))
           [] x.k = "ifelse" ->
                InitB(x.e, p \o <<2>>, InitB(x.b, p \o <<1>>, Emit(s, "init", "cond", p \o <<0>>, NoVal)))
           [] x.k = "scope" -> s    \* a scope initialises nothing until it is entered

InitB(body, p, s) ==
    IF Len(body) = 0 \/ s.st # "ok" THEN s
    ELSE LET RECURSIVE Go(_, _)
             Go(i, t) == IF i > Len(body) THEN t ELSE Go(i + 1, InitS(body[i], p \o <<i>>, t))
         IN Go(1, s)

\* ---- require phase
ReqS(x, p, s) ==
    IF s.st # "ok" THEN s
    ELSE CASE x.k = "leaf" /\ x.v = "log" -> s
           [] x.k = "leaf" ->
                LET s1 == Emit(s, "require", "leaf", p, NoVal) IN
                IF s1.st = "ok" /\ x.v = "req0" /\ Vis(s1.sc, KeyOf(x.v)) = NoVal
                THEN Fail(s1, "require", p) ELSE s1
           [] x.k = "while" -> ReqB(x.b, p \o <<1>>, Emit(s, "require", "cond", p \o <<0>>, NoVal))
           [] x.k = "if" -> ReqB(x.b, p \o <<1>>, Emit(s, "require", "cond", p \o <<0>>, NoVal))
           [] x.k = "ifelse" ->
                ReqB(x.e, p \o <<2>>, ReqB(x.b, p \o <<1>>, Emit(s, "require", "cond", p \o <<0>>, NoVal)))
           [] x.k = "scope" -> s

ReqB(body, p, s) ==
    IF Len(body) = 0 \/ s.st # "ok" THEN s
    ELSE LET RECURSIVE Go(_, _)
             Go(i, t) == IF i > Len(body) THEN t ELSE Go(i + 1, ReqS(body[i], p \o <<i>>, t))
         IN Go(1, s)

\* ---- execute phase
Eval(s, p) ==        \* evaluate a scripted condition: <<state, outcome>>
    LET b == IF Len(s.script) = 0 THEN 0 ELSE s.script[1]
        s1 == Emit(s, "exec", "cond", p, b) IN
    <<[s1 EXCEPT !.script = IF Len(@) = 0 THEN @ ELSE Tail(@)], b>>

LoopFrom(x, p, s) ==  \* test before every pass; count the pass after the body
    IF s.st # "ok" THEN s
    ELSE LET r == Eval(s, p \o <<0>>) IN
         IF r[1].st # "ok" \/ r[2] = 0 THEN r[1]
         ELSE LET s2 == ExecB(x.b, p \o <<1>>, r[1]) IN
              IF s2.st # "ok" THEN s2
              ELSE IF Vis(s2.sc, "IT") = NoVal THEN Fail(s2, "exec", p)
              ELSE LoopFrom(x, p, Bump(s2, "IT"))

ExecS(x, p, s) ==
    IF s.st # "ok" THEN s
    ELSE CASE x.k = "leaf" /\ x.v = "log" -> LogExec(s)      \* mahf's own Logger: no event, effect on the log
           [] x.k = "leaf" ->
                LET s1 == Emit(s, "exec", "leaf", p, NoVal) IN
                IF s1.st = "ok" /\ x.v = "ins0" THEN Bump(s1, KeyOf(x.v))
                ELSE IF s1.st = "ok" /\ x.v = "ent0" THEN Bump(GetOrCreate(s1, KeyOf(x.v)), KeyOf(x.v))
                ELSE s1
           [] x.k = "while" ->      \* the condition is re-initialised on loop entry
                LoopFrom(x, p, Emit(s, "init", "cond", p \o <<0>>, NoVal))
           [] x.k = "if" ->
                LET r == Eval(s, p \o <<0>>) IN
                IF r[1].st = "ok" /\ r[2] = 1 THEN ExecB(x.b, p \o <<1>>, r[1]) ELSE r[1]
           [] x.k = "ifelse" ->
                LET r == Eval(s, p \o <<0>>) IN
                IF r[1].st # "ok" THEN r[1]
                ELSE IF r[2] = 1 THEN ExecB(x.b, p \o <<1>>, r[1]) ELSE ExecB(x.e, p \o <<2>>, r[1])
           [] x.k = "scope" ->
                \* child scope: init, require, execute of the body against it; the child is
                \* popped again whether or not the body failed; the error (if any) propagates
                \* variant "seed" (Scope::new_with): the scope's own state initialiser puts U := 5 into the CHILD state
                \* before the body is initialised, and after a successful body its merge function writes K0 := 5
                \* into the caller's top scope (it finds U in the child handed to it); nothing else crosses the border
                \* ... and it adds a rule (always, U) to the log configuration of the run (State::configure_log from inside
                \* the scope reaches the configuration the run was given; the rule stays when the scope is left)
                LET s0 == IF x.v = "seed"
                          THEN [s EXCEPT !.rules = Append(@, [tk |-> "always", src |-> "U"]), !.tpos = Append(@, 0)]
                          ELSE s
                    s1 == [s0 EXCEPT !.sc = Append(@, IF x.v = "seed" THEN [EmptyScope EXCEPT !["U"] = 5] ELSE EmptyScope)]
                    s2 == ExecB(x.b, p \o <<1>>, ReqB(x.b, p \o <<1>>, InitB(x.b, p \o <<1>>, s1)))
                    s3 == [s2 EXCEPT !.sc = SubSeq(@, 1, Len(@) - 1)]
                IN IF x.v = "seed" /\ s3.st = "ok" THEN SetTop(s3, "K0", 5) ELSE s3

ExecB(body, p, s) ==
    IF Len(body) = 0 \/ s.st # "ok" THEN s
    ELSE LET RECURSIVE Go(_, _)
             Go(i, t) == IF i > Len(body) THEN t ELSE Go(i + 1, ExecS(body[i], p \o <<i>>, t))
         IN Go(1, s)

\* Configuration::run on the caller's state
RunProgX(prog, script, fault, rules, rootit) ==
    LET s == ExecB(prog, <<>>, ReqB(prog, <<>>, InitB(prog, <<>>, St0x(script, fault, rules, rootit)))) IN
    [out |-> s.out,
     end |-> [result |-> s.st, fph |-> s.fph, fp |-> s.fp, depth |-> Len(s.sc), root |-> s.sc[1],
              left |-> Len(s.script)],
     log |-> s.log, lx |-> s.lx]
RunProg(prog, script, fault) == RunProgX(prog, script, fault, <<>>, NoVal)

---------------------------------------------------------------------------
(* program universe for model checking: all bodies with exactly n statements *)
CONSTANT LeafVariants      \* {"plain", "ins0", "req0"} for C03; {"ins0", "log"} for C15; "seed" switches the seeded scopes on

RECURSIVE BodiesOf(_), StmtsOf(_)
StmtsOf(n) ==
    IF n = 0 THEN {}
    ELSE (IF n = 1 THEN {Leaf(v) : v \in LeafVariants \ {"seed"}} ELSE {})
         \cup {While(b) : b \in BodiesOf(n - 1)}
         \cup {If(b) : b \in BodiesOf(n - 1)}
         \cup {Scope(b) : b \in BodiesOf(n - 1)}
         \cup (IF "seed" \in LeafVariants THEN {[Scope(b) EXCEPT !.v = "seed"] : b \in BodiesOf(n - 1)} ELSE {})
         \cup UNION {{IfElse(b, e) : b \in BodiesOf(i), e \in BodiesOf(n - 1 - i)} : i \in 0..(n - 1)}
BodiesOf(n) ==
    IF n = 0 THEN {<<>>}
    ELSE UNION {{<<x>> \o rest : x \in StmtsOf(k), rest \in BodiesOf(n - k)} : k \in 1..n}

Programs(N) == UNION {BodiesOf(n) : n \in 0..N}
RECURSIVE ScriptsOf(_)
ScriptsOf(n) == IF n = 0 THEN {<<>>} ELSE {<<b>> \o s : b \in {0, 1}, s \in ScriptsOf(n - 1)}
Scripts(L) == UNION {ScriptsOf(n) : n \in 0..L}
Faults(F) == {<<"none", 0>>} \cup {<<ph, n>> : ph \in {"init", "require", "exec"}, n \in 1..F}

---------------------------------------------------------------------------
(* The specification proper: pick a program, script and fault; emit events. *)
CONSTANTS MaxStmts, MaxScript, MaxFault

VARIABLES prog, script, fault, full
evars == <<prog, script, fault, full>>

EInit == /\ prog \in Programs(MaxStmts)
         /\ script \in Scripts(MaxScript)
         /\ fault \in Faults(MaxFault)
         /\ full = RunProg(prog, script, fault)     \* the run of this case: events + end record
ENext == UNCHANGED evars                          \* a case is one run; nothing else happens
ESpec == EInit /\ [][ENext]_evars

---------------------------------------------------------------------------
(* Properties of C03 over the event sequence (independent of the walk).     *)
Out == full.out
End == full.end
Idx == 1..Len(Out)
D(i) == Len(Out[i].sc)                         \* scope depth seen by event i
LevelOf(sc, x) == FindKey(sc, x, Len(sc))      \* innermost scope holding x (0 = none)

\* all nodes of the program that lie outside every scope
RECURSIVE NodesB(_, _), NodesS(_, _)
NodesS(x, p) ==
    CASE x.k = "leaf" -> IF x.v = "log" THEN {} ELSE {<<"leaf", p>>}
      [] x.k = "scope" -> {}
      [] x.k = "ifelse" -> {<<"cond", p \o <<0>>>>} \cup NodesB(x.b, p \o <<1>>) \cup NodesB(x.e, p \o <<2>>)
      [] OTHER -> {<<"cond", p \o <<0>>>>} \cup NodesB(x.b, p \o <<1>>)
NodesB(body, p) == UNION {NodesS(body[i], p \o <<i>>) : i \in 1..Len(body)}
Outside == NodesB(prog, <<>>)

RECURSIVE StmtAt(_, _)
StmtAt(body, p) == IF Len(p) = 1 THEN body[p[1]]
                   ELSE LET x == body[p[1]] IN
                        StmtAt(IF p[2] = 1 THEN x.b ELSE x.e, SubSeq(p, 3, Len(p)))
IsLoopCond(p) == StmtAt(prog, SubSeq(p, 1, Len(p) - 1)).k = "while"

\* the three top-level phases are contiguous: events before the first require/exec event form the
\* init phase, then the require phase up to the first exec event, then execution
FirstOf(S) == IF S = {} THEN Len(Out) + 1 ELSE CHOOSE i \in S : \A j \in S : i <= j
InitEnd == FirstOf({i \in Idx : ~(Out[i].ph = "init" /\ D(i) = 1)})
ReqEnd  == FirstOf({i \in Idx : i >= InitEnd /\ ~(Out[i].ph = "require" /\ D(i) = 1)})   \* execution starts here

\* everything outside a scope is initialised exactly once, before any requirement is checked
InitOnceOutsideScopes ==
    /\ \A i \in 1..(InitEnd - 1) : D(i) = 1 /\ <<Out[i].kind, Out[i].p>> \in Outside
    /\ \A nd \in Outside :
         LET hits == {i \in 1..(InitEnd - 1) : Out[i].kind = nd[1] /\ Out[i].p = nd[2]} IN
         /\ Cardinality(hits) <= 1
         /\ (InitEnd <= Len(Out) \/ End.result = "ok") => Cardinality(hits) = 1   \* init phase completed

\* then all requirements are checked, and only then does execution begin
RequireBeforeExecute ==
    /\ \A i \in InitEnd..(ReqEnd - 1) : Out[i].ph = "require" /\ D(i) = 1 /\ <<Out[i].kind, Out[i].p>> \in Outside
    /\ \A nd \in Outside :
         LET hits == {i \in InitEnd..(ReqEnd - 1) : Out[i].kind = nd[1] /\ Out[i].p = nd[2]} IN
         /\ Cardinality(hits) <= 1
         /\ (ReqEnd <= Len(Out) \/ End.result = "ok") => Cardinality(hits) = 1    \* require phase completed
    \* after execution has begun, init / require events occur only inside scopes or as loop-entry re-init
    /\ \A i \in ReqEnd..Len(Out) :
         Out[i].ph # "exec" => D(i) > 1 \/ (Out[i].ph = "init" /\ Out[i].kind = "cond" /\ IsLoopCond(Out[i].p))

\* the first error stops everything after it and is what the run returns;
\* in particular a failed requirement (or initialisation) means nothing executes
FirstErrorStopsAll ==
    /\ \A i \in Idx : Out[i].fail = 1 => i = Len(Out) /\ End.result = "err"
    /\ End.result = "err" => /\ Len(Out) >= 1
                             /\ Out[Len(Out)].p = End.fp /\ Out[Len(Out)].ph = End.fph
    /\ End.result = "ok" => fault[1] = "none" \/ ~(\E i \in Idx : Out[i].fail = 1)
    /\ (End.result = "err" /\ Len(Out) < ReqEnd) => \A i \in Idx : Out[i].ph # "exec"

\* every scope that was opened is closed again and nothing else is removed from the caller's state
ScopesClosedAtEnd ==
    /\ End.depth = 1
    /\ End.root["U"] = 7
    /\ \A i \in Idx : Out[i].sc[1]["U"] = 7

\* a loop re-initialises its condition on entry and tests it before every pass: the events of one
\* loop condition form the pattern  init (eval-true)* eval-false  per activation
CondReinitAndTestBeforePass ==
    \A i \in ReqEnd..Len(Out) :
      (Out[i].kind = "cond" /\ Out[i].ph = "exec" /\ IsLoopCond(Out[i].p)) =>
        LET prev == {j \in 1..(i - 1) : Out[j].p = Out[i].p /\ Out[j].kind = "cond" /\ Out[j].ph # "require"
                                          /\ Len(Out[j].sc) = Len(Out[i].sc)}
            j == CHOOSE j \in prev : \A k \in prev : k <= j IN
        /\ prev # {}
        /\ (Out[j].ph = "init" /\ j >= ReqEnd) \/ (Out[j].ph = "exec" /\ Out[j].b = 1)
\* ... and the body runs only after a test that held: an event inside a loop body is preceded by a
\* true evaluation of that loop's condition with no false one in between
BodyOnlyAfterTrueTest ==
    \A i \in Idx : \A n \in 1..Len(Out[i].p) :
      LET q == SubSeq(Out[i].p, 1, n) IN
      (n % 2 = 1 /\ n + 1 < Len(Out[i].p) /\ Out[i].p[n + 1] = 1 /\ StmtAt(prog, q).k = "while"
         /\ Out[i].ph = "exec") =>
        \* there is a scope-entry-independent witness: some earlier true evaluation of q's condition
        \E j \in 1..(i - 1) : Out[j].p = q \o <<0>> /\ Out[j].ph = "exec" /\ Out[j].b = 1

\* completed passes are counted, changes to non-shadowed outer state persist, shadowed outer state
\* is restored, state created inside a scope is gone: accounting on the caller's (root) scope
Creating == {"ins0", "ent0"}      \* leaf variants that create K0 (by insert / by the get-or-create accessors)
RootPasses == {i \in Idx : Out[i].kind = "cond" /\ Out[i].ph = "exec" /\ Out[i].b = 1 /\ Out[i].fail = 0
                            /\ IsLoopCond(Out[i].p) /\ LevelOf(Out[i].sc, "IT") = 1}
RootBumps == {i \in Idx : Out[i].kind = "leaf" /\ Out[i].ph = "exec" /\ Out[i].fail = 0
                           /\ StmtAt(prog, Out[i].p).v \in Creating /\ LevelOf(Out[i].sc, "K0") = 1}
HasOutside(kind, vs) == \E nd \in Outside : nd[1] = "leaf" /\ kind = "leaf" /\ StmtAt(prog, nd[2]).v \in vs
HasOutsideLoop == \E nd \in Outside : nd[1] = "cond" /\ IsLoopCond(nd[2])
RECURSIVE HasSeed(_)
HasSeed(body) == \E i \in 1..Len(body) : (body[i].k = "scope" /\ body[i].v = "seed") \/ HasSeed(body[i].b) \/ HasSeed(body[i].e)
RootAccounting ==
    End.result = "ok" =>
      /\ End.root["IT"] = (IF HasOutsideLoop THEN Cardinality(RootPasses) ELSE NoVal)
      \* (a seeded scope's merge function writes K0 as well: accounted for by SeedStaysInside below)
      /\ ~HasSeed(prog) => End.root["K0"] = (IF HasOutside("leaf", Creating) THEN Cardinality(RootBumps) ELSE NoVal)
\* a scope body starts from an empty child scope each time it is entered
ScopeEntryFresh ==
    \A i \in Idx : i > 1 /\ D(i) > D(i - 1) =>
        /\ D(i) = D(i - 1) + 1
        /\ \E base \in {EmptyScope, [EmptyScope EXCEPT !["U"] = 5]} :     \* (seeded scopes start with their U := 5)
              \/ Out[i].sc[D(i)] = base
              \/ (Out[i].ph = "init" /\ Out[i].kind = "cond" /\ IsLoopCond(Out[i].p)
                    /\ Out[i].sc[D(i)] = [base EXCEPT !["IT"] = 0])
\* what a scope's own initialiser inserts stays inside the scope: the caller's U is never touched, and U = 5 is only
\* ever seen above the root scope
SeedStaysInside ==
    /\ \A i \in Idx : Out[i].sc[1]["U"] = 7
    /\ End.root["U"] = 7

TypeOK == End.result \in {"ok", "err"}
=============================================================================
