-------------------------- MODULE Trace_Conditions --------------------------
(* Trace validation: every record of the ndjson file named by the           *)
(* environment variable TRACE must be a step of Conditions!Do with exactly  *)
(* the logged reply and the logged projected state (observed values and     *)
(* progress fractions; `prev` is private to mahf and stays internal, the    *)
(* frequency counters are the specification's own).                         *)
EXTENDS Conditions, TLC, Json, IOUtils

Rec == ndJsonDeserialize(IOEnv.TRACE)

VARIABLE l

TraceInit == Init /\ l = 1

Reset == /\ Rec[l].act.op = "reset"
         /\ obs' = InitialState[1] /\ prev' = InitialState[2] /\ progress' = InitialState[3]
         /\ rcN' = InitialState[4] /\ rcK' = InitialState[5]
         /\ act' = Rec[l].act
         /\ res' = ROk

\* Boolean combinations are judged by the relation LogicOk (any order of operands is a legal implementation);
\* every other call by the model's own action
Step == /\ Rec[l].act.op # "reset"
        /\ IF Rec[l].act.op = "logic"
           THEN /\ LogicOk(Rec[l].act.fm, Rec[l].res)
                /\ act' = Rec[l].act /\ UNCHANGED <<prev, rcN, rcK>>
           ELSE Do(Rec[l].act)
        /\ res' = Rec[l].res
        /\ obs' = Rec[l].obs
        /\ progress' = Rec[l].progress

TraceNext == /\ l <= Len(Rec)
             /\ (Reset \/ Step)
             /\ l' = l + 1

TraceSpec == TraceInit /\ [][TraceNext]_<<vars, l>>

TraceDone == PrintT(<<"TRACE_RESULT", TLCGet("stats").diameter - 1, Len(Rec)>>)
=============================================================================
