------------------------------ MODULE Trace_Run ------------------------------
EXTENDS Run, IOUtils
Rec == ndJsonDeserialize(IOEnv.TRACE)
VARIABLE l
TraceInit == RInit /\ l = 1
TraceNext == l <= Len(Rec) /\ Do(Rec[l]) /\ l' = l + 1
TraceSpec == TraceInit /\ [][TraceNext]_<<rvars, l>>
TraceDone == PrintT(<<"TRACE_RESULT", TLCGet("stats").diameter - 1, Len(Rec)>>)
=============================================================================
