------------------------------ MODULE Registry ------------------------------
(***************************************************************************)
(* mahf `StateRegistry` (src/state/registry/mod.rs, entry.rs): an owned    *)
(* chain of type-keyed maps.  `scopes[1]` is the root, `scopes[Len]` the   *)
(* innermost (top) scope.  Every public call of the registry is one action *)
(* `Do(a)`; `a` is the call with its arguments, `res` the reply the        *)
(* abstract object gives.  All calls can be issued on the registry itself  *)
(* (d = 0) or on its d-th ancestor obtained through parent()/parent_mut(), *)
(* which sees only `scopes[1 .. Len - d]`.                                 *)
(*                                                                         *)
(* Encoding conventions: one shape per variable.  Absent value = NoVal.    *)
(* act = [op, t, v, w, d, f]; res = [k, v, m].                             *)
(***************************************************************************)
EXTENDS Naturals, Sequences, FiniteSets

CONSTANTS Type,      \* set of strings naming the marker state types
          Val,       \* set of naturals a state can hold (contains 0 = Default)
          MaxDepth   \* bound on Len(scopes) for model checking

NoVal == 99
NoT   == "-"

VARIABLES scopes, act, res
vars == <<scopes, act, res>>

EmptyMap == [t \in Type |-> NoVal]
MapT     == [Type -> Val \cup {NoVal}]

R(k, v)      == [k |-> k, v |-> v, m |-> EmptyMap]
RM(k, v, m)  == [k |-> k, v |-> v, m |-> m]
A(op, t, v, w, d, f) == [op |-> op, t |-> t, v |-> v, w |-> w, d |-> d, f |-> f]

Len0 == Len(scopes)
View(d) == Len0 - d                \* index of the top scope seen by ancestor d

(* find / find_mut, written as the code does it: look at the top of the    *)
(* view, else recurse into the parent.  0 = not found.                     *)
RECURSIVE Find(_, _)
Find(t, i) == IF i = 0 THEN 0
              ELSE IF scopes[i][t] # NoVal THEN i ELSE Find(t, i - 1)

SetCell(i, t, v) == [scopes EXCEPT ![i][t] = v]

---------------------------------------------------------------------------
(* Read forms: every way to read the value of T through &self.             *)
TryForms   == {"try_get_value", "try_borrow", "try_borrow_value",
               "try_borrow_mut", "try_borrow_value_mut"}
PanicForms == {"get_value", "borrow", "borrow_value", "borrow_mut", "borrow_value_mut"}
ReadForms  == TryForms \cup PanicForms
WriteForms == {"try_borrow_mut", "try_borrow_value_mut", "borrow_mut", "borrow_value_mut"}

(* The convenience accessors of `State` (src/state/mod.rs).  Each one is a lookup of ONE fixed state type       *)
(* through the whole chain (only `State` has them: no ancestor form), in a fixed borrow mode, and with a fixed  *)
(* way of refusing: the readers that answer an Option say None, the others are wrappers of panicking forms.     *)
(* Those in AccGuard hand the guard out (it lives as long as the caller keeps it).                              *)
AccSh     == {"state.iterations", "state.evaluations", "state.best_individual", "state.best_objective_value",
              "state.populations", "state.log"}
AccEx     == {"state.populations_mut", "state.random_mut"}
AccForms  == AccSh \cup AccEx
AccOption == {"state.best_individual", "state.best_objective_value"}
AccPanic  == AccForms \ AccOption
AccGuard  == {"state.best_individual", "state.populations", "state.populations_mut", "state.random_mut", "state.log"}
AccType(f) == CASE f = "state.iterations" -> "Iterations"
                [] f = "state.evaluations" -> "Evaluations"
                [] f \in {"state.best_individual", "state.best_objective_value"} -> "BestIndividual"
                [] f \in {"state.populations", "state.populations_mut"} -> "Populations"
                [] f = "state.random_mut" -> "Random"
                [] f = "state.log" -> "Log"

Missing(f) == IF f \in AccOption THEN R("none", NoVal)
              ELSE IF f \in PanicForms \cup AccPanic \/ f = "take" THEN R("panic", NoVal) ELSE R("notfound", NoVal)

Insert(t, v, d) ==
    /\ res' = (IF scopes[View(d)][t] = NoVal THEN R("none", NoVal)
                                               ELSE R("some", scopes[View(d)][t]))
    /\ scopes' = SetCell(View(d), t, v)

Remove(t, d, f) ==     \* f = "remove" | "take"
    LET i == Find(t, View(d)) IN
    IF i = 0 THEN res' = Missing(f) /\ UNCHANGED scopes
    ELSE res' = R("ok", scopes[i][t]) /\ scopes' = SetCell(i, t, NoVal)

Contains(t, d) ==
    /\ res' = R("bool", IF Find(t, View(d)) # 0 THEN 1 ELSE 0)
    /\ UNCHANGED scopes

ContainsAtTop(t, d) ==
    /\ res' = R("bool", IF scopes[View(d)][t] # NoVal THEN 1 ELSE 0)
    /\ UNCHANGED scopes

Read(t, d, f) ==
    LET i == Find(t, View(d)) IN
    /\ res' = (IF i = 0 THEN Missing(f) ELSE R("ok", scopes[i][t]))
    /\ UNCHANGED scopes

Write(t, v, d, f) ==       \* exclusive guard through &self, then write v; reply = old value
    LET i == Find(t, View(d)) IN
    IF i = 0 THEN res' = Missing(f) /\ UNCHANGED scopes
    ELSE res' = R("ok", scopes[i][t]) /\ scopes' = SetCell(i, t, v)

SetValue(t, v, d) ==
    LET i == Find(t, View(d)) IN
    IF i = 0 THEN res' = R("none", NoVal) /\ UNCHANGED scopes
    ELSE res' = R("some", scopes[i][t]) /\ scopes' = SetCell(i, t, v)

GetMut(t, v, d) == SetValue(t, v, d)   \* get_mut: Option<&mut T>, then *x = v; reply old

(* entry::<T>(): resolves to the scope containing T, else the top scope of *)
(* the view.  `f` is the method chain applied to the entry.                *)
EntryForms == {"or_insert", "or_insert_with", "or_default", "and_modify", "and_modify_value",
               "and_modify_or_insert", "occ_get", "occ_get_mut", "occ_into_mut", "occ_insert",
               "occ_remove", "vac_insert"}

EntryOp(t, v, w, d, f) ==
    LET i   == Find(t, View(d))
        top == View(d) IN
    IF i # 0 THEN      \* Occupied
        LET old == scopes[i][t] IN
        CASE f \in {"or_insert", "or_insert_with", "or_default"} ->
                 \* reply: value seen through the returned guard; default closure not called
                 res' = R("occupied", old) /\ UNCHANGED scopes
          [] f \in {"and_modify", "and_modify_value"} ->
                 res' = R("occupied", old) /\ scopes' = SetCell(i, t, v)
          [] f = "and_modify_or_insert" ->
                 res' = R("occupied", v) /\ scopes' = SetCell(i, t, v)
          [] f = "occ_get" -> res' = R("occupied", old) /\ UNCHANGED scopes
          [] f \in {"occ_get_mut", "occ_into_mut", "occ_insert"} ->
                 res' = R("occupied", old) /\ scopes' = SetCell(i, t, v)
          [] f = "occ_remove" -> res' = R("occupied", old) /\ scopes' = SetCell(i, t, NoVal)
          [] f = "vac_insert" -> res' = R("occupied", NoVal) /\ UNCHANGED scopes
    ELSE               \* Vacant: entry of the top scope of the view
        CASE f \in {"or_insert", "or_insert_with"} ->
                 res' = R("vacant", v) /\ scopes' = SetCell(top, t, v)
          [] f = "or_default" -> res' = R("vacant", 0) /\ scopes' = SetCell(top, t, 0)
          [] f = "and_modify_or_insert" ->
                 res' = R("vacant", w) /\ scopes' = SetCell(top, t, w)
          [] f = "vac_insert" -> res' = R("vacant", v) /\ scopes' = SetCell(top, t, v)
          [] OTHER -> res' = R("vacant", NoVal) /\ UNCHANGED scopes

PushScope ==           \* into_child
    /\ scopes' = Append(scopes, EmptyMap)
    /\ res' = R("ok", NoVal)

PopScope ==            \* into_parent: (Option<parent>, registry made of the popped map)
    IF Len0 = 1 THEN  \* root: no parent, the same entries come back
        /\ res' = RM("noparent", NoVal, scopes[1])
        /\ UNCHANGED scopes
    ELSE
        /\ res' = RM("parent", NoVal, scopes[Len0])
        /\ scopes' = SubSeq(scopes, 1, Len0 - 1)

---------------------------------------------------------------------------
Do(a) ==
    /\ act' = a
    /\ CASE a.op = "insert"          -> Insert(a.t, a.v, a.d)
         [] a.op = "remove"          -> Remove(a.t, a.d, a.f)
         [] a.op = "contains"        -> Contains(a.t, a.d)
         [] a.op = "contains_at_top" -> ContainsAtTop(a.t, a.d)
         [] a.op = "read"            -> Read(a.t, a.d, a.f)
         [] a.op = "write"           -> Write(a.t, a.v, a.d, a.f)
         [] a.op = "set_value"       -> SetValue(a.t, a.v, a.d)
         [] a.op = "get_mut"         -> GetMut(a.t, a.v, a.d)
         [] a.op = "entry"           -> EntryOp(a.t, a.v, a.w, a.d, a.f)
         [] a.op = "push"            -> PushScope
         [] a.op = "pop"             -> PopScope

Depths == 0 .. (Len0 - 1)

Acts ==
    {A("insert", t, v, NoVal, d, "-") : t \in Type, v \in Val, d \in Depths}
    \cup {A("remove", t, NoVal, NoVal, d, f) : t \in Type, d \in Depths, f \in {"remove", "take"}}
    \cup {A("contains", t, NoVal, NoVal, d, "-") : t \in Type, d \in Depths}
    \cup {A("contains_at_top", t, NoVal, NoVal, d, "-") : t \in Type, d \in Depths}
    \cup {A("read", t, NoVal, NoVal, d, f) : t \in Type, d \in Depths, f \in ReadForms}
    \cup {A("write", t, v, NoVal, d, f) : t \in Type, v \in Val, d \in Depths, f \in WriteForms}
    \cup {A("set_value", t, v, NoVal, d, "-") : t \in Type, v \in Val, d \in Depths}
    \cup {A("get_mut", t, v, NoVal, d, "-") : t \in Type, v \in Val, d \in Depths}
    \cup {A("entry", t, v, w, d, f) : t \in Type, v \in Val, w \in Val, d \in Depths,
                                      f \in {"and_modify_or_insert"}}
    \cup {A("entry", t, v, NoVal, d, f) : t \in Type, v \in Val, d \in Depths,
                                      f \in EntryForms \ {"and_modify_or_insert", "or_default",
                                                          "occ_get", "occ_remove"}}
    \cup {A("entry", t, NoVal, NoVal, d, f) : t \in Type, d \in Depths,
                                      f \in {"or_default", "occ_get", "occ_remove"}}
    \cup {A("push", NoT, NoVal, NoVal, 0, "-")}
    \cup {A("pop", NoT, NoVal, NoVal, 0, "-")}

InitAct == A("init", NoT, NoVal, NoVal, 0, "-")

Init == /\ scopes = <<EmptyMap>>
        /\ act = InitAct
        /\ res = R("ok", NoVal)

Next == \E a \in Acts : (a.op = "push" => Len0 < MaxDepth) /\ Do(a)

Spec == Init /\ [][Next]_vars

---------------------------------------------------------------------------
(* Properties.  Stated declaratively, without Find and without the action  *)
(* bodies: the statement of C01 in terms of "a stack of type-keyed maps".  *)

TypeOK == /\ scopes \in Seq(MapT) /\ Len0 >= 1
          /\ res.k \in {"ok", "none", "some", "notfound", "panic", "bool", "occupied",
                        "vacant", "parent", "noparent"}

\* Innermost binding of t visible from the view of ancestor d (0 = none).
Bound(s, t, top) == {i \in 1..top : s[i][t] # NoVal}
Max(S) == CHOOSE x \in S : \A y \in S : y <= x
Innermost(s, t, top) == IF Bound(s, t, top) = {} THEN 0 ELSE Max(Bound(s, t, top))

Popped == act'.op = "pop" /\ Len(scopes') = Len0 - 1
Pushed == act'.op = "push"

\* A shadowed binding (one with another binding of the same type above it
\* within the caller's view) is never touched, and nothing outside the view is.
ShadowedImmutable ==
    [][ ~Popped /\ ~Pushed =>
          \A i \in 1..Len0 : \A t \in Type :
             ( i > Len0 - act'.d \/ (\E j \in (i+1)..(Len0 - act'.d) : scopes[j][t] # NoVal)
               \/ t # act'.t )
             => scopes'[i][t] = scopes[i][t] ]_vars

\* A binding appears (NoVal -> v) only in the top scope of the caller's view.
AppearsOnlyOnTop ==
    [][ ~Popped /\ ~Pushed =>
          \A i \in 1..Len0 : \A t \in Type :
             (scopes[i][t] = NoVal /\ scopes'[i][t] # NoVal) => i = Len0 - act'.d ]_vars

\* Replies are never invented: a lookup / removal / entry access replies with the value
\* of the innermost binding, or says "absent" and then changes nothing.
NeverInvented ==
    [][ act'.op \in {"remove", "read", "write", "set_value", "get_mut"} =>
          LET i == Innermost(scopes, act'.t, Len0 - act'.d) IN
          IF i = 0 THEN /\ res'.k \in {"notfound", "panic", "none"}
                        /\ res'.v = NoVal
                        /\ scopes' = scopes
          ELSE /\ res'.k \in {"ok", "some"}
               /\ res'.v = scopes[i][act'.t]
               /\ \A j \in 1..Len0 : \A t \in Type :
                     (j # i \/ t # act'.t) => scopes'[j][t] = scopes[j][t] ]_vars

\* Panics only from the explicitly panicking accessors.
PanicOnlyFromPanicking ==
    [][ res'.k = "panic" => act'.f \in PanicForms \cup {"take"} ]_vars

\* insert: goes to the top scope of the view and reports that scope's previous value.
InsertRepliesTopOld ==
    [][ act'.op = "insert" =>
          LET top == Len0 - act'.d IN
          /\ scopes'[top][act'.t] = act'.v
          /\ res' = (IF scopes[top][act'.t] = NoVal THEN R("none", NoVal)
                                                    ELSE R("some", scopes[top][act'.t])) ]_vars

\* Entry access resolves to the containing scope, else to the top scope of the view.
EntryResolves ==
    [][ act'.op = "entry" =>
          LET i == Innermost(scopes, act'.t, Len0 - act'.d) IN
          /\ res'.k = (IF i = 0 THEN "vacant" ELSE "occupied")
          /\ \A j \in 1..Len0 : \A t \in Type :
                scopes'[j][t] # scopes[j][t] =>
                   /\ t = act'.t
                   /\ j = (IF i = 0 THEN Len0 - act'.d ELSE i) ]_vars

\* Popping yields exactly the top map and re-exposes everything below unchanged;
\* pushing adds an empty scope and changes nothing else.
PopYieldsTop ==
    [][ act'.op = "pop" =>
          /\ res'.m = scopes[Len0]
          /\ IF Len0 = 1 THEN res'.k = "noparent" /\ scopes' = scopes
             ELSE res'.k = "parent" /\ scopes' = SubSeq(scopes, 1, Len0 - 1) ]_vars

PushAddsEmpty ==
    [][ act'.op = "push" => scopes' = Append(scopes, EmptyMap) ]_vars

\* contains / contains_at_top
ContainsExact ==
    [][ /\ act'.op = "contains" =>
              res'.v = (IF Innermost(scopes, act'.t, Len0 - act'.d) # 0 THEN 1 ELSE 0)
        /\ act'.op = "contains_at_top" =>
              res'.v = (IF scopes[Len0 - act'.d][act'.t] # NoVal THEN 1 ELSE 0)
        /\ act'.op \in {"contains", "contains_at_top", "read"} => scopes' = scopes ]_vars

=============================================================================
