----------------------------- MODULE MC_Logging -----------------------------
EXTENDS Logging, TLC, Json
PrintCase == PrintT(<<"CASE", ToJson([prog |-> prog, script |-> script, fault |-> fault, rules |-> rules, rootit |-> 0])>>)
=============================================================================
