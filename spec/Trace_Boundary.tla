---------------------------- MODULE Trace_Boundary ----------------------------
(* Trace validation for Boundary: every record of the ndjson file named by *)
(* the environment variable TRACE must be a step of the spec; the logged   *)
(* new top population and the logged "bit-identical" mask are the          *)
(* witnesses the action constrains, the logged stack is the new state.     *)
EXTENDS Boundary, TLC, Json, IOUtils

Rec == ndJsonDeserialize(IOEnv.TRACE)

VARIABLE l

TraceInit == /\ stack = <<>> /\ kind = "real" /\ dim = 0
             /\ act = InitAct /\ res = R("ok", <<>>) /\ l = 1

Reset == /\ Rec[l].act.op = "reset"
         /\ stack' = <<>>
         /\ kind' = Rec[l].kind
         /\ dim' = Rec[l].act.n
         /\ act' = Rec[l].act
         /\ res' = R("ok", <<>>)

Step == LET s == Rec[l].stack IN
        /\ Rec[l].act.op \in RepairOps \cup InitOps \cup {"set_pop"}
        /\ Len(s) >= 1
        /\ Do(Rec[l].act, s[Len(s)], Rec[l].res.u)
        /\ res' = Rec[l].res
        /\ stack' = s

TraceNext == /\ l <= Len(Rec)
             /\ (Reset \/ Step)
             /\ l' = l + 1

TraceSpec == TraceInit /\ [][TraceNext]_<<vars, l>>

TraceDone == PrintT(<<"TRACE_RESULT", TLCGet("stats").diameter - 1, Len(Rec)>>)
=============================================================================
