----------------------------- MODULE MC_Borrow -----------------------------
EXTENDS Borrow, TLC, Json
McView == <<scopes, guards, held>>
St  == [scopes |-> scopes, guards |-> guards, held |-> held]
StP == [scopes |-> scopes', guards |-> guards', held |-> held']
PrintEdge == PrintT(<<"EDGE", ToJson([from |-> St, act |-> act', res |-> res', to |-> StP])>>)
SmallForms == {"-", "try_borrow", "borrow_mut", "try_borrow_mut", "try_get_value", "borrow_value", "remove", "take",
               "or_insert", "and_modify_or_insert", "occ_remove", "try_get_multiple_mut", "get_multiple_mut", "tuple_try_get_mut", "tuple_distinct", "ok", "fail"}
PrintEdgeSmall == act'.f \in SmallForms /\ PrintEdge
\* ---- the universe of the types the convenience accessors of State look up.  One of them is in play at a time
\* (bound anywhere in the chain): the state space is the sum, not the product, of the per-type spaces.
InPlay == {t \in Type : \E i \in 1..Len(scopes) : scopes[i][t] # NoVal} \cup {held[j].t : j \in 1..Len(held)}
InPlayNext == {t \in Type : \E i \in 1..Len(scopes') : scopes'[i][t] # NoVal} \cup {held'[j].t : j \in 1..Len(held')}
OneTypeInPlay == Cardinality(InPlayNext) <= 1
\* what rustc lets a caller write down: the *_value forms, set_value and or_default exist only for types that deref
\* to a plain value and have a Default; a Log has no content a caller could write (its only abstract value is 0)
Opaque == {"BestIndividual", "Populations", "Random", "Log"}
ValueOnly == {"try_get_value", "get_value", "try_borrow_value", "borrow_value", "try_borrow_value_mut",
              "borrow_value_mut", "or_default", "and_modify_value"}
Writable == /\ act'.t \in Opaque => act'.f \notin ValueOnly /\ act'.op # "set_value"
            /\ act'.t = "Log" => act'.v \in {0, NoVal} /\ act'.w \in {0, NoVal}
            /\ "Log" \in Type => /\ \A i \in 1..Len(scopes') : scopes'[i]["Log"] \in {0, NoVal}
                                  /\ \A j \in 1..Len(held') : held'[j].t = "Log" => held'[j].v = 0
AccSmallForms == {"-", "try_borrow", "borrow", "try_borrow_mut", "remove", "or_insert", "occ_remove", "ok", "fail"}
                 \cup AccForms
PrintEdgeAcc == OneTypeInPlay /\ Writable /\ act'.f \in AccSmallForms /\ PrintEdge
AccOnly == OneTypeInPlay /\ Writable
TuplesNone == {}
TuplesPair == [1..2 -> Type]
TuplesQ == UNION {[1..n -> Type] : n \in 2..3}
TuplesT == UNION {[1..n -> Type] : n \in 2..4}
=============================================================================
