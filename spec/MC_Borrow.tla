----------------------------- MODULE MC_Borrow -----------------------------
EXTENDS Borrow, TLC, Json
McView == <<scopes, guards, held>>
St  == [scopes |-> scopes, guards |-> guards, held |-> held]
StP == [scopes |-> scopes', guards |-> guards', held |-> held']
PrintEdge == PrintT(<<"EDGE", ToJson([from |-> St, act |-> act', res |-> res', to |-> StP])>>)
SmallForms == {"-", "try_borrow", "borrow_mut", "try_borrow_mut", "try_get_value", "borrow_value", "remove", "take",
               "or_insert", "and_modify_or_insert", "occ_remove", "try_get_multiple_mut", "get_multiple_mut", "tuple_try_get_mut", "tuple_distinct", "ok", "fail"}
PrintEdgeSmall == act'.f \in SmallForms /\ PrintEdge
TuplesQ == UNION {[1..n -> Type] : n \in 2..3}
TuplesT == UNION {[1..n -> Type] : n \in 2..4}
=============================================================================
