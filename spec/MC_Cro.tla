------------------------------ MODULE MC_Cro ------------------------------
EXTENDS Cro, TLC, Json
McView == <<pe, ke, buffer, h>>
\* export: one line per transition that is a reaction (prepared state before, action, one admissible outcome)
PrintEdge == (act'.op \in {"init", "scoped_init", "on_wall", "decompose", "intermolecular", "synthesis"}) =>
                PrintT(<<"EDGE", ToJson([from |-> [pe |-> pe, ke |-> ke, buffer |-> buffer], act |-> act', res |-> res'])>>)
=============================================================================
