------------------------------ MODULE MC_Cro ------------------------------
EXTENDS Cro, TLC, Json
McView == <<pe, ke, sol, buffer, below, h>>
\* export: one line per (prepared state, reaction) pair -- of the transitions that differ only in how the released energy is
\* split, the one that gives the first reactant no kinetic energy stands for all (every accepted reaction has it)
OneSplit == \/ act'.op \in {"init", "scoped_init", "synthesis"}
            \/ res'.k = "rejected"
            \/ ke'[act'.i] = 0
\* (export only) prepared states within two reactions of an initial state
Shallow == TLCGet("level") <= 5
PrintEdge == (act'.op \in {"init", "scoped_init", "on_wall", "decompose", "intermolecular", "synthesis"} /\ OneSplit) =>
                PrintT(<<"EDGE", ToJson([from |-> [pe |-> pe, ke |-> ke, sol |-> sol, buffer |-> buffer, below |-> below], act |-> act', res |-> res'])>>)
=============================================================================
