----------------------------- MODULE Populations -----------------------------
(***************************************************************************)
(* mahf population stack (src/state/common.rs `Populations`) and the       *)
(* population utility components (src/components/utils/populations.rs).    *)
(* `stack[Len]` is the current (top) population.  An individual is its tag *)
(* (solution id; its objective value, where needed, is the tag itself).    *)
(* act = [op, p, n];  res = [k, p, v].                                     *)
(***************************************************************************)
EXTENDS Naturals, Sequences, FiniteSets

CONSTANTS Pops,       \* populations that can be pushed (set of sequences of tags)
          Tags,       \* tags usable by in-place edits
          MaxHeight,  \* bound on the stack height (model checking only)
          MaxPopLen   \* bound on population length (model checking only)

NoVal == 99

VARIABLES stack, act, res
vars == <<stack, act, res>>

H == Len(stack)
A(op, p, n) == [op |-> op, p |-> p, n |-> n]
R(k, p, v)  == [k |-> k, p |-> p, v |-> v]

Front(s) == SubSeq(s, 1, Len(s) - 1)
Last(s)  == s[Len(s)]
SetTop(p) == [stack EXCEPT ![H] = p]

(* rotate(n): the top population moves below the next n-1 ones; nothing deeper moves.
   Written the way the implementation does it: a right rotation by one of the top-n window. *)
RotRight(w) == IF Len(w) = 0 THEN w ELSE <<Last(w)>> \o Front(w)
Rot(s, n) == SubSeq(s, 1, Len(s) - n) \o RotRight(SubSeq(s, Len(s) - n + 1, Len(s)))

RECURSIVE Interleave(_, _)
Interleave(a, b) == IF Len(a) = 0 THEN b
                    ELSE IF Len(b) = 0 THEN a
                    ELSE <<a[1], b[1]>> \o Interleave(Tail(a), Tail(b))

RECURSIVE InsertSorted(_, _)
InsertSorted(x, s) == IF Len(s) = 0 THEN <<x>>
                      ELSE IF x <= s[1] THEN <<x>> \o s ELSE <<s[1]>> \o InsertSorted(x, Tail(s))
RECURSIVE Sort(_)
Sort(s) == IF Len(s) = 0 THEN s ELSE InsertSorted(s[1], Sort(Tail(s)))

PanicOps == {"pop", "current", "current_mut", "peek", "rotate"}

Do(a) ==
  /\ act' = a
  /\ CASE a.op = "push" -> stack' = Append(stack, a.p) /\ res' = R("ok", <<>>, NoVal)
       [] a.op \in {"pop", "try_pop"} ->
            IF H = 0 THEN res' = R(IF a.op = "pop" THEN "panic" ELSE "none", <<>>, NoVal) /\ UNCHANGED stack
            ELSE res' = R("ok", Last(stack), NoVal) /\ stack' = Front(stack)
       [] a.op \in {"current", "get_current"} ->
            /\ UNCHANGED stack
            /\ res' = IF H = 0 THEN R(IF a.op = "current" THEN "panic" ELSE "none", <<>>, NoVal)
                      ELSE R("ok", Last(stack), NoVal)
       [] a.op \in {"current_mut", "get_current_mut"} ->      \* edit in place: append tag a.n
            IF H = 0 THEN res' = R(IF a.op = "current_mut" THEN "panic" ELSE "none", <<>>, NoVal) /\ UNCHANGED stack
            ELSE res' = R("ok", Last(stack), NoVal) /\ stack' = SetTop(Append(Last(stack), a.n))
       [] a.op \in {"peek", "try_peek"} ->
            /\ UNCHANGED stack
            /\ res' = IF a.n >= H THEN R(IF a.op = "peek" THEN "panic" ELSE "none", <<>>, NoVal)
                      ELSE R("ok", stack[H - a.n], NoVal)
       [] a.op = "rotate" ->
            IF a.n > H THEN res' = R("panic", <<>>, NoVal) /\ UNCHANGED stack
            ELSE res' = R("ok", <<>>, NoVal) /\ stack' = Rot(stack, a.n)
       [] a.op = "len" -> UNCHANGED stack /\ res' = R("ok", <<>>, H)
       [] a.op = "is_empty" -> UNCHANGED stack /\ res' = R("ok", <<>>, IF H = 0 THEN 1 ELSE 0)
       \* ---- utility components executed on a State holding the stack
       [] a.op = "c_rotate" ->
            IF a.n > H THEN res' = R("err", <<>>, NoVal) /\ UNCHANGED stack
            ELSE res' = R("ok", <<>>, NoVal) /\ stack' = Rot(stack, a.n)
       [] a.op = "c_clear" -> res' = R("ok", <<>>, NoVal) /\ stack' = SetTop(<<>>)
       [] a.op = "c_duplicate" ->
            res' = R("ok", <<>>, NoVal) /\ stack' = SetTop(Interleave(Last(stack), Last(stack)))
       [] a.op = "c_interleave" ->
            /\ res' = R("ok", <<>>, NoVal)
            /\ stack' = Append(SubSeq(stack, 1, H - 2), Interleave(stack[H], stack[H - 1]))
       [] a.op = "c_split" ->
            LET s == Sort(Last(stack))
                n == Len(s)
                k == (n + 1) \div 2 IN
            /\ res' = R("ok", <<>>, NoVal)
            /\ stack' = Front(stack) \o <<SubSeq(s, k + 1, n), SubSeq(s, 1, k)>>

Huge == 1000000        \* stands for the largest depth / count the argument type admits (usize::MAX)
Acts ==
  {A("push", p, NoVal) : p \in Pops}
  \cup {A(op, <<>>, NoVal) : op \in {"pop", "try_pop", "current", "get_current", "len", "is_empty"}}
  \cup {A(op, <<>>, t) : op \in {"current_mut", "get_current_mut"}, t \in Tags}
  \cup {A(op, <<>>, d) : op \in {"peek", "try_peek"}, d \in 0..(H + 1) \cup {Huge}}
  \cup {A(op, <<>>, n) : op \in {"rotate", "c_rotate"}, n \in 1..(H + 1) \cup {Huge}}   \* n = 0 is outside the statement
  \cup (IF H >= 1 THEN {A("c_clear", <<>>, NoVal), A("c_duplicate", <<>>, NoVal)} ELSE {})
  \cup (IF H >= 2 THEN {A("c_interleave", <<>>, NoVal)} ELSE {})
  \cup (IF H >= 1 /\ Len(Last(stack)) >= 2 THEN {A("c_split", <<>>, NoVal)} ELSE {})

Bounded(s) == /\ Len(s) <= MaxHeight
              /\ \A i \in 1..Len(s) : Len(s[i]) <= MaxPopLen

Init == stack = <<>> /\ act = A("init", <<>>, NoVal) /\ res = R("ok", <<>>, NoVal)
Next == \E a \in Acts : Do(a) /\ Bounded(stack')
Spec == Init /\ [][Next]_vars

---------------------------------------------------------------------------
(* Properties — the wording of C04, independent of Do.                     *)

\* every read returns the population a plain stack holds at that depth
ReadsExact ==
  [][ /\ act'.op \in {"current", "get_current"} /\ H > 0 => res'.k = "ok" /\ res'.p = stack[H]
      /\ act'.op \in {"peek", "try_peek"} /\ act'.n < H => res'.k = "ok" /\ res'.p = stack[H - act'.n]
      /\ act'.op \in {"pop", "try_pop"} /\ H > 0 =>
            res'.k = "ok" /\ res'.p = stack[H] /\ stack' = SubSeq(stack, 1, H - 1)
      /\ act'.op = "len" => res'.v = H
      /\ act'.op = "is_empty" => res'.v = (IF H = 0 THEN 1 ELSE 0)
      /\ act'.op \in {"current", "get_current", "peek", "try_peek", "len", "is_empty"} => stack' = stack
    ]_vars

\* the non-panicking accessors report an empty / too shallow stack as None; panics only
\* from the panicking ones, and a refused call changes nothing
NonPanickingReplyNone ==
  [][ /\ res'.k = "panic" => act'.op \in PanicOps
      /\ act'.op \in {"try_pop", "get_current", "get_current_mut"} /\ H = 0 => res'.k = "none"
      /\ act'.op = "try_peek" /\ act'.n >= H => res'.k = "none"
      /\ res'.k \in {"panic", "none", "err"} => stack' = stack ]_vars

\* stack operations never touch the populations below their documented reach
Reach(a) == CASE a.op \in {"push", "current", "get_current", "peek", "try_peek", "len", "is_empty"} -> 0
              [] a.op \in {"pop", "try_pop", "current_mut", "get_current_mut", "c_clear", "c_duplicate", "c_split"} -> 1
              [] a.op \in {"rotate", "c_rotate"} -> a.n
              [] a.op = "c_interleave" -> 2
OthersUntouched ==
  [][ LET k == IF Reach(act') > H THEN H ELSE Reach(act') IN
      /\ Len(stack') >= H - k
      /\ SubSeq(stack', 1, H - k) = SubSeq(stack, 1, H - k) ]_vars

\* push adds exactly the given population on top; an in-place edit changes only the top
PushEditExact ==
  [][ /\ act'.op = "push" => stack' = Append(stack, act'.p)
      /\ act'.op \in {"current_mut", "get_current_mut"} /\ H > 0 =>
            /\ Len(stack') = H
            /\ stack'[H] = Append(stack[H], act'.n) ]_vars

\* rotate(n), 1 <= n <= height: exactly the top n populations shift by one position
\* (the documented example [.., p3, p2, p1] -> [.., p1, p3, p2] for n = 3)
RotateShiftsTopN ==
  [][ act'.op \in {"rotate", "c_rotate"} =>
        IF act'.n > H THEN res'.k = (IF act'.op = "rotate" THEN "panic" ELSE "err") /\ stack' = stack
        ELSE /\ res'.k = "ok"
             /\ Len(stack') = H
             /\ \A i \in 1..(H - act'.n) : stack'[i] = stack[i]
             /\ act'.n >= 1 => stack'[H - act'.n + 1] = stack[H]
             /\ \A i \in (H - act'.n + 2)..H : stack'[i] = stack[i - 1] ]_vars

\* n rotations of the top n restore the original order
RECURSIVE RotTimes(_, _, _)
RotTimes(s, n, k) == IF k = 0 THEN s ELSE RotTimes(Rot(s, n), n, k - 1)
RotateCycle == \A n \in 1..H : RotTimes(stack, n, n) = stack

TypeOK == /\ res.k \in {"ok", "none", "panic", "err"}
          /\ Bounded(stack)
=============================================================================
