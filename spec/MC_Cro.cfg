SPECIFICATION CSpec
CONSTANTS
  MaxE = 2
  MaxMol = 3
CONSTRAINT Bounded
INVARIANT NonNegative Aligned
PROPERTY Conserved ConsumesTwo Locality
CHECK_DEADLOCK FALSE
