SPECIFICATION CSpec
CONSTANTS
  MaxE = 2
  MaxMol = 3
  MaxSol = 2
  MaxBelow = 1
CONSTRAINT Bounded
INVARIANT NonNegative Aligned
PROPERTY Conserved ConsumesTwo Locality
CHECK_DEADLOCK FALSE
