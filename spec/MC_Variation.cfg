SPECIFICATION Spec
CONSTANTS
  MaxPerm = 4
  ExtraLens = {5}
  MaxPar = 3
  LabLens = {5}
  MaxCyc = 4
  MaxArith = 2
  ArithVals <- ArithValsDefault
  CompN = 3
  CompD = 3
INVARIANT FnTotal PermutationClosure GeneConservation ArithConvex SwapMovesChosen TranslocateShape TwinSwap TwinTranslocate MultiPointTailSwaps CycleWhole
INVARIANT RelAccepts RelRejects CompNoFailure CompPermutationClosure CompDimensionKept CompRateZero CompRateZeroReal CompOffspringCount CompDEFormat CompGenesFromParents CompDEGenes CompStackKept
ACTION_CONSTRAINT PrintCase
CHECK_DEADLOCK FALSE
