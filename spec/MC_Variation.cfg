SPECIFICATION Spec
CONSTANTS
  MaxPerm = 4
  ExtraLens = {5}
  MaxPar = 3
  LabLens = {5}
  MaxCyc = 4
  MaxArith = 2
  ArithVals <- ArithValsDefault
  MaxArithX = 1
  ArithXVals = {1, 2, 3, 4, 5, 6, 7, 8, 9, 10, 11, 12, 13, 14, 15, 16, 17, 18, 19, 20, 21}
  CompN = 3
  CompD = 3
INVARIANT FnTotal PermutationClosure GeneConservation ArithConvex SwapMovesChosen TranslocateShape TwinSwap TwinTranslocate MultiPointTailSwaps CycleWhole ArithXConvex ArithXEnds ArithXAccepts ArithXRejects MultiPointUAccepts MultiPointUTwin MultiPointURejects
INVARIANT RelAccepts RelRejects ArithRejects CompNoFailure CompPermutationClosure CompDimensionKept CompRateZero CompRateZeroReal CompOffspringCount CompDEFormat CompGenesFromParents CompDEGenes CompStackKept CompOwnParameters CompInvalidRejected CompStrengthBound CompCtorVariant CompGenesConserved
ACTION_CONSTRAINT PrintCase
CHECK_DEADLOCK FALSE
