SPECIFICATION BSpec
CONSTANTS
  Type = {"T1", "T2"}
  Val = {0, 1}
  MaxDepth = 2
  MaxG = 2
  MaxHold = 2
  Tuples <- TuplesQ
VIEW McView
INVARIANT BTypeOK ReadersXorWriter GuardsOnBoundCells
PROPERTY GrantDependsOnlyOnCell ConflictsAreErrors SetValueRespectsGuards GuardSlotsStable WriteVisible ReadViaExact MultiBorrowSound HoldRoundTrip
CHECK_DEADLOCK FALSE
