SPECIFICATION Spec
CONSTANTS
  D = 1
  F = 4
  MaxN = 2
  AllMasks = TRUE
  Lattice <- McLattice
  InitPops <- McInitPops
  Cands <- McCands
VIEW McView
INVARIANT TypeOK
PROPERTY Terminates Inside InsideUntouched Idempotent ExactOnLattice InitExact
CHECK_DEADLOCK FALSE
