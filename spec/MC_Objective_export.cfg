SPECIFICATION Spec
CONSTANTS
  M = 1
  B = 2
  MaxList = 2
  VecDom = {0, 1, 1000000}
  MaxVec = 3
  SciIn = {}
  SciNeg = {}
VIEW McView
ACTION_CONSTRAINT PrintEdge
CHECK_DEADLOCK FALSE
