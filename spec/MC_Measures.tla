---------------------------- MODULE MC_Measures ----------------------------
EXTENDS Measures, Json
McView == <<part, d, pop, raw, max, best, prev, swi, mp>>
Bounded == swi <= 3
\* the export for the transition tour keeps two-dimensional populations at two individuals (three: random histories)
ExportBound == swi <= 3 /\ (d = 2 => Len(pop) <= 2)
PrintEdge == PrintT(<<"EDGE", ToJson([from |-> [part |-> part, d |-> d, pop |-> pop, raw |-> raw, max |-> max,
                                               best |-> best, prev |-> prev, swi |-> swi, mp |-> mp],
                                      act |-> act', res |-> res',
                                      to |-> [part |-> part', d |-> d', pop |-> pop', raw |-> raw', max |-> max',
                                             best |-> best', prev |-> prev', swi |-> swi', mp |-> mp']])>>)
=============================================================================
