--------------------------- MODULE MC_Conditions ---------------------------
(* Model-checking wrapper: VIEW hiding the observation variables, export of *)
(* every transition of the bounded model as one JSON line.                  *)
EXTENDS Conditions, TLC, Json

St == [obs |-> obs, prev |-> prev, progress |-> progress, rcN |-> rcN, rcK |-> rcK]
McView == state

PrintEdge == PrintT(<<"EDGE", ToJson([from |-> St, act |-> act', res |-> res', to |-> St'])>>)
=============================================================================
