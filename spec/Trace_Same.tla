----------------------------- MODULE Trace_Same -----------------------------
(***************************************************************************)
(* C08: same seed, same run.  A group = one reference run (sequential      *)
(* evaluator) followed by variants of the same configuration and seed      *)
(* (parallel evaluator under several pool sizes with perturbed timing, a   *)
(* cloned configuration, a repeated run, other ways of supplying the       *)
(* generator, objects and threads that solved other instances before).     *)
(* Every variant must produce,                                             *)
(* step by step, the digests of the reference run (projected stack, best,  *)
(* counters; finally the decoded log): each variant refines the reference. *)
(* Also: child generators are a function of the seed, different seeds give *)
(* different streams, a user-supplied generator is never replaced, and the *)
(* batch experiment runner's per-run logs do not depend on the pool size.  *)
(***************************************************************************)
EXTENDS Naturals, Sequences, TLC, Json, IOUtils
Rec == ndJsonDeserialize(IOEnv.TRACE)
VARIABLES l, ref, pos, mode, kids, exps, classes
svars == <<l, ref, pos, mode, kids, exps, classes>>

\* "The same configuration on the same problem with the same seed": the reference is a stand-alone run (a fresh
\* configuration object on a fresh thread, sequential evaluator, generator inserted).  What may differ between two such
\* runs without being part of the configuration / problem / seed, one class of variant each -- every group has to show all:
Required == { "again",          \* the same once more
              "clone",          \* a cloned configuration object
              "par",            \* parallel evaluator under several pool sizes, perturbed completion order
              "supply-entry",   \* the generator supplied through the entry API (or_insert / or_insert_with)
              "supply-guarded", \* ... through `if !contains { insert }`
              "one-thread",     \* the same object solved another instance (bigger / smaller / other) before, on this thread
              "used",           \* ... on another thread
              "used-clone",     \* a clone of such a used object
              "thread" }        \* this thread ran another object on another instance before

TraceInit == l = 1 /\ ref = <<>> /\ pos = 0 /\ mode = "idle" /\ kids = <<>> /\ exps = <<>> /\ classes = {}

RefStart == /\ Rec[l].ev = "ref_start" /\ mode = "idle" /\ ref' = <<>> /\ pos' = 0 /\ mode' = "ref" /\ classes' = {}
            /\ UNCHANGED <<kids, exps>>
RefStep  == Rec[l].ev = "d" /\ mode = "ref" /\ ref' = Append(ref, Rec[l].digest) /\ UNCHANGED <<pos, mode, kids, exps, classes>>
RefEnd   == /\ Rec[l].ev = "ref_end" /\ mode = "ref" /\ Rec[l].result = "ok"
            /\ Rec[l].seed_kept = 1
            /\ mode' = "idle" /\ UNCHANGED <<ref, pos, kids, exps, classes>>
VarStart == /\ Rec[l].ev = "var_start" /\ mode = "idle" /\ pos' = 0 /\ mode' = "var"
            /\ classes' = classes \cup {Rec[l].class} /\ UNCHANGED <<ref, kids, exps>>
VarStep  == /\ Rec[l].ev = "d" /\ mode = "var"
            /\ pos < Len(ref) /\ Rec[l].digest = ref[pos + 1]        \* identical, step by step
            /\ pos' = pos + 1 /\ UNCHANGED <<ref, mode, kids, exps, classes>>
VarEnd   == /\ Rec[l].ev = "var_end" /\ mode = "var" /\ pos = Len(ref) /\ Rec[l].result = "ok"
            /\ Rec[l].seed_kept = 1                                   \* the supplied generator is still in place
            /\ mode' = "idle" /\ UNCHANGED <<ref, pos, kids, exps, classes>>
\* a group is complete: every class of variant was shown to refine the reference
GroupEnd == /\ Rec[l].ev = "group_end" /\ mode = "idle" /\ Required \subseteq classes
            /\ UNCHANGED <<ref, pos, mode, kids, exps, classes>>
\* child generators: same seed => same children, different seeds => different streams
Children == /\ Rec[l].ev = "children" /\ mode = "idle"
            /\ \A j \in 1..Len(kids) : (kids[j].seed = Rec[l].seed) <=> (kids[j].kids = Rec[l].kids)
            /\ Rec[l].first_draw_same = 1          \* no draw is made before the first component runs, whichever way
                                                   \* the generator was supplied (Rec[l].supply)
            /\ kids' = Append(kids, [seed |-> Rec[l].seed, kids |-> Rec[l].kids]) /\ UNCHANGED <<ref, pos, mode, exps, classes>>
\* experiment runner: the log of run r on problem p (key) is the log of the stand-alone run (pool 0: a fresh configuration
\* object on a fresh thread, seeded with the run number) -- whatever the pool size, the completion order, the other
\* problems of the batch and the jobs a worker thread ran before
Exp == /\ Rec[l].ev = "exp" /\ mode = "idle" /\ Rec[l].ok = 1
       /\ \A j \in 1..Len(exps) : (exps[j].key = Rec[l].key /\ exps[j].rn = Rec[l].rn) => exps[j].digest = Rec[l].digest
       /\ exps' = Append(exps, [key |-> Rec[l].key, rn |-> Rec[l].rn, digest |-> Rec[l].digest])
       /\ UNCHANGED <<ref, pos, mode, kids, classes>>
TraceNext == l <= Len(Rec) /\ (RefStart \/ RefStep \/ RefEnd \/ VarStart \/ VarStep \/ VarEnd \/ GroupEnd \/ Children \/ Exp) /\ l' = l + 1
TraceSpec == TraceInit /\ [][TraceNext]_svars
TraceDone == PrintT(<<"TRACE_RESULT", TLCGet("stats").diameter - 1, Len(Rec)>>)
=============================================================================
