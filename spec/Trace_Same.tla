----------------------------- MODULE Trace_Same -----------------------------
(***************************************************************************)
(* C08: same seed, same run.  A group = one reference run (sequential      *)
(* evaluator) followed by variants of the same configuration and seed      *)
(* (parallel evaluator under several pool sizes with perturbed timing, a   *)
(* cloned configuration, a repeated run).  Every variant must produce,     *)
(* step by step, the digests of the reference run (projected stack, best,  *)
(* counters; finally the decoded log): each variant refines the reference. *)
(* Also: child generators are a function of the seed, different seeds give *)
(* different streams, a user-supplied generator is never replaced, and the *)
(* batch experiment runner's per-run logs do not depend on the pool size.  *)
(***************************************************************************)
EXTENDS Naturals, Sequences, TLC, Json, IOUtils
Rec == ndJsonDeserialize(IOEnv.TRACE)
VARIABLES l, ref, pos, mode, kids, exps
svars == <<l, ref, pos, mode, kids, exps>>

TraceInit == l = 1 /\ ref = <<>> /\ pos = 0 /\ mode = "idle" /\ kids = <<>> /\ exps = <<>>

RefStart == Rec[l].ev = "ref_start" /\ mode = "idle" /\ ref' = <<>> /\ pos' = 0 /\ mode' = "ref" /\ UNCHANGED <<kids, exps>>
RefStep  == Rec[l].ev = "d" /\ mode = "ref" /\ ref' = Append(ref, Rec[l].digest) /\ UNCHANGED <<pos, mode, kids, exps>>
RefEnd   == Rec[l].ev = "ref_end" /\ mode = "ref" /\ Rec[l].result = "ok" /\ mode' = "idle" /\ UNCHANGED <<ref, pos, kids, exps>>
VarStart == Rec[l].ev = "var_start" /\ mode = "idle" /\ pos' = 0 /\ mode' = "var" /\ UNCHANGED <<ref, kids, exps>>
VarStep  == /\ Rec[l].ev = "d" /\ mode = "var"
            /\ pos < Len(ref) /\ Rec[l].digest = ref[pos + 1]        \* identical, step by step
            /\ pos' = pos + 1 /\ UNCHANGED <<ref, mode, kids, exps>>
VarEnd   == /\ Rec[l].ev = "var_end" /\ mode = "var" /\ pos = Len(ref) /\ Rec[l].result = "ok"
            /\ Rec[l].seed_kept = 1                                   \* the supplied generator is still in place
            /\ mode' = "idle" /\ UNCHANGED <<ref, pos, kids, exps>>
\* child generators: same seed => same children, different seeds => different streams
Children == /\ Rec[l].ev = "children" /\ mode = "idle"
            /\ \A j \in 1..Len(kids) : (kids[j].seed = Rec[l].seed) <=> (kids[j].kids = Rec[l].kids)
            /\ Rec[l].first_draw_same = 1          \* no draw is made before the first component runs
            /\ kids' = Append(kids, [seed |-> Rec[l].seed, kids |-> Rec[l].kids]) /\ UNCHANGED <<ref, pos, mode, exps>>
\* experiment runner: the log of run r does not depend on the pool size (nor on completion order)
Exp == /\ Rec[l].ev = "exp" /\ mode = "idle" /\ Rec[l].ok = 1
       /\ \A j \in 1..Len(exps) : (exps[j].key = Rec[l].key /\ exps[j].rn = Rec[l].rn) => exps[j].digest = Rec[l].digest
       /\ exps' = Append(exps, [key |-> Rec[l].key, rn |-> Rec[l].rn, digest |-> Rec[l].digest])
       /\ UNCHANGED <<ref, pos, mode, kids>>
TraceNext == l <= Len(Rec) /\ (RefStart \/ RefStep \/ RefEnd \/ VarStart \/ VarStep \/ VarEnd \/ Children \/ Exp) /\ l' = l + 1
TraceSpec == TraceInit /\ [][TraceNext]_svars
TraceDone == PrintT(<<"TRACE_RESULT", TLCGet("stats").diameter - 1, Len(Rec)>>)
=============================================================================
