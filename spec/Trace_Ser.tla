----------------------------- MODULE Trace_Ser -----------------------------
(* C15, configuration export: every configuration can be serialised (to_ron), a clone serialises        *)
(* identically, and two configurations serialise identically iff they are the same configuration:      *)
(*  - shipped templates over the parameter grid (and every parameter of every template perturbed on    *)
(*    its own), conditions over every parameter in every place a condition can stand, identifier- and  *)
(*    logic-only differences: key = interned (template, parameters, n), given by the harness;          *)
(*  - configurations assembled through every entry point of the builder API from a BUILDER TERM        *)
(*    (t = "struct"): the key is the structure Str(term) that the documented meaning of the entry      *)
(*    points gives the term -- `build` / `build_component` / `Block::new` make a block of the items    *)
(*    (of none, one or several alike), `while_` / `if_` / `if_else_` / `scope_` and the constructors   *)
(*    taking a list make the body a block, the constructors taking ONE component make that component   *)
(*    the body, `do_many_` splices, `do_if_some_(None)` adds nothing, `Configuration::new` / `from` /  *)
(*    `into_inner` wrap nothing, `into_builder` starts a builder holding the old root.                 *)
(* ser = interned text of the RON export.                                                              *)
EXTENDS Naturals, Sequences, TLC, Json, IOUtils
Rec == ndJsonDeserialize(IOEnv.TRACE)
VARIABLES l, seen

RECURSIVE Str(_), Item(_), Items(_, _)
Items(a, i) == IF i > Len(a) THEN "" ELSE Item(a[i]) \o Items(a, i + 1)
Item(t) == CASE t.op = "many" -> Items(t.a, 1)                 \* spliced into the enclosing list
              [] t.op = "none" -> ""
              [] OTHER -> Str(t) \o ","
Str(t) == CASE t.op = "leaf" -> t.v
            [] t.op \in {"build", "bc", "blocknew"} -> "[" \o Items(t.a, 1) \o "]"
            [] t.op \in {"while", "loopvec"} -> "W[" \o Items(t.a, 1) \o "]"
            [] t.op = "loopbox" -> "W" \o Str(t.a[1])
            [] t.op \in {"if", "branchvec"} -> "I[" \o Items(t.a, 1) \o "]"
            [] t.op = "branchbox" -> "I" \o Str(t.a[1])
            [] t.op \in {"ifelse", "branchelsevec"} -> "E[" \o Items(t.a, 1) \o "]|[" \o Items(t.e, 1) \o "]"
            [] t.op = "branchelsebox" -> "E" \o Str(t.a[1]) \o "|" \o Str(t.e[1])
            [] t.op \in {"scope", "scopevec"} -> "S[" \o Items(t.a, 1) \o "]"
            [] t.op = "scopebox" -> "S" \o Str(t.a[1])
            [] t.op \in {"some", "confnew", "from", "reinner"} -> Str(t.a[1])
            [] t.op = "rebuild" -> "[" \o Str(t.a[1]) \o ",]"

KeyOf(r) == IF r.t = "struct" THEN "s" \o Str(r.term) ELSE "k" \o ToString(r.key)

SerStep == LET k == KeyOf(Rec[l]) IN
           /\ Rec[l].ron_ok = 1
           /\ Rec[l].clone_same = 1
           /\ \A j \in 1..Len(seen) : (seen[j].k = k) <=> (seen[j].ser = Rec[l].ser)
           /\ seen' = Append(seen, [k |-> k, ser |-> Rec[l].ser])
TraceInit == l = 1 /\ seen = <<>>
TraceNext == l <= Len(Rec) /\ SerStep /\ l' = l + 1
TraceSpec == TraceInit /\ [][TraceNext]_<<l, seen>>
TraceDone == PrintT(<<"TRACE_RESULT", TLCGet("stats").diameter - 1, Len(Rec)>>)
=============================================================================
