----------------------------- MODULE Trace_Ser -----------------------------
(* C15, configuration export of the shipped templates over the parameter grid: every configuration    *)
(* can be serialised (to_ron), a clone serialises identically, and two configurations serialise        *)
(* identically iff they are the same template with the same parameter values (key = interned           *)
(* (template, parameters, n); ser = interned serialisation).                                            *)
EXTENDS Naturals, Sequences, TLC, Json, IOUtils
Rec == ndJsonDeserialize(IOEnv.TRACE)
VARIABLE l
SerStep == /\ Rec[l].ron_ok = 1
           /\ Rec[l].clone_same = 1
           /\ \A j \in 1..(l - 1) : (Rec[j].key = Rec[l].key) <=> (Rec[j].ser = Rec[l].ser)
TraceInit == l = 1
TraceNext == l <= Len(Rec) /\ SerStep /\ l' = l + 1
TraceSpec == TraceInit /\ [][TraceNext]_l
TraceDone == PrintT(<<"TRACE_RESULT", TLCGet("stats").diameter - 1, Len(Rec)>>)
=============================================================================
