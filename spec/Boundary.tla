------------------------------ MODULE Boundary ------------------------------
(***************************************************************************)
(* mahf initialisation and boundary-repair components                      *)
(* (src/components/initialization/*, src/components/boundary.rs) executed  *)
(* through `Component::execute` on a `State` with a population stack.      *)
(*                                                                         *)
(* stack : Seq of populations (bottom first); population = Seq of          *)
(*         individuals [ev |-> 0/1 evaluated, x |-> Seq of coordinates];   *)
(*         coordinate = [c, k] (see BoundaryOps).                          *)
(* kind  : problem type of the run: "real" | "perm" | "bits"               *)
(* dim   : problem dimension                                               *)
(* act = [op, n, p]   res = [k, u]    (one shape each)                     *)
(*   u = for a repair: per individual, per coordinate 1 iff the float is   *)
(*       bit-identical to what it was before the call (P-pred)             *)
(*                                                                         *)
(* Results that are not functions of the abstract state (resampling, wrap  *)
(* on non-lattice points, random initialisation) are bound through a       *)
(* witness: Do(a, w), w = the new top population, which the action         *)
(* constrains.  The spec states the IDEAL: every repair terminates.        *)
(***************************************************************************)
EXTENDS BoundaryOps

CONSTANTS D,         \* model: problem dimension
          Lattice,   \* model: lattice indices a coordinate of a prepared population can have
          InitPops,  \* model: populations installed by set_pop
          Cands,     \* model: result coordinates tried for the non-functional repairs
          MaxN,      \* model: largest initial population size
          AllMasks   \* model: TRUE = try every bit-identity mask, FALSE = only the natural one

VARIABLES stack, kind, dim, act, res
vars == <<stack, kind, dim, act, res>>

A(op, n, p) == [op |-> op, n |-> n, p |-> p]
R(k, u)     == [k |-> k, u |-> u]
Ind(ev, x)  == [ev |-> ev, x |-> x]

RepairOps == {"saturation", "toroidal", "mirror", "cotnc"}
InitOps   == {"empty", "random_spread", "random_permutation", "random_bitstring"}

Top == stack[Len(stack)]

---------------------------------------------------------------------------
(* One coordinate under one repair operator: cin before, cout after.       *)
RepairedOK(op, cin, cout) ==
    IF IsInside(cin) THEN cout = cin
    ELSE /\ cin.c \in OutsideC                       \* solutions are finite
         /\ CASE op = "saturation" -> cout = (IF cin.c \in BelowC THEN LatC(0) ELSE LatC(8))
              [] op = "mirror"     -> IF cin.k # NoK THEN cout = LatC(MirrorK(cin.k))
                                      ELSE cout.c \in InsideC /\ WellFormed(cout)
              [] op = "toroidal"   -> cout.c \in InsideC \cup RoundC /\ WellFormed(cout)
              [] op = "cotnc"      -> cout.c \in InsideC /\ WellFormed(cout)

Repair(op, w, u) ==
    /\ kind = "real" /\ Len(stack) >= 1
    /\ Len(w) = Len(Top) /\ Len(u) = Len(Top)
    /\ \A i \in DOMAIN Top :
          /\ w[i].ev = 0           \* the driver hands out &mut to every solution: all unevaluated afterwards
          /\ Len(w[i].x) = Len(Top[i].x) /\ Len(u[i]) = Len(Top[i].x)
          /\ \A j \in DOMAIN Top[i].x :
                /\ RepairedOK(op, Top[i].x[j], w[i].x[j])
                /\ u[i][j] \in {0, 1}
                /\ IsInside(Top[i].x[j]) => u[i][j] = 1
    /\ stack' = [stack EXCEPT ![Len(stack)] = w]
    /\ res' = R("ok", u)

IsPerm(x) == Len(x) = dim /\ {x[j].k : j \in DOMAIN x} = 0..(dim - 1) /\ \A j \in DOMAIN x : x[j].c = "int"
IsBits(x) == Len(x) = dim /\ \A j \in DOMAIN x : x[j].c = "int" /\ x[j].k \in {0, 1}
IsSpread(x) == Len(x) = dim /\ \A j \in DOMAIN x : x[j].c \in InsideC /\ WellFormed(x[j])

InitPop(op, n, w) ==
    /\ CASE op = "empty"              -> w = <<>>
         [] op = "random_spread"      -> kind = "real" /\ Len(w) = n /\ \A i \in DOMAIN w : IsSpread(w[i].x)
         [] op = "random_permutation" -> kind = "perm" /\ Len(w) = n /\ \A i \in DOMAIN w : IsPerm(w[i].x)
         [] op = "random_bitstring"   -> kind = "bits" /\ Len(w) = n /\ \A i \in DOMAIN w : IsBits(w[i].x)
    /\ \A i \in DOMAIN w : w[i].ev = 0
    /\ stack' = Append(stack, w)
    /\ res' = R("ok", <<>>)

\* the harness installs a prepared population of real-valued solutions, evaluated or not
SetPop(p) ==
    /\ kind = "real"
    /\ \A i \in DOMAIN p : p[i].ev \in {0, 1} /\ Len(p[i].x) = dim
                           /\ \A j \in DOMAIN p[i].x : WellFormed(p[i].x[j]) /\ p[i].x[j].c \in InsideC \cup OutsideC
    /\ stack' = Append(stack, p)
    /\ res' = R("ok", <<>>)

Do(a, w, u) ==
    /\ act' = a
    /\ UNCHANGED <<kind, dim>>
    /\ CASE a.op \in RepairOps -> Repair(a.op, w, u)
         [] a.op \in InitOps   -> InitPop(a.op, a.n, w)
         [] a.op = "set_pop"   -> SetPop(a.p)

---------------------------------------------------------------------------
(* The bounded model.                                                      *)
AllInside(p) == \A i \in DOMAIN p : \A j \in DOMAIN p[i].x : IsInside(p[i].x[j])
ZeroU(p) == [i \in DOMAIN p |-> [j \in DOMAIN p[i].x |-> 0]]

\* The model enumerates witnesses from a UNIVERSE of candidate results and lets the action
\* bodies (RepairedOK, InitPop) select: nothing about the expected result is repeated here.
\* Functional repairs choose among all lattice coordinates and Cands, the others among Cands.
LatCoords == {LatC(k) : k \in Lattice}
Functional(op, cin) == IsInside(cin) \/ op = "saturation" \/ (op = "mirror" /\ cin.k # NoK)
CoordOut(op, cin) ==
    {c \in (IF Functional(op, cin) THEN LatCoords \cup Cands ELSE Cands) : RepairedOK(op, cin, c)}
RECURSIVE CoordResults(_, _)
CoordResults(op, xs) ==
    IF xs = <<>> THEN {<<>>}
    ELSE {<<c>> \o rest : c \in CoordOut(op, Head(xs)), rest \in CoordResults(op, Tail(xs))}
RECURSIVE PopResults(_, _)
PopResults(op, p) ==
    IF p = <<>> THEN {<<>>}
    ELSE {<<Ind(ev, x)>> \o rest : ev \in {0, 1}, x \in CoordResults(op, Head(p).x), rest \in PopResults(op, Tail(p))}

UOf(old, new) == [i \in DOMAIN old |-> [j \in DOMAIN old[i].x |->
                     IF new[i].x[j] = old[i].x[j] THEN 1 ELSE 0]]

SeqsOf(S, n) == [1..n -> S]
MaskWits(old, new) ==
    IF AllMasks THEN {u \in SeqsOf(UNION {SeqsOf({0, 1}, d) : d \in 0..D}, Len(old)) :
                         \A i \in DOMAIN old : Len(u[i]) = Len(old[i].x)}
    ELSE {UOf(old, new)}
SeqsUpTo(S, n) == UNION {SeqsOf(S, m) : m \in 0..n}
\* candidate populations an initialisation might push: any size up to MaxN + 1, evaluated or not,
\* coordinates inside or outside, genes in or out of range
InitWits(op) ==
    CASE op = "empty"              -> {<<>>} \cup {<<Ind(0, x)>> : x \in SeqsOf(Cands, D)}
      [] op = "random_spread"      -> SeqsUpTo({Ind(ev, x) : ev \in {0, 1}, x \in SeqsOf(Cands, D)}, MaxN + 1)
      [] op = "random_permutation" -> SeqsUpTo({Ind(0, x) : x \in SeqsOf({G(v) : v \in 0..D}, D)}, MaxN + 1)
      [] op = "random_bitstring"   -> SeqsUpTo({Ind(0, x) : x \in SeqsOf({G(0), G(1), G(2)}, D)}, MaxN + 1)

InitAct == A("init", NoN, <<>>)

Init == /\ stack = <<>>
        /\ kind \in {"real", "perm", "bits"}
        /\ dim = D
        /\ act = InitAct
        /\ res = R("ok", <<>>)

\* prepared populations are installed on the empty stack only (every run starts with one);
\* repairs then follow each other in any order, so op-after-op (idempotence) is explored
Next ==
    \/ \E p \in InitPops : stack = <<>> /\ Do(A("set_pop", NoN, p), p, <<>>)
    \/ \E op \in RepairOps : Len(stack) >= 1 /\ kind = "real" /\
          \E w \in PopResults(op, Top) : \E u \in MaskWits(Top, w) : Do(A(op, NoN, <<>>), w, u)
    \/ \E op \in InitOps, n \in 0..MaxN :
          /\ Len(stack) < 2 /\ (Len(stack) = 1 => (Len(Top) <= 1 /\ AllInside(Top)))
          /\ op = "empty" => n = 0
          /\ op = "random_spread" => kind = "real"
          /\ op = "random_permutation" => kind = "perm"
          /\ op = "random_bitstring" => kind = "bits"
          /\ \E w \in InitWits(op) : Do(A(op, IF op = "empty" THEN NoN ELSE n, <<>>), w, <<>>)

Spec == Init /\ [][Next]_vars

---------------------------------------------------------------------------
(* Properties of C14, stated without reference to the action bodies.       *)
IsRepair(a) == a.op \in RepairOps
IsInit(a)   == a.op \in InitOps
Top1 == stack'[Len(stack')]

TypeOK == /\ kind \in {"real", "perm", "bits"}
          /\ res.k \in {"ok", "timeout", "panic", "err"}
          /\ \A s \in DOMAIN stack : \A i \in DOMAIN stack[s] : stack[s][i].ev \in {0, 1}

\* every boundary-repair operator terminates (normally)
Terminates == [][ IsRepair(act') => res'.k = "ok" ]_vars

\* ... returns solutions whose every coordinate lies within the domain bounds (up to rounding
\* of the bound arithmetic: only for the wrap, which computes lo + frac * w)
Inside ==
    [][ IsRepair(act') =>
          \A i \in DOMAIN Top1 : \A j \in DOMAIN Top1[i].x :
             \/ Top1[i].x[j].c \in InsideC
             \/ act'.op = "toroidal" /\ Top1[i].x[j].c \in RoundC ]_vars

\* ... changes no coordinate that already was inside (bit-identical), keeps the shape of the
\* population and the rest of the stack (every repaired individual is unevaluated afterwards, whether
\* or not it was evaluated before: the repair has had mutable access to its solution)
InsideUntouched ==
    [][ IsRepair(act') =>
          /\ Len(stack') = Len(stack) /\ Len(Top1) = Len(Top)
          /\ \A s \in 1..(Len(stack) - 1) : stack'[s] = stack[s]
          /\ \A i \in DOMAIN Top :
                /\ Top1[i].ev = 0 /\ Len(Top1[i].x) = Len(Top[i].x)
                /\ \A j \in DOMAIN Top[i].x :
                      IsInside(Top[i].x[j]) => (Top1[i].x[j] = Top[i].x[j] /\ res'.u[i][j] = 1) ]_vars

\* ... and is therefore idempotent: repairing a repaired population changes nothing
Idempotent == [][ (IsRepair(act') /\ AllInside(Top)) =>
                     /\ Len(Top1) = Len(Top) /\ \A i \in DOMAIN Top : Top1[i].x = Top[i].x ]_vars

\* saturation and mirror are the functions their names say (lattice points)
ExactOnLattice ==
    [][ act'.op \in {"saturation", "mirror"} =>
          \A i \in DOMAIN Top : \A j \in DOMAIN Top[i].x :
             Top[i].x[j].k # NoK =>
                Top1[i].x[j] = LatC(IF act'.op = "mirror" THEN MirrorK(Top[i].x[j].k) ELSE SatK(Top[i].x[j].k))
      ]_vars

\* initialisation: exactly n unevaluated individuals of the problem's dimension are pushed,
\* real coordinates inside their bounds, permutations are permutations of all positions
InitExact ==
    [][ IsInit(act') =>
          /\ res'.k = "ok"
          /\ Len(stack') = Len(stack) + 1
          /\ \A s \in DOMAIN stack : stack'[s] = stack[s]
          /\ Len(Top1) = (IF act'.op = "empty" THEN 0 ELSE act'.n)
          /\ \A i \in DOMAIN Top1 :
                /\ Top1[i].ev = 0
                /\ Len(Top1[i].x) = dim
                /\ act'.op = "random_spread" =>
                      \A j \in DOMAIN Top1[i].x : Top1[i].x[j].c \in InsideC
                /\ act'.op = "random_permutation" =>
                      /\ \A v \in 0..(dim - 1) : \E j \in DOMAIN Top1[i].x : Top1[i].x[j].k = v
                      /\ \A j \in DOMAIN Top1[i].x : Top1[i].x[j].k \in 0..(dim - 1)
                /\ act'.op = "random_bitstring" =>
                      \A j \in DOMAIN Top1[i].x : Top1[i].x[j].k \in {0, 1} ]_vars
=============================================================================
