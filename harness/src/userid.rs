//! User-defined identifiers whose short names collide with shipped ones (C15: the serialisation of a
//! configuration tells identifier type parameters apart).
use serde::Serialize;

#[derive(Default, Copy, Clone, Serialize)]
pub struct A;

#[derive(Default, Copy, Clone, Serialize)]
pub struct Global;

pub mod nested {
    use serde::Serialize;

    #[derive(Default, Copy, Clone, Serialize)]
    pub struct A;
}
