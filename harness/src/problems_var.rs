//! Harness-side problem types for the variation operators (C13): a real vector problem with a
//! box domain, a bit-string problem and a permutation problem.  They only carry the dimension
//! (and the domain); the variation components never evaluate.
use std::ops::Range;

use mahf::{
    problems::{LimitedVectorProblem, VectorProblem},
    Problem, SingleObjective,
};

/// Real vectors of dimension `dim` with the same half-open domain `[lo, hi)` in every coordinate.
pub struct RealVar {
    pub dim: usize,
    pub lo: f64,
    pub hi: f64,
}

impl Problem for RealVar {
    type Encoding = Vec<f64>;
    type Objective = SingleObjective;
    fn name(&self) -> &str {
        "RealVar"
    }
}

impl VectorProblem for RealVar {
    type Element = f64;
    fn dimension(&self) -> usize {
        self.dim
    }
}

impl LimitedVectorProblem for RealVar {
    fn domain(&self) -> Vec<Range<f64>> {
        vec![self.lo..self.hi; self.dim]
    }
}

/// Bit strings of length `dim`.
pub struct BitsVar {
    pub dim: usize,
}

impl Problem for BitsVar {
    type Encoding = Vec<bool>;
    type Objective = SingleObjective;
    fn name(&self) -> &str {
        "BitsVar"
    }
}

impl VectorProblem for BitsVar {
    type Element = bool;
    fn dimension(&self) -> usize {
        self.dim
    }
}

/// Vectors of `usize` of length `dim` (permutations, or position-labelled genes).
pub struct PermVar {
    pub dim: usize,
}

impl Problem for PermVar {
    type Encoding = Vec<usize>;
    type Objective = SingleObjective;
    fn name(&self) -> &str {
        "PermVar"
    }
}

impl VectorProblem for PermVar {
    type Element = usize;
    fn dimension(&self) -> usize {
        self.dim
    }
}
