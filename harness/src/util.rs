//! Shared helpers: CLI arguments, ndjson I/O, panic capture, seeded RNG.
use std::{
    collections::HashMap,
    fs::File,
    io::{BufRead, BufReader, BufWriter, Write},
    panic::{catch_unwind, AssertUnwindSafe},
};

use rand::SeedableRng;
use rand_chacha::ChaCha8Rng;
use serde_json::Value;

/// Integer standing for "absent" in every trace field (never JSON null, one shape per field).
pub const NOVAL: i64 = 99;

pub struct Args {
    pub driver: String,
    pub mode: String,
    opts: HashMap<String, String>,
}

impl Args {
    pub fn parse() -> Self {
        let mut it = std::env::args().skip(1);
        let driver = it.next().unwrap_or_else(|| usage());
        let mode = it.next().unwrap_or_else(|| usage());
        let mut opts = HashMap::new();
        while let Some(k) = it.next() {
            let k = k.trim_start_matches("--").to_string();
            let v = it.next().unwrap_or_else(|| usage());
            opts.insert(k, v);
        }
        Self { driver, mode, opts }
    }
    pub fn get(&self, k: &str) -> Option<&str> {
        self.opts.get(k).map(|s| s.as_str())
    }
    pub fn str(&self, k: &str) -> String {
        self.get(k).unwrap_or_else(|| panic!("missing --{k}")).to_string()
    }
    pub fn num(&self, k: &str, default: u64) -> u64 {
        self.get(k).map(|s| s.parse().expect("number")).unwrap_or(default)
    }
    pub fn seed(&self) -> u64 {
        self.num("seed", 0)
    }
}

fn usage() -> ! {
    eprintln!("usage: harness <driver> <mode> [--in F] [--out F] [--seed N] [--n N] [--len N] ...");
    std::process::exit(2)
}

pub fn rng(seed: u64, stream: u64) -> ChaCha8Rng {
    let mut r = ChaCha8Rng::seed_from_u64(seed);
    r.set_stream(stream);
    r
}

pub fn read_ndjson(path: &str) -> Vec<Value> {
    let f = File::open(path).unwrap_or_else(|e| panic!("open {path}: {e}"));
    BufReader::new(f)
        .lines()
        .map(|l| l.unwrap())
        .filter(|l| !l.trim().is_empty())
        .map(|l| serde_json::from_str(&l).unwrap_or_else(|e| panic!("bad json {l}: {e}")))
        .collect()
}

pub struct Out {
    w: BufWriter<File>,
    pub count: usize,
}

impl Out {
    pub fn create(path: &str) -> Self {
        Self { w: BufWriter::new(File::create(path).unwrap_or_else(|e| panic!("create {path}: {e}"))), count: 0 }
    }
    pub fn emit(&mut self, v: &Value) {
        serde_json::to_writer(&mut self.w, v).unwrap();
        self.w.write_all(b"\n").unwrap();
        self.count += 1;
    }
    /// Flushes without consuming (for writers shared with a watchdog thread).
    pub fn flush_count(&mut self) -> usize {
        self.w.flush().unwrap();
        self.count
    }
    pub fn finish(mut self) -> usize {
        self.w.flush().unwrap();
        self.count
    }
}

/// Installs a silent panic hook: panics of the code under test are data, not noise.
pub static LAST_PANIC: std::sync::Mutex<String> = std::sync::Mutex::new(String::new());

pub fn quiet_panics() {
    std::panic::set_hook(Box::new(|info| {
        if let Ok(mut g) = LAST_PANIC.lock() {
            *g = info.to_string();
        }
    }));
}

/// Runs `f`, turning a panic into `Err(message)`.
pub fn caught<R>(f: impl FnOnce() -> R) -> Result<R, String> {
    catch_unwind(AssertUnwindSafe(f)).map_err(|e| {
        if let Some(s) = e.downcast_ref::<&str>() {
            s.to_string()
        } else if let Some(s) = e.downcast_ref::<String>() {
            s.clone()
        } else {
            "panic".to_string()
        }
    })
}
