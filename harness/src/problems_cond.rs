//! Harness-side problem type, custom states, scripted operands and counting loop parts for
//! the `Conditions` driver (C10).  Re-creates what mahf's pub(crate) `testing::TestProblem`
//! offers, plus a known optimum.
use std::ops::{Deref, DerefMut};

use better_any::{Tid, TidAble};
use mahf::{
    problems::KnownOptimumProblem, Component, Condition, CustomState, ExecResult, Problem, SingleObjective,
    State,
};
use serde::Serialize;

/// Single-objective problem with unit encoding and a configurable known optimum.
pub struct CondProblem {
    pub opt: f64,
}

impl Problem for CondProblem {
    type Encoding = ();
    type Objective = SingleObjective;

    fn name(&self) -> &str {
        "CondProblem"
    }
}

impl KnownOptimumProblem for CondProblem {
    fn known_optimum(&self) -> SingleObjective {
        self.opt.try_into().expect("legal optimum")
    }
}

pub type St = State<'static, CondProblem>;

/// A float-valued state observed through `ValueOf<FVal>` (Target = f64).
#[derive(Tid)]
pub struct FVal(pub f64);
impl CustomState<'_> for FVal {}
impl Deref for FVal {
    type Target = f64;
    fn deref(&self) -> &f64 {
        &self.0
    }
}
impl DerefMut for FVal {
    fn deref_mut(&mut self) -> &mut f64 {
        &mut self.0
    }
}

/// A signed float-valued state observed through `ValueOf<SVal>` (Target = f64): negative, zero
/// (either sign) and fractional values.
#[derive(Tid)]
pub struct SVal(pub f64);
impl CustomState<'_> for SVal {}
impl Deref for SVal {
    type Target = f64;
    fn deref(&self) -> &f64 {
        &self.0
    }
}
impl DerefMut for SVal {
    fn deref_mut(&mut self) -> &mut f64 {
        &mut self.0
    }
}

/// A signed integer state observed through `ValueOf<IVal>` (Target = i32).
#[derive(Tid)]
pub struct IVal(pub i32);
impl CustomState<'_> for IVal {}
impl Deref for IVal {
    type Target = i32;
    fn deref(&self) -> &i32 {
        &self.0
    }
}
impl DerefMut for IVal {
    fn deref_mut(&mut self) -> &mut i32 {
        &mut self.0
    }
}

/// Loop body that records the value of a signed state (as the code `off + value / unit`) and then
/// raises it by `step` units.  `unit` = 0.5 for `SVal`, 1 for `IVal`.
#[derive(Clone, Serialize)]
pub struct Raise {
    pub float: bool,
    pub step: i64,
    pub off: i64,
    pub cap: i64,
}

impl Component<CondProblem> for Raise {
    fn execute(&self, _problem: &CondProblem, state: &mut State<CondProblem>) -> ExecResult<()> {
        let seen = if self.float {
            let mut v = state.try_borrow_value_mut::<SVal>()?;
            let k = *v * 2.0;
            *v += self.step as f64 * 0.5;
            if k.fract() == 0.0 && k.abs() < 1e9 { self.off + k as i64 } else { -7 }
        } else {
            let mut v = state.try_borrow_value_mut::<IVal>()?;
            let k = *v as i64;
            *v += self.step as i32;
            self.off + k
        };
        let mut log = state.borrow_mut::<LoopLog>();
        log.seen.push(seen);
        if log.seen.len() as i64 > self.cap {
            return Err(eyre::eyre!("runaway"));
        }
        Ok(())
    }
}

/// Ids of the scripted operands evaluated, in the order of evaluation.
#[derive(Tid, Default)]
pub struct EvalLog(pub Vec<i64>);
impl CustomState<'_> for EvalLog {}

/// What the counting loop parts saw: condition tests, and the counter value at every pass.
#[derive(Tid, Default)]
pub struct LoopLog {
    pub tests: i64,
    pub seen: Vec<i64>,
}
impl CustomState<'_> for LoopLog {}

/// Scripted operand: logs its initialisation (-id) and its evaluation (id), then answers as told (0 = false, 1 = true, 2 = error).
#[derive(Clone, Serialize)]
pub struct Scripted {
    pub id: i64,
    pub out: u8,
}

impl Condition<CondProblem> for Scripted {
    /// the initialisation of an operand is logged as the negated id (every operand is initialised, once, before the evaluation)
    fn init(&self, _problem: &CondProblem, state: &mut State<CondProblem>) -> ExecResult<()> {
        state.borrow_mut::<EvalLog>().0.push(-self.id);
        Ok(())
    }

    fn evaluate(&self, _problem: &CondProblem, state: &mut State<CondProblem>) -> ExecResult<bool> {
        state.borrow_mut::<EvalLog>().0.push(self.id);
        match self.out {
            0 => Ok(false),
            1 => Ok(true),
            _ => Err(eyre::eyre!("scripted operand {} fails", self.id)),
        }
    }
}

/// Counts the evaluations of the real condition it wraps; refuses to go on beyond `cap`
/// evaluations so that a loop that never ends becomes data ("runaway") instead of a hang.
#[derive(Serialize)]
#[serde(bound = "")]
pub struct CountTests {
    pub inner: Box<dyn Condition<CondProblem>>,
    pub cap: i64,
}

impl Clone for CountTests {
    fn clone(&self) -> Self {
        Self { inner: self.inner.clone(), cap: self.cap }
    }
}

impl Condition<CondProblem> for CountTests {
    fn init(&self, problem: &CondProblem, state: &mut State<CondProblem>) -> ExecResult<()> {
        self.inner.init(problem, state)
    }

    fn require(&self, problem: &CondProblem, state_req: &mahf::state::StateReq<CondProblem>) -> ExecResult<()> {
        self.inner.require(problem, state_req)
    }

    fn evaluate(&self, problem: &CondProblem, state: &mut State<CondProblem>) -> ExecResult<bool> {
        {
            let mut log = state.borrow_mut::<LoopLog>();
            log.tests += 1;
            if log.tests > self.cap {
                return Err(eyre::eyre!("runaway"));
            }
        }
        self.inner.evaluate(problem, state)
    }
}

/// Loop body that records the value of the iteration counter at every pass.
#[derive(Clone, Serialize)]
pub struct CountBody {
    pub cap: i64,
}

impl Component<CondProblem> for CountBody {
    fn execute(&self, _problem: &CondProblem, state: &mut State<CondProblem>) -> ExecResult<()> {
        let it = state.try_get_value::<mahf::state::common::Iterations>().map(|v| v as i64).unwrap_or(-1);
        let mut log = state.borrow_mut::<LoopLog>();
        log.seen.push(it);
        if log.seen.len() as i64 > self.cap {
            return Err(eyre::eyre!("runaway"));
        }
        Ok(())
    }
}

/// What the probes of a nested loop/scope program saw, in order: (node id, kind, visible
/// iteration counter or -1, visible progress of less-than-n(iterations) if any).  `fuel` bounds
/// the number of observations so that a program that never ends becomes data ("runaway").
#[derive(Tid, Default)]
pub struct NestLog {
    pub ev: Vec<(i64, &'static str, i64, Option<f64>)>,
    pub fuel: i64,
}
impl CustomState<'_> for NestLog {}

type IterProgress = mahf::state::common::Progress<mahf::lens::ValueOf<mahf::state::common::Iterations>>;

fn observe(state: &mut State<CondProblem>, id: i64, kind: &'static str) -> ExecResult<()> {
    let it = state.try_get_value::<mahf::state::common::Iterations>().map(|v| v as i64).unwrap_or(-1);
    let pr = state.try_get_value::<IterProgress>().ok();
    let mut log = state.borrow_mut::<NestLog>();
    log.ev.push((id, kind, it, pr));
    log.fuel -= 1;
    if log.fuel < 0 {
        return Err(eyre::eyre!("runaway"));
    }
    Ok(())
}

/// Component that reports the counter and progress visible where it stands (kinds `tick`, `in`, `out`).
#[derive(Clone, Serialize)]
pub struct Probe {
    pub id: i64,
    pub kind: &'static str,
}

impl Component<CondProblem> for Probe {
    fn execute(&self, _problem: &CondProblem, state: &mut State<CondProblem>) -> ExecResult<()> {
        observe(state, self.id, self.kind)
    }
}

/// Component that inserts `Iterations(v)` into the scope it runs in.
#[derive(Clone, Serialize)]
pub struct SetIter {
    pub v: u32,
}

impl Component<CondProblem> for SetIter {
    fn execute(&self, _problem: &CondProblem, state: &mut State<CondProblem>) -> ExecResult<()> {
        state.insert(mahf::state::common::Iterations(self.v));
        Ok(())
    }
}

/// The real condition of a loop, reporting what is visible right after each of its evaluations.
#[derive(Serialize)]
#[serde(bound = "")]
pub struct NestTests {
    pub id: i64,
    pub inner: Box<dyn Condition<CondProblem>>,
}

impl Clone for NestTests {
    fn clone(&self) -> Self {
        Self { id: self.id, inner: self.inner.clone() }
    }
}

impl Condition<CondProblem> for NestTests {
    fn init(&self, problem: &CondProblem, state: &mut State<CondProblem>) -> ExecResult<()> {
        self.inner.init(problem, state)
    }

    fn require(&self, problem: &CondProblem, state_req: &mahf::state::StateReq<CondProblem>) -> ExecResult<()> {
        self.inner.require(problem, state_req)
    }

    fn evaluate(&self, problem: &CondProblem, state: &mut State<CondProblem>) -> ExecResult<bool> {
        let reply = self.inner.evaluate(problem, state)?;
        observe(state, self.id, "test")?;
        Ok(reply)
    }
}
