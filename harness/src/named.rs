//! A `serde::Serializer` that keeps struct / variant names:
//! struct S { a, b } -> {"$": "S", "a": .., "b": ..}; unit struct S -> {"$": "S"};
//! newtype S(x) -> {"$": "S", "0": x}; enum E::V.. -> {"$": "E::V", ..}; seq -> [..]; None -> "None".
//! `serde_json` renders unit structs as null and drops names, which makes different components
//! indistinguishable; this serializer is used for component identity (step observer), for the
//! extraction of template trees (Wiring) and for C15's configuration-export clauses.
use serde::ser::{self, Serialize};
use serde_json::{json, Map, Value};

#[derive(Debug)]
pub struct Error(pub String);
impl std::fmt::Display for Error {
    fn fmt(&self, f: &mut std::fmt::Formatter<'_>) -> std::fmt::Result {
        write!(f, "{}", self.0)
    }
}
impl std::error::Error for Error {}
impl ser::Error for Error {
    fn custom<T: std::fmt::Display>(msg: T) -> Self {
        Error(msg.to_string())
    }
}

pub fn to_named<T: Serialize + ?Sized>(v: &T) -> Result<Value, Error> {
    v.serialize(Named)
}

pub struct Named;

pub struct Compound {
    name: Option<String>,
    map: Map<String, Value>,
    seq: Vec<Value>,
    is_seq: bool,
    key: Option<String>,
}

impl Compound {
    fn new(name: Option<String>, is_seq: bool) -> Self {
        Self { name, map: Map::new(), seq: Vec::new(), is_seq, key: None }
    }
    fn finish(mut self) -> Value {
        if self.is_seq {
            match self.name {
                None => Value::Array(self.seq),
                Some(n) => {
                    let mut m = Map::new();
                    m.insert("$".into(), json!(n));
                    for (i, v) in self.seq.into_iter().enumerate() {
                        m.insert(i.to_string(), v);
                    }
                    Value::Object(m)
                }
            }
        } else {
            if let Some(n) = self.name {
                let mut m = Map::new();
                m.insert("$".into(), json!(n));
                m.append(&mut self.map);
                Value::Object(m)
            } else {
                Value::Object(self.map)
            }
        }
    }
}

fn float(v: f64) -> Value {
    if v.is_finite() {
        json!(v)
    } else {
        json!(format!("{v}"))
    }
}

impl ser::Serializer for Named {
    type Ok = Value;
    type Error = Error;
    type SerializeSeq = Compound;
    type SerializeTuple = Compound;
    type SerializeTupleStruct = Compound;
    type SerializeTupleVariant = Compound;
    type SerializeMap = Compound;
    type SerializeStruct = Compound;
    type SerializeStructVariant = Compound;

    fn serialize_bool(self, v: bool) -> Result<Value, Error> { Ok(json!(v)) }
    fn serialize_i8(self, v: i8) -> Result<Value, Error> { Ok(json!(v)) }
    fn serialize_i16(self, v: i16) -> Result<Value, Error> { Ok(json!(v)) }
    fn serialize_i32(self, v: i32) -> Result<Value, Error> { Ok(json!(v)) }
    fn serialize_i64(self, v: i64) -> Result<Value, Error> { Ok(json!(v)) }
    fn serialize_u8(self, v: u8) -> Result<Value, Error> { Ok(json!(v)) }
    fn serialize_u16(self, v: u16) -> Result<Value, Error> { Ok(json!(v)) }
    fn serialize_u32(self, v: u32) -> Result<Value, Error> { Ok(json!(v)) }
    fn serialize_u64(self, v: u64) -> Result<Value, Error> { Ok(json!(v)) }
    fn serialize_f32(self, v: f32) -> Result<Value, Error> { Ok(float(v as f64)) }
    fn serialize_f64(self, v: f64) -> Result<Value, Error> { Ok(float(v)) }
    fn serialize_char(self, v: char) -> Result<Value, Error> { Ok(json!(v.to_string())) }
    fn serialize_str(self, v: &str) -> Result<Value, Error> { Ok(json!(v)) }
    fn serialize_bytes(self, v: &[u8]) -> Result<Value, Error> { Ok(json!(v)) }
    fn serialize_none(self) -> Result<Value, Error> { Ok(json!("None")) }
    fn serialize_some<T: ?Sized + Serialize>(self, v: &T) -> Result<Value, Error> { v.serialize(Named) }
    fn serialize_unit(self) -> Result<Value, Error> { Ok(json!("()")) }
    fn serialize_unit_struct(self, name: &'static str) -> Result<Value, Error> { Ok(json!({"$": name})) }
    fn serialize_unit_variant(self, name: &'static str, _: u32, variant: &'static str) -> Result<Value, Error> {
        Ok(json!({"$": format!("{name}::{variant}")}))
    }
    fn serialize_newtype_struct<T: ?Sized + Serialize>(self, name: &'static str, v: &T) -> Result<Value, Error> {
        Ok(json!({"$": name, "0": v.serialize(Named)?}))
    }
    fn serialize_newtype_variant<T: ?Sized + Serialize>(
        self, name: &'static str, _: u32, variant: &'static str, v: &T,
    ) -> Result<Value, Error> {
        Ok(json!({"$": format!("{name}::{variant}"), "0": v.serialize(Named)?}))
    }
    fn serialize_seq(self, _: Option<usize>) -> Result<Compound, Error> { Ok(Compound::new(None, true)) }
    fn serialize_tuple(self, _: usize) -> Result<Compound, Error> { Ok(Compound::new(None, true)) }
    fn serialize_tuple_struct(self, name: &'static str, _: usize) -> Result<Compound, Error> {
        Ok(Compound::new(Some(name.to_string()), true))
    }
    fn serialize_tuple_variant(self, name: &'static str, _: u32, variant: &'static str, _: usize) -> Result<Compound, Error> {
        Ok(Compound::new(Some(format!("{name}::{variant}")), true))
    }
    fn serialize_map(self, _: Option<usize>) -> Result<Compound, Error> { Ok(Compound::new(None, false)) }
    fn serialize_struct(self, name: &'static str, _: usize) -> Result<Compound, Error> {
        Ok(Compound::new(Some(name.to_string()), false))
    }
    fn serialize_struct_variant(self, name: &'static str, _: u32, variant: &'static str, _: usize) -> Result<Compound, Error> {
        Ok(Compound::new(Some(format!("{name}::{variant}")), false))
    }
}

impl ser::SerializeSeq for Compound {
    type Ok = Value;
    type Error = Error;
    fn serialize_element<T: ?Sized + Serialize>(&mut self, v: &T) -> Result<(), Error> {
        self.seq.push(v.serialize(Named)?);
        Ok(())
    }
    fn end(self) -> Result<Value, Error> { Ok(self.finish()) }
}
impl ser::SerializeTuple for Compound {
    type Ok = Value;
    type Error = Error;
    fn serialize_element<T: ?Sized + Serialize>(&mut self, v: &T) -> Result<(), Error> {
        self.seq.push(v.serialize(Named)?);
        Ok(())
    }
    fn end(self) -> Result<Value, Error> { Ok(self.finish()) }
}
impl ser::SerializeTupleStruct for Compound {
    type Ok = Value;
    type Error = Error;
    fn serialize_field<T: ?Sized + Serialize>(&mut self, v: &T) -> Result<(), Error> {
        self.seq.push(v.serialize(Named)?);
        Ok(())
    }
    fn end(self) -> Result<Value, Error> { Ok(self.finish()) }
}
impl ser::SerializeTupleVariant for Compound {
    type Ok = Value;
    type Error = Error;
    fn serialize_field<T: ?Sized + Serialize>(&mut self, v: &T) -> Result<(), Error> {
        self.seq.push(v.serialize(Named)?);
        Ok(())
    }
    fn end(self) -> Result<Value, Error> { Ok(self.finish()) }
}
impl ser::SerializeMap for Compound {
    type Ok = Value;
    type Error = Error;
    fn serialize_key<T: ?Sized + Serialize>(&mut self, k: &T) -> Result<(), Error> {
        let k = k.serialize(Named)?;
        self.key = Some(match k {
            Value::String(s) => s,
            other => other.to_string(),
        });
        Ok(())
    }
    fn serialize_value<T: ?Sized + Serialize>(&mut self, v: &T) -> Result<(), Error> {
        let k = self.key.take().unwrap_or_default();
        self.map.insert(k, v.serialize(Named)?);
        Ok(())
    }
    fn end(self) -> Result<Value, Error> { Ok(self.finish()) }
}
impl ser::SerializeStruct for Compound {
    type Ok = Value;
    type Error = Error;
    fn serialize_field<T: ?Sized + Serialize>(&mut self, k: &'static str, v: &T) -> Result<(), Error> {
        self.map.insert(k.to_string(), v.serialize(Named)?);
        Ok(())
    }
    fn end(self) -> Result<Value, Error> { Ok(self.finish()) }
}
impl ser::SerializeStructVariant for Compound {
    type Ok = Value;
    type Error = Error;
    fn serialize_field<T: ?Sized + Serialize>(&mut self, k: &'static str, v: &T) -> Result<(), Error> {
        self.map.insert(k.to_string(), v.serialize(Named)?);
        Ok(())
    }
    fn end(self) -> Result<Value, Error> { Ok(self.finish()) }
}
