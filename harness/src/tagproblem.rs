//! `TagProblem`: solutions are small integer tags; the objective is read from a table, so exact
//! copies, staleness (`obj == F[sol]`) and objective-call counts are all observable exactly.
use std::sync::{
    atomic::{AtomicU64, Ordering},
    Arc, Mutex,
};

use mahf::{
    problems::{ObjectiveFunction, Problem},
    Individual, SingleObjective,
};

#[derive(Clone)]
pub struct TagProblem {
    /// objective value of tag t is `table[t % table.len()]`
    pub table: Vec<f64>,
    pub calls: Arc<AtomicU64>,
    /// every solution passed to the objective function, in call order
    pub call_log: Arc<Mutex<Vec<u32>>>,
}

impl TagProblem {
    pub fn identity(n: usize) -> Self {
        Self::with_table((0..n).map(|x| x as f64).collect())
    }
    pub fn with_table(table: Vec<f64>) -> Self {
        Self { table, calls: Arc::new(AtomicU64::new(0)), call_log: Arc::new(Mutex::new(Vec::new())) }
    }
    pub fn f(&self, tag: u32) -> f64 {
        self.table[tag as usize % self.table.len()]
    }
    pub fn calls(&self) -> u64 {
        self.calls.load(Ordering::SeqCst)
    }
    pub fn evaluated(&self, tag: u32) -> Individual<Self> {
        Individual::new(tag, self.f(tag).try_into().unwrap())
    }
    pub fn unevaluated(&self, tag: u32) -> Individual<Self> {
        Individual::new_unevaluated(tag)
    }
}

impl Problem for TagProblem {
    type Encoding = u32;
    type Objective = SingleObjective;
    fn name(&self) -> &str {
        "TagProblem"
    }
}

impl ObjectiveFunction for TagProblem {
    fn objective(&self, solution: &u32) -> SingleObjective {
        self.calls.fetch_add(1, Ordering::SeqCst);
        self.call_log.lock().unwrap().push(*solution);
        self.f(*solution).try_into().unwrap()
    }
}
