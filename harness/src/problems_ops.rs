//! Harness-side single-objective problem for the operator drivers (C11, C12, C17).
//!
//! Solutions are small integer tags (P-tag): two individuals are copies of one another iff
//! tag and objective bits agree, so "exact copy" becomes integer equality in the trace.
//! Modelled on mahf's own `pub(crate)` test problem (src/testing.rs), which an external crate
//! cannot use.
use mahf::{Individual, Problem, SingleObjective};

pub struct TagProblem;

impl Problem for TagProblem {
    type Encoding = u32;
    type Objective = SingleObjective;

    fn name(&self) -> &str {
        "TagProblem"
    }
}

pub type Ind = Individual<TagProblem>;

/// Rank standing for an objective value of +inf (spec: `INF`).
pub const INF: i64 = 999;
/// Projection of an individual whose objective is none of the run's values (inexact copy).
pub const RANK_FOREIGN: i64 = -1;
/// Projection of an unevaluated individual.
pub const RANK_UNEVALUATED: i64 = -2;

/// Objective values of a run: `vals[r]` is the value of dense rank `r` (strictly ascending,
/// finite); rank `INF` is `+inf`.
pub struct Values {
    pub vals: Vec<f64>,
}

impl Values {
    pub fn parse(strs: &[String]) -> Self {
        let vals: Vec<f64> = strs.iter().map(|s| s.parse().expect("float")).collect();
        assert!(vals.windows(2).all(|w| w[0] < w[1]), "value table must be strictly ascending");
        assert!(vals.iter().all(|v| v.is_finite()));
        Self { vals }
    }

    pub fn value(&self, rank: i64) -> f64 {
        if rank == INF {
            f64::INFINITY
        } else {
            self.vals[rank as usize]
        }
    }

    pub fn individual(&self, tag: u32, rank: i64) -> Ind {
        Individual::new(tag, SingleObjective::try_from(self.value(rank)).expect("legal objective"))
    }

    /// P-rank by exact bit pattern.
    pub fn rank_of(&self, ind: &Ind) -> i64 {
        match ind.get_objective() {
            None => RANK_UNEVALUATED,
            Some(o) => {
                let v = o.value();
                if v == f64::INFINITY {
                    return INF;
                }
                self.vals
                    .iter()
                    .position(|x| x.to_bits() == v.to_bits())
                    .map(|p| p as i64)
                    .unwrap_or(RANK_FOREIGN)
            }
        }
    }
}
