//! Harness-side single-objective problem for the operator drivers (C11, C12, C17).
//!
//! Solutions are small integer tags (P-tag): two individuals are copies of one another iff
//! tag and objective bits agree, so "exact copy" becomes integer equality in the trace.
//! Modelled on mahf's own `pub(crate)` test problem (src/testing.rs), which an external crate
//! cannot use.
use mahf::{Individual, Problem, SingleObjective};

pub struct TagProblem;

impl Problem for TagProblem {
    type Encoding = u32;
    type Objective = SingleObjective;

    fn name(&self) -> &str {
        "TagProblem"
    }
}

pub type Ind = Individual<TagProblem>;

/// Rank standing for an objective value of +inf (spec: `INF`).
pub const INF: i64 = 999;
/// Projection of an individual whose objective is none of the run's values (inexact copy).
pub const RANK_FOREIGN: i64 = -1;
/// Projection of an unevaluated individual.
pub const RANK_UNEVALUATED: i64 = -2;

/// Objective values of a run: `vals[r]` is the value of dense rank `r` (strictly ascending as
/// NUMBERS, finite); rank `INF` is `+inf`.
///
/// P-rank is the rank of the *number*: `+0.0` and `-0.0` are the same objective value (a tie for
/// every operator that compares objective values) although their bit patterns differ.  A table
/// entry `"+-0.0"` stands for the value zero carried as `+0.0` by individuals with an odd tag and
/// as `-0.0` by individuals with an even tag, `"-+0.0"` for the opposite assignment (`"0.0"` /
/// `"-0.0"`: one sign for everybody).  Which pattern an individual carries is a function of its
/// tag, so an exact copy still has the bits of its original (`rank_of` answers `RANK_FOREIGN`
/// for a zero of the wrong sign).
pub struct Values {
    pub vals: Vec<f64>,
    /// per rank: 0 = as written, 1 = zero with sign by tag (odd +, even -), 2 = (odd -, even +)
    zero_sign: Vec<u8>,
}

impl Values {
    pub fn parse(strs: &[String]) -> Self {
        let zero_sign: Vec<u8> = strs
            .iter()
            .map(|s| match s.as_str() {
                "+-0.0" => 1,
                "-+0.0" => 2,
                _ => 0,
            })
            .collect();
        let vals: Vec<f64> = strs
            .iter()
            .zip(&zero_sign)
            .map(|(s, z)| if *z > 0 { 0.0 } else { s.parse().expect("float") })
            .collect();
        assert!(vals.windows(2).all(|w| w[0] < w[1]), "value table must be strictly ascending");
        assert!(vals.iter().all(|v| v.is_finite()));
        Self { vals, zero_sign }
    }

    /// Objective value (bit pattern) the individual `tag` carries at rank `rank`.
    pub fn value(&self, tag: u32, rank: i64) -> f64 {
        if rank == INF {
            return f64::INFINITY;
        }
        let r = rank as usize;
        match (self.zero_sign[r], tag % 2 == 1) {
            (0, _) => self.vals[r],
            (1, true) | (2, false) => 0.0,
            _ => -0.0,
        }
    }

    pub fn individual(&self, tag: u32, rank: i64) -> Ind {
        Individual::new(tag, SingleObjective::try_from(self.value(tag, rank)).expect("legal objective"))
    }

    /// P-rank: position of the number in the table; the bit pattern must be the one this
    /// individual (tag) was given.
    pub fn rank_of(&self, ind: &Ind) -> i64 {
        match ind.get_objective() {
            None => RANK_UNEVALUATED,
            Some(o) => {
                let v = o.value();
                if v == f64::INFINITY {
                    return INF;
                }
                match self.vals.iter().position(|x| *x == v) {
                    Some(p) if self.value(*ind.solution(), p as i64).to_bits() == v.to_bits() => p as i64,
                    _ => RANK_FOREIGN,
                }
            }
        }
    }
}
