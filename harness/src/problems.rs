//! Harness-side problem types (mahf's own test problem is `pub(crate)`): small, reusable
//! implementations of the mahf problem traits for the three encodings the components work on.
//!
//! * [`RealProblem`]  — `Vec<f64>` with a per-dimension domain (sphere objective, optimum 0)
//! * [`BitProblem`]   — `Vec<bool>` (one-max as minimisation: number of zeros)
//! * [`PermProblem`]  — `Vec<usize>` permutations (number of positions where `x[i] != i`)
#![allow(dead_code)]
use std::ops::Range;

use mahf::{
    problems::{KnownOptimumProblem, LimitedVectorProblem, ObjectiveFunction, VectorProblem},
    Problem, SingleObjective,
};

/// Real-valued problem: dimension = number of domains, dimension `j` lives in `domain[j]`.
#[derive(Clone, Debug)]
pub struct RealProblem {
    pub domain: Vec<Range<f64>>,
}

impl RealProblem {
    pub fn new(domain: Vec<(f64, f64)>) -> Self {
        Self { domain: domain.into_iter().map(|(lo, hi)| lo..hi).collect() }
    }
    /// `dim` dimensions, all with the same domain.
    pub fn uniform(dim: usize, lo: f64, hi: f64) -> Self {
        Self { domain: vec![lo..hi; dim] }
    }
}

impl Problem for RealProblem {
    type Encoding = Vec<f64>;
    type Objective = SingleObjective;
    fn name(&self) -> &str {
        "RealProblem"
    }
}

impl VectorProblem for RealProblem {
    type Element = f64;
    fn dimension(&self) -> usize {
        self.domain.len()
    }
}

impl LimitedVectorProblem for RealProblem {
    fn domain(&self) -> Vec<Range<f64>> {
        self.domain.clone()
    }
}

impl ObjectiveFunction for RealProblem {
    fn objective(&self, solution: &Vec<f64>) -> SingleObjective {
        let s: f64 = solution.iter().map(|x| x * x).sum();
        SingleObjective::try_from(s).unwrap_or(SingleObjective::INFINITY)
    }
}

impl KnownOptimumProblem for RealProblem {
    fn known_optimum(&self) -> SingleObjective {
        SingleObjective::try_from(0.0).unwrap()
    }
}

/// Bitstring problem of a given dimension.
#[derive(Clone, Debug)]
pub struct BitProblem {
    pub dim: usize,
}

impl Problem for BitProblem {
    type Encoding = Vec<bool>;
    type Objective = SingleObjective;
    fn name(&self) -> &str {
        "BitProblem"
    }
}

impl VectorProblem for BitProblem {
    type Element = bool;
    fn dimension(&self) -> usize {
        self.dim
    }
}

impl ObjectiveFunction for BitProblem {
    fn objective(&self, solution: &Vec<bool>) -> SingleObjective {
        SingleObjective::try_from(solution.iter().filter(|b| !**b).count() as f64).unwrap()
    }
}

impl KnownOptimumProblem for BitProblem {
    fn known_optimum(&self) -> SingleObjective {
        SingleObjective::try_from(0.0).unwrap()
    }
}

/// Permutation problem of a given dimension.
#[derive(Clone, Debug)]
pub struct PermProblem {
    pub dim: usize,
}

impl Problem for PermProblem {
    type Encoding = Vec<usize>;
    type Objective = SingleObjective;
    fn name(&self) -> &str {
        "PermProblem"
    }
}

impl VectorProblem for PermProblem {
    type Element = usize;
    fn dimension(&self) -> usize {
        self.dim
    }
}

impl ObjectiveFunction for PermProblem {
    fn objective(&self, solution: &Vec<usize>) -> SingleObjective {
        SingleObjective::try_from(solution.iter().enumerate().filter(|(i, x)| i != *x).count() as f64).unwrap()
    }
}

impl KnownOptimumProblem for PermProblem {
    fn known_optimum(&self) -> SingleObjective {
        SingleObjective::try_from(0.0).unwrap()
    }
}
