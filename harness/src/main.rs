//! Conformance harness binding the TLA+ specification in /verif/spec to mahf.
//!
//! `harness <driver> <mode> ...` — every driver executes operations on the real code
//! (replaying TLC-exported scenarios or seeded random histories) and records one ndjson
//! event per specification action with arguments, reply and projected abstract state.
mod drivers;
mod tagproblem;
mod util;

fn main() {
    let args = util::Args::parse();
    util::quiet_panics();
    let n = match args.driver.as_str() {
        "registry" => drivers::registry::main(&args),
        "populations" => drivers::populations::main(&args),
        other => {
            eprintln!("unknown driver {other}");
            std::process::exit(2)
        }
    };
    println!("{{\"events\":{n}}}");
}
