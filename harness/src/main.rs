//! Conformance harness binding the TLA+ specification in /verif/spec to mahf.
//!
//! `harness <driver> <mode> ...` — every driver executes operations on the real code
//! (replaying TLC-exported scenarios or seeded random histories) and records one ndjson
//! event per specification action with arguments, reply and projected abstract state.
mod drivers;
mod problems;
mod problems_cond;
mod problems_ops;
mod problems_var;
mod named;
mod runproblems;
mod tagproblem;
mod userid;
mod util;

fn main() {
    let args = util::Args::parse();
    util::quiet_panics();
    let n = std::panic::catch_unwind(std::panic::AssertUnwindSafe(|| run(&args))).unwrap_or_else(|_| {
        eprintln!("harness panic: {}", util::LAST_PANIC.lock().map(|g| g.clone()).unwrap_or_default());
        std::process::exit(101)
    });
    println!("{{\"events\":{n}}}");
}

fn run(args: &util::Args) -> usize {
    match args.driver.as_str() {
        "registry" => drivers::registry::main(args),
        "operators" => drivers::operators::main(args),
        "objective" => drivers::objective::main(args),
        "boundary" => drivers::boundary::main(args),
        "conditions" => drivers::conditions::main(args),
        "variation" => drivers::variation::main(args),
        "determinism" => drivers::determinism::main(args),
        "memory" => drivers::memory::main(args),
        "bh" => drivers::bh::main(args),
        "measures" => drivers::measures::main(args),
        "cro" => drivers::cro::main(args),
        "templates" => drivers::templates::main(args),
        "exec" => drivers::exec::main(args),
        "borrow" => drivers::borrow::main(args),
        "populations" => drivers::populations::main(args),
        other => {
            eprintln!("unknown driver {other}");
            std::process::exit(2)
        }
    }
}
