//! Driver for spec module `Populations` (C04): the population stack through its public API
//! and the population utility components executed on a `State`.
use mahf::{
    components::utils::populations::{
        ClearPopulation, DuplicatePopulation, InterleavePopulations, RotatePopulations,
        SplitPopulationByObjectiveValue,
    },
    state::common::Populations,
    Component, Individual, State,
};
use rand::Rng;
use serde_json::{json, Value};

use crate::{
    tagproblem::TagProblem,
    util::{caught, read_ndjson, rng, Args, Out, NOVAL},
};

type P = TagProblem;

fn proj_pop(problem: &P, pop: &[Individual<P>]) -> Value {
    // an individual is projected to its tag; a tag whose cached objective is not F[tag]
    // (or is missing) is projected to a negative number so that no spec state matches it
    Value::Array(
        pop.iter()
            .map(|i| {
                let tag = *i.solution() as i64;
                match i.get_objective() {
                    Some(o) if o.value().to_bits() == problem.f(*i.solution()).to_bits() => json!(tag),
                    _ => json!(-1 - tag),
                }
            })
            .collect(),
    )
}

fn proj_stack(problem: &P, state: &State<P>) -> Value {
    let pops = state.populations();
    let n = pops.len();
    Value::Array((0..n).rev().map(|d| proj_pop(problem, pops.peek(d))).collect())
}

fn r(k: &str, p: Value, v: i64) -> Value {
    json!({"k": k, "p": p, "v": v})
}

fn opt_pop(problem: &P, panicking: bool, x: Result<Option<Value>, String>) -> Value {
    let _ = problem;
    match x {
        Ok(Some(p)) => r("ok", p, NOVAL),
        Ok(None) => r("none", json!([]), NOVAL),
        Err(_) => r(if panicking { "panic" } else { "panic_unexpected" }, json!([]), NOVAL),
    }
}

fn comp(problem: &P, state: &mut State<'static, P>, c: Box<dyn Component<P>>) -> Value {
    match caught(|| c.execute(problem, state)) {
        Ok(Ok(())) => r("ok", json!([]), NOVAL),
        Ok(Err(_)) => r("err", json!([]), NOVAL),
        Err(_) => r("panic", json!([]), NOVAL),
    }
}

fn exec(problem: &P, state: &mut State<'static, P>, a: &Value) -> Value {
    let op = a["op"].as_str().unwrap();
    let n = a["n"].as_i64().unwrap();
    match op {
        "push" => {
            let pop: Vec<Individual<P>> =
                a["p"].as_array().unwrap().iter().map(|t| problem.evaluated(t.as_u64().unwrap() as u32)).collect();
            state.populations_mut().push(pop);
            r("ok", json!([]), NOVAL)
        }
        "pop" => opt_pop(problem, true, caught(|| Some(proj_pop(problem, &state.populations_mut().pop())))),
        "try_pop" => opt_pop(problem, false, caught(|| state.populations_mut().try_pop().map(|p| proj_pop(problem, &p)))),
        "current" => opt_pop(problem, true, caught(|| Some(proj_pop(problem, state.populations().current())))),
        "get_current" => {
            opt_pop(problem, false, caught(|| state.populations().get_current().map(|p| proj_pop(problem, p))))
        }
        "current_mut" => opt_pop(
            problem,
            true,
            caught(|| {
                let mut pops = state.populations_mut();
                let cur = pops.current_mut();
                let before = proj_pop(problem, cur);
                cur.push(problem.evaluated(n as u32));
                Some(before)
            }),
        ),
        "get_current_mut" => opt_pop(
            problem,
            false,
            caught(|| {
                let mut pops = state.populations_mut();
                pops.get_current_mut().map(|cur| {
                    let before = proj_pop(problem, cur);
                    cur.push(problem.evaluated(n as u32));
                    before
                })
            }),
        ),
        "peek" => opt_pop(problem, true, caught(|| Some(proj_pop(problem, state.populations().peek(depth(n)))))),
        "try_peek" => {
            opt_pop(problem, false, caught(|| state.populations().try_peek(depth(n)).map(|p| proj_pop(problem, p))))
        }
        "rotate" => match caught(|| state.populations_mut().rotate(depth(n))) {
            Ok(()) => r("ok", json!([]), NOVAL),
            Err(_) => r("panic", json!([]), NOVAL),
        },
        "len" => r("ok", json!([]), state.populations().len() as i64),
        "is_empty" => r("ok", json!([]), state.populations().is_empty() as i64),
        "c_rotate" => comp(problem, state, RotatePopulations::new(depth(n))),
        "c_clear" => comp(problem, state, ClearPopulation::new()),
        "c_duplicate" => comp(problem, state, DuplicatePopulation::new()),
        "c_interleave" => comp(problem, state, InterleavePopulations::new()),
        "c_split" => comp(problem, state, SplitPopulationByObjectiveValue::new()),
        other => panic!("unknown op {other}"),
    }
}

/// depths / counts of the model; its `Huge` stands for the largest value the type admits
fn depth(n: i64) -> usize {
    if n >= 1_000_000 {
        usize::MAX
    } else {
        n as usize
    }
}

fn act(op: &str, p: Value, n: i64) -> Value {
    json!({"op": op, "p": p, "n": n})
}

fn random_act(rng: &mut impl Rng, state: &State<P>, ntags: u32) -> Value {
    let h = state.populations().len() as i64;
    let top_len = state.populations().get_current().map(|p| p.len()).unwrap_or(0);
    loop {
        let a = match rng.gen_range(0..100) {
            0..=21 => {
                let len = rng.gen_range(0..4);
                let p: Vec<u32> = (0..len).map(|_| rng.gen_range(0..ntags)).collect();
                act("push", json!(p), NOVAL)
            }
            22..=29 => act(if rng.gen_bool(0.5) { "pop" } else { "try_pop" }, json!([]), NOVAL),
            30..=35 => act(if rng.gen_bool(0.5) { "current" } else { "get_current" }, json!([]), NOVAL),
            36..=43 => act(
                if rng.gen_bool(0.5) { "current_mut" } else { "get_current_mut" },
                json!([]),
                rng.gen_range(0..ntags) as i64,
            ),
            44..=56 => act(if rng.gen_bool(0.5) { "peek" } else { "try_peek" }, json!([]), rng.gen_range(0..=h + 1)),
            57 => act(["peek", "try_peek", "rotate", "c_rotate"][rng.gen_range(0..4)], json!([]), 1_000_000),
            58..=75 => act(if rng.gen_bool(0.5) { "rotate" } else { "c_rotate" }, json!([]), rng.gen_range(1..=h + 1)),
            76..=79 => act(if rng.gen_bool(0.5) { "len" } else { "is_empty" }, json!([]), NOVAL),
            80..=84 if h >= 1 => act("c_clear", json!([]), NOVAL),
            85..=89 if h >= 1 && top_len <= 8 => act("c_duplicate", json!([]), NOVAL),
            90..=94 if h >= 2 => act("c_interleave", json!([]), NOVAL),
            95..=99 if h >= 1 && top_len >= 2 => act("c_split", json!([]), NOVAL),
            _ => continue,
        };
        return a;
    }
}

/// a new stack, made by one of the public ways to make one (chosen by the run number)
fn fresh_state(run: u64) -> State<'static, P> {
    let mut state = State::new();
    match run % 3 {
        0 => {
            state.insert(Populations::<P>::new());
        }
        1 => {
            state.insert(Populations::<P>::default());
        }
        _ => {
            state.entry::<Populations<P>>().or_default();
        }
    }
    state
}

/// the reset record shows what the new stack really looks like (the model says: empty, however it was made)
fn reset_rec(run: u64, problem: &P, state: &State<P>) -> Value {
    json!({"run": run, "act": act("reset", json!([]), (run % 3) as i64), "res": r("ok", json!([]), NOVAL), "stack": proj_stack(problem, state)})
}

pub fn main(args: &Args) -> usize {
    let mut out = Out::create(&args.str("out"));
    let problem = TagProblem::identity(64);
    match args.mode.as_str() {
        "replay" => {
            for sc in read_ndjson(&args.str("in")) {
                let run = sc["run"].as_u64().unwrap();
                let mut state = fresh_state(run);
                out.emit(&reset_rec(run, &problem, &state));
                for (i, a) in sc["acts"].as_array().unwrap().iter().enumerate() {
                    let res = exec(&problem, &mut state, a);
                    out.emit(&json!({"run": run, "i": i, "act": a, "res": res, "stack": proj_stack(&problem, &state)}));
                }
            }
        }
        "random" => {
            let runs = args.num("n", 20);
            let len = args.num("len", 2000);
            let ntags = args.num("tags", 6) as u32;
            for run in 0..runs {
                let mut rng = rng(args.seed(), run);
                let mut state = fresh_state(run);
                out.emit(&reset_rec(run, &problem, &state));
                for i in 0..len {
                    let a = random_act(&mut rng, &state, ntags);
                    let res = exec(&problem, &mut state, &a);
                    out.emit(&json!({"run": run, "i": i, "act": a, "res": res, "stack": proj_stack(&problem, &state)}));
                }
            }
        }
        other => panic!("unknown mode {other}"),
    }
    out.finish()
}
