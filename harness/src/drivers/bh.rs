//! Driver for spec module `Bh` (beyond the listed properties): the two black-hole components executed on
//! prepared states with integer positions and objective values; per-individual facts are recorded.
use mahf::{
    components::{replacement::bh::EventHorizon, swarm::bh::BlackHoleParticlesUpdate},
    state::common::{BestIndividual, Populations},
    Component, Individual, Random, State,
};
use rand::Rng;
use serde_json::{json, Value};

use crate::{
    runproblems::RealProblem,
    util::{caught, read_ndjson, rng, Args, Out},
};

type P = RealProblem;

fn run_case(out: &mut Out, run: u64, xs: &[Vec<i64>], fs: &[i64], fb: i64, op: &str, seed: u64, lo: f64, hi: f64) {
    let d = xs[0].len();
    let problem = RealProblem::new(0, d, lo, hi);
    let pop: Vec<Individual<P>> = xs
        .iter()
        .zip(fs)
        .map(|(x, f)| Individual::new(x.iter().map(|c| *c as f64).collect(), (*f as f64).try_into().unwrap()))
        .collect();
    let mut state: State<P> = State::new();
    let mut pops = Populations::<P>::new();
    pops.push(pop.clone());
    state.insert(pops);
    state.insert(Random::new(seed));
    let mut best = BestIndividual::<P>::new();
    *best = Some(Individual::new(vec![0.0; d], (fb as f64).try_into().unwrap()));
    state.insert(best);
    let comp: Box<dyn Component<P>> = if op == "horizon" { EventHorizon::new() } else { BlackHoleParticlesUpdate::new() };
    let result = caught(std::panic::AssertUnwindSafe(|| comp.execute(&problem, &mut state)));
    let mut rec = json!({"run": run, "op": op, "xs": xs, "fs": fs, "fb": fb, "seed": seed, "lo": lo, "hi": hi});
    let n = pop.len();
    match result {
        Ok(Ok(())) => {
            let pop2: Vec<Individual<P>> = state.populations().current().to_vec();
            let m = pop2.len().min(n);
            let psame: Vec<i64> = (0..n)
                .map(|u| (u < m && pop2[u].solution().iter().zip(pop[u].solution()).all(|(a, b)| a.to_bits() == b.to_bits())) as i64)
                .collect();
            let ev2: Vec<i64> = (0..n).map(|u| (u < m && pop2[u].is_evaluated()) as i64).collect();
            let same: Vec<i64> = (0..n)
                .map(|u| {
                    (psame[u] == 1 && ev2[u] == 1 && pop2[u].objective().value().to_bits() == pop[u].objective().value().to_bits()) as i64
                })
                .collect();
            let indom: Vec<i64> =
                (0..n).map(|u| (u < m && pop2[u].solution().len() == d && pop2[u].solution().iter().all(|c| *c >= lo && *c < hi)) as i64).collect();
            // tow[j]: every individual stayed within the closed interval between its old position and individual j's
            let tow: Vec<i64> = (0..n)
                .map(|j| {
                    (m == n
                        && (0..n).all(|u| {
                            (0..d).all(|k| {
                                let (x, g, y) = (pop[u].solution()[k], pop[j].solution()[k], pop2[u].solution()[k]);
                                y >= x.min(g) && y <= x.max(g)
                            })
                        })) as i64
                })
                .collect();
            rec["res"] = json!("ok");
            rec["n2"] = json!(pop2.len());
            rec["psame"] = json!(psame);
            rec["same"] = json!(same);
            rec["ev2"] = json!(ev2);
            rec["indom"] = json!(indom);
            rec["tow"] = json!(tow);
        }
        other => {
            rec["res"] = json!(if other.is_err() { "panic" } else { "err" });
            rec["n2"] = json!(0);
            for k in ["psame", "same", "ev2", "indom", "tow"] {
                rec[k] = json!(vec![0; n]);
            }
        }
    }
    out.emit(&rec);
}

fn ints(v: &Value) -> Vec<i64> {
    v.as_array().unwrap().iter().map(|x| x.as_i64().unwrap()).collect()
}

pub fn main(args: &Args) -> usize {
    let mut out = Out::create(&args.str("out"));
    match args.mode.as_str() {
        // cases exported from TLC: {"from": {xs, fs, fb}, "act": "horizon" | "move"}, each with `seeds` seeds
        "replay" => {
            let seeds = args.num("seeds", 2);
            let mut run = 0u64;
            for case in read_ndjson(&args.str("in")) {
                let xs: Vec<Vec<i64>> = case["from"]["xs"].as_array().unwrap().iter().map(ints).collect();
                let fs = ints(&case["from"]["fs"]);
                let fb = case["from"]["fb"].as_i64().unwrap();
                for s in 0..seeds {
                    run_case(&mut out, run, &xs, &fs, fb, case["act"].as_str().unwrap(), args.seed() + s, -4.0, 8.0);
                    run += 1;
                }
            }
        }
        "random" => {
            let n = args.num("n", 2000);
            for run in 0..n {
                let mut r = rng(args.seed(), run);
                let d = r.gen_range(1..4usize);
                let size = r.gen_range(1..7usize);
                let spread = if r.gen_bool(0.5) { 3 } else { 30 };
                let xs: Vec<Vec<i64>> = (0..size).map(|_| (0..d).map(|_| r.gen_range(0..spread)).collect()).collect();
                let fmax = if r.gen_bool(0.3) { 2 } else { 50 };
                let fs: Vec<i64> = (0..size).map(|_| r.gen_range(0..fmax)).collect();
                let fb = if r.gen_bool(0.2) { 0 } else { r.gen_range(0..(fmax * 4)) };
                let op = if r.gen_bool(0.6) { "horizon" } else { "move" };
                run_case(&mut out, run, &xs, &fs, fb, op, args.seed() + run, -5.0, 35.0);
            }
        }
        other => panic!("unknown mode {other}"),
    }
    out.finish()
}
