//! Driver for spec module `Memory` (unit level of C05 / C06 / C07): individual-level operations,
//! the population helper traits, the evaluation step, best-individual update and the elitist archive,
//! executed on a real `State` holding one population of `TagProblem` individuals.
use std::sync::{
    atomic::{AtomicU32, Ordering},
    Arc,
};

use mahf::{
    components::{
        archive::{ElitistArchive, ElitistArchiveIntoPopulation, ElitistArchiveUpdate},
        evaluation::{BestIndividualUpdate, PopulationEvaluator},
    },
    identifier::A,
    population::{AsSolutions, AsSolutionsMut, IntoIndividuals, IntoSolutions},
    problems::{ObjectiveFunction, Parallel, Sequential},
    state::common::{Evaluations, Populations},
    Component, Configuration, ExecResult, Individual, State,
};
use rand::Rng;
use serde::Serialize;
use serde_json::{json, Value};

use crate::{
    tagproblem::TagProblem,
    util::{caught, read_ndjson, rng, Args, Out},
};

type P = TagProblem;
const INF: i64 = 1_000_000;

/// added to every finite value by the rank projection (table "FZ" holds 0.0 and -0.0; rank 0 means "no objective")
static RANK_SHIFT: std::sync::atomic::AtomicI64 = std::sync::atomic::AtomicI64::new(0);

fn rank(v: f64) -> i64 {
    if v == f64::INFINITY {
        INF
    } else {
        v as i64 + RANK_SHIFT.load(Ordering::Relaxed)
    }
}

fn proj_ind(i: &Individual<P>) -> Value {
    json!({"s": *i.solution(), "o": i.get_objective().map(|o| rank(o.value())).unwrap_or(0)})
}

fn project(state: &State<P>) -> (Value, Value, Value) {
    let pops = state.populations();
    let pop: Vec<Value> = pops.current().iter().map(proj_ind).collect();
    let best = state.best_individual().map(|b| proj_ind(&b)).unwrap_or(json!({"s": 0, "o": 0}));
    let arch: Vec<Value> = state.borrow::<ElitistArchive<P>>().elitists().iter().map(proj_ind).collect();
    (json!(pop), best, json!(arch))
}

#[derive(Clone, Serialize)]
struct CountLeaf {
    #[serde(skip)]
    n: Arc<AtomicU32>,
}
impl Component<P> for CountLeaf {
    fn execute(&self, _: &P, _: &mut State<P>) -> ExecResult<()> {
        self.n.fetch_add(1, Ordering::SeqCst);
        Ok(())
    }
}

fn r(k: &str, v: i64) -> Value {
    json!({"k": k, "v": v})
}

/// A user-written evaluator that probes the objective function once more per individual and accounts for its own
/// probes in the evaluation counter (the evaluation step adds the individuals it was given on top).
struct Probing;
impl mahf::problems::Evaluate for Probing {
    type Problem = P;
    fn evaluate(&mut self, problem: &P, state: &mut State<P>, individuals: &mut [Individual<P>]) {
        for i in individuals.iter_mut() {
            let _probe = problem.objective(i.solution());
            i.evaluate_with(|s| problem.objective(s));
        }
        if let Ok(mut e) = state.try_borrow_value_mut::<Evaluations>() {
            *e += individuals.len() as u32;
        }
    }
}

/// A user-written mutation operator (public `Mutation` trait) run through the `mutation()` helper: writes `s` into every
/// solution it is handed; at its `fail_at`-th call (1-based, 0 = never) it fails, either after having written
/// (`validate_first = false`: move, then check) or before touching the solution.
#[derive(Clone, Serialize)]
struct UserMutation {
    s: u32,
    fail_at: usize,
    validate_first: bool,
    #[serde(skip)]
    seen: Arc<AtomicU32>,
}
impl mahf::components::mutation::Mutation<P> for UserMutation {
    fn mutate(&self, solution: &mut u32, _: &P, _: &mut State<P>) -> ExecResult<()> {
        let k = self.seen.fetch_add(1, Ordering::SeqCst) as usize + 1;
        if k == self.fail_at && self.validate_first {
            return Err(eyre::eyre!("the step would leave the trust region"));
        }
        *solution = self.s;
        if k == self.fail_at {
            return Err(eyre::eyre!("left the trust region"));
        }
        Ok(())
    }
}
impl Component<P> for UserMutation {
    fn execute(&self, problem: &P, state: &mut State<P>) -> ExecResult<()> {
        mahf::components::mutation::mutation(self, problem, state)
    }
}

/// A user-written selection (member `i` twice) through the `selection()` helper, optionally failing.
#[derive(Clone, Serialize)]
struct UserSelection {
    i: usize,
    fail: bool,
}
impl mahf::components::selection::Selection<P> for UserSelection {
    fn select<'a>(&self, population: &'a [Individual<P>], _: &mut mahf::Random) -> ExecResult<Vec<&'a Individual<P>>> {
        if self.fail {
            return Err(eyre::eyre!("nothing to select"));
        }
        Ok(vec![&population[self.i], &population[self.i]])
    }
}
impl Component<P> for UserSelection {
    fn execute(&self, problem: &P, state: &mut State<P>) -> ExecResult<()> {
        mahf::components::selection::selection(self, problem, state)
    }
}

/// A user-written replacement (parents followed by offspring) through the `replacement()` helper, optionally failing
/// after it has been handed both populations.
#[derive(Clone, Serialize)]
struct UserReplacement {
    fail: bool,
}
impl mahf::components::replacement::Replacement<P> for UserReplacement {
    fn replace(&self, mut parents: Vec<Individual<P>>, offspring: Vec<Individual<P>>, _: &mut mahf::Random) -> ExecResult<Vec<Individual<P>>> {
        if self.fail {
            return Err(eyre::eyre!("no survivors"));
        }
        parents.extend(offspring);
        Ok(parents)
    }
}
impl Component<P> for UserReplacement {
    fn execute(&self, problem: &P, state: &mut State<P>) -> ExecResult<()> {
        mahf::components::replacement::replacement(self, problem, state)
    }
}

/// After a failing helper: 1 = the population(s) are still on the stack (several are merged into one, bottom first,
/// so that the record shows every individual that is still in the state), 0 = the stack lost them (an empty population
/// stands in, the driver goes on from there).
fn settle_stack(state: &mut State<'static, P>) -> i64 {
    let mut pops = state.populations_mut();
    if pops.len() == 0 {
        pops.push(Vec::new());
        return 0;
    }
    while pops.len() > 1 {
        let top = pops.pop();
        pops.current_mut().extend(top);
    }
    1
}

/// Registers an evaluator of `kind` (0 sequential, 1 parallel on the default pool, 4 probing) under identifier `I`.
fn register_as<I: mahf::identifier::Identifier>(state: &mut State<P>, kind: u32) {
    match kind {
        4 => state.insert_evaluator_as::<I>(Probing),
        1 => state.insert_evaluator_as::<I>(Parallel::<P>::new()),
        _ => state.insert_evaluator_as::<I>(Sequential::<P>::new()),
    }
}
/// The `state_init` of a `Scope` is a plain function pointer: one function per (identifier, kind).
fn scope_init<I: mahf::identifier::Identifier, const KIND: u32>(state: &mut State<P>) -> ExecResult<()> {
    register_as::<I>(state, KIND);
    Ok(())
}
fn scope_init_none(_: &mut State<P>) -> ExecResult<()> {
    Ok(())
}

/// Stores the evaluation counter visible where it runs.
#[derive(Clone, Serialize)]
struct PeekEvals {
    #[serde(skip)]
    seen: Arc<AtomicU32>,
}
impl Component<P> for PeekEvals {
    fn execute(&self, _: &P, state: &mut State<P>) -> ExecResult<()> {
        self.seen.store(state.try_get_value::<Evaluations>().unwrap_or(u32::MAX), Ordering::SeqCst);
        Ok(())
    }
}

fn comp(problem: &P, state: &mut State<'static, P>, c: Box<dyn Component<P>>) -> Value {
    match caught(|| c.execute(problem, state)) {
        Ok(Ok(())) => r("ok", 0),
        Ok(Err(_)) => r("err", 0),
        Err(_) => r("panic", 0),
    }
}

fn exec(problem: &P, state: &mut State<'static, P>, a: &Value, k: usize) -> Value {
    let op = a["op"].as_str().unwrap();
    let i = (a["i"].as_u64().unwrap() as usize).wrapping_sub(1);
    let s = a["s"].as_u64().unwrap() as u32;
    let guarded = |f: &mut dyn FnMut() -> i64| match caught(f) {
        Ok(v) => r("ok", v),
        Err(_) => r("panic", 0),
    };
    match op {
        "new" => guarded(&mut || {
            state.populations_mut().current_mut().push(Individual::new(s, problem.f(s).try_into().unwrap()));
            0
        }),
        "new_unevaluated" => guarded(&mut || {
            state.populations_mut().current_mut().push(Individual::new_unevaluated(s));
            0
        }),
        "clone" => guarded(&mut || {
            let mut pops = state.populations_mut();
            let c = pops.current()[i].clone();
            pops.current_mut().push(c);
            0
        }),
        "clone_from" => guarded(&mut || {
            let mut pops = state.populations_mut();
            let src = pops.current()[s as usize - 1].clone();
            pops.current_mut()[i].clone_from(&src);
            0
        }),
        "remove" => guarded(&mut || {
            state.populations_mut().current_mut().remove(i);
            0
        }),
        "solution_mut" => guarded(&mut || {
            *state.populations_mut().current_mut()[i].solution_mut() = s;
            0
        }),
        "solution_mut_peek" => guarded(&mut || {
            let _ = state.populations_mut().current_mut()[i].solution_mut();
            0
        }),
        "as_solutions_mut" => guarded(&mut || {
            let mut pops = state.populations_mut();
            let mut sols = pops.current_mut().as_solutions_mut();
            *sols[i] = s;
            0
        }),
        "as_solutions" => guarded(&mut || state.populations().current().as_solutions().len() as i64),
        "round_trip" => guarded(&mut || {
            let mut pops = state.populations_mut();
            let p = pops.pop();
            pops.push(p.into_solutions().into_individuals());
            0
        }),
        "evaluate_with" => guarded(&mut || {
            state.populations_mut().current_mut()[i].evaluate_with(|sol| problem.objective(sol));
            0
        }),
        "set_objective" => guarded(&mut || {
            let mut pops = state.populations_mut();
            let ind = &mut pops.current_mut()[i];
            let v = problem.f(*ind.solution()).try_into().unwrap();
            ind.set_objective(v) as i64
        }),
        "evaluate" => {
            // s = 0: sequential evaluator; s = 1..3: parallel evaluator inside a pool of s worker threads;
            // s = 4: a user-written evaluator that makes (and counts) one extra objective call per individual
            if s == 4 {
                state.insert_evaluator(Probing);
                comp(problem, state, PopulationEvaluator::new())
            } else if s >= 1 {
                state.insert_evaluator(Parallel::<P>::new());
                let pool = rayon::ThreadPoolBuilder::new().num_threads(s as usize).build().expect("rayon pool");
                pool.install(|| comp(problem, state, PopulationEvaluator::new()))
            } else {
                state.insert_evaluator(Sequential::<P>::new());
                comp(problem, state, PopulationEvaluator::new())
            }
        }
        "register" => guarded(&mut || {
            // i (0-based here): 0 insert_evaluator, 1 insert_evaluator_as::<Global>, 2 insert_evaluator_as::<A>
            match i {
                0 => match s {
                    4 => state.insert_evaluator(Probing),
                    1 => state.insert_evaluator(Parallel::<P>::new()),
                    _ => state.insert_evaluator(Sequential::<P>::new()),
                },
                1 => register_as::<mahf::identifier::Global>(state, s),
                _ => register_as::<A>(state, s),
            }
            0
        }),
        "evaluate_id" => {
            if i == 0 {
                comp(problem, state, PopulationEvaluator::<mahf::identifier::Global>::new_with())
            } else {
                comp(problem, state, PopulationEvaluator::<A>::new_with())
            }
        }
        "evaluate_scoped" => {
            use mahf::{components::Scope, identifier::Global};
            // body's identifier i (0 Global, 1 A); the scope's own state_init registers: 9 nothing, k kind k under the
            // same identifier, 10 + k kind k under the other identifier
            let same = i == 0;
            let init: fn(&mut State<P>) -> ExecResult<()> = match (s, same) {
                (0, true) | (10, false) => scope_init::<Global, 0>,
                (1, true) | (11, false) => scope_init::<Global, 1>,
                (4, true) | (14, false) => scope_init::<Global, 4>,
                (0, false) | (10, true) => scope_init::<A, 0>,
                (1, false) | (11, true) => scope_init::<A, 1>,
                (4, false) | (14, true) => scope_init::<A, 4>,
                _ => scope_init_none,
            };
            let counter = Arc::new(AtomicU32::new(0));
            let seen = Arc::new(AtomicU32::new(0));
            let before = Arc::new(AtomicU32::new(0));
            let b = Configuration::builder()
                .do_(Box::new(CountLeaf { n: counter.clone() }) as Box<dyn Component<P>>)
                .do_(Box::new(PeekEvals { seen: before.clone() }) as Box<dyn Component<P>>);
            let b = if i == 0 { b.evaluate_with::<Global>() } else { b.evaluate_with::<A>() };
            let body = b.do_(Box::new(PeekEvals { seen: seen.clone() }) as Box<dyn Component<P>>).build_component();
            let scope = Scope::new_with(init, body, |_, _| Ok(()));
            match caught(|| scope.execute(problem, state)) {
                // by how much the counter the body sees advanced over the step
                Ok(Ok(())) => r("ok", seen.load(Ordering::SeqCst) as i64 - before.load(Ordering::SeqCst) as i64),
                Ok(Err(_)) => r("err", counter.load(Ordering::SeqCst) as i64),
                Err(_) => r("panic", counter.load(Ordering::SeqCst) as i64),
            }
        }
        "evaluate_missing" => {
            // a configuration that asks for an evaluator identifier nobody registered, run on a copy;
            // placement s: 0 top level, 1 loop body, 2 if body, 3 else body (taken), 4 else body (not taken)
            use mahf::conditions::{LessThanN, RandomChance};
            let counter = Arc::new(AtomicU32::new(0));
            let leaf = || -> Box<dyn Component<P>> { Box::new(CountLeaf { n: counter.clone() }) };
            let b = Configuration::builder().do_(leaf());
            let b = match s {
                0 => b.evaluate_with::<A>(),
                1 => b.while_(LessThanN::iterations(1), |b| b.do_(leaf()).evaluate_with::<A>()),
                2 => b.if_(RandomChance::new(1.0), |b| b.do_(leaf()).evaluate_with::<A>()),
                3 => b.if_else_(RandomChance::new(0.0), |b| b.do_(leaf()), |b| b.do_(leaf()).evaluate_with::<A>()),
                _ => b.if_else_(RandomChance::new(1.0), |b| b.do_(leaf()), |b| b.do_(leaf()).evaluate_with::<A>()),
            };
            let config: Configuration<P> = b.do_(leaf()).build();
            let mut st2: State<P> = State::new();
            let mut pops = Populations::<P>::new();
            pops.push(state.populations().current().to_vec());
            st2.insert(pops);
            st2.insert(mahf::Random::new(1));
            st2.insert_evaluator(Sequential::<P>::new());
            match caught(|| config.run(problem, &mut st2)) {
                Ok(Ok(())) => r("ok", counter.load(Ordering::SeqCst) as i64),
                Ok(Err(_)) => r("err", counter.load(Ordering::SeqCst) as i64),
                Err(_) => r("panic", counter.load(Ordering::SeqCst) as i64),
            }
        }
        "evaluate_nested" => {
            // scope^s { evaluate }; evaluate   — the evaluator lives in the caller's state, s scopes further out
            fn nest(b: mahf::configuration::ConfigurationBuilder<P>, depth: u32) -> mahf::configuration::ConfigurationBuilder<P> {
                if depth == 0 {
                    b.evaluate()
                } else {
                    b.scope_(|b| nest(b, depth - 1))
                }
            }
            let config: Configuration<P> = nest(Configuration::builder(), s).evaluate().build();
            let counting = TagProblem::with_table(problem.table.clone());
            let mut st2: State<P> = State::new();
            let mut pops = Populations::<P>::new();
            pops.push(state.populations().current().to_vec());
            st2.insert(pops);
            st2.insert_evaluator(Sequential::<P>::new());
            match caught(|| config.run(&counting, &mut st2)) {
                Ok(Ok(())) => {
                    let all = st2.populations().current().iter().all(|i| i.is_evaluated());
                    let still_there = st2.contains::<mahf::state::common::Evaluator<P>>();
                    r(if all && still_there { "ok" } else { "ok_but_broken" }, counting.calls() as i64)
                }
                Ok(Err(_)) => r("err", counting.calls() as i64),
                Err(_) => r("panic", counting.calls() as i64),
            }
        }
        "user_mutation" | "user_mutation_v" => {
            let c = UserMutation { s, fail_at: i.wrapping_add(1), validate_first: op == "user_mutation_v", seen: Arc::new(AtomicU32::new(0)) };
            match caught(|| c.execute(problem, state)) {
                Ok(Ok(())) => r("ok", 0),
                Ok(Err(_)) => {
                    let kept = settle_stack(state);
                    r("err", kept)
                }
                Err(_) => r("panic", 0),
            }
        }
        "user_select_replace" => {
            // s = 0: both succeed; 1: the selection fails; 2: the replacement fails
            let sel = UserSelection { i, fail: s == 1 };
            let rep = UserReplacement { fail: s == 2 };
            let res = caught(|| -> ExecResult<()> {
                sel.execute(problem, state)?;
                rep.execute(problem, state)
            });
            match res {
                Ok(Ok(())) => r("ok", 0),
                Ok(Err(_)) => {
                    let kept = settle_stack(state);
                    r("err", kept)
                }
                Err(_) => r("panic", 0),
            }
        }
        "update_best" => comp(problem, state, BestIndividualUpdate::new()),
        "init_run" => {
            // what the init phase of a configuration holding these components does at the start of a run
            let res = caught(|| -> ExecResult<()> {
                PopulationEvaluator::new::<P>().init(problem, state)?;
                BestIndividualUpdate::new::<P>().init(problem, state)?;
                ElitistArchiveUpdate::new::<P>(k).init(problem, state)
            });
            match res {
                Ok(Ok(())) => r("ok", 0),
                Ok(Err(_)) => r("err", 0),
                Err(_) => r("panic", 0),
            }
        }
        "archive_update" => comp(problem, state, ElitistArchiveUpdate::new(k)),
        "archive_into_population" => comp(problem, state, ElitistArchiveIntoPopulation::new()),
        other => panic!("unknown op {other}"),
    }
}

fn fresh_state(problem: &P, k: usize) -> State<'static, P> {
    let mut state: State<P> = State::new();
    let mut pops = Populations::<P>::new();
    pops.push(Vec::new());
    state.insert(pops);
    state.insert(mahf::Random::new(1));
    state.insert_evaluator(Sequential::<P>::new());
    // the components' own init calls create Evaluations / BestIndividual / ElitistArchive
    PopulationEvaluator::new::<P>().init(problem, &mut state).unwrap();
    BestIndividualUpdate::new::<P>().init(problem, &mut state).unwrap();
    ElitistArchiveUpdate::new::<P>(k).init(problem, &mut state).unwrap();
    state
}

fn act(op: &str, i: usize, s: u32) -> Value {
    json!({"op": op, "i": i, "s": s})
}

fn record(run: u64, idx: usize, a: &Value, res: Value, problem: &P, state: &State<P>) -> Value {
    let (pop, best, arch) = project(state);
    json!({"run": run, "i": idx, "act": a, "res": res, "pop": pop, "best": best, "arch": arch,
           "evals": state.get_value::<Evaluations>(), "calls": problem.calls()})
}

fn table(name: &str) -> Vec<f64> {
    match name {
        // index = tag; tag 0 unused
        "FQ" => vec![0.0, 2.0, 1.0, 2.0],
        // with the two zeros: equal as objective values, different bit patterns (ranks are shifted by one)
        "FZ" => vec![0.0, 2.0, 1.0, 2.0, f64::INFINITY, 3.0, 1.0, 0.0, -0.0],
        _ => vec![0.0, 2.0, 1.0, 2.0, f64::INFINITY, 3.0, 1.0],
    }
}

pub fn main(args: &Args) -> usize {
    let k = args.num("k", 2) as usize;
    let tname = args.get("table").unwrap_or("FQ").to_string();
    RANK_SHIFT.store(if tname == "FZ" { 1 } else { 0 }, Ordering::Relaxed);
    let mut out = Out::create(&args.str("out"));
    let reset = |run: u64| json!({"run": run, "act": act("reset", 0, 0), "res": r("ok", 0), "pop": [], "best": {"s": 0, "o": 0},
                                  "arch": [], "evals": 0, "calls": 0});
    match args.mode.as_str() {
        "replay" => {
            for sc in read_ndjson(&args.str("in")) {
                let run = sc["run"].as_u64().unwrap();
                let problem = TagProblem::with_table(table(&tname));
                let mut state = fresh_state(&problem, k);
                out.emit(&reset(run));
                for (idx, a) in sc["acts"].as_array().unwrap().iter().enumerate() {
                    let res = exec(&problem, &mut state, a, k);
                    out.emit(&record(run, idx, a, res, &problem, &state));
                }
            }
        }
        "random" => {
            let runs = args.num("n", 20);
            let len = args.num("len", 500);
            let nsols = table(&tname).len() as u32 - 1;
            for run in 0..runs {
                let mut rng = rng(args.seed(), run);
                let problem = TagProblem::with_table(table(&tname));
                let mut state = fresh_state(&problem, k);
                out.emit(&reset(run));
                for idx in 0..len {
                    let n = state.populations().current().len();
                    let all_eval = state.populations().current().iter().all(|i| i.is_evaluated());
                    let narch = state.borrow::<ElitistArchive<P>>().elitists().len();
                    let s = rng.gen_range(1..=nsols);
                    let a = loop {
                        let pick = rng.gen_range(0..120);
                        let i = if n > 0 { rng.gen_range(1..=n) } else { 0 };
                        break match pick {
                            0..=11 if n < 12 => act("new", 0, s),
                            12..=19 if n < 12 => act("new_unevaluated", 0, s),
                            20..=22 if n > 0 && n < 12 => act("clone", i, 0),
                            23..=25 if n > 1 => {
                                let j = loop {
                                    let j = rng.gen_range(1..=n);
                                    if j != i {
                                        break j;
                                    }
                                };
                                act("clone_from", i, j as u32)
                            }
                            26..=33 if n > 0 => act("remove", i, 0),
                            34..=40 if n > 0 => act("solution_mut", i, s),
                            41..=43 if n > 0 => act("solution_mut_peek", i, 0),
                            44..=48 if n > 0 => act("as_solutions_mut", i, s),
                            49..=50 => act("as_solutions", 0, 0),
                            51..=53 => act("round_trip", 0, 0),
                            54..=58 if n > 0 => act("evaluate_with", i, 0),
                            59..=62 if n > 0 => act("set_objective", i, 0),
                            63..=74 => act("evaluate", 0, rng.gen_range(0..5)),   // incl. the probing evaluator (4)
                            75 => act("evaluate_missing", 0, rng.gen_range(0..5)),
                            76 => act("evaluate_nested", 0, rng.gen_range(1..4)),
                            77..=85 if all_eval => act("update_best", 0, 0),
                            86 => act("init_run", 0, 0),
                            100..=104 if n > 0 => act(if rng.gen_bool(0.5) { "user_mutation" } else { "user_mutation_v" }, rng.gen_range(0..=n), s),
                            105..=107 if n > 0 && n < 11 => act("user_select_replace", i, rng.gen_range(0..3)),
                            108..=111 => act("register", rng.gen_range(1..=3), [0, 1, 4][rng.gen_range(0..3)]),
                            112..=115 => {
                                let id = rng.gen_range(1..=2);
                                if id == 2 && !state.contains::<mahf::state::common::Evaluator<P, A>>() {
                                    continue;
                                }
                                act("evaluate_id", id, 0)
                            }
                            116..=119 => act("evaluate_scoped", rng.gen_range(1..=2), [9, 0, 1, 4, 10, 11, 14][rng.gen_range(0..7)]),
                            87..=94 if all_eval => act("archive_update", 0, 0),
                            95..=99 if n + narch < 14 => act("archive_into_population", 0, 0),
                            _ => continue,
                        };
                    };
                    let res = exec(&problem, &mut state, &a, k);
                    out.emit(&record(run, idx as usize, &a, res, &problem, &state));
                }
            }
        }
        other => panic!("unknown mode {other}"),
    }
    out.finish()
}
