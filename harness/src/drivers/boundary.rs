//! Driver for spec module `Boundary` (C14): executes the initialisation and boundary-repair
//! components through `Component::{init, require, execute}` on a real `State` holding a
//! population stack, and records one event per execution: the call, the reply, the per-coordinate
//! "bit-identical" mask, and the whole projected population stack.
//!
//! Projection of a real coordinate relative to the domain `[lo, hi]` of its dimension (P-class):
//! `below | at_lo | inside | at_hi | above`, `below_r`/`above_r` when outside by no more than
//! `8 eps max(|lo|,|hi|)`, `far_below`/`far_above` beyond 1e15 widths, `nan | posinf | neginf`; plus the lattice index `k` with
//! `x == lo + k*(hi-lo)/8` exactly — only for dyadic domains, where the mapping and the code's
//! arithmetic are exact.  Integer / Boolean genes are logged as `{"c":"int","k":value}`.
//!
//! Every run executes on its own thread; the recording thread waits for each event under a
//! watchdog.  A component that does not return is logged as reply `timeout` (the thread is
//! abandoned), a panic as `panic`, an `Err` as `err` — data for TLC, not failures of the harness.
use std::{
    sync::mpsc::{channel, RecvTimeoutError, Sender},
    thread,
    time::Duration,
};

use mahf::{
    components::{
        boundary::{CompleteOneTailedNormalCorrection, Mirror, Saturation, Toroidal},
        initialization::{Empty, RandomBitstring, RandomPermutation, RandomSpread},
    },
    state::common::Populations,
    Component, Individual, Problem, Random, State,
};
use rand::{seq::SliceRandom, Rng};
use rand_chacha::ChaCha8Rng;
use serde_json::{json, Value};

use crate::{
    problems::{BitProblem, PermProblem, RealProblem},
    util::{caught, read_ndjson, rng, Args, Out},
};

const NOK: i64 = 999_999;
const NON: i64 = 999_999;
const KMAX: f64 = 600.0;
const MAX_TIMEOUTS: usize = 12;
const FAR_WIDTHS: f64 = 1e15;

/// Domains with dyadic bounds and power-of-two width: lattice points and the code's arithmetic on
/// them are exact.
const DYADIC: [(f64, f64); 4] = [(-1.0, 1.0), (0.0, 4.0), (-4.0, 12.0), (0.5, 0.75)];
const OTHER: [(f64, f64); 7] =
    [(0.1, 0.3), (-5.12, 5.12), (1e-3, 1e3), (-1e6, -1e5), (-0.3, 0.7), (100.0, 100.5), (-1e-7, 3e-7)];

fn is_dyadic(d: (f64, f64)) -> bool {
    DYADIC.iter().any(|x| x.0.to_bits() == d.0.to_bits() && x.1.to_bits() == d.1.to_bits())
}

// ------------------------------------------------------------------------------------------------
// projections

fn coord(c: &str, k: i64) -> Value {
    json!({"c": c, "k": k})
}

fn project_real(lo: f64, hi: f64, lattice: bool, x: f64) -> Value {
    if x.is_nan() {
        return coord("nan", NOK);
    }
    if x == f64::INFINITY {
        return coord("posinf", NOK);
    }
    if x == f64::NEG_INFINITY {
        return coord("neginf", NOK);
    }
    let tol = 8.0 * f64::EPSILON * lo.abs().max(hi.abs());
    // farther away than 1e15 widths: the width is below the resolution of the float
    let far = (hi - lo) * FAR_WIDTHS;
    let c = if x < lo {
        if lo - x <= tol {
            "below_r"
        } else if lo - x > far {
            "far_below"
        } else {
            "below"
        }
    } else if x == lo {
        "at_lo"
    } else if x < hi {
        "inside"
    } else if x == hi {
        "at_hi"
    } else if x - hi <= tol {
        "above_r"
    } else if x - hi > far {
        "far_above"
    } else {
        "above"
    };
    let k = match c {
        "at_lo" => 0,
        "at_hi" => 8,
        "below_r" | "above_r" => NOK,
        _ if lattice => {
            let w = hi - lo;
            let t = (x - lo) / w * 8.0;
            if t.is_finite() && t.fract() == 0.0 && t.abs() <= KMAX && lo + t * (w / 8.0) == x {
                t as i64
            } else {
                NOK
            }
        }
        _ => NOK,
    };
    coord(c, k)
}

/// What the driver needs from a problem type: projection of a solution, its raw bits.
trait Proj: Problem + Clone + Send + Sync + 'static {
    fn project(&self, sol: &Self::Encoding) -> Vec<Value>;
    fn bits(sol: &Self::Encoding) -> Vec<u64>;
    fn component(&self, op: &str, n: u32, prob: f64) -> Option<Box<dyn Component<Self>>>;
    /// concrete solution for an abstract prepared individual (replay) or raw bits (random mode)
    fn concretize(&self, abstract_x: &[Value], raw: Option<&Vec<Value>>) -> Self::Encoding;
    /// some legal objective value for a prepared, already evaluated individual
    fn any_objective(&self, _sol: &Self::Encoding) -> Self::Objective;
}

impl Proj for RealProblem {
    fn any_objective(&self, _sol: &Self::Encoding) -> Self::Objective {
        1.5.try_into().unwrap()
    }
    fn project(&self, sol: &Vec<f64>) -> Vec<Value> {
        sol.iter()
            .enumerate()
            .map(|(j, x)| match self.domain.get(j) {
                Some(r) => project_real(r.start, r.end, is_dyadic((r.start, r.end)), *x),
                None => coord("nodomain", NOK),
            })
            .collect()
    }
    fn bits(sol: &Vec<f64>) -> Vec<u64> {
        sol.iter().map(|x| x.to_bits()).collect()
    }
    fn component(&self, op: &str, n: u32, _prob: f64) -> Option<Box<dyn Component<Self>>> {
        Some(match op {
            "saturation" => Saturation::new::<Self>(),
            "toroidal" => Toroidal::new::<Self>(),
            "mirror" => Mirror::new::<Self>(),
            "cotnc" => CompleteOneTailedNormalCorrection::new::<Self>(),
            "empty" => Empty::new::<Self>(),
            "random_spread" => RandomSpread::new::<Self, f64>(n),
            _ => return None,
        })
    }
    fn concretize(&self, abstract_x: &[Value], raw: Option<&Vec<Value>>) -> Vec<f64> {
        if let Some(raw) = raw {
            return raw.iter().map(|b| f64::from_bits(b.as_str().unwrap().parse::<u64>().unwrap())).collect();
        }
        abstract_x
            .iter()
            .enumerate()
            .map(|(j, c)| {
                let (lo, hi) = (self.domain[j].start, self.domain[j].end);
                let w = hi - lo;
                let k = c["k"].as_i64().unwrap();
                if k != NOK {
                    lo + (k as f64) * (w / 8.0)
                } else {
                    // a representative that is not a lattice point
                    match c["c"].as_str().unwrap() {
                        "below" => lo - 0.3 * w,
                        "above" => hi + 0.3 * w,
                        "far_below" => -f64::MAX / 2.0,
                        "far_above" => f64::MAX / 2.0,
                        "below_r" => next_down(lo),
                        "above_r" => next_up(hi),
                        _ => lo + 0.3 * w,
                    }
                }
            })
            .collect()
    }
}

impl Proj for PermProblem {
    fn any_objective(&self, _sol: &Self::Encoding) -> Self::Objective {
        1.5.try_into().unwrap()
    }
    fn project(&self, sol: &Vec<usize>) -> Vec<Value> {
        sol.iter().map(|x| coord("int", *x as i64)).collect()
    }
    fn bits(sol: &Vec<usize>) -> Vec<u64> {
        sol.iter().map(|x| *x as u64).collect()
    }
    fn component(&self, op: &str, n: u32, _prob: f64) -> Option<Box<dyn Component<Self>>> {
        Some(match op {
            "empty" => Empty::new::<Self>(),
            "random_permutation" => RandomPermutation::new::<Self>(n),
            _ => return None,
        })
    }
    fn concretize(&self, _abstract_x: &[Value], _raw: Option<&Vec<Value>>) -> Vec<usize> {
        unreachable!("prepared populations exist for real-valued problems only")
    }
}

impl Proj for BitProblem {
    fn any_objective(&self, _sol: &Self::Encoding) -> Self::Objective {
        1.5.try_into().unwrap()
    }
    fn project(&self, sol: &Vec<bool>) -> Vec<Value> {
        sol.iter().map(|x| coord("int", *x as i64)).collect()
    }
    fn bits(sol: &Vec<bool>) -> Vec<u64> {
        sol.iter().map(|x| *x as u64).collect()
    }
    fn component(&self, op: &str, n: u32, prob: f64) -> Option<Box<dyn Component<Self>>> {
        Some(match op {
            "empty" => Empty::new::<Self>(),
            "random_bitstring" => RandomBitstring::new::<Self>(n, prob),
            _ => return None,
        })
    }
    fn concretize(&self, _abstract_x: &[Value], _raw: Option<&Vec<Value>>) -> Vec<bool> {
        unreachable!("prepared populations exist for real-valued problems only")
    }
}

fn next_up(x: f64) -> f64 {
    x.next_up()
}
fn next_down(x: f64) -> f64 {
    x.next_down()
}

fn project_pop<P: Proj>(problem: &P, pop: &[Individual<P>]) -> Value {
    Value::Array(
        pop.iter()
            .map(|ind| json!({"ev": ind.is_evaluated() as i64, "x": problem.project(ind.solution())}))
            .collect(),
    )
}

fn project_stack<P: Proj>(problem: &P, state: &State<P>) -> Value {
    let pops = state.populations();
    let n = pops.len();
    Value::Array((0..n).rev().map(|depth| project_pop(problem, pops.peek(depth))).collect())
}

fn top_bits<P: Proj>(state: &State<P>) -> Vec<Vec<u64>> {
    let pops = state.populations();
    match pops.get_current() {
        Some(p) => p.iter().map(|ind| P::bits(ind.solution())).collect(),
        None => Vec::new(),
    }
}

fn clean_act(a: &Value, p: Value) -> Value {
    json!({"op": a["op"], "n": a["n"], "p": p})
}

// ------------------------------------------------------------------------------------------------
// one run on its own thread

enum Msg {
    Event(Value, Value), // record, projected stack
    Done,
}

fn worker<P: Proj>(problem: P, run: u64, kind: String, acts: Vec<Value>, seed: u64, tx: Sender<Msg>) {
    let mut state: State<P> = State::new();
    state.insert(Populations::<P>::new());
    state.insert(Random::new(seed));
    for (i, a) in acts.iter().enumerate() {
        let op = a["op"].as_str().unwrap().to_string();
        let n = a["n"].as_i64().unwrap();
        let mut p = json!([]);
        let mut u = json!([]);
        let k: &str;
        if op == "set_pop" {
            let raw = a.get("raw").and_then(|r| r.as_array());
            let pop: Vec<Individual<P>> = a["p"]
                .as_array()
                .unwrap()
                .iter()
                .enumerate()
                .map(|(idx, ind)| {
                    let r = raw.map(|r| r[idx].as_array().unwrap());
                    let sol = problem.concretize(ind["x"].as_array().unwrap(), r);
                    if ind["ev"].as_i64() == Some(1) {
                        // repair after evaluation: the individual already carries an objective value
                        let obj = problem.any_objective(&sol);
                        Individual::new(sol, obj)
                    } else {
                        Individual::new_unevaluated(sol)
                    }
                })
                .collect();
            p = project_pop(&problem, &pop);
            state.populations_mut().push(pop);
            k = "ok";
        } else {
            let prob = a.get("prob").and_then(|x| x.as_f64()).unwrap_or(0.5);
            let size = if n == NON { 0 } else { n as u32 };
            match problem.component(&op, size, prob) {
                None => k = "unsupported",
                Some(c) => {
                    let before = top_bits(&state);
                    let out = caught(|| {
                        c.init(&problem, &mut state)?;
                        c.require(&problem, &state.requirements())?;
                        c.execute(&problem, &mut state)
                    });
                    k = match out {
                        Ok(Ok(())) => "ok",
                        Ok(Err(_)) => "err",
                        Err(_) => "panic",
                    };
                    if matches!(op.as_str(), "saturation" | "toroidal" | "mirror" | "cotnc") {
                        let after = top_bits(&state);
                        u = Value::Array(
                            after
                                .iter()
                                .enumerate()
                                .map(|(i, ind)| {
                                    Value::Array(
                                        ind.iter()
                                            .enumerate()
                                            .map(|(j, b)| {
                                                let same = before.get(i).and_then(|x| x.get(j)).map(|o| o == b).unwrap_or(false);
                                                json!(same as i64)
                                            })
                                            .collect(),
                                    )
                                })
                                .collect(),
                        );
                    }
                }
            }
        }
        let stack = project_stack(&problem, &state);
        let rec = json!({"run": run, "i": i, "kind": kind, "act": clean_act(a, p), "res": {"k": k, "u": u}, "stack": stack});
        if tx.send(Msg::Event(rec, stack.clone())).is_err() {
            return;
        }
    }
    let _ = tx.send(Msg::Done);
}

struct RunSpec {
    run: u64,
    kind: String,
    dom: Vec<(f64, f64)>,
    dim: usize,
    acts: Vec<Value>,
    seed: u64,
}

/// Executes one run under the watchdog; returns true if a component hung.
fn execute(spec: RunSpec, out: &mut Out, watchdog: Duration) -> bool {
    let dom_txt: Vec<String> = spec.dom.iter().map(|d| format!("{:?}:{:?}", d.0, d.1)).collect();
    out.emit(&json!({"run": spec.run, "i": -1, "kind": spec.kind, "dom": dom_txt, "seed": spec.seed.to_string(),
                     "act": {"op": "reset", "n": spec.dim, "p": []}, "res": {"k": "ok", "u": []}, "stack": []}));
    let (tx, rx) = channel();
    let acts = spec.acts.clone();
    let (run, kind, seed) = (spec.run, spec.kind.clone(), spec.seed);
    match spec.kind.as_str() {
        "real" => {
            let p = RealProblem::new(spec.dom.clone());
            thread::spawn(move || worker(p, run, kind, acts, seed, tx));
        }
        "perm" => {
            let p = PermProblem { dim: spec.dim };
            thread::spawn(move || worker(p, run, kind, acts, seed, tx));
        }
        "bits" => {
            let p = BitProblem { dim: spec.dim };
            thread::spawn(move || worker(p, run, kind, acts, seed, tx));
        }
        other => panic!("unknown kind {other}"),
    }
    let mut received = 0usize;
    let mut last_stack = json!([]);
    loop {
        match rx.recv_timeout(watchdog) {
            Ok(Msg::Event(rec, stack)) => {
                out.emit(&rec);
                last_stack = stack;
                received += 1;
            }
            Ok(Msg::Done) => return false,
            Err(e) => {
                // the pending call did not return (or its thread died outside catch_unwind)
                let k = if matches!(e, RecvTimeoutError::Timeout) { "timeout" } else { "panic" };
                if let Some(a) = spec.acts.get(received) {
                    out.emit(&json!({"run": spec.run, "i": received, "kind": spec.kind, "act": clean_act(a, json!([])),
                                     "res": {"k": k, "u": []}, "stack": last_stack}));
                }
                return k == "timeout";
            }
        }
    }
}

// ------------------------------------------------------------------------------------------------
// random runs

fn fbits(x: f64) -> Value {
    json!(x.to_bits().to_string())
}

fn random_coordinate(rng: &mut ChaCha8Rng, lo: f64, hi: f64) -> f64 {
    let w = hi - lo;
    match rng.gen_range(0..12) {
        0 => *[lo, hi].choose(rng).unwrap(),
        1 => *[next_up(lo), next_down(lo), next_up(hi), next_down(hi)].choose(rng).unwrap(),
        2 | 3 => {
            let m = *[1.0, -1.0, 2.0, -2.0, 3.0, -3.0, 0.5, -0.5, 1.5, -1.5, 0.25, -0.25, 7.75, -7.75, 64.0, -64.0,
                      1000.5, -1000.5, 1e6, -1e6, 0.125, 8.0, -8.0, 9.0]
                .choose(rng)
                .unwrap();
            lo + m * w
        }
        4 => hi + (rng.gen_range(1..=40) as f64) * w,
        5 => lo - (rng.gen_range(1..=40) as f64) * w,
        6 | 7 => rng.gen_range((lo - 3.0 * w)..(hi + 3.0 * w)),
        8 => lo + rng.gen_range(0.0..1.0) * w,
        9 => {
            let mag = 10f64.powf(rng.gen_range(-3.0..6.0)) * w;
            lo + if rng.gen_bool(0.5) { mag } else { -mag }
        }
        10 => lo + (rng.gen_range(-512i64..=520) as f64) * (w / 8.0),
        _ => lo + (rng.gen_range(-16i64..=24) as f64) * (w / 8.0),
    }
}

fn random_real_run(run: u64, seed: u64, rng: &mut ChaCha8Rng) -> RunSpec {
    let dim = *[1usize, 1, 2, 3, 4, 5, 0].choose(rng).unwrap();
    let all_dyadic = rng.gen_bool(0.4);
    let dom: Vec<(f64, f64)> = (0..dim)
        .map(|_| if all_dyadic || rng.gen_bool(0.3) { *DYADIC.choose(rng).unwrap() } else { *OTHER.choose(rng).unwrap() })
        .collect();
    let n = rng.gen_range(0..=4usize);
    let raw: Vec<Vec<f64>> = (0..n).map(|_| dom.iter().map(|d| random_coordinate(rng, d.0, d.1)).collect()).collect();
    let mut acts = Vec::new();
    if rng.gen_bool(0.2) {
        acts.push(json!({"op": "random_spread", "n": rng.gen_range(0..=6), "p": []}));
    }
    acts.push(json!({"op": "set_pop", "n": NON,
        "p": raw.iter().map(|ind| json!({"ev": rng.gen_range(0..2), "x": ind.iter().map(|_| coord("raw", NOK)).collect::<Vec<_>>()})).collect::<Vec<_>>(),
        "raw": raw.iter().map(|ind| ind.iter().map(|x| fbits(*x)).collect::<Vec<_>>()).collect::<Vec<_>>()}));
    let ops = ["saturation", "toroidal", "mirror", "cotnc"];
    for _ in 0..rng.gen_range(1..=3) {
        let op = *ops.choose(rng).unwrap();
        acts.push(json!({"op": op, "n": NON, "p": []}));
        if rng.gen_bool(0.5) {
            acts.push(json!({"op": op, "n": NON, "p": []})); // again: idempotence
        }
    }
    if rng.gen_bool(0.2) {
        acts.push(json!({"op": "random_spread", "n": rng.gen_range(0..=6), "p": []}));
        acts.push(json!({"op": *ops.choose(rng).unwrap(), "n": NON, "p": []}));
    }
    RunSpec { run, kind: "real".into(), dom, dim, acts, seed }
}

fn random_init_run(run: u64, seed: u64, rng: &mut ChaCha8Rng) -> RunSpec {
    let kind = *["real", "perm", "bits"].choose(rng).unwrap();
    let dim = if rng.gen_bool(0.2) { *[0usize, 1, 20].choose(rng).unwrap() } else { rng.gen_range(0..=20) };
    let dom: Vec<(f64, f64)> = if kind == "real" {
        (0..dim).map(|_| if rng.gen_bool(0.5) { *DYADIC.choose(rng).unwrap() } else { *OTHER.choose(rng).unwrap() }).collect()
    } else {
        Vec::new()
    };
    let op = match kind {
        "real" => "random_spread",
        "perm" => "random_permutation",
        _ => "random_bitstring",
    };
    let mut acts = Vec::new();
    for _ in 0..rng.gen_range(1..=2) {
        let n = if rng.gen_bool(0.25) { *[0i64, 1, 50].choose(rng).unwrap() } else { rng.gen_range(0..=50) };
        let prob = *[0.0, 0.5, 1.0, 0.1, 0.9].choose(rng).unwrap();
        acts.push(json!({"op": op, "n": n, "p": [], "prob": prob}));
        if rng.gen_bool(0.2) {
            acts.push(json!({"op": "empty", "n": NON, "p": []}));
        }
    }
    RunSpec { run, kind: kind.into(), dom, dim, acts, seed }
}

fn parse_domains(s: &str) -> Vec<(f64, f64)> {
    s.split(',')
        .filter(|t| !t.is_empty())
        .map(|t| {
            let (a, b) = t.split_once(':').expect("lo:hi");
            (a.parse().unwrap(), b.parse().unwrap())
        })
        .collect()
}

pub fn main(args: &Args) -> usize {
    let mut out = Out::create(&args.str("out"));
    let watchdog = Duration::from_millis(args.num("watchdog-ms", 2000));
    let mut timeouts = 0usize;
    let max_timeouts = args.num("max-timeouts", MAX_TIMEOUTS as u64) as usize;
    match args.mode.as_str() {
        // scenarios {"run", "kind", "dim", "acts"}; a real-valued scenario is executed once per
        // rotation of the domain list (dimension j lives in domain (j + rotation) mod len)
        "replay" => {
            let doms = args.get("domains").map(parse_domains).unwrap_or_else(|| DYADIC.to_vec());
            let rot = args.num("rot", 1) as usize;
            let mut run = 0u64;
            'outer: for sc in read_ndjson(&args.str("in")) {
                let kind = sc["kind"].as_str().unwrap().to_string();
                let dim = sc["dim"].as_u64().unwrap() as usize;
                let acts = sc["acts"].as_array().unwrap().clone();
                let fixed = sc.get("dom").and_then(|d| d.as_array());
                let rots = if kind == "real" && fixed.is_none() { rot } else { 1 };
                for r in 0..rots {
                    let dom: Vec<(f64, f64)> = match (kind.as_str(), fixed) {
                        ("real", Some(d)) => parse_domains(&d.iter().map(|x| x.as_str().unwrap()).collect::<Vec<_>>().join(",")),
                        ("real", None) => (0..dim).map(|j| doms[(j + r) % doms.len()]).collect(),
                        _ => Vec::new(),
                    };
                    let seed = sc.get("seed").and_then(|s| s.as_str()).map(|s| s.parse().unwrap()).unwrap_or(args.seed() + run);
                    let spec = RunSpec { run, kind: kind.clone(), dom, dim, acts: acts.clone(), seed };
                    if execute(spec, &mut out, watchdog) {
                        timeouts += 1;
                        if timeouts >= max_timeouts {
                            break 'outer;
                        }
                    }
                    run += 1;
                }
            }
        }
        "random" => {
            let n_real = args.num("n", 60);
            let n_init = args.num("n-init", 30);
            for run in 0..(n_real + n_init) {
                let mut g = rng(args.seed(), run);
                let seed = args.seed().wrapping_mul(1_000_003).wrapping_add(run);
                let spec = if run < n_real { random_real_run(run, seed, &mut g) } else { random_init_run(run, seed, &mut g) };
                if execute(spec, &mut out, watchdog) {
                    timeouts += 1;
                    if timeouts >= max_timeouts {
                        break;
                    }
                }
            }
        }
        other => panic!("unknown mode {other}"),
    }
    if timeouts > 0 {
        eprintln!("{timeouts} component executions did not return within the watchdog");
    }
    // abandoned threads may still be spinning; they end with the process
    out.finish()
}
