//! Driver for spec module `Boundary` (C14): executes the initialisation and boundary-repair
//! components through `Component::{init, require, execute}` on a real `State` holding a
//! population stack, and records one event per execution: the call, the reply, the per-coordinate
//! "bit-identical" mask, and the whole projected population stack.
//!
//! Projection of a real coordinate relative to the domain `[lo, hi]` of its dimension (P-class):
//! `below | at_lo | inside | at_hi | above`, `below_r`/`above_r` when outside by no more than
//! `8 eps max(|lo|,|hi|)`, `far_below`/`far_above` beyond 1e15 widths, `nan | posinf | neginf`; plus the lattice index `k` with
//! `x == lo + k*(hi-lo)/8` exactly — only for dyadic domains, where the mapping and the code's
//! arithmetic are exact.  Integer / Boolean genes are logged as `{"c":"int","k":value}`.
//!
//! Every run executes on its own thread; the recording thread waits for each event under a
//! watchdog.  A component that does not return is logged as reply `timeout` (the thread is
//! abandoned), a panic as `panic`, an `Err` as `err` — data for TLC, not failures of the harness.
use std::{
    sync::mpsc::{channel, RecvTimeoutError, Sender},
    thread,
    time::Duration,
};

use mahf::{
    components::{
        boundary::{CompleteOneTailedNormalCorrection, Mirror, Saturation, Toroidal},
        initialization::{functional, Empty, Initialization, RandomBitstring, RandomPermutation, RandomSpread},
    },
    state::common::Populations,
    Component, Individual, Problem, Random, State,
};
use rand::{seq::SliceRandom, Rng};
use rand_chacha::ChaCha8Rng;
use serde_json::{json, Value};

use crate::{
    problems::{BitProblem, PermProblem, RealProblem},
    util::{caught, read_ndjson, rng, Args, Out},
};

const NOK: i64 = 999_999;
const NON: i64 = 999_999;
const KMAX: f64 = 600.0;
const MAX_TIMEOUTS: usize = 12;
const FAR_WIDTHS: f64 = 1e15;

/// Domains with dyadic bounds and power-of-two width: lattice points and the code's arithmetic on
/// them are exact.
const DYADIC: [(f64, f64); 4] = [(-1.0, 1.0), (0.0, 4.0), (-4.0, 12.0), (0.5, 0.75)];
const OTHER: [(f64, f64); 7] =
    [(0.1, 0.3), (-5.12, 5.12), (1e-3, 1e3), (-1e6, -1e5), (-0.3, 0.7), (100.0, 100.5), (-1e-7, 3e-7)];

/// More domains of that kind, for heterogeneous domain lists of a given SHAPE: a common lower
/// bound with different upper bounds (positive and negative), a common upper bound with different
/// lower bounds, ranges below zero / across zero, width ratios from 1/16 to 16.
const DYADIC_MORE: [(f64, f64); 16] = [
    (0.0, 1.0),
    (0.0, 0.5),
    (0.0, 2.0),
    (0.0, 8.0),
    (-4.0, 0.0),
    (-1.0, 0.0),
    (-0.5, 0.0),
    (-2.0, 0.0),
    (-4.0, -2.0),
    (-4.0, -3.0),
    (-4.0, -3.5),
    (-4.0, 4.0),
    (-8.0, 8.0),
    (-0.25, 0.25),
    (-2.0, 2.0),
    (-4.0, -3.75),
];

fn is_dyadic(d: (f64, f64)) -> bool {
    DYADIC.iter().chain(DYADIC_MORE.iter()).any(|x| x.0.to_bits() == d.0.to_bits() && x.1.to_bits() == d.1.to_bits())
}

/// Families of domain lists (`dim >= 1` dimensions), by the relation between the dimensions.
const SHAPES: [&str; 8] = ["indep", "eq_lo", "eq_hi", "narrowing", "widening", "signs", "homog", "dyadic"];

/// A domain list of family `shape`.  Width ratios between the dimensions reach from 1e-3 to 1e3.
///  indep     every dimension drawn independently from the fixed tables
///  eq_lo     one lower bound for all, upper bounds differ (the first is the widest, the
///            narrowest, or anything)
///  eq_hi     one upper bound for all, lower bounds differ
///  narrowing every later dimension is strictly inside the first / the previous one
///  widening  ... strictly contains the previous one
///  signs     ranges below zero, across zero and above zero mixed, bounds of both signs
///  homog     the same range in every dimension
///  dyadic    shaped lists over dyadic ranges (the lattice projection applies)
fn shaped_domain(rng: &mut ChaCha8Rng, shape: &str, dim: usize) -> Vec<(f64, f64)> {
    const RATIOS: [f64; 11] = [1e-3, 0.01, 0.1, 0.25, 0.5, 1.0, 2.0, 4.0, 10.0, 100.0, 1e3];
    const ANCHORS: [f64; 9] = [0.0, 0.0, -5.0, 3.0, -1e-3, 100.0, -0.3, 1e3, -1e4];
    let table = |rng: &mut ChaCha8Rng| {
        if rng.gen_bool(0.4) {
            *DYADIC.choose(rng).unwrap()
        } else {
            *OTHER.choose(rng).unwrap()
        }
    };
    if dim == 0 {
        return Vec::new();
    }
    // widths: a base width times one ratio per dimension, in the order `order`
    let widths = |rng: &mut ChaCha8Rng| -> Vec<f64> {
        let base = *[1.0, 0.1, 7.5, 1e-3, 40.0].choose(rng).unwrap();
        let mut w: Vec<f64> = (0..dim).map(|_| base * *RATIOS.choose(rng).unwrap()).collect();
        match rng.gen_range(0..4) {
            0 => w.sort_by(|a, b| b.total_cmp(a)), // the first is the widest
            1 => w.sort_by(|a, b| a.total_cmp(b)), // the first is the narrowest
            _ => {}
        }
        w
    };
    match shape {
        "eq_lo" => {
            let lo = *ANCHORS.choose(rng).unwrap();
            widths(rng).into_iter().map(|w| (lo, lo + w)).collect()
        }
        "eq_hi" => {
            let hi = *ANCHORS.choose(rng).unwrap();
            widths(rng).into_iter().map(|w| (hi - w, hi)).collect()
        }
        "narrowing" | "widening" => {
            let (mut lo, mut hi) = table(rng);
            let mut d = vec![(lo, hi)];
            for _ in 1..dim {
                let w = hi - lo;
                let (a, b) = (rng.gen_range(0.0..0.4) * w, rng.gen_range(0.0..0.4) * w);
                if shape == "narrowing" {
                    lo += a;
                    hi -= b;
                } else {
                    lo -= a * 5.0;
                    hi += b * 5.0;
                }
                d.push((lo, hi));
            }
            d
        }
        "signs" => (0..dim)
            .map(|_| {
                let (a, b) = (rng.gen_range(0.001..50.0f64), rng.gen_range(0.001..50.0f64));
                match rng.gen_range(0..4) {
                    0 => (-a - b, -a),  // below zero
                    1 => (-a, b),       // across zero
                    2 => (-a, 0.0),     // up to zero
                    _ => (a, a + b),    // above zero
                }
            })
            .collect(),
        "homog" => vec![table(rng); dim],
        "dyadic" => {
            let lists: [&[(f64, f64)]; 5] = [
                &[(0.0, 4.0), (0.0, 1.0), (0.0, 0.5), (0.0, 2.0), (0.0, 8.0)],
                &[(-4.0, 0.0), (-1.0, 0.0), (-0.5, 0.0), (-2.0, 0.0)],
                &[(-4.0, -2.0), (-4.0, -3.0), (-4.0, -3.5), (-4.0, 4.0), (-4.0, 12.0), (-4.0, -3.75)],
                &[(-8.0, 8.0), (-4.0, 4.0), (-2.0, 2.0), (-1.0, 1.0), (-0.25, 0.25)],
                &[(-1.0, 1.0), (-1.0, 0.0), (-4.0, -2.0), (0.5, 0.75), (0.0, 0.5)],
            ];
            let l = *lists.choose(rng).unwrap();
            let start = rng.gen_range(0..l.len());
            (0..dim).map(|j| l[(start + j) % l.len()]).collect()
        }
        _ => (0..dim).map(|_| table(rng)).collect(),
    }
}

// ------------------------------------------------------------------------------------------------
// projections

fn coord(c: &str, k: i64) -> Value {
    json!({"c": c, "k": k})
}

fn project_real(lo: f64, hi: f64, lattice: bool, x: f64) -> Value {
    if x.is_nan() {
        return coord("nan", NOK);
    }
    if x == f64::INFINITY {
        return coord("posinf", NOK);
    }
    if x == f64::NEG_INFINITY {
        return coord("neginf", NOK);
    }
    let tol = 8.0 * f64::EPSILON * lo.abs().max(hi.abs());
    // farther away than 1e15 widths: the width is below the resolution of the float
    let far = (hi - lo) * FAR_WIDTHS;
    let c = if x < lo {
        if lo - x <= tol {
            "below_r"
        } else if lo - x > far {
            "far_below"
        } else {
            "below"
        }
    } else if x == lo {
        "at_lo"
    } else if x < hi {
        "inside"
    } else if x == hi {
        "at_hi"
    } else if x - hi <= tol {
        "above_r"
    } else if x - hi > far {
        "far_above"
    } else {
        "above"
    };
    let k = match c {
        "at_lo" => 0,
        "at_hi" => 8,
        "below_r" | "above_r" => NOK,
        _ if lattice => {
            let w = hi - lo;
            let t = (x - lo) / w * 8.0;
            if t.is_finite() && t.fract() == 0.0 && t.abs() <= KMAX && lo + t * (w / 8.0) == x {
                t as i64
            } else {
                NOK
            }
        }
        _ => NOK,
    };
    coord(c, k)
}

/// What the driver needs from a problem type: projection of a solution, its raw bits.
trait Proj: Problem + Clone + Send + Sync + 'static {
    fn project(&self, sol: &Self::Encoding) -> Vec<Value>;
    fn bits(sol: &Self::Encoding) -> Vec<u64>;
    /// the component built through the public constructor `via` ("new" | "from_params" |
    /// "new_uniform"), None if there is no such constructor for `op`
    fn component(&self, op: &str, via: &str, n: u32, prob: f64) -> Option<Box<dyn Component<Self>>>;
    /// the solutions of an initialiser obtained without `Component::execute`: `via` =
    /// "initialize" (`Initialization::initialize` of the component) or "functional" (the public
    /// generator function behind it)
    fn init_direct(&self, op: &str, via: &str, n: u32, prob: f64, rng: &mut Random) -> Option<Vec<Self::Encoding>>;
    /// concrete solution for an abstract prepared individual (replay) or raw bits (random mode)
    fn concretize(&self, abstract_x: &[Value], raw: Option<&Vec<Value>>) -> Self::Encoding;
    /// some legal objective value for a prepared, already evaluated individual
    fn any_objective(&self, _sol: &Self::Encoding) -> Self::Objective;
}

impl Proj for RealProblem {
    fn any_objective(&self, _sol: &Self::Encoding) -> Self::Objective {
        1.5.try_into().unwrap()
    }
    fn project(&self, sol: &Vec<f64>) -> Vec<Value> {
        sol.iter()
            .enumerate()
            .map(|(j, x)| match self.domain.get(j) {
                Some(r) => project_real(r.start, r.end, is_dyadic((r.start, r.end)), *x),
                None => coord("nodomain", NOK),
            })
            .collect()
    }
    fn bits(sol: &Vec<f64>) -> Vec<u64> {
        sol.iter().map(|x| x.to_bits()).collect()
    }
    fn component(&self, op: &str, via: &str, n: u32, _prob: f64) -> Option<Box<dyn Component<Self>>> {
        Some(match (op, via) {
            ("saturation", "new") => Saturation::new::<Self>(),
            ("saturation", "from_params") => Box::new(Saturation::from_params()),
            ("toroidal", "new") => Toroidal::new::<Self>(),
            ("toroidal", "from_params") => Box::new(Toroidal::from_params()),
            ("mirror", "new") => Mirror::new::<Self>(),
            ("mirror", "from_params") => Box::new(Mirror::from_params()),
            ("cotnc", "new") => CompleteOneTailedNormalCorrection::new::<Self>(),
            ("cotnc", "from_params") => Box::new(CompleteOneTailedNormalCorrection::from_params()),
            ("empty", "new") => Empty::new::<Self>(),
            ("empty", "from_params") => Box::new(Empty::from_params()),
            ("random_spread", "new") => RandomSpread::new::<Self, f64>(n),
            ("random_spread", "from_params") => Box::new(RandomSpread::from_params(n)),
            _ => return None,
        })
    }
    fn init_direct(&self, op: &str, via: &str, n: u32, _prob: f64, rng: &mut Random) -> Option<Vec<Vec<f64>>> {
        match (op, via) {
            ("random_spread", "initialize") => Some(RandomSpread::from_params(n).initialize(self, rng)),
            ("random_spread", "functional") => Some(functional::random_spread(&self.domain, n as usize, rng)),
            _ => None,
        }
    }
    fn concretize(&self, abstract_x: &[Value], raw: Option<&Vec<Value>>) -> Vec<f64> {
        if let Some(raw) = raw {
            return raw.iter().map(|b| f64::from_bits(b.as_str().unwrap().parse::<u64>().unwrap())).collect();
        }
        abstract_x
            .iter()
            .enumerate()
            .map(|(j, c)| {
                let (lo, hi) = (self.domain[j].start, self.domain[j].end);
                let w = hi - lo;
                let k = c["k"].as_i64().unwrap();
                if k != NOK {
                    lo + (k as f64) * (w / 8.0)
                } else {
                    // a representative that is not a lattice point
                    match c["c"].as_str().unwrap() {
                        "below" => lo - 0.3 * w,
                        "above" => hi + 0.3 * w,
                        "far_below" => -f64::MAX / 2.0,
                        "far_above" => f64::MAX / 2.0,
                        "below_r" => next_down(lo),
                        "above_r" => next_up(hi),
                        _ => lo + 0.3 * w,
                    }
                }
            })
            .collect()
    }
}

impl Proj for PermProblem {
    fn any_objective(&self, _sol: &Self::Encoding) -> Self::Objective {
        1.5.try_into().unwrap()
    }
    fn project(&self, sol: &Vec<usize>) -> Vec<Value> {
        sol.iter().map(|x| coord("int", *x as i64)).collect()
    }
    fn bits(sol: &Vec<usize>) -> Vec<u64> {
        sol.iter().map(|x| *x as u64).collect()
    }
    fn component(&self, op: &str, via: &str, n: u32, _prob: f64) -> Option<Box<dyn Component<Self>>> {
        Some(match (op, via) {
            ("empty", "new") => Empty::new::<Self>(),
            ("empty", "from_params") => Box::new(Empty::from_params()),
            ("random_permutation", "new") => RandomPermutation::new::<Self>(n),
            ("random_permutation", "from_params") => Box::new(RandomPermutation::from_params(n)),
            _ => return None,
        })
    }
    fn init_direct(&self, op: &str, via: &str, n: u32, _prob: f64, rng: &mut Random) -> Option<Vec<Vec<usize>>> {
        match (op, via) {
            ("random_permutation", "initialize") => Some(RandomPermutation::from_params(n).initialize(self, rng)),
            ("random_permutation", "functional") => Some(functional::random_permutation(self.dim, n as usize, rng)),
            _ => None,
        }
    }
    fn concretize(&self, _abstract_x: &[Value], _raw: Option<&Vec<Value>>) -> Vec<usize> {
        unreachable!("prepared populations exist for real-valued problems only")
    }
}

impl Proj for BitProblem {
    fn any_objective(&self, _sol: &Self::Encoding) -> Self::Objective {
        1.5.try_into().unwrap()
    }
    fn project(&self, sol: &Vec<bool>) -> Vec<Value> {
        sol.iter().map(|x| coord("int", *x as i64)).collect()
    }
    fn bits(sol: &Vec<bool>) -> Vec<u64> {
        sol.iter().map(|x| *x as u64).collect()
    }
    fn component(&self, op: &str, via: &str, n: u32, prob: f64) -> Option<Box<dyn Component<Self>>> {
        Some(match (op, via) {
            ("empty", "new") => Empty::new::<Self>(),
            ("empty", "from_params") => Box::new(Empty::from_params()),
            ("random_bitstring", "new") => RandomBitstring::new::<Self>(n, prob),
            ("random_bitstring", "from_params") => Box::new(RandomBitstring::from_params(n, prob)),
            // the convenience constructor for fair bits (takes no probability)
            ("random_bitstring", "new_uniform") => RandomBitstring::new_uniform::<Self>(n),
            _ => return None,
        })
    }
    fn init_direct(&self, op: &str, via: &str, n: u32, prob: f64, rng: &mut Random) -> Option<Vec<Vec<bool>>> {
        match (op, via) {
            ("random_bitstring", "initialize") => Some(RandomBitstring::from_params(n, prob).initialize(self, rng)),
            ("random_bitstring", "functional") => Some(functional::random_bitstring(self.dim, prob, n as usize, rng)),
            _ => None,
        }
    }
    fn concretize(&self, _abstract_x: &[Value], _raw: Option<&Vec<Value>>) -> Vec<bool> {
        unreachable!("prepared populations exist for real-valued problems only")
    }
}

fn next_up(x: f64) -> f64 {
    x.next_up()
}
fn next_down(x: f64) -> f64 {
    x.next_down()
}

fn project_pop<P: Proj>(problem: &P, pop: &[Individual<P>]) -> Value {
    Value::Array(
        pop.iter()
            .map(|ind| json!({"ev": ind.is_evaluated() as i64, "x": problem.project(ind.solution())}))
            .collect(),
    )
}

fn project_stack<P: Proj>(problem: &P, state: &State<P>) -> Value {
    let pops = state.populations();
    let n = pops.len();
    Value::Array((0..n).rev().map(|depth| project_pop(problem, pops.peek(depth))).collect())
}

fn top_bits<P: Proj>(state: &State<P>) -> Vec<Vec<u64>> {
    let pops = state.populations();
    match pops.get_current() {
        Some(p) => p.iter().map(|ind| P::bits(ind.solution())).collect(),
        None => Vec::new(),
    }
}

fn clean_act(a: &Value, p: Value) -> Value {
    json!({"op": a["op"], "n": a["n"], "p": p})
}

// ------------------------------------------------------------------------------------------------
// one run on its own thread

enum Msg {
    Event(Value, Value), // record, projected stack
    Done,
}

fn worker<P: Proj>(problem: P, run: u64, kind: String, acts: Vec<Value>, seed: u64, tx: Sender<Msg>) {
    let mut state: State<P> = State::new();
    state.insert(Populations::<P>::new());
    state.insert(Random::new(seed));
    for (i, a) in acts.iter().enumerate() {
        let op = a["op"].as_str().unwrap().to_string();
        let n = a["n"].as_i64().unwrap();
        let mut p = json!([]);
        let mut u = json!([]);
        let k: &str;
        if op == "set_pop" {
            let raw = a.get("raw").and_then(|r| r.as_array());
            let pop: Vec<Individual<P>> = a["p"]
                .as_array()
                .unwrap()
                .iter()
                .enumerate()
                .map(|(idx, ind)| {
                    let r = raw.map(|r| r[idx].as_array().unwrap());
                    let sol = problem.concretize(ind["x"].as_array().unwrap(), r);
                    if ind["ev"].as_i64() == Some(1) {
                        // repair after evaluation: the individual already carries an objective value
                        let obj = problem.any_objective(&sol);
                        Individual::new(sol, obj)
                    } else {
                        Individual::new_unevaluated(sol)
                    }
                })
                .collect();
            p = project_pop(&problem, &pop);
            state.populations_mut().push(pop);
            k = "ok";
        } else {
            let prob = a.get("prob").and_then(|x| x.as_f64()).unwrap_or(0.5);
            let via = a.get("via").and_then(|x| x.as_str()).unwrap_or("new");
            let size = if n == NON { 0 } else { n as u32 };
            // the component through one of its constructors, or the solutions straight from
            // `Initialization::initialize` / the generator function (pushed as the driver of
            // src/components/initialization/mod.rs does: unevaluated individuals, one population)
            let direct = matches!(via, "initialize" | "functional");
            let comp = if direct { None } else { problem.component(&op, via, size, prob) };
            let runner: Option<Box<dyn FnOnce(&mut State<P>) -> mahf::ExecResult<()> + '_>> = if direct {
                let problem = &problem;
                let op = op.clone();
                Some(Box::new(move |state: &mut State<P>| {
                    let sols = {
                        let mut rng = state.random_mut();
                        problem.init_direct(&op, via, size, prob, &mut rng)
                    };
                    let sols = sols.ok_or_else(|| eyre::eyre!("unsupported"))?;
                    state.populations_mut().push(sols.into_iter().map(Individual::new_unevaluated).collect());
                    Ok(())
                }))
            } else {
                let problem = &problem;
                comp.map(|c| -> Box<dyn FnOnce(&mut State<P>) -> mahf::ExecResult<()> + '_> {
                    Box::new(move |state: &mut State<P>| {
                        c.init(problem, state)?;
                        c.require(problem, &state.requirements())?;
                        c.execute(problem, state)
                    })
                })
            };
            match runner {
                None => k = "unsupported",
                Some(run_it) => {
                    let before = top_bits(&state);
                    let st = &mut state;
                    let out = caught(move || run_it(st));
                    k = match out {
                        Ok(Ok(())) => "ok",
                        Ok(Err(_)) => "err",
                        Err(_) => "panic",
                    };
                    if matches!(op.as_str(), "saturation" | "toroidal" | "mirror" | "cotnc") {
                        let after = top_bits(&state);
                        u = Value::Array(
                            after
                                .iter()
                                .enumerate()
                                .map(|(i, ind)| {
                                    Value::Array(
                                        ind.iter()
                                            .enumerate()
                                            .map(|(j, b)| {
                                                let same = before.get(i).and_then(|x| x.get(j)).map(|o| o == b).unwrap_or(false);
                                                json!(same as i64)
                                            })
                                            .collect(),
                                    )
                                })
                                .collect(),
                        );
                    }
                }
            }
        }
        let stack = project_stack(&problem, &state);
        let mut rec = json!({"run": run, "i": i, "kind": kind, "act": clean_act(a, p), "res": {"k": k, "u": u}, "stack": stack});
        // which constructor / entry point was used and with which probability: for the coverage
        // accounting of the check (the spec judges the outcome whatever the way)
        if let Some(v) = a.get("via") {
            rec["via"] = v.clone();
            rec["prob"] = json!(a.get("prob").and_then(|x| x.as_f64()).map(|x| format!("{x:?}")).unwrap_or_default());
        }
        if tx.send(Msg::Event(rec, stack.clone())).is_err() {
            return;
        }
    }
    let _ = tx.send(Msg::Done);
}

struct RunSpec {
    run: u64,
    kind: String,
    dom: Vec<(f64, f64)>,
    dim: usize,
    acts: Vec<Value>,
    seed: u64,
}

/// Executes one run under the watchdog; returns true if a component hung.
fn execute(spec: RunSpec, out: &mut Out, watchdog: Duration) -> bool {
    let dom_txt: Vec<String> = spec.dom.iter().map(|d| format!("{:?}:{:?}", d.0, d.1)).collect();
    out.emit(&json!({"run": spec.run, "i": -1, "kind": spec.kind, "dom": dom_txt, "seed": spec.seed.to_string(),
                     "act": {"op": "reset", "n": spec.dim, "p": []}, "res": {"k": "ok", "u": []}, "stack": []}));
    let (tx, rx) = channel();
    let acts = spec.acts.clone();
    let (run, kind, seed) = (spec.run, spec.kind.clone(), spec.seed);
    match spec.kind.as_str() {
        "real" => {
            let p = RealProblem::new(spec.dom.clone());
            thread::spawn(move || worker(p, run, kind, acts, seed, tx));
        }
        "perm" => {
            let p = PermProblem { dim: spec.dim };
            thread::spawn(move || worker(p, run, kind, acts, seed, tx));
        }
        "bits" => {
            let p = BitProblem { dim: spec.dim };
            thread::spawn(move || worker(p, run, kind, acts, seed, tx));
        }
        other => panic!("unknown kind {other}"),
    }
    let mut received = 0usize;
    let mut last_stack = json!([]);
    loop {
        match rx.recv_timeout(watchdog) {
            Ok(Msg::Event(rec, stack)) => {
                out.emit(&rec);
                last_stack = stack;
                received += 1;
            }
            Ok(Msg::Done) => return false,
            Err(e) => {
                // the pending call did not return (or its thread died outside catch_unwind)
                let k = if matches!(e, RecvTimeoutError::Timeout) { "timeout" } else { "panic" };
                if let Some(a) = spec.acts.get(received) {
                    out.emit(&json!({"run": spec.run, "i": received, "kind": spec.kind, "act": clean_act(a, json!([])),
                                     "res": {"k": k, "u": []}, "stack": last_stack}));
                }
                return k == "timeout";
            }
        }
    }
}

// ------------------------------------------------------------------------------------------------
// random runs

fn fbits(x: f64) -> Value {
    json!(x.to_bits().to_string())
}

fn random_coordinate(rng: &mut ChaCha8Rng, lo: f64, hi: f64) -> f64 {
    let w = hi - lo;
    match rng.gen_range(0..12) {
        0 => *[lo, hi].choose(rng).unwrap(),
        1 => *[next_up(lo), next_down(lo), next_up(hi), next_down(hi)].choose(rng).unwrap(),
        2 | 3 => {
            let m = *[1.0, -1.0, 2.0, -2.0, 3.0, -3.0, 0.5, -0.5, 1.5, -1.5, 0.25, -0.25, 7.75, -7.75, 64.0, -64.0,
                      1000.5, -1000.5, 1e6, -1e6, 0.125, 8.0, -8.0, 9.0]
                .choose(rng)
                .unwrap();
            lo + m * w
        }
        4 => hi + (rng.gen_range(1..=40) as f64) * w,
        5 => lo - (rng.gen_range(1..=40) as f64) * w,
        6 | 7 => rng.gen_range((lo - 3.0 * w)..(hi + 3.0 * w)),
        8 => lo + rng.gen_range(0.0..1.0) * w,
        9 => {
            let mag = 10f64.powf(rng.gen_range(-3.0..6.0)) * w;
            lo + if rng.gen_bool(0.5) { mag } else { -mag }
        }
        10 => lo + (rng.gen_range(-512i64..=520) as f64) * (w / 8.0),
        _ => lo + (rng.gen_range(-16i64..=24) as f64) * (w / 8.0),
    }
}

fn random_real_run(run: u64, seed: u64, rng: &mut ChaCha8Rng) -> RunSpec {
    let dim = *[1usize, 1, 2, 3, 4, 5, 0].choose(rng).unwrap();
    let all_dyadic = rng.gen_bool(0.4);
    // every second run on a domain list of a given shape (round robin over the families)
    let dom: Vec<(f64, f64)> = if run % 2 == 1 {
        shaped_domain(rng, SHAPES[(run as usize / 2) % SHAPES.len()], dim)
    } else {
        (0..dim)
            .map(|_| if all_dyadic || rng.gen_bool(0.3) { *DYADIC.choose(rng).unwrap() } else { *OTHER.choose(rng).unwrap() })
            .collect()
    };
    let n = rng.gen_range(0..=4usize);
    let raw: Vec<Vec<f64>> = (0..n).map(|_| dom.iter().map(|d| random_coordinate(rng, d.0, d.1)).collect()).collect();
    let mut acts = Vec::new();
    if rng.gen_bool(0.2) {
        acts.push(json!({"op": "random_spread", "n": rng.gen_range(0..=6), "p": [], "via": *INIT_VIAS.choose(rng).unwrap()}));
    }
    acts.push(json!({"op": "set_pop", "n": NON,
        "p": raw.iter().map(|ind| json!({"ev": rng.gen_range(0..2), "x": ind.iter().map(|_| coord("raw", NOK)).collect::<Vec<_>>()})).collect::<Vec<_>>(),
        "raw": raw.iter().map(|ind| ind.iter().map(|x| fbits(*x)).collect::<Vec<_>>()).collect::<Vec<_>>()}));
    let ops = ["saturation", "toroidal", "mirror", "cotnc"];
    for _ in 0..rng.gen_range(1..=3) {
        let op = *ops.choose(rng).unwrap();
        let via = *["new", "new", "from_params"].choose(rng).unwrap();
        acts.push(json!({"op": op, "n": NON, "p": [], "via": via}));
        if rng.gen_bool(0.5) {
            acts.push(json!({"op": op, "n": NON, "p": [], "via": via})); // again: idempotence
        }
    }
    if rng.gen_bool(0.2) {
        acts.push(json!({"op": "random_spread", "n": rng.gen_range(0..=6), "p": [], "via": *INIT_VIAS.choose(rng).unwrap()}));
        acts.push(json!({"op": *ops.choose(rng).unwrap(), "n": NON, "p": []}));
    }
    RunSpec { run, kind: "real".into(), dom, dim, acts, seed }
}

/// Ways to obtain the solutions of an initialiser: the component built by `new` / `from_params`
/// and executed, `Initialization::initialize` of the component, the public generator function.
const INIT_VIAS: [&str; 4] = ["new", "from_params", "initialize", "functional"];
/// Dimensions around word sizes and powers of two.
const WORD_DIMS: [usize; 14] = [0, 1, 2, 31, 32, 33, 63, 64, 65, 127, 128, 129, 192, 256];
/// Probabilities of a 1: never, always, exactly one half, ordinary, next to the ends, tiny.
const PROBS: [f64; 9] = [0.0, 1.0, 0.5, 0.5, 0.1, 0.9, 0.25, 1e-300, 0.999_999_999];

fn init_op(kind: &str) -> &'static str {
    match kind {
        "real" => "random_spread",
        "perm" => "random_permutation",
        _ => "random_bitstring",
    }
}

fn random_init_run(run: u64, seed: u64, rng: &mut ChaCha8Rng) -> RunSpec {
    let kind = *["real", "perm", "bits"].choose(rng).unwrap();
    let dim = match rng.gen_range(0..10) {
        0 | 1 => *[0usize, 1, 20].choose(rng).unwrap(),
        2 | 3 if kind != "real" => *WORD_DIMS.choose(rng).unwrap(),
        _ => rng.gen_range(0..=20),
    };
    let dom: Vec<(f64, f64)> =
        if kind == "real" { shaped_domain(rng, SHAPES[run as usize % SHAPES.len()], dim) } else { Vec::new() };
    let op = init_op(kind);
    let mut acts = Vec::new();
    for _ in 0..rng.gen_range(1..=2) {
        let nmax = if dim > 40 { 4 } else { 50 };
        let n = if rng.gen_bool(0.25) { *[0i64, 1, nmax].choose(rng).unwrap() } else { rng.gen_range(0..=nmax) };
        let prob = *PROBS.choose(rng).unwrap();
        let via = if kind == "bits" && rng.gen_range(0..5) == 0 { "new_uniform" } else { *INIT_VIAS.choose(rng).unwrap() };
        acts.push(json!({"op": op, "n": n, "p": [], "prob": prob, "via": via}));
        if rng.gen_bool(0.2) {
            acts.push(json!({"op": "empty", "n": NON, "p": [], "via": *["new", "from_params"].choose(rng).unwrap()}));
        }
    }
    RunSpec { run, kind: kind.into(), dom, dim, acts, seed }
}

/// The systematic part of the random mode (`--grid 1`): every initialiser obtained in every way
///  * bitstrings and permutations of every dimension of `WORD_DIMS` (bitstrings: with every
///    probability of `PROBS` through every way that takes one, and through `new_uniform`),
///  * real vectors on domain lists of every shape of `SHAPES` with 2, 3 and 6 dimensions (the
///    list itself is seeded), each followed by every repair on a prepared population of the same
///    domain list.
fn grid_runs(first_run: u64, seed: u64) -> Vec<RunSpec> {
    let mut runs = Vec::new();
    let mut next = |kind: &str, dom: Vec<(f64, f64)>, dim: usize, acts: Vec<Value>| {
        let run = first_run + runs.len() as u64;
        runs.push(RunSpec { run, kind: kind.into(), dom, dim, acts, seed: seed.wrapping_mul(1_000_003).wrapping_add(run) });
    };
    for (di, &dim) in WORD_DIMS.iter().enumerate() {
        let n = if dim > 40 { 2 } else { 3 };
        // bitstrings: every probability x every way, two executions per run
        for (pi, &prob) in PROBS.iter().enumerate() {
            let acts: Vec<Value> = INIT_VIAS
                .iter()
                .map(|via| json!({"op": "random_bitstring", "n": n + (pi % 2) as i64, "p": [], "prob": prob, "via": via}))
                .collect();
            next("bits", Vec::new(), dim, acts);
        }
        next("bits", Vec::new(), dim, vec![
            json!({"op": "random_bitstring", "n": n, "p": [], "prob": 0.5, "via": "new_uniform"}),
            json!({"op": "random_bitstring", "n": 1, "p": [], "prob": 0.5, "via": "new_uniform"}),
            json!({"op": "random_bitstring", "n": 0, "p": [], "prob": 0.5, "via": "new_uniform"}),
        ]);
        let acts: Vec<Value> =
            INIT_VIAS.iter().map(|via| json!({"op": "random_permutation", "n": n, "p": [], "via": via})).collect();
        next("perm", Vec::new(), dim, acts);
        // real vectors of that dimension on a shaped domain list
        let mut g = rng(seed, 900_000 + di as u64);
        let dom = shaped_domain(&mut g, SHAPES[1 + di % (SHAPES.len() - 1)], dim);
        let acts: Vec<Value> =
            INIT_VIAS.iter().map(|via| json!({"op": "random_spread", "n": n, "p": [], "via": via})).collect();
        next("real", dom, dim, acts);
    }
    for (si, shape) in SHAPES.iter().enumerate() {
        for (k, &dim) in [2usize, 3, 6, 2].iter().enumerate() {
            let mut g = rng(seed, 910_000 + (si * 10 + k) as u64);
            let dom = shaped_domain(&mut g, shape, dim);
            let acts: Vec<Value> = INIT_VIAS
                .iter()
                .map(|via| json!({"op": "random_spread", "n": 4 + k as i64, "p": [], "via": via}))
                .collect();
            next("real", dom.clone(), dim, acts);
            // every repair (twice: idempotence) on a prepared population in the same domain list
            for op in ["saturation", "toroidal", "mirror", "cotnc"] {
                let raw: Vec<Vec<f64>> =
                    (0..3).map(|_| dom.iter().map(|d| random_coordinate(&mut g, d.0, d.1)).collect()).collect();
                let via = if k % 2 == 0 { "new" } else { "from_params" };
                next("real", dom.clone(), dim, vec![
                    json!({"op": "set_pop", "n": NON,
                           "p": raw.iter().map(|ind| json!({"ev": 0, "x": ind.iter().map(|_| coord("raw", NOK)).collect::<Vec<_>>()})).collect::<Vec<_>>(),
                           "raw": raw.iter().map(|ind| ind.iter().map(|x| fbits(*x)).collect::<Vec<_>>()).collect::<Vec<_>>()}),
                    json!({"op": op, "n": NON, "p": [], "via": via}),
                    json!({"op": op, "n": NON, "p": [], "via": via}),
                ]);
            }
        }
    }
    runs
}

fn parse_domains(s: &str) -> Vec<(f64, f64)> {
    s.split(',')
        .filter(|t| !t.is_empty())
        .map(|t| {
            let (a, b) = t.split_once(':').expect("lo:hi");
            (a.parse().unwrap(), b.parse().unwrap())
        })
        .collect()
}

pub fn main(args: &Args) -> usize {
    let mut out = Out::create(&args.str("out"));
    let watchdog = Duration::from_millis(args.num("watchdog-ms", 2000));
    let mut timeouts = 0usize;
    let max_timeouts = args.num("max-timeouts", MAX_TIMEOUTS as u64) as usize;
    match args.mode.as_str() {
        // scenarios {"run", "kind", "dim", "acts"}; a real-valued scenario is executed once per
        // rotation of the domain list (dimension j lives in domain (j + rotation) mod len);
        // `--domains` may hold several lists separated by ';': all scenarios once per list
        "replay" => {
            let lists: Vec<Vec<(f64, f64)>> = match args.get("domains") {
                Some(t) => t.split(';').filter(|l| !l.is_empty()).map(parse_domains).collect(),
                None => vec![DYADIC.to_vec()],
            };
            let rot = args.num("rot", 1) as usize;
            let mut run = 0u64;
            let scenarios = read_ndjson(&args.str("in"));
            'outer: for (li, doms) in lists.iter().enumerate() {
              for sc in &scenarios {
                let kind = sc["kind"].as_str().unwrap().to_string();
                let dim = sc["dim"].as_u64().unwrap() as usize;
                let acts = sc["acts"].as_array().unwrap().clone();
                let fixed = sc.get("dom").and_then(|d| d.as_array());
                if li > 0 && (kind != "real" || fixed.is_some()) {
                    continue; // does not depend on the domain list: executed once
                }
                let rots = if kind == "real" && fixed.is_none() { rot } else { 1 };
                for r in 0..rots {
                    let dom: Vec<(f64, f64)> = match (kind.as_str(), fixed) {
                        ("real", Some(d)) => parse_domains(&d.iter().map(|x| x.as_str().unwrap()).collect::<Vec<_>>().join(",")),
                        ("real", None) => (0..dim).map(|j| doms[(j + r) % doms.len()]).collect(),
                        _ => Vec::new(),
                    };
                    let seed = sc.get("seed").and_then(|s| s.as_str()).map(|s| s.parse().unwrap()).unwrap_or(args.seed() + run);
                    let spec = RunSpec { run, kind: kind.clone(), dom, dim, acts: acts.clone(), seed };
                    if execute(spec, &mut out, watchdog) {
                        timeouts += 1;
                        if timeouts >= max_timeouts {
                            break 'outer;
                        }
                    }
                    run += 1;
                }
              }
            }
        }
        "random" => {
            let n_real = args.num("n", 60);
            let n_init = args.num("n-init", 30);
            for run in 0..(n_real + n_init) {
                let mut g = rng(args.seed(), run);
                let seed = args.seed().wrapping_mul(1_000_003).wrapping_add(run);
                let spec = if run < n_real { random_real_run(run, seed, &mut g) } else { random_init_run(run, seed, &mut g) };
                if execute(spec, &mut out, watchdog) {
                    timeouts += 1;
                    if timeouts >= max_timeouts {
                        break;
                    }
                }
            }
            if args.num("grid", 0) == 1 {
                for spec in grid_runs(n_real + n_init, args.seed()) {
                    if execute(spec, &mut out, watchdog) {
                        timeouts += 1;
                        if timeouts >= max_timeouts {
                            break;
                        }
                    }
                }
            }
        }
        other => panic!("unknown mode {other}"),
    }
    if timeouts > 0 {
        eprintln!("{timeouts} component executions did not return within the watchdog");
    }
    // abandoned threads may still be spinning; they end with the process
    out.finish()
}
