//! Driver for C08 (spec modules `Trace_Same`, `ParEval`): same configuration + same seed under a
//! sequential reference run and variants (parallel evaluator, rayon pools of several sizes with
//! perturbed objective timing, a cloned configuration, a repetition), emitted as per-step digests;
//! the objective-side event log of parallel evaluation steps; child generators; the batch experiment runner.
use std::collections::HashMap;

use mahf::{
    conditions::LessThanN,
    experiments::par_experiment,
    heuristics::{aco, ga, rs},
    problems::{Sequential, SingleObjectiveProblem},
    Problem,
    Configuration, ExecResult, Random,
};
use rand::RngCore;
use serde_json::{json, Value};

use super::{
    templates::{bit_template, observe_with, perm_template, real_template, Extra, ParEvalRaw, RunOpts, RunOutcome},
    templates_extra,
};
use crate::{
    runproblems::*,
    util::{caught, read_ndjson, Args, Out},
};

fn fnv(s: &str) -> String {
    let mut h: u64 = 0xcbf29ce484222325;
    for b in s.as_bytes() {
        h ^= *b as u64;
        h = h.wrapping_mul(0x100000001b3);
    }
    h.to_string()
}

/// digest of one observed step: everything the observer saw, floats by their bit patterns
fn step_digests(o: &RunOutcome) -> Vec<String> {
    let mut out = Vec::new();
    for s in &o.steps {
        let pops: Vec<Vec<(String, Option<u64>)>> = s.pops.iter().map(|p| p.iter().map(|i| (i.sol.clone(), i.obj)).collect()).collect();
        let best = s.best.as_ref().map(|b| (b.sol.clone(), b.obj));
        let others: Vec<(String, Option<u64>)> = s.others.iter().map(|i| (i.sol.clone(), i.obj)).collect();
        out.push(fnv(&format!("{}|{}|{}|{:?}|{:?}|{:?}|{}|{}|{}", s.ev, s.role, s.name, pops, best, others, s.evals, s.iters, s.calls)));
    }
    // the final record: counters, result and the log (decoded, entry order inside a step irrelevant)
    out.push(fnv(&format!("end|{}|{}|{}|{}", o.result, o.final_evals, o.final_iters, o.final_log)));
    out
}

fn emit_group_member(out: &mut Out, group: u64, variant: &str, class: &str, reference: bool, o: &RunOutcome) {
    out.emit(&json!({"run": group, "ev": if reference { "ref_start" } else { "var_start" }, "variant": variant, "class": class}));
    for d in step_digests(o) {
        out.emit(&json!({"run": group, "ev": "d", "digest": d, "variant": variant}));
    }
    out.emit(&json!({"run": group, "ev": if reference { "ref_end" } else { "var_end" }, "variant": variant,
                     "result": o.result, "seed_kept": o.seed_kept as i64}));
}

/// begin / claim / finish / end records of every evaluation step of a run (Trace_ParEval)
fn emit_par_evals(out: &mut Out, run: u64, evals: &[ParEvalRaw]) {
    for pe in evals {
        // ranks within this evaluation: dense rank of the expected values, the carried values must reuse them
        let mut vals: Vec<f64> = pe.want.iter().map(|b| f64::from_bits(*b)).collect();
        vals.sort_by(|a, b| a.total_cmp(b));
        vals.dedup_by(|a, b| a.to_bits() == b.to_bits());
        let rank = |b: u64| vals.iter().position(|v| v.to_bits() == b).map(|p| p as i64 + 1).unwrap_or(-1);
        let want: Vec<i64> = pe.want.iter().map(|b| rank(*b)).collect();
        let objs: Vec<i64> = pe.objs.iter().map(|o| o.map(rank).unwrap_or(0)).collect();
        out.emit(&json!({"run": run, "ev": "begin", "n": pe.sols.len(), "want": want}));
        let mut workers: HashMap<u64, i64> = HashMap::new();
        let mut claimed = vec![false; pe.sols.len()];
        let mut holding: HashMap<i64, usize> = HashMap::new();
        for (thread, kind, sol) in &pe.events {
            let nw = workers.len() as i64 + 1;
            let w = *workers.entry(*thread).or_insert(nw);
            if *kind == 0 {
                // the objective function started on a solution: the first unclaimed individual with that solution
                let i = (0..pe.sols.len()).find(|&i| !claimed[i] && &pe.sols[i] == sol);
                match i {
                    Some(i) => {
                        claimed[i] = true;
                        holding.insert(w, i);
                        out.emit(&json!({"run": run, "ev": "claim", "w": w, "i": i + 1}));
                    }
                    None => out.emit(&json!({"run": run, "ev": "claim", "w": w, "i": 0})), // an extra call: no spec step matches
                }
            } else {
                let i = holding.remove(&w).map(|i| i as i64 + 1).unwrap_or(0);
                out.emit(&json!({"run": run, "ev": "finish", "w": w, "i": i}));
            }
        }
        out.emit(&json!({"run": run, "ev": "end", "objs": objs, "calls": pe.events.iter().filter(|e| e.1 == 0).count(),
                         "rng": pe.rng_delta}));
    }
}

/// the instance of the group, and other instances of the same problem class the same objects / threads see before it
#[derive(Clone, Copy, PartialEq)]
enum Which {
    This,
    /// more dimensions / cities
    Bigger,
    /// fewer dimensions / cities
    Smaller,
    /// the same size, another objective function / other distances
    Other,
}

/// How one member of a group is run.  The reference is a stand-alone run: a fresh configuration object on a fresh thread.
struct Variant {
    name: String,
    class: &'static str,
    opts: RunOpts,
    /// the configuration object is a clone (of a fresh one, or -- with `before` -- of the used one)
    cloned: bool,
    /// an instance that is solved first ...
    before: Option<Which>,
    /// ... by the same configuration object (else: by another fresh one)
    same_object: bool,
    /// ... on the same thread (else: on a thread of its own)
    same_thread: bool,
}

fn variants(spec: &Value) -> Vec<Variant> {
    let pools: Vec<usize> = spec["pools"].as_array().map(|a| a.iter().map(|x| x.as_u64().unwrap() as usize).collect()).unwrap_or(vec![1, 2, 3, 8, 16]);
    let base = RunOpts { counting_rng: true, log_config: true, par_log: true, ..Default::default() };
    let plain = |name: &str, class: &'static str, opts: RunOpts, cloned: bool| Variant { name: name.to_string(), class, opts, cloned, before: None, same_object: false, same_thread: false };
    let mut v = vec![plain("seq", "ref", base.clone(), false)];
    v.push(plain("seq-again", "again", base.clone(), false));
    v.push(plain("seq-clone", "clone", base.clone(), true));
    // every way of supplying the generator is "a generator supplied by the user"
    v.push(plain("seq-entry-or-insert-with", "supply-entry", RunOpts { rng_supply: 1, ..base.clone() }, false));
    v.push(plain("seq-entry-or-insert", "supply-entry", RunOpts { rng_supply: 2, ..base.clone() }, false));
    v.push(plain("seq-guarded-insert", "supply-guarded", RunOpts { rng_supply: 3, ..base.clone() }, false));
    // one configuration object (and clones of a used one) on several instances; threads that ran something else before
    for (w, wn) in [(Which::Bigger, "bigger"), (Which::Smaller, "smaller"), (Which::Other, "other")] {
        let after = |name: String, class: &'static str, cloned: bool, same_object: bool, same_thread: bool| Variant {
            name, class, opts: base.clone(), cloned, before: Some(w), same_object, same_thread,
        };
        v.push(after(format!("one-thread-after-{wn}"), "one-thread", false, true, true));
        v.push(after(format!("used-after-{wn}"), "used", false, true, false));
        v.push(after(format!("clone-of-used-after-{wn}"), "used-clone", true, true, false));
        v.push(after(format!("thread-after-{wn}"), "thread", false, false, true));
    }
    for k in pools {
        for jitter in [0u64, 60] {
            v.push(plain(&format!("par-{k}-j{jitter}"), "par", RunOpts { parallel: true, threads: k, jitter, ..base.clone() }, jitter == 60 && k % 2 == 0));
        }
    }
    v
}

fn on_fresh_thread<T: Send>(f: impl FnOnce() -> T + Send) -> T {
    match std::thread::scope(|s| s.spawn(f).join()) {
        Ok(v) => v,
        Err(e) => std::panic::resume_unwind(e),
    }
}

fn run_group_on<P>(
    out: &mut Out,
    par_out: &mut Out,
    group: u64,
    spec: &Value,
    mk_problem: &(dyn Fn(Which) -> P + Sync),
    mk_config: &(dyn Fn() -> ExecResult<Configuration<P>> + Sync),
    mk_extra: &(dyn Fn() -> Extra<P> + Sync),
) where
    P: Instrumented + SingleObjectiveProblem + Sync + Send + Clone,
{
    let seed = spec["seed"].as_u64().unwrap();
    for (k, var) in variants(spec).into_iter().enumerate() {
        let fresh = || mk_config();
        let (config, other) = match (fresh(), fresh()) {
            (Ok(c), Ok(o)) => (c, o),
            (Err(e), _) | (_, Err(e)) => {
                out.emit(&json!({"run": group, "ev": "ctor_err", "error": format!("{e:#}")}));
                return;
            }
        };
        let seq = RunOpts { counting_rng: true, log_config: true, ..Default::default() };
        let o = match var.before {
            None => {
                let config = if var.cloned { config.clone() } else { config };
                on_fresh_thread(|| observe_with(&config, &mk_problem(Which::This), seed, mk_extra(), &var.opts))
            }
            Some(w) => {
                // (the run that comes first has its own seed: nothing of it may show in the run that follows)
                let first = if var.same_object { &config } else { &other };
                if var.same_thread {
                    on_fresh_thread(|| {
                        let _ = observe_with(first, &mk_problem(w), seed + 7, mk_extra(), &seq);
                        observe_with(&config, &mk_problem(Which::This), seed, mk_extra(), &var.opts)
                    })
                } else {
                    on_fresh_thread(|| {
                        let _ = observe_with(first, &mk_problem(w), seed + 7, mk_extra(), &seq);
                    });
                    let second = if var.cloned { config.clone() } else { config };
                    on_fresh_thread(|| observe_with(&second, &mk_problem(Which::This), seed, mk_extra(), &var.opts))
                }
            }
        };
        emit_group_member(out, group, &var.name, var.class, k == 0, &o);
        if var.opts.parallel {
            emit_par_evals(par_out, group * 1000 + k as u64, &o.par_evals);
        }
    }
    out.emit(&json!({"run": group, "ev": "group_end"}));
}

fn run_group(out: &mut Out, par_out: &mut Out, group: u64, spec: &Value) {
    let name = spec["template"].as_str().unwrap();
    let params = &spec["params"];
    let n = spec["n"].as_u64().unwrap() as u32;
    let prob = &spec["prob"];
    let f = prob["f"].as_u64().unwrap_or(0) as u8;
    let dim = prob["dim"].as_u64().unwrap() as usize;
    match prob["kind"].as_str().unwrap() {
        "real" => {
            let (lo, hi) = (prob["lo"].as_f64().unwrap(), prob["hi"].as_f64().unwrap());
            run_group_on::<RealProblem>(
                out,
                par_out,
                group,
                spec,
                &|w| match w {
                    Which::This => RealProblem::new(f, dim, lo, hi),
                    Which::Bigger => RealProblem::new(f, dim + 3, lo, hi),
                    Which::Smaller => RealProblem::new(f, dim.saturating_sub(2).max(1), lo, hi),
                    Which::Other => RealProblem::new(if f == 0 { 1 } else { 0 }, dim, lo, hi),
                },
                &|| real_template::<RealProblem>(name, params, n),
                &|| templates_extra::real_extra(name, params, n).1,
            )
        }
        "bits" => run_group_on::<BitProblem>(
            out,
            par_out,
            group,
            spec,
            &|w| match w {
                Which::This | Which::Other => BitProblem::new(dim),
                Which::Bigger => BitProblem::new(dim + 5),
                Which::Smaller => BitProblem::new(dim.saturating_sub(3).max(1)),
            },
            &|| bit_template::<BitProblem>(name, params, n),
            &|| Box::new(|_, _, _| (Vec::new(), json!({}))),
        ),
        _ => run_group_on::<TspProblem>(
            out,
            par_out,
            group,
            spec,
            &|w| match w {
                Which::This => TspProblem::new(f, dim),
                Which::Bigger => TspProblem::new(f, dim + 2),
                Which::Smaller => TspProblem::new(f, dim.saturating_sub(1).max(4)),
                // the same cities count, other distances
                Which::Other => TspProblem::new(if f == 1 { 0 } else { 1 }, dim),
            },
            &|| perm_template::<TspProblem>(name, params, n),
            &|| templates_extra::tsp_extra(name, params).1,
        ),
    }
}

fn children(out: &mut Out, seeds: &[u64]) {
    for (k, &seed) in seeds.iter().enumerate() {
        let mut r = Random::new(seed);
        let kids: Vec<String> = r.iter_children().take(3).map(|mut c| format!("{}-{}", c.next_u64(), c.next_u64())).collect();
        // a user-supplied generator is what the first component draws from: no draw is made before it runs --
        // whichever way the set-up supplies it (plain insert, entry API, insert guarded by `contains`)
        for supply in 0..4u8 {
            let problem = RealProblem::new(0, 2, -1.0, 1.0);
            let config: Configuration<RealProblem> = rs::real_rs(LessThanN::iterations(0)).unwrap();
            let direct = {
                // RandomSpread(1) on a 2-dimensional problem is the first component of real_rs: replay its draws
                let state = config
                    .optimize_with(&problem, |state| {
                        match supply {
                            0 => {
                                state.insert(Random::new(seed));
                            }
                            1 => {
                                state.entry::<Random>().or_insert_with(|| Random::new(seed));
                            }
                            2 => {
                                state.entry::<Random>().or_insert(Random::new(seed));
                            }
                            _ => {
                                if !state.contains::<Random>() {
                                    state.insert(Random::new(seed));
                                }
                            }
                        }
                        state.insert_evaluator(Sequential::<RealProblem>::new());
                        Ok(())
                    })
                    .unwrap();
                let after_run = state.borrow::<Random>().config().seed;
                let pops = state.populations();
                let x = pops.current()[0].solution().clone();
                (after_run, x)
            };
            let expected = {
                use rand::Rng;
                let mut r = Random::new(seed);
                let x: Vec<f64> = (0..2).map(|_| r.gen_range(-1.0..1.0)).collect();
                x
            };
            let same = direct.0 == seed && direct.1.iter().zip(&expected).all(|(a, b)| a.to_bits() == b.to_bits());
            out.emit(&json!({"run": 900000 + 10 * k as u64 + supply as u64, "ev": "children", "seed": seed, "kids": kids,
                             "supply": supply, "first_draw_same": same as i64}));
        }
    }
}

/// The log set-up of the experiments.  `spelled`: the two rules of the `with_common` shorthand written out (the number of
/// evaluations, the progress of the iterations) -- the stand-alone reference runs spell them out, the runner's set-up uses
/// the shorthand: the logs must be the same.
fn log_setup<P>(state: &mut mahf::State<P>, own_rng: bool, spelled: bool) -> ExecResult<()>
where
    P: SingleObjectiveProblem + mahf::problems::ObjectiveFunction,
    P::Encoding: Clone + serde::Serialize + Send,
{
    use mahf::{conditions::EveryN, lens::ValueOf, state::common::{Evaluations, Iterations, Progress}};
    if own_rng {
        // a generator supplied by the user's setup: it must be the one the run uses
        state.insert(Random::with_rng::<super::templates::CountingRng>(777));
    }
    state.insert_evaluator(Sequential::<P>::new());
    state.configure_log(|c| {
        if spelled {
            c.with_auto::<Evaluations>(EveryN::iterations(3)).with_auto::<Progress<ValueOf<Iterations>>>(EveryN::iterations(3));
        } else {
            c.with_common(EveryN::iterations(3));
        }
        c.with(EveryN::iterations(1), mahf::lens::common::BestObjectiveValueLens::entry())
            .with(EveryN::iterations(1), mahf::lens::common::BestSolutionLens::entry());
        Ok(())
    })
}

fn cbor_digest(file: &std::path::Path) -> String {
    std::fs::File::open(file)
        .ok()
        .and_then(|f| ciborium::de::from_reader::<ciborium::value::Value, _>(f).ok())
        .map(|v| canonical(&v))
        .unwrap_or("undecodable".to_string())
}

fn file_digest(file: &std::path::Path) -> String {
    std::fs::read_to_string(file).unwrap_or("unreadable".to_string())
}

/// The batch experiment runner: `runs` x `problems` jobs on pools of several sizes, with the run number as seed (or the
/// generator of the user's setup).  Every (configuration, problem, run) is also made stand-alone (pool 0: a fresh
/// configuration object, a fresh thread, `optimize_with`): its log is what the runner's `<problem>_<run>.cbor` has to decode
/// to -- whatever the other problems of the batch are (instances of other sizes come first), whichever worker ran which job
/// before.  A second experiment with another configuration is run into the same folder: `configuration.ron` has to be the
/// record of the configuration that was run.
fn experiment_family<P>(
    out: &mut Out,
    id: &mut u64,
    dir: &std::path::Path,
    runs: u64,
    pools: &[usize],
    problems: &[P],
    configs: &[(&str, &(dyn Fn() -> Configuration<P> + Sync))],
    own_rngs: &[bool],
) where
    P: SingleObjectiveProblem + mahf::problems::ObjectiveFunction + mahf::problems::KnownOptimumProblem + Send + Sync,
    P::Encoding: Clone + serde::Serialize + Send + std::fmt::Debug,
{
    for &own_rng in own_rngs {
        let tag = if own_rng { "-own-generator" } else { "" };
        for (cname, mk) in configs {
            for problem in problems {
                for run in 0..runs {
                    let file = dir.join(format!("exp-ref-{}-{run}.cbor", std::process::id()));
                    let ok = on_fresh_thread(|| {
                        let config = mk();
                        let res = config.optimize_with(problem, |state| {
                            if !own_rng {
                                state.insert(Random::new(run));
                            }
                            log_setup(state, own_rng, true)
                        });
                        match res {
                            Ok(state) => state.log().to_cbor(&file).is_ok(),
                            Err(_) => false,
                        }
                    });
                    let decoded = cbor_digest(&file);
                    let _ = std::fs::remove_file(&file);
                    *id += 1;
                    out.emit(&json!({"run": *id, "ev": "exp", "key": format!("{cname}{tag}/{}", problem.name()), "pool": 0, "rn": run,
                                     "ok": (ok && decoded != "undecodable") as i64, "digest": fnv(&decoded)}));
                }
            }
            let file = dir.join(format!("exp-ref-{}.ron", std::process::id()));
            let ok = mk().to_ron(&file).is_ok();
            *id += 1;
            out.emit(&json!({"run": *id, "ev": "exp", "key": format!("{cname}/configuration.ron"), "pool": 0, "rn": 0,
                             "ok": ok as i64, "digest": fnv(&file_digest(&file))}));
            let _ = std::fs::remove_file(&file);
        }
        for &k in pools {
            // the experiments go into the same folder, one after the other
            let folder = dir.join(format!("exp-{}-{k}-{}", std::process::id(), own_rng as u8));
            let pool = rayon::ThreadPoolBuilder::new().num_threads(k).build().unwrap();
            for (cname, mk) in configs {
                let config = mk();
                let res: Result<ExecResult<()>, String> =
                    caught(|| pool.install(|| par_experiment(&config, |state| log_setup(state, own_rng, false), problems, runs, &folder, true)));
                let ok = matches!(res, Ok(Ok(())));
                for problem in problems {
                    for run in 0..runs {
                        // the decoded content is what matters; key order inside a step map is not stable, so it is sorted
                        let decoded = cbor_digest(&folder.join(format!("{}_{run}.cbor", problem.name())));
                        *id += 1;
                        out.emit(&json!({"run": *id, "ev": "exp", "key": format!("{cname}{tag}/{}", problem.name()), "pool": k, "rn": run,
                                         "ok": (ok && decoded != "undecodable") as i64, "digest": fnv(&decoded)}));
                    }
                }
                *id += 1;
                out.emit(&json!({"run": *id, "ev": "exp", "key": format!("{cname}/configuration.ron"), "pool": k, "rn": 0,
                                 "ok": ok as i64, "digest": fnv(&file_digest(&folder.join("configuration.ron")))}));
            }
            let _ = std::fs::remove_dir_all(&folder);
        }
    }
}

fn experiments(out: &mut Out, dir: &std::path::Path, runs: u64, pools: &[usize]) {
    let mut id = 800000u64;
    // random search on three real-valued instances, with the run number as seed and with the set-up's own generator
    let mut problems = vec![RealProblem::new(1, 3, -4.0, 12.0), RealProblem::new(0, 2, -1.0, 1.0), RealProblem::new(2, 2, -2.0, 2.0)];
    problems[1].label = "RealProblem-b";
    problems[2].label = "RealProblem-c";
    experiment_family(
        out, &mut id, dir, runs, pools, &problems,
        &[("real_rs(12)", &|| rs::real_rs(LessThanN::iterations(12)).unwrap()), ("real_rs(5)", &|| rs::real_rs(LessThanN::iterations(5)).unwrap())],
        &[false, true],
    );
    // instances of different sizes in one batch (the biggest first), templates with recombination / generation steps
    let mut reals = vec![RealProblem::new(0, 7, -4.0, 12.0), RealProblem::new(0, 2, -4.0, 12.0), RealProblem::new(1, 4, -4.0, 12.0), RealProblem::new(1, 7, -4.0, 12.0)];
    for (p, l) in reals.iter_mut().zip(["Real-7", "Real-2", "Real-4", "Real-7b"]) {
        p.label = l;
    }
    experiment_family(
        out, &mut id, dir, runs, pools, &reals,
        &[("real_ga", &|| {
            ga::real_ga(ga::RealProblemParameters { population_size: 6, tournament_size: 2, pm: 1.0, deviation: 0.1, pc: 0.8 }, LessThanN::iterations(6)).unwrap()
        })],
        &[false],
    );
    let mut bits = vec![BitProblem::new(13), BitProblem::new(4), BitProblem::new(8)];
    for (p, l) in bits.iter_mut().zip(["Bits-13", "Bits-4", "Bits-8"]) {
        p.label = l;
    }
    experiment_family(
        out, &mut id, dir, runs, pools, &bits,
        &[("binary_ga", &|| {
            ga::binary_ga(ga::BinaryProblemParameters { population_size: 6, tournament_size: 2, rm: 0.2, pc: 0.7, pm: 1.0 }, LessThanN::iterations(6)).unwrap()
        })],
        &[false],
    );
    let mut tsps = vec![TspProblem::new(0, 7), TspProblem::new(1, 7), TspProblem::new(0, 5), TspProblem::new(2, 5)];
    for (p, l) in tsps.iter_mut().zip(["Tsp-7", "Tsp-7b", "Tsp-5", "Tsp-5b"]) {
        p.label = l;
    }
    experiment_family(
        out, &mut id, dir, runs, pools, &tsps,
        &[
            ("ant_system", &|| aco::ant_system(aco::ASParameters::verif_new(3, 1.0, 2.0, 1.0, 0.1, 1.0), LessThanN::iterations(5)).unwrap()),
            ("max_min_ant_system", &|| {
                aco::max_min_ant_system(aco::MMASParameters::verif_new(3, 1.0, 2.0, 0.5, 0.1, 1.0, 0.1), LessThanN::iterations(5)).unwrap()
            }),
        ],
        &[false],
    );
    // an experiment in which one run fails (its set-up returns an error): the configuration record is written before the
    // runs start, so it is there (and is the record of this configuration) although the experiment ends with an error
    let cname = "real_rs(12)";
    let config: Configuration<RealProblem> = rs::real_rs(LessThanN::iterations(12)).unwrap();
    for &k in pools {
        let folder = dir.join(format!("exp-{}-{k}-failing", std::process::id()));
        let pool = rayon::ThreadPoolBuilder::new().num_threads(k).build().unwrap();
        let res: Result<ExecResult<()>, String> = caught(|| {
            pool.install(|| {
                par_experiment(
                    &config,
                    |state| {
                        if state.borrow::<Random>().config().seed == 1 {
                            return Err(eyre::eyre!("set-up of run 1 fails"));
                        }
                        log_setup(state, false, false)
                    },
                    &problems,
                    runs.max(2),
                    &folder,
                    true,
                )
            })
        });
        let failed_as_expected = matches!(res, Ok(Err(_)));
        id += 1;
        out.emit(&json!({"run": id, "ev": "exp", "key": format!("{cname}/configuration.ron"), "pool": k, "rn": 0,
                         "ok": failed_as_expected as i64, "digest": fnv(&file_digest(&folder.join("configuration.ron")))}));
        let _ = std::fs::remove_dir_all(&folder);
    }
}

fn canonical(v: &ciborium::value::Value) -> String {
    use ciborium::value::Value as C;
    match v {
        C::Map(m) => {
            let mut items: Vec<String> = m.iter().map(|(k, x)| format!("{}:{}", canonical(k), canonical(x))).collect();
            items.sort();
            format!("{{{}}}", items.join(","))
        }
        C::Array(a) => format!("[{}]", a.iter().map(canonical).collect::<Vec<_>>().join(",")),
        C::Float(f) => format!("f{}", f.to_bits()),
        other => format!("{other:?}"),
    }
}

pub fn main(args: &Args) -> usize {
    let outp = args.str("out");
    let mut out = Out::create(&outp);
    let mut par_out = Out::create(&args.str("par-out"));
    match args.mode.as_str() {
        "groups" => {
            for (k, spec) in read_ndjson(&args.str("in")).iter().enumerate() {
                run_group(&mut out, &mut par_out, k as u64, spec);
            }
            children(&mut out, &[0, 1, 2, 1, 0, args.seed(), args.seed() + 1, args.seed()]);
            let dir = std::path::Path::new(&outp).parent().map(|p| p.to_path_buf()).unwrap_or_default();
            experiments(&mut out, &dir, args.num("exp-runs", 4), &[1, 2, 4, 16]);
        }
        // only the batch experiment runner (C15: configuration record and exported logs)
        "experiments" => {
            let dir = std::path::Path::new(&outp).parent().map(|p| p.to_path_buf()).unwrap_or_default();
            experiments(&mut out, &dir, args.num("exp-runs", 4), &[1, 4]);
        }
        other => panic!("unknown mode {other}"),
    }
    let n = par_out.finish();
    out.finish() + n
}
