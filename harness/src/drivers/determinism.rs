//! Driver for C08 (spec modules `Trace_Same`, `ParEval`): same configuration + same seed under a
//! sequential reference run and variants (parallel evaluator, rayon pools of several sizes with
//! perturbed objective timing, a cloned configuration, a repetition), emitted as per-step digests;
//! the objective-side event log of parallel evaluation steps; child generators; the batch experiment runner.
use std::collections::HashMap;

use mahf::{
    conditions::LessThanN,
    experiments::par_experiment,
    heuristics::rs,
    problems::{Sequential, SingleObjectiveProblem},
    Configuration, ExecResult, Random,
};
use rand::RngCore;
use serde_json::{json, Value};

use super::{
    templates::{bit_template, observe_with, perm_template, real_template, Extra, ParEvalRaw, RunOpts, RunOutcome},
    templates_extra,
};
use crate::{
    runproblems::*,
    util::{caught, read_ndjson, Args, Out},
};

fn fnv(s: &str) -> String {
    let mut h: u64 = 0xcbf29ce484222325;
    for b in s.as_bytes() {
        h ^= *b as u64;
        h = h.wrapping_mul(0x100000001b3);
    }
    h.to_string()
}

/// digest of one observed step: everything the observer saw, floats by their bit patterns
fn step_digests(o: &RunOutcome) -> Vec<String> {
    let mut out = Vec::new();
    for s in &o.steps {
        let pops: Vec<Vec<(String, Option<u64>)>> = s.pops.iter().map(|p| p.iter().map(|i| (i.sol.clone(), i.obj)).collect()).collect();
        let best = s.best.as_ref().map(|b| (b.sol.clone(), b.obj));
        let others: Vec<(String, Option<u64>)> = s.others.iter().map(|i| (i.sol.clone(), i.obj)).collect();
        out.push(fnv(&format!("{}|{}|{}|{:?}|{:?}|{:?}|{}|{}|{}", s.ev, s.role, s.name, pops, best, others, s.evals, s.iters, s.calls)));
    }
    // the final record: counters, result and the log (decoded, entry order inside a step irrelevant)
    out.push(fnv(&format!("end|{}|{}|{}|{}", o.result, o.final_evals, o.final_iters, o.final_log)));
    out
}

fn emit_group_member(out: &mut Out, group: u64, variant: &str, reference: bool, o: &RunOutcome) {
    out.emit(&json!({"run": group, "ev": if reference { "ref_start" } else { "var_start" }, "variant": variant}));
    for d in step_digests(o) {
        out.emit(&json!({"run": group, "ev": "d", "digest": d, "variant": variant}));
    }
    out.emit(&json!({"run": group, "ev": if reference { "ref_end" } else { "var_end" }, "variant": variant,
                     "result": o.result, "seed_kept": o.seed_kept as i64}));
}

/// begin / claim / finish / end records of every evaluation step of a run (Trace_ParEval)
fn emit_par_evals(out: &mut Out, run: u64, evals: &[ParEvalRaw]) {
    for pe in evals {
        // ranks within this evaluation: dense rank of the expected values, the carried values must reuse them
        let mut vals: Vec<f64> = pe.want.iter().map(|b| f64::from_bits(*b)).collect();
        vals.sort_by(|a, b| a.total_cmp(b));
        vals.dedup_by(|a, b| a.to_bits() == b.to_bits());
        let rank = |b: u64| vals.iter().position(|v| v.to_bits() == b).map(|p| p as i64 + 1).unwrap_or(-1);
        let want: Vec<i64> = pe.want.iter().map(|b| rank(*b)).collect();
        let objs: Vec<i64> = pe.objs.iter().map(|o| o.map(rank).unwrap_or(0)).collect();
        out.emit(&json!({"run": run, "ev": "begin", "n": pe.sols.len(), "want": want}));
        let mut workers: HashMap<u64, i64> = HashMap::new();
        let mut claimed = vec![false; pe.sols.len()];
        let mut holding: HashMap<i64, usize> = HashMap::new();
        for (thread, kind, sol) in &pe.events {
            let nw = workers.len() as i64 + 1;
            let w = *workers.entry(*thread).or_insert(nw);
            if *kind == 0 {
                // the objective function started on a solution: the first unclaimed individual with that solution
                let i = (0..pe.sols.len()).find(|&i| !claimed[i] && &pe.sols[i] == sol);
                match i {
                    Some(i) => {
                        claimed[i] = true;
                        holding.insert(w, i);
                        out.emit(&json!({"run": run, "ev": "claim", "w": w, "i": i + 1}));
                    }
                    None => out.emit(&json!({"run": run, "ev": "claim", "w": w, "i": 0})), // an extra call: no spec step matches
                }
            } else {
                let i = holding.remove(&w).map(|i| i as i64 + 1).unwrap_or(0);
                out.emit(&json!({"run": run, "ev": "finish", "w": w, "i": i}));
            }
        }
        out.emit(&json!({"run": run, "ev": "end", "objs": objs, "calls": pe.events.iter().filter(|e| e.1 == 0).count(),
                         "rng": pe.rng_delta}));
    }
}

fn variants(spec: &Value) -> Vec<(String, RunOpts, bool)> {
    let pools: Vec<usize> = spec["pools"].as_array().map(|a| a.iter().map(|x| x.as_u64().unwrap() as usize).collect()).unwrap_or(vec![1, 2, 3, 8, 16]);
    let base = RunOpts { counting_rng: true, log_config: true, par_log: true, ..Default::default() };
    let mut v = vec![("seq".to_string(), base.clone(), false)];
    v.push(("seq-again".to_string(), base.clone(), false));
    v.push(("seq-clone".to_string(), base.clone(), true));
    for k in pools {
        for jitter in [0u64, 60] {
            v.push((format!("par-{k}-j{jitter}"), RunOpts { parallel: true, threads: k, jitter, ..base.clone() }, jitter == 60 && k % 2 == 0));
        }
    }
    v
}

fn run_group(out: &mut Out, par_out: &mut Out, group: u64, spec: &Value) {
    let name = spec["template"].as_str().unwrap();
    let params = &spec["params"];
    let n = spec["n"].as_u64().unwrap() as u32;
    let seed = spec["seed"].as_u64().unwrap();
    let prob = &spec["prob"];
    macro_rules! go {
        ($mk_problem:expr, $mk_config:expr, $mk_extra:expr) => {{
            for (k, (variant, opts, cloned)) in variants(spec).into_iter().enumerate() {
                let problem = $mk_problem;
                let config: Configuration<_> = match $mk_config {
                    Ok(c) => c,
                    Err(e) => {
                        out.emit(&json!({"run": group, "ev": "ctor_err", "error": format!("{e:#}")}));
                        return;
                    }
                };
                let config = if cloned { config.clone() } else { config };
                let (_, extra) = $mk_extra;
                let o = observe_with(&config, &problem, seed, extra, &opts);
                emit_group_member(out, group, &variant, k == 0, &o);
                if opts.parallel {
                    emit_par_evals(par_out, group * 1000 + k as u64, &o.par_evals);
                }
            }
        }};
    }
    match prob["kind"].as_str().unwrap() {
        "real" => go!(
            RealProblem::new(prob["f"].as_u64().unwrap_or(0) as u8, prob["dim"].as_u64().unwrap() as usize, prob["lo"].as_f64().unwrap(), prob["hi"].as_f64().unwrap()),
            real_template::<RealProblem>(name, params, n),
            templates_extra::real_extra(name, params, n)
        ),
        "bits" => go!(BitProblem::new(prob["dim"].as_u64().unwrap() as usize), bit_template::<BitProblem>(name, params, n), {
            let e: Extra<BitProblem> = Box::new(|_, _, _| (Vec::new(), json!({})));
            ("-".to_string(), e)
        }),
        _ => go!(
            TspProblem::new(prob["f"].as_u64().unwrap_or(0) as u8, prob["dim"].as_u64().unwrap() as usize),
            perm_template::<TspProblem>(name, params, n),
            templates_extra::tsp_extra(name, params)
        ),
    }
}

fn children(out: &mut Out, seeds: &[u64]) {
    for &seed in seeds {
        let mut r = Random::new(seed);
        let kids: Vec<String> = r.iter_children().take(3).map(|mut c| format!("{}-{}", c.next_u64(), c.next_u64())).collect();
        // a user-supplied generator is what the first component draws from: no draw is made before it runs
        let problem = RealProblem::new(0, 2, -1.0, 1.0);
        let config: Configuration<RealProblem> = rs::real_rs(LessThanN::iterations(0)).unwrap();
        let direct = {
            // RandomSpread(1) on a 2-dimensional problem is the first component of real_rs: replay its draws
            let state = config
                .optimize_with(&problem, |state| {
                    state.insert(Random::new(seed));
                    state.insert_evaluator(Sequential::<RealProblem>::new());
                    Ok(())
                })
                .unwrap();
            let after_run = state.borrow::<Random>().config().seed;
            let pops = state.populations();
            let x = pops.current()[0].solution().clone();
            (after_run, x)
        };
        let expected = {
            use rand::Rng;
            let mut r = Random::new(seed);
            let x: Vec<f64> = (0..2).map(|_| r.gen_range(-1.0..1.0)).collect();
            x
        };
        let same = direct.0 == seed && direct.1.iter().zip(&expected).all(|(a, b)| a.to_bits() == b.to_bits());
        out.emit(&json!({"run": 900000 + seed, "ev": "children", "seed": seed, "kids": kids, "first_draw_same": same as i64}));
    }
}

fn log_setup(state: &mut mahf::State<RealProblem>, own_rng: bool) -> ExecResult<()> {
    if own_rng {
        // a generator supplied by the user's setup: it must be the one the run uses
        state.insert(Random::with_rng::<super::templates::CountingRng>(777));
    }
    state.insert_evaluator(Sequential::<RealProblem>::new());
    state.configure_log(|c| {
        c.with_common(mahf::conditions::EveryN::iterations(3))
            .with(mahf::conditions::EveryN::iterations(1), mahf::lens::common::BestObjectiveValueLens::entry());
        Ok(())
    })
}

fn cbor_digest(file: &std::path::Path) -> String {
    std::fs::File::open(file)
        .ok()
        .and_then(|f| ciborium::de::from_reader::<ciborium::value::Value, _>(f).ok())
        .map(|v| canonical(&v))
        .unwrap_or("undecodable".to_string())
}

fn file_digest(file: &std::path::Path) -> String {
    std::fs::read_to_string(file).unwrap_or("unreadable".to_string())
}

/// The batch experiment runner: `runs` x `problems` jobs on pools of 1/4/16 threads, with the
/// run number as seed (or the generator of the user's setup).  Every (configuration, problem, run)
/// is also made directly with `optimize_with` (pool 0): its log is the reference the runner's
/// `<problem>_<run>.cbor` has to decode to.  A second experiment with another configuration is run
/// into the same folder: `configuration.ron` has to be the record of the configuration that was run.
fn experiments(out: &mut Out, dir: &std::path::Path, runs: u64, pools: &[usize]) {
    let mut problems = vec![RealProblem::new(1, 3, -4.0, 12.0), RealProblem::new(0, 2, -1.0, 1.0), RealProblem::new(2, 2, -2.0, 2.0)];
    problems[1].label = "RealProblem-b";
    problems[2].label = "RealProblem-c";
    let configs: Vec<(&str, Configuration<RealProblem>)> = vec![
        ("real_rs(12)", rs::real_rs(LessThanN::iterations(12)).unwrap()),
        ("real_rs(5)", rs::real_rs(LessThanN::iterations(5)).unwrap()),
    ];
    let mut id = 800000u64;
    for own_rng in [false, true] {
        let tag = if own_rng { "-own-generator" } else { "" };
        // references: the same runs made directly with optimize_with (run number as seed, or the user's generator)
        for (cname, config) in &configs {
            for problem in &problems {
                for run in 0..runs {
                    let file = dir.join(format!("exp-ref-{}-{run}.cbor", std::process::id()));
                    let res = config.optimize_with(problem, |state| {
                        if !own_rng {
                            state.insert(Random::new(run));
                        }
                        log_setup(state, own_rng)
                    });
                    let ok = match res {
                        Ok(state) => state.log().to_cbor(&file).is_ok(),
                        Err(_) => false,
                    };
                    let decoded = cbor_digest(&file);
                    let _ = std::fs::remove_file(&file);
                    id += 1;
                    out.emit(&json!({"run": id, "ev": "exp", "key": format!("{cname}{tag}/{}", problem.label), "pool": 0, "rn": run,
                                     "ok": (ok && decoded != "undecodable") as i64, "digest": fnv(&decoded)}));
                }
            }
            let file = dir.join(format!("exp-ref-{}.ron", std::process::id()));
            let ok = config.to_ron(&file).is_ok();
            id += 1;
            out.emit(&json!({"run": id, "ev": "exp", "key": format!("{cname}/configuration.ron"), "pool": 0, "rn": 0,
                             "ok": ok as i64, "digest": fnv(&file_digest(&file))}));
            let _ = std::fs::remove_file(&file);
        }
        for &k in pools {
            // both experiments go into the same folder, one after the other
            let folder = dir.join(format!("exp-{}-{k}-{}", std::process::id(), own_rng as u8));
            let pool = rayon::ThreadPoolBuilder::new().num_threads(k).build().unwrap();
            for (cname, config) in &configs {
                let res: Result<ExecResult<()>, String> =
                    caught(|| pool.install(|| par_experiment(config, |state| log_setup(state, own_rng), &problems, runs, &folder, true)));
                let ok = matches!(res, Ok(Ok(())));
                for problem in &problems {
                    for run in 0..runs {
                        // the decoded content is what matters; key order inside a step map is not stable, so it is sorted
                        let decoded = cbor_digest(&folder.join(format!("{}_{run}.cbor", problem.label)));
                        id += 1;
                        out.emit(&json!({"run": id, "ev": "exp", "key": format!("{cname}{tag}/{}", problem.label), "pool": k, "rn": run,
                                         "ok": (ok && decoded != "undecodable") as i64, "digest": fnv(&decoded)}));
                    }
                }
                id += 1;
                out.emit(&json!({"run": id, "ev": "exp", "key": format!("{cname}/configuration.ron"), "pool": k, "rn": 0,
                                 "ok": ok as i64, "digest": fnv(&file_digest(&folder.join("configuration.ron")))}));
            }
            let _ = std::fs::remove_dir_all(&folder);
        }
    }
    // an experiment in which one run fails (its set-up returns an error): the configuration record is written before the
    // runs start, so it is there (and is the record of this configuration) although the experiment ends with an error
    let (cname, config) = &configs[0];
    for &k in pools {
        let folder = dir.join(format!("exp-{}-{k}-failing", std::process::id()));
        let pool = rayon::ThreadPoolBuilder::new().num_threads(k).build().unwrap();
        let res: Result<ExecResult<()>, String> = caught(|| {
            pool.install(|| {
                par_experiment(
                    config,
                    |state| {
                        if state.borrow::<Random>().config().seed == 1 {
                            return Err(eyre::eyre!("set-up of run 1 fails"));
                        }
                        log_setup(state, false)
                    },
                    &problems,
                    runs.max(2),
                    &folder,
                    true,
                )
            })
        });
        let failed_as_expected = matches!(res, Ok(Err(_)));
        id += 1;
        out.emit(&json!({"run": id, "ev": "exp", "key": format!("{cname}/configuration.ron"), "pool": k, "rn": 0,
                         "ok": failed_as_expected as i64, "digest": fnv(&file_digest(&folder.join("configuration.ron")))}));
        let _ = std::fs::remove_dir_all(&folder);
    }
}

fn canonical(v: &ciborium::value::Value) -> String {
    use ciborium::value::Value as C;
    match v {
        C::Map(m) => {
            let mut items: Vec<String> = m.iter().map(|(k, x)| format!("{}:{}", canonical(k), canonical(x))).collect();
            items.sort();
            format!("{{{}}}", items.join(","))
        }
        C::Array(a) => format!("[{}]", a.iter().map(canonical).collect::<Vec<_>>().join(",")),
        C::Float(f) => format!("f{}", f.to_bits()),
        other => format!("{other:?}"),
    }
}

pub fn main(args: &Args) -> usize {
    let outp = args.str("out");
    let mut out = Out::create(&outp);
    let mut par_out = Out::create(&args.str("par-out"));
    match args.mode.as_str() {
        "groups" => {
            for (k, spec) in read_ndjson(&args.str("in")).iter().enumerate() {
                run_group(&mut out, &mut par_out, k as u64, spec);
            }
            children(&mut out, &[0, 1, 2, 1, 0, args.seed(), args.seed() + 1, args.seed()]);
            let dir = std::path::Path::new(&outp).parent().map(|p| p.to_path_buf()).unwrap_or_default();
            experiments(&mut out, &dir, args.num("exp-runs", 4), &[1, 4, 16]);
        }
        // only the batch experiment runner (C15: configuration record and exported logs)
        "experiments" => {
            let dir = std::path::Path::new(&outp).parent().map(|p| p.to_path_buf()).unwrap_or_default();
            experiments(&mut out, &dir, args.num("exp-runs", 4), &[1, 4]);
        }
        other => panic!("unknown mode {other}"),
    }
    let n = par_out.finish();
    out.finish() + n
}
