//! Template-specific projections recorded after every step (swarm memories, molecules, pheromones).
use serde_json::{json, Value};

use super::templates::Extra;
use crate::runproblems::{RealProblem, TspProblem};

pub fn real_extra(_name: &str, _params: &Value) -> Extra<RealProblem> {
    Box::new(|_, _, _| (Vec::new(), json!({})))
}

pub fn tsp_extra(_name: &str, _params: &Value) -> Extra<TspProblem> {
    Box::new(|_, _, _| (Vec::new(), json!({})))
}
