//! Template-specific projections recorded after every step: swarm memories (C18), molecules and
//! energy buffer (C20), pheromone matrix and tours (C19).  Float facts are reduced to named
//! predicates (DESIGN §2.4, P-pred) evaluated here in f64 and required to hold by spec/Run.tla;
//! objective values are emitted as {"$obj": bits} and replaced by their rank by the projector.
use std::sync::Mutex;

use mahf::{
    components::{
        generative::PheromoneMatrix,
        misc::cro::{ChemicalReaction, EnergyBuffer},
        swarm::pso::{BestParticle, BestParticles, InertiaWeight, ParticleVelocities, ParticleVelocitiesUpdate},
    },
    identifier::Global,
    lens::ValueOf,
    state::common::{Iterations, Populations, Progress},
    Individual, State,
};
use serde_json::{json, Value};

use super::templates::{Extra, RawInd};
use crate::runproblems::{Instrumented, RealProblem, TspProblem};

/// equal up to rounding: the statements speak about values, not about the order of floating-point operations
fn near(a: f64, b: f64, rel: f64) -> bool {
    a.to_bits() == b.to_bits() || (a - b).abs() <= rel * a.abs().max(b.abs()).max(f64::MIN_POSITIVE)
}

fn obj_of<P: Instrumented>(i: &Individual<P>) -> Value {
    match i.get_objective() {
        Some(o) => json!({"$obj": o.value().to_bits().to_string()}),
        None => json!({"$obj": "none"}),
    }
}

fn raw<P: Instrumented>(problem: &P, i: &Individual<P>) -> RawInd {
    let obj = i.get_objective().map(|o| o.value().to_bits());
    let fresh = match obj {
        None => true,
        Some(b) => b == problem.pure(i.solution()).to_bits(),
    };
    RawInd { sol: P::show(i.solution()), obj, fresh }
}

fn p_second(prev: &Mutex<PsoPrev>) -> bool {
    prev.lock().unwrap().second
}

#[derive(Default)]
struct PsoPrev {
    second: bool,
    xs: Vec<Vec<f64>>,
    vs: Vec<Vec<f64>>,
    w: f64,
    /// positions of the personal bests and of the global best (what the next velocity update is attracted to)
    pbs: Vec<Vec<f64>>,
    gb: Option<Vec<f64>>,
}

/// `two`: the run has a second swarm with identifier A (after a first phase with the default identifier); as soon as
/// the A states exist they are the ones observed.
fn pso_extra(params: &Value, n: u32, two: bool) -> Extra<RealProblem> {
    let v_max = params["v_max"].as_f64().unwrap();
    let (c1, c2) = (params["c_one"].as_f64().unwrap(), params["c_two"].as_f64().unwrap());
    let (start, end) = (params["start_weight"].as_f64().unwrap(), params["end_weight"].as_f64().unwrap());
    let prev: Mutex<PsoPrev> = Mutex::new(PsoPrev::default());
    Box::new(move |problem, state: &State<RealProblem>, name| {
        type P = RealProblem;
        let mut others = Vec::new();
        let xs: Vec<Vec<f64>> = state
            .try_borrow::<Populations<P>>()
            .ok()
            .and_then(|p| p.get_current().map(|c| c.iter().map(|i| i.solution().clone()).collect()))
            .unwrap_or_default();
        use mahf::identifier::A;
        let second = two && state.contains::<ParticleVelocities<A>>();
        let vs: Option<Vec<Vec<f64>>> = if second {
            state.try_borrow::<ParticleVelocities<A>>().ok().map(|v| (**v).clone())
        } else {
            state.try_borrow::<ParticleVelocities<Global>>().ok().map(|v| (**v).clone())
        };
        let pb: Option<Vec<Individual<P>>> = if second {
            state.try_borrow::<BestParticles<P, A>>().ok().map(|b| (**b).clone())
        } else {
            state.try_borrow::<BestParticles<P, Global>>().ok().map(|b| (**b).clone())
        };
        let gb: Option<Option<Individual<P>>> = if second {
            state.try_borrow::<BestParticle<P, A>>().ok().map(|b| (**b).clone())
        } else {
            state.try_borrow::<BestParticle<P, Global>>().ok().map(|b| (**b).clone())
        };
        let w = if second {
            state.try_get_value::<InertiaWeight<ParticleVelocitiesUpdate<A>>>().ok()
        } else {
            state.try_get_value::<InertiaWeight<ParticleVelocitiesUpdate>>().ok()
        };
        // the observed swarm changes (second swarm set up): nothing to compare this record with
        let switched = second != p_second(&prev);
        if switched {
            let mut p = prev.lock().unwrap();
            *p = PsoPrev::default();
            p.second = second;
        }
        let progress = state.try_get_value::<Progress<ValueOf<Iterations>>>().ok();
        let mut p = prev.lock().unwrap();
        let vmax_ok = vs.as_ref().map(|vs| vs.iter().flatten().all(|v| v.abs() <= v_max)).unwrap_or(true);
        // after a velocity update: every particle moved by exactly its new velocity
        let (mut moved, mut vexact, mut vrange) = (2, 2, 2);
        if name == "ParticleVelocitiesUpdate" {
            if let Some(vs) = &vs {
                let same_shape = vs.len() == xs.len() && p.xs.len() == xs.len() && p.vs.len() == vs.len();
                moved = (same_shape
                    && xs.iter().zip(&p.xs).zip(vs).all(|((x, xo), v)| {
                        x.len() == xo.len() && x.len() == v.len() && x.iter().zip(xo).zip(v).all(|((x, xo), v)| x.to_bits() == (xo + v).to_bits())
                    })) as i64;
                // whatever the acceleration coefficients: the new velocity is the stored weight times the old one plus two
                // attraction terms c * rand * (best - x) with rand in [0, 1] -- each term lies between 0 and c * (best - x) --
                // clamped: the interval these leave for every coordinate must contain the new velocity
                if same_shape && p.pbs.len() == xs.len() && p.gb.is_some() {
                    let g = p.gb.as_ref().unwrap();
                    vrange = vs.iter().zip(&p.vs).zip(p.xs.iter().zip(&p.pbs)).all(|((v, vo), (xo, pb))| {
                        v.len() == vo.len()
                            && v.len() == xo.len()
                            && pb.len() == xo.len()
                            && g.len() == xo.len()
                            && (0..v.len()).all(|k| {
                                let (a, b) = (c1 * (pb[k] - xo[k]), c2 * (g[k] - xo[k]));
                                let base = p.w * vo[k];
                                let slack = 1e-9 * (base.abs() + a.abs() + b.abs()) + f64::MIN_POSITIVE;
                                let lo = (base + a.min(0.0) + b.min(0.0) - slack).clamp(-v_max, v_max);
                                let hi = (base + a.max(0.0) + b.max(0.0) + slack).clamp(-v_max, v_max);
                                !(base + a + b).is_finite() || (lo <= v[k] && v[k] <= hi)
                            })
                    }) as i64;
                }
                if c1 == 0.0 && c2 == 0.0 {
                    // without acceleration terms the new velocity is exactly the stored weight times the old one, clamped
                    // (the code adds c*rand()*(..) = 0*.. = 0.0, which does not change the sum)
                    vexact = (same_shape
                        && vs.iter().zip(&p.vs).all(|(v, vo)| {
                            v.iter().zip(vo).all(|(v, vo)| {
                                let want = (p.w * vo + 0.0 + 0.0).clamp(-v_max, v_max);
                                near(*v, want, 1e-12) || (*v == 0.0 && want == 0.0)
                            })
                        })) as i64;
                }
            }
        }
        // after the inertia-weight update: the configured linear interpolation at the loop's current progress
        let mut wexact = 2;
        let mut wsched = 2;
        if name == "Linear" {
            // the loop's current progress is iterations / n (what LessThanN::iterations(n) stores when it is evaluated);
            // it is recomputed here, independently of the stored Progress value
            let iters = state.try_get_value::<Iterations>().ok();
            if let (Some(w), Some(it)) = (w, iters) {
                let pr = it as f64 / n as f64;
                wexact = near(w, (end - start) * pr + start, 1e-12) as i64;
                let _ = progress;
            }
        }
        if name == "ParticleVelocitiesUpdate" {
            // the weight in force during pass k is the one the schedule set at the end of pass k - 1 (progress
            // (k - 1) / n), the start weight during pass 0
            if let (Some(w), Ok(it)) = (w, state.try_get_value::<Iterations>()) {
                let sched = if it == 0 { start } else { (end - start) * ((it - 1) as f64 / n as f64) + start };
                wsched = near(w, sched, 1e-12) as i64;
            }
        }
        let pbr: Vec<Value> = pb.as_ref().map(|b| b.iter().map(obj_of).collect()).unwrap_or_default();
        if let Some(b) = &pb {
            others.extend(b.iter().map(|i| raw(problem, i)));
        }
        let gbr = match gb.as_ref().and_then(|g| g.as_ref()) {
            Some(i) => {
                others.push(raw(problem, i));
                obj_of(i)
            }
            None => json!({"$obj": "none"}),
        };
        let x = json!({
            "np": xs.len(), "nv": vs.as_ref().map(|v| v.len() as i64).unwrap_or(-1),
            "npb": pb.as_ref().map(|b| b.len() as i64).unwrap_or(-1),
            "vmax_ok": vmax_ok as i64, "moved": moved, "vexact": vexact, "vrange": vrange, "wexact": wexact, "wsched": wsched, "sw": switched as i64,
            "pbr": pbr, "gbr": gbr,
        });
        p.xs = xs;
        if let Some(b) = &pb {
            p.pbs = b.iter().map(|i| i.solution().clone()).collect();
        }
        if let Some(g) = &gb {
            p.gb = g.as_ref().map(|i| i.solution().clone());
        }
        if let Some(vs) = vs {
            p.vs = vs;
        }
        if let Some(w) = w {
            p.w = w;
        }
        (others, x)
    })
}

fn cro_extra(params: &Value) -> Extra<RealProblem> {
    let prev_energy: Mutex<Option<f64>> = Mutex::new(None);
    // populations of the caller underneath the reaction's population ("real_cro|under")
    let under = if params.get("under_size").is_some() { 1 } else { 0 };
    Box::new(move |problem, state: &State<RealProblem>, _name| {
        type P = RealProblem;
        let mut others = Vec::new();
        let pops = state.try_borrow::<Populations<P>>().ok();
        let reaction = state.try_borrow::<ChemicalReaction<P>>().ok();
        let buffer = state.try_get_value::<EnergyBuffer>().ok();
        let (mut on, mut nm, mut nb) = (0, -1i64, -1i64);
        let (mut ke_ok, mut buf_ok, mut cons, mut best_le) = (1, 1, 1, 1);
        if let (Some(pops), Some(reaction), Some(buffer)) = (pops, reaction, buffer) {
            if pops.len() >= 1 + under && !reaction.is_empty() {
                on = 1;
                // the molecules belong to the reaction's population: the bottom population of the stack, or the one on top
                // of the caller's own (reactants and products are above it)
                let base = pops.peek(pops.len() - 1 - under);
                nm = reaction.len() as i64;
                nb = base.len() as i64;
                ke_ok = reaction.iter().all(|m| m.kinetic_energy >= 0.0) as i64;
                buf_ok = (buffer >= 0.0) as i64;
                let evaluated = base.iter().all(|i| i.is_evaluated());
                if evaluated {
                    let e: f64 = base.iter().map(|i| i.objective().value()).sum::<f64>()
                        + reaction.iter().map(|m| m.kinetic_energy).sum::<f64>()
                        + buffer;
                    let mut pe = prev_energy.lock().unwrap();
                    if let Some(old) = *pe {
                        cons = ((e - old).abs() <= 1e-9 * old.abs().max(1.0)) as i64;
                    }
                    *pe = Some(e);
                    // molecule i remembers the best individual i was: never worse than the individual itself
                    best_le = (nm == nb && reaction.iter().zip(base).all(|(m, i)| m.best.objective() <= i.objective())) as i64;
                }
                others.extend(reaction.iter().map(|m| raw(problem, &m.best)));
            }
        }
        (others, json!({"on": on, "nm": nm, "nb": nb, "ke_ok": ke_ok, "buf_ok": buf_ok, "cons": cons, "best_le": best_le}))
    })
}

fn aco_extra(name: &str, params: &Value) -> Extra<TspProblem> {
    let rho = params["evaporation"].as_f64().unwrap();
    let minmax = name == "max_min_ant_system";
    let c = params["decay_coefficient"].as_f64().unwrap_or(1.0);
    let (lo, hi) = (params["min_pheromones"].as_f64().unwrap_or(0.0), params["max_pheromones"].as_f64().unwrap_or(f64::INFINITY));
    let prev: Mutex<Vec<Vec<f64>>> = Mutex::new(Vec::new());
    Box::new(move |problem, state: &State<TspProblem>, step| {
        type P = TspProblem;
        let d = problem.dim;
        let pm: Option<Vec<Vec<f64>>> = state.try_borrow::<PheromoneMatrix>().ok().map(|m| (0..d).map(|i| m[i].to_vec()).collect());
        let tours: Vec<Individual<P>> =
            state.try_borrow::<Populations<P>>().ok().and_then(|p| p.get_current().map(|c| c.to_vec())).unwrap_or_default();
        let (mut perm_ok, mut greedy_ok, mut cell_ok, mut sym, mut finite, mut bounds) = (2, 2, 2, 2, 2, 2);
        let mut old = prev.lock().unwrap();
        if let Some(pm) = &pm {
            finite = pm.iter().flatten().all(|v| v.is_finite() && *v >= 0.0) as i64;
            sym = (0..d).all(|a| (0..d).all(|b| near(pm[a][b], pm[b][a], 1e-12))) as i64;
            if minmax {
                bounds = (0..d).all(|a| (0..d).all(|b| a == b || (pm[a][b] >= lo && pm[a][b] <= hi))) as i64;
            }
            if step == "AcoGeneration" {
                perm_ok = tours.iter().all(|t| {
                    let s = t.solution();
                    let mut seen = vec![false; d];
                    s.len() == d && s.first() == Some(&0) && s.iter().all(|&c| c < d && !std::mem::replace(&mut seen[c], true))
                }) as i64;
                // the first tour is greedy w.r.t. the current matrix: each next city has a maximal trail among the remaining
                greedy_ok = tours.first().map(|t| {
                    let s = t.solution();
                    (1..s.len()).all(|k| {
                        let last = s[k - 1];
                        s[k..].iter().all(|&r| pm[last][s[k]] >= pm[last][r])
                    })
                }).unwrap_or(false) as i64;
            }
            if (step == "AsPheromoneUpdate" || step == "MinMaxPheromoneUpdate") && old.len() == d {
                // expected matrix: evaporate every trail, then deposit symmetrically on consecutive cities of the rewarded
                // tours (ant system: all sampled tours; max-min: ONE best sampled tour -- which one of several equally short
                // tours is not part of the statement, so any of them may explain the matrix), then (max-min) clamp
                let sampled: Vec<&Individual<P>> = tours.iter().skip(1).collect();
                let candidates: Vec<Vec<&Individual<P>>> = if minmax {
                    let best = sampled.iter().map(|t| t.objective().value()).fold(f64::INFINITY, f64::min);
                    sampled.iter().filter(|t| t.objective().value() == best).map(|t| vec![*t]).collect()
                } else {
                    vec![sampled.clone()]
                };
                let close = |x: f64, y: f64| (x - y).abs() <= 1e-9 * y.abs().max(1e-300);
                cell_ok = candidates.iter().any(|rewarded| {
                    let mut want: Vec<Vec<f64>> = old.iter().map(|r| r.iter().map(|v| v * (1.0 - rho)).collect()).collect();
                    for t in rewarded {
                        let delta = if minmax { 1.0 } else { c } / t.objective().value();
                        let s = t.solution();
                        for k in 1..s.len() {
                            let (a, b) = (s[k - 1], s[k]);
                            want[a][b] += delta;
                            want[b][a] += delta;
                        }
                    }
                    (0..d).all(|a| (0..d).all(|b| a == b || close(pm[a][b], if minmax { want[a][b].clamp(lo, hi) } else { want[a][b] })))
                }) as i64;
            }
            *old = pm.clone();
        }
        let _ = problem;
        (Vec::new(), json!({"perm_ok": perm_ok, "greedy_ok": greedy_ok, "cell_ok": cell_ok, "sym": sym, "finite": finite, "bounds": bounds}))
    })
}

/// C17 (template level).  Recorded after every step of an SA run:
///
/// * the temperature in force (the innermost one, what `get_value::<Temperature>()` returns) as the
///   predicates "T = t_0 * alpha^k by k successive multiplications" for k = completed iterations
///   (`t_iters`) and k = completed iterations + 1 (`t_next`), t_0 / alpha / iterations being those of
///   the SA that owns the innermost scope (`params.inner` describes an SA nested in a `Scope`);
/// * the scope chain of temperatures, root first, one entry per scope: `own` (the scope holds a
///   `Temperature` of its own), `tid` (P-tag: small integer naming the bit pattern of that
///   temperature, 0 = none), `tit` / `tnx` (the predicates above for that scope's temperature, t_0,
///   alpha and `Iterations`), and `cool1` (after a cooling step: the innermost temperature is exactly
///   its previous value times that SA's alpha; 2 elsewhere);
/// * the operands the acceptance component will find: `cur` / `cand` (P-rank of the objective values
///   of the single individuals in the second population from the top / the top population, none if
///   the stack does not have that shape), `curt` (P-tag of the current solution) and `pcl`, the class
///   of p = exp(-(f(cand) - f(cur)) / T) at the temperature in force: "zero" (p < 1e-12), "one"
///   (p > 1 - 1e-12), "mid", "-" (no operands).
fn sa_extra<P: Instrumented>(params: &Value) -> Extra<P> {
    use mahf::components::replacement::sa::Temperature;
    let mut levels = vec![(params["t_0"].as_f64().unwrap(), params["alpha"].as_f64().unwrap())];
    if let Some(inner) = params.get("inner") {
        levels.push((inner["t_0"].as_f64().unwrap(), inner["alpha"].as_f64().unwrap()));
    }
    let ids: Mutex<std::collections::HashMap<u64, i64>> = Mutex::new(Default::default());
    let before: Mutex<Vec<Option<f64>>> = Mutex::new(Vec::new());
    Box::new(move |_problem, state: &State<P>, name| {
        let on_schedule = |t0: f64, alpha: f64, it: u32, t: f64| {
            let mut e = t0;
            for _ in 0..it {
                e *= alpha;
            }
            (near(e, t, 1e-9) as i64, near(e * alpha, t, 1e-9) as i64)
        };
        // scope chain, root first
        let mut chain: Vec<&mahf::StateRegistry> = Vec::new();
        let mut r: &mahf::StateRegistry = state;
        loop {
            chain.push(r);
            match r.parent() {
                Some(p) => r = p,
                None => break,
            }
        }
        chain.reverse();
        let k = chain.len();
        let level = |l: usize| levels[l.min(levels.len() - 1)];
        let (mut own, mut tid, mut tit, mut tnx, mut temps) = (Vec::new(), Vec::new(), Vec::new(), Vec::new(), Vec::new());
        let mut ids = ids.lock().unwrap();
        for (l, reg) in chain.iter().enumerate() {
            let t = if reg.contains_at_top::<Temperature>() { reg.try_get_value::<Temperature>().ok() } else { None };
            let it = if reg.contains_at_top::<Iterations>() { reg.try_get_value::<Iterations>().ok() } else { None };
            own.push(t.is_some() as i64);
            let n = ids.len() as i64 + 1;
            tid.push(t.map(|t| *ids.entry(t.to_bits()).or_insert(n)).unwrap_or(0));
            let (a, b) = match (t, it) {
                (Some(t), Some(it)) => on_schedule(level(l).0, level(l).1, it, t),
                _ => (-1, -1),
            };
            tit.push(a);
            tnx.push(b);
            temps.push(t);
        }
        let mut before = before.lock().unwrap();
        let mut cool1 = 2;
        if name == "GeometricCooling" {
            cool1 = match (before.get(k - 1).copied().flatten(), temps[k - 1]) {
                (Some(old), Some(new)) if before.len() == k => near(old * level(k - 1).1, new, 1e-12) as i64,
                _ => 0,
            };
        }
        *before = temps;
        // the temperature in force and the iteration counter in force
        let t = state.try_get_value::<Temperature>().ok();
        let iters = state.try_get_value::<Iterations>().ok();
        let (t_iters, t_next) = match (t, iters) {
            (Some(t), Some(it)) => on_schedule(level(k - 1).0, level(k - 1).1, it, t),
            _ => (-1, -1),
        };
        // operands of the acceptance
        let none = json!({"$obj": "none"});
        let (mut cur, mut cand, mut curt, mut pcl) = (none.clone(), none, json!(0), "-");
        if let Ok(pops) = state.try_borrow::<Populations<P>>() {
            if pops.len() >= 2 && pops.peek(0).len() == 1 && pops.peek(1).len() == 1 {
                let (c, d) = (&pops.peek(1)[0], &pops.peek(0)[0]);
                cur = obj_of(c);
                cand = obj_of(d);
                curt = json!({"$tag": P::show(c.solution())});
                if let (Some(fc), Some(fd), Some(t)) = (c.get_objective(), d.get_objective(), t) {
                    let p = (-(fd.value() - fc.value()) / t).exp();
                    pcl = if p < 1e-12 {
                        "zero"
                    } else if p > 1.0 - 1e-12 {
                        "one"
                    } else {
                        "mid" // includes NaN (inf - inf): no constraint from the probability
                    };
                }
            }
        }
        (Vec::new(), json!({"t_iters": t_iters, "t_next": t_next, "own": own, "tid": tid, "tit": tit, "tnx": tnx, "cool1": cool1,
                            "cur": cur, "cand": cand, "curt": curt, "pcl": pcl}))
    })
}

pub fn real_extra(name: &str, params: &Value, n: u32) -> (String, Extra<RealProblem>) {
    match name {
        "real_sa" | "real_sa|nested" => ("sa".to_string(), sa_extra::<RealProblem>(params)),
        "real_pso" | "real_pso|evals" | "real_pso|log4" | "real_pso|scoped" | "real_pso|phase2" | "real_pso|const" => ("pso".to_string(), pso_extra(params, n, false)),
        "real_pso@AG" => ("pso".to_string(), pso_extra(params, n, true)),
        "real_cro" | "real_cro|under" => ("cro".to_string(), cro_extra(params)),
        _ => ("-".to_string(), Box::new(|_, _, _| (Vec::new(), json!({})))),
    }
}

pub fn tsp_extra(name: &str, params: &Value) -> (String, Extra<TspProblem>) {
    match name {
        "ant_system" | "max_min_ant_system" => ("aco".to_string(), aco_extra(name, params)),
        "permutation_sa" => ("sa".to_string(), sa_extra::<TspProblem>(params)),
        _ => ("-".to_string(), Box::new(|_, _, _| (Vec::new(), json!({})))),
    }
}
