//! Driver for spec module `Exec` (C03): configurations built with `Configuration::builder()` from a
//! program value, made of instrumented leaves and scripted conditions, run with `Configuration::run`
//! on a prepared `State`; every init / require / execute (evaluate) call logs what it sees.
use std::sync::{Arc, Mutex};

use better_any::{Tid, TidAble};
use mahf::{
    component::ExecResult,
    configuration::ConfigurationBuilder,
    state::{common::Iterations, StateReq},
    Component, Condition, Configuration, CustomState, State,
};
use rand::Rng;
use serde::Serialize;
use serde_json::{json, Value};

use crate::{
    tagproblem::TagProblem,
    util::{caught, read_ndjson, rng, Args, Out, NOVAL},
};

type P = TagProblem;

#[derive(Tid)]
pub struct K0(pub u32);
impl CustomState<'_> for K0 {}
impl std::ops::Deref for K0 {
    type Target = u32;
    fn deref(&self) -> &u32 {
        &self.0
    }
}
impl std::ops::DerefMut for K0 {
    fn deref_mut(&mut self) -> &mut u32 {
        &mut self.0
    }
}
#[derive(Tid)]
pub struct U(pub u32);
impl CustomState<'_> for U {}
impl std::ops::Deref for U {
    type Target = u32;
    fn deref(&self) -> &u32 {
        &self.0
    }
}

/// Shared context of one run: event log, script cursor, per-phase call counters, fault.
pub struct Ctx {
    pub events: Vec<Value>,
    pub script: Vec<u8>,
    pub cursor: usize,
    pub cnt: [u32; 3],
    pub fault: (String, u32),
    pub failed: Option<(String, Vec<u32>)>,
}

pub type Shared = Arc<Mutex<Ctx>>;

fn phase_idx(ph: &str) -> usize {
    match ph {
        "init" => 0,
        "require" => 1,
        _ => 2,
    }
}

/// the whole scope stack (root first) projected on IT / K0 / U
pub fn project_scopes(state: &State<P>) -> Value {
    let mut chain = Vec::new();
    let mut cur: Option<&mahf::StateRegistry> = Some(state);
    while let Some(r) = cur {
        let it = if r.contains_at_top::<Iterations>() { r.try_get_value::<Iterations>().map(|v| v as i64).unwrap_or(-1) } else { NOVAL };
        let k0 = if r.contains_at_top::<K0>() { r.try_get_value::<K0>().map(|v| v as i64).unwrap_or(-1) } else { NOVAL };
        let u = if r.contains_at_top::<U>() { r.try_get_value::<U>().map(|v| v as i64).unwrap_or(-1) } else { NOVAL };
        chain.push(json!({"IT": it, "K0": k0, "U": u}));
        cur = r.parent();
    }
    chain.reverse();
    Value::Array(chain)
}

/// Logs one call; returns true if this call is the injected fault.
fn log(ctx: &Shared, ph: &str, kind: &str, path: &[u32], state: &State<P>, b: i64) -> bool {
    let mut c = ctx.lock().unwrap();
    let i = phase_idx(ph);
    c.cnt[i] += 1;
    let failing = c.fault.0 == ph && c.fault.1 == c.cnt[i];
    c.events.push(json!({"ph": ph, "kind": kind, "p": path, "sc": project_scopes(state), "b": b,
                         "fail": failing as i64}));
    if failing {
        c.failed = Some((ph.to_string(), path.to_vec()));
    }
    failing
}

#[derive(Clone, Serialize)]
pub struct VLeaf {
    path: Vec<u32>,
    variant: String,
    #[serde(skip)]
    ctx: Shared,
}

impl Component<P> for VLeaf {
    fn init(&self, _: &P, state: &mut State<P>) -> ExecResult<()> {
        if log(&self.ctx, "init", "leaf", &self.path, state, NOVAL) {
            return Err(eyre::eyre!("injected fault"));
        }
        if self.variant == "ins0" {
            state.insert(K0(0));
        }
        Ok(())
    }
    fn require(&self, _: &P, state_req: &StateReq<P>) -> ExecResult<()> {
        if log(&self.ctx, "require", "leaf", &self.path, state_req.verif_state(), NOVAL) {
            return Err(eyre::eyre!("injected fault"));
        }
        if self.variant == "req0" {
            if let Err(e) = state_req.require::<Self, K0>() {
                self.ctx.lock().unwrap().failed = Some(("require".to_string(), self.path.clone()));
                return Err(e.into());
            }
        }
        Ok(())
    }
    fn execute(&self, _: &P, state: &mut State<P>) -> ExecResult<()> {
        if log(&self.ctx, "exec", "leaf", &self.path, state, NOVAL) {
            return Err(eyre::eyre!("injected fault"));
        }
        if self.variant == "ins0" {
            if let Ok(mut k) = state.try_borrow_value_mut::<K0>() {
                *k += 1;
            }
        }
        Ok(())
    }
}

#[derive(Clone, Serialize)]
pub struct VCond {
    path: Vec<u32>,
    #[serde(skip)]
    ctx: Shared,
}

impl Condition<P> for VCond {
    fn init(&self, _: &P, state: &mut State<P>) -> ExecResult<()> {
        if log(&self.ctx, "init", "cond", &self.path, state, NOVAL) {
            return Err(eyre::eyre!("injected fault"));
        }
        Ok(())
    }
    fn require(&self, _: &P, state_req: &StateReq<P>) -> ExecResult<()> {
        if log(&self.ctx, "require", "cond", &self.path, state_req.verif_state(), NOVAL) {
            return Err(eyre::eyre!("injected fault"));
        }
        Ok(())
    }
    fn evaluate(&self, _: &P, state: &mut State<P>) -> ExecResult<bool> {
        let b = {
            let mut c = self.ctx.lock().unwrap();
            let b = c.script.get(c.cursor).copied().unwrap_or(0);
            if c.cursor < c.script.len() {
                c.cursor += 1;
            }
            b
        };
        if log(&self.ctx, "exec", "cond", &self.path, state, b as i64) {
            return Err(eyre::eyre!("injected fault"));
        }
        Ok(b == 1)
    }
}

fn child(path: &[u32], more: &[u32]) -> Vec<u32> {
    let mut p = path.to_vec();
    p.extend_from_slice(more);
    p
}

/// Builds a body with the builder calls a user would write.
pub fn build_body(mut b: ConfigurationBuilder<P>, body: &Value, path: &[u32], ctx: &Shared) -> ConfigurationBuilder<P> {
    for (i, st) in body.as_array().unwrap().iter().enumerate() {
        let p = child(path, &[i as u32 + 1]);
        let cond = || -> Box<dyn Condition<P>> { Box::new(VCond { path: child(&p, &[0]), ctx: ctx.clone() }) };
        b = match st["k"].as_str().unwrap() {
            "leaf" => b.do_(Box::new(VLeaf { path: p.clone(), variant: st["v"].as_str().unwrap().to_string(), ctx: ctx.clone() })),
            "while" => b.while_(cond(), |bb| build_body(bb, &st["b"], &child(&p, &[1]), ctx)),
            "if" => b.if_(cond(), |bb| build_body(bb, &st["b"], &child(&p, &[1]), ctx)),
            "ifelse" => b.if_else_(
                cond(),
                |bb| build_body(bb, &st["b"], &child(&p, &[1]), ctx),
                |bb| build_body(bb, &st["e"], &child(&p, &[2]), ctx),
            ),
            "scope" => b.scope_(|bb| build_body(bb, &st["b"], &child(&p, &[1]), ctx)),
            other => panic!("unknown statement kind {other}"),
        };
    }
    b
}

fn run_case(out: &mut Out, run: u64, case: &Value) {
    let script: Vec<u8> = case["script"].as_array().unwrap().iter().map(|x| x.as_u64().unwrap() as u8).collect();
    let fault = (case["fault"][0].as_str().unwrap().to_string(), case["fault"][1].as_u64().unwrap() as u32);
    let ctx: Shared = Arc::new(Mutex::new(Ctx { events: Vec::new(), script, cursor: 0, cnt: [0; 3], fault, failed: None }));
    let config: Configuration<P> = build_body(Configuration::builder(), &case["prog"], &[], &ctx).build();
    let problem = TagProblem::identity(4);
    let mut state: State<P> = State::new();
    state.insert(U(7));
    let result = caught(|| config.run(&problem, &mut state));
    out.emit(&json!({"run": run, "ev": "case", "prog": case["prog"], "script": case["script"], "fault": case["fault"]}));
    let c = ctx.lock().unwrap();
    for e in &c.events {
        out.emit(&json!({"run": run, "ev": "e", "e": e}));
    }
    let (res, fph, fp) = match (&result, &c.failed) {
        (Err(_), _) => ("panic", "-".to_string(), vec![]),
        (Ok(Ok(())), None) => ("ok", "-".to_string(), vec![]),
        (Ok(Ok(())), Some(_)) => ("ok_after_failure", "-".to_string(), vec![]),
        (Ok(Err(_)), Some((ph, p))) => ("err", ph.clone(), p.clone()),
        (Ok(Err(_)), None) => ("err_unexplained", "-".to_string(), vec![]),
    };
    let mut depth = 1;
    let mut root: &mahf::StateRegistry = &state;
    while let Some(p) = root.parent() {
        root = p;
        depth += 1;
    }
    let scopes = project_scopes(&state);
    out.emit(&json!({"run": run, "ev": "end",
        "end": {"result": res, "fph": fph, "fp": fp, "depth": depth, "root": scopes[0], "left": c.script.len() - c.cursor}}));
}

fn random_body(rng: &mut impl Rng, budget: &mut i32, depth: u32) -> Value {
    let mut body = Vec::new();
    let n = rng.gen_range(0..=4);
    for _ in 0..n {
        if *budget <= 0 {
            break;
        }
        *budget -= 1;
        let kind = if depth >= 4 { 0 } else { rng.gen_range(0..10) };
        body.push(match kind {
            0..=3 => {
                let v = ["plain", "ins0", "req0", "ins0"][rng.gen_range(0..4)];
                json!({"k": "leaf", "v": v, "b": [], "e": []})
            }
            4..=5 => json!({"k": "while", "v": "-", "b": random_body(rng, budget, depth + 1), "e": []}),
            6 => json!({"k": "if", "v": "-", "b": random_body(rng, budget, depth + 1), "e": []}),
            7 => json!({"k": "ifelse", "v": "-", "b": random_body(rng, budget, depth + 1), "e": random_body(rng, budget, depth + 1)}),
            _ => json!({"k": "scope", "v": "-", "b": random_body(rng, budget, depth + 1), "e": []}),
        });
    }
    Value::Array(body)
}

pub fn main(args: &Args) -> usize {
    let mut out = Out::create(&args.str("out"));
    match args.mode.as_str() {
        // cases exported by TLC: {"run": k, "prog": .., "script": .., "fault": ..}
        "replay" => {
            for case in read_ndjson(&args.str("in")) {
                run_case(&mut out, case["run"].as_u64().unwrap(), &case);
            }
        }
        "random" => {
            let runs = args.num("n", 300);
            let max_stmts = args.num("stmts", 25) as i32;
            for run in 0..runs {
                let mut rng = rng(args.seed(), run);
                let mut budget = rng.gen_range(6..=max_stmts);
                let prog = random_body(&mut rng, &mut budget, 0);
                let slen = rng.gen_range(0..=8);
                // scripts biased toward true so that loops make several passes, but always end in a run of falses
                let script: Vec<u8> = (0..slen).map(|_| rng.gen_bool(0.55) as u8).collect();
                let fault = if rng.gen_bool(0.5) {
                    json!(["none", 0])
                } else {
                    let ph = ["init", "require", "exec"][rng.gen_range(0..3)];
                    json!([ph, rng.gen_range(1..=12)])
                };
                run_case(&mut out, run, &json!({"prog": prog, "script": script, "fault": fault}));
            }
        }
        other => panic!("unknown mode {other}"),
    }
    out.finish()
}
