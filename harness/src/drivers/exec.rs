//! Driver for spec module `Exec` (C03): configurations built with `Configuration::builder()` from a
//! program value, made of instrumented leaves and scripted conditions, run with `Configuration::run`
//! on a prepared `State`; every init / require / execute (evaluate) call logs what it sees.
use std::sync::{Arc, Mutex};

use better_any::{Tid, TidAble};
use mahf::state::common::Progress;
use mahf::{
    component::ExecResult,
    conditions::EveryN,
    configuration::ConfigurationBuilder,
    lens::ValueOf,
    logging::{LogConfig, Logger},
    state::{
        common::{Evaluations, Iterations},
        StateReq,
    },
    Component, Condition, Configuration, CustomState, State,
};
use rand::Rng;
use serde::Serialize;
use serde_json::{json, Value};

use crate::{
    tagproblem::TagProblem,
    util::{caught, read_ndjson, rng, Args, Out, NOVAL},
};

type P = TagProblem;

#[derive(Tid, Clone, Serialize, Default)]
pub struct K0(pub u32);
impl CustomState<'_> for K0 {}
impl std::ops::Deref for K0 {
    type Target = u32;
    fn deref(&self) -> &u32 {
        &self.0
    }
}
impl std::ops::DerefMut for K0 {
    fn deref_mut(&mut self) -> &mut u32 {
        &mut self.0
    }
}
#[derive(Tid, Clone, Serialize)]
pub struct U(pub u32);
impl CustomState<'_> for U {}
impl std::ops::Deref for U {
    type Target = u32;
    fn deref(&self) -> &u32 {
        &self.0
    }
}

#[derive(Tid, Clone, Serialize)]
pub struct Missing(pub u32);
impl CustomState<'_> for Missing {}
impl std::ops::Deref for Missing {
    type Target = u32;
    fn deref(&self) -> &u32 {
        &self.0
    }
}

/// Log triggers that leave no trace in the event stream: constant, or replaying a fixed script.
#[derive(Clone, Serialize)]
pub struct TrigConst(bool);
impl Condition<P> for TrigConst {
    fn evaluate(&self, _: &P, _: &mut State<P>) -> ExecResult<bool> {
        Ok(self.0)
    }
}
#[derive(Clone, Serialize)]
pub struct TrigScripted {
    /// the script that stays silent at first
    late: bool,
    #[serde(skip)]
    pos: Arc<Mutex<usize>>,
}
const TRIG_SCRIPT: [bool; 5] = [true, false, true, true, false];
const LATE_SCRIPT: [bool; 5] = [false, true, false, true, true];
impl Condition<P> for TrigScripted {
    fn evaluate(&self, _: &P, _: &mut State<P>) -> ExecResult<bool> {
        let mut p = self.pos.lock().unwrap();
        let b = if self.late { LATE_SCRIPT } else { TRIG_SCRIPT }.get(*p).copied().unwrap_or(false);
        *p += 1;
        Ok(b)
    }
}

fn short_name(n: &str) -> &'static str {
    if n.contains("Progress<") {
        // the progress of WHICH counter
        if n.contains("::K0>") {
            "PG"
        } else if n.contains("::Iterations>") {
            "PI"
        } else if n.contains("::Evaluations>") {
            "PE"
        } else {
            "UNKNOWN"
        }
    } else if n.ends_with("::K0") {
        "K0"
    } else if n.ends_with("::U") {
        "U"
    } else if n.ends_with("::Iterations") {
        "IT"
    } else if n.ends_with("::Evaluations") {
        "EV"
    } else if n.ends_with("::Missing") {
        "MISSING"
    } else if n.contains("BestObjectiveValue") {
        "BV"
    } else {
        "UNKNOWN"
    }
}

/// integers as they are; the float state PG (a multiple of 0.75) in quarters
fn val(v: &Value) -> i64 {
    match (v.as_i64(), v.as_f64()) {
        (Some(i), _) => i,
        (None, Some(f)) => (f * 4.0).round() as i64,
        // a value that is present but is no number (e.g. a non-finite float of a binary export): not "missing"
        _ if v.is_string() => 777_777,
        _ => NOVAL,
    }
}

/// the log as mahf serialises it directly: ordered steps of {name, value}
fn log_direct(state: &State<P>) -> Value {
    let v = serde_json::to_value(&*state.log()).unwrap_or(json!([]));
    Value::Array(
        v.as_array().cloned().unwrap_or_default().iter()
            .map(|step| Value::Array(step.as_array().cloned().unwrap_or_default().iter()
                .map(|e| json!({"n": short_name(e["name"].as_str().unwrap_or("")), "v": val(&e["value"])})).collect()))
            .collect(),
    )
}

/// decodes a compressed export {names: [..], entries: [{key: value}]} into steps sorted by name
fn decode_compressed(v: &Value) -> Value {
    let names: Vec<&str> = v["names"].as_array().map(|a| a.iter().map(|x| x.as_str().unwrap_or("")).collect()).unwrap_or_default();
    let mut steps = Vec::new();
    for m in v["entries"].as_array().cloned().unwrap_or_default() {
        let mut es: Vec<(&'static str, i64)> = Vec::new();
        if let Some(o) = m.as_object() {
            for (k, x) in o {
                let idx: usize = k.parse().unwrap_or(usize::MAX);
                es.push((short_name(names.get(idx).copied().unwrap_or("")), val(x)));
            }
        }
        es.sort();
        steps.push(Value::Array(es.into_iter().map(|(n, v)| json!({"n": n, "v": v})).collect()));
    }
    Value::Array(steps)
}

fn cbor_to_json(v: &ciborium::value::Value) -> Value {
    use ciborium::value::Value as C;
    match v {
        C::Integer(i) => json!(i128::from(*i) as i64),
        C::Text(s) => json!(s),
        C::Null => Value::Null,
        C::Bool(b) => json!(b),
        C::Float(f) if !f.is_finite() => json!("nonfinite"),
        C::Float(f) => json!(f),
        C::Array(a) => Value::Array(a.iter().map(cbor_to_json).collect()),
        C::Map(m) => Value::Object(m.iter().map(|(k, x)| {
            let key = match k {
                C::Text(s) => s.clone(),
                C::Integer(i) => (i128::from(*i)).to_string(),
                other => format!("{other:?}"),
            };
            (key, cbor_to_json(x))
        }).collect()),
        other => json!(format!("{other:?}")),
    }
}

/// Shared context of one run: event log, script cursor, per-phase call counters, fault.
pub struct Ctx {
    pub events: Vec<Value>,
    pub script: Vec<u8>,
    pub cursor: usize,
    pub cnt: [u32; 3],
    pub fault: (String, u32),
    pub failed: Option<(String, Vec<u32>)>,
}

pub type Shared = Arc<Mutex<Ctx>>;

fn phase_idx(ph: &str) -> usize {
    match ph {
        "init" => 0,
        "require" => 1,
        _ => 2,
    }
}

/// the whole scope stack (root first) projected on IT / K0 / U
pub fn project_scopes(state: &State<P>) -> Value {
    let mut chain = Vec::new();
    let mut cur: Option<&mahf::StateRegistry> = Some(state);
    while let Some(r) = cur {
        let it = if r.contains_at_top::<Iterations>() { r.try_get_value::<Iterations>().map(|v| v as i64).unwrap_or(-1) } else { NOVAL };
        let k0 = if r.contains_at_top::<K0>() { r.try_get_value::<K0>().map(|v| v as i64).unwrap_or(-1) } else { NOVAL };
        let u = if r.contains_at_top::<U>() { r.try_get_value::<U>().map(|v| v as i64).unwrap_or(-1) } else { NOVAL };
        chain.push(json!({"IT": it, "K0": k0, "U": u}));
        cur = r.parent();
    }
    chain.reverse();
    Value::Array(chain)
}

/// Logs one call; returns true if this call is the injected fault.
fn log(ctx: &Shared, ph: &str, kind: &str, path: &[u32], state: &State<P>, b: i64) -> bool {
    let mut c = ctx.lock().unwrap();
    let i = phase_idx(ph);
    c.cnt[i] += 1;
    let failing = c.fault.0 == ph && c.fault.1 == c.cnt[i];
    c.events.push(json!({"ph": ph, "kind": kind, "p": path, "sc": project_scopes(state), "b": b,
                         "fail": failing as i64}));
    if failing {
        c.failed = Some((ph.to_string(), path.to_vec()));
    }
    failing
}

#[derive(Clone, Serialize)]
pub struct VLeaf {
    path: Vec<u32>,
    variant: String,
    #[serde(skip)]
    ctx: Shared,
}

impl VLeaf {
    /// variant "ent0": K0 through the get-or-create accessors of the registry; which of the equivalent forms is used
    /// depends on the position of the leaf, so every form occurs inside and outside scopes
    fn get_or_create(&self, state: &mut State<P>) {
        use mahf::state::registry::Entry;
        let created = !state.contains::<K0>();
        match self.path.iter().sum::<u32>() % 4 {
            0 => {
                state.entry::<K0>().or_insert(K0(0));
            }
            1 => {
                state.entry::<K0>().or_insert_with(|| K0(0));
            }
            2 => {
                state.entry::<K0>().or_default();
            }
            _ => {
                if let Entry::Vacant(e) = state.entry::<K0>() {
                    e.insert(K0(0));
                }
            }
        }
        if created {
            state.entry::<Progress<ValueOf<K0>>>().or_insert_with(Progress::<ValueOf<K0>>::default);
        }
    }
}

impl Component<P> for VLeaf {
    fn init(&self, _: &P, state: &mut State<P>) -> ExecResult<()> {
        if log(&self.ctx, "init", "leaf", &self.path, state, NOVAL) {
            return Err(eyre::eyre!("injected fault"));
        }
        if self.variant == "ins0" {
            state.insert(K0(0));
            // a float state kept next to K0 (PG = 0.75 * K0: also values above 1)
            state.insert(Progress::<ValueOf<K0>>::default());
            // the states the `with_common` shorthand of LogConfig names, and the progress of the other counter, kept next
            // to K0 with values that tell them apart: Evaluations = K0 + 10, progress of the iterations = (K0 + 20) / 4,
            // progress of the evaluations = (K0 + 30) / 4
            state.insert(Evaluations(10));
            let mut pi = Progress::<ValueOf<Iterations>>::default();
            *pi = 20.0 * 0.25;
            state.insert(pi);
            let mut pe = Progress::<ValueOf<Evaluations>>::default();
            *pe = 30.0 * 0.25;
            state.insert(pe);
        }
        if self.variant == "ent0" {
            self.get_or_create(state);
        }
        Ok(())
    }
    fn require(&self, _: &P, state_req: &StateReq<P>) -> ExecResult<()> {
        if log(&self.ctx, "require", "leaf", &self.path, state_req.verif_state(), NOVAL) {
            return Err(eyre::eyre!("injected fault"));
        }
        if self.variant == "req0" {
            if let Err(e) = state_req.require::<Self, K0>() {
                self.ctx.lock().unwrap().failed = Some(("require".to_string(), self.path.clone()));
                return Err(e.into());
            }
        }
        Ok(())
    }
    fn execute(&self, _: &P, state: &mut State<P>) -> ExecResult<()> {
        if log(&self.ctx, "exec", "leaf", &self.path, state, NOVAL) {
            return Err(eyre::eyre!("injected fault"));
        }
        if self.variant == "ent0" {
            self.get_or_create(state);
        }
        if self.variant == "ins0" || self.variant == "ent0" {
            let mut now = None;
            if let Ok(mut k) = state.try_borrow_value_mut::<K0>() {
                *k += 1;
                now = Some(*k);
            }
            if let (Some(k), Ok(mut p)) = (now, state.try_borrow_value_mut::<Progress<ValueOf<K0>>>()) {
                *p = k as f64 * 0.75;
            }
            if let (Some(k), Ok(mut e)) = (now, state.try_borrow_value_mut::<Evaluations>()) {
                *e = k + 10;
            }
            if let (Some(k), Ok(mut p)) = (now, state.try_borrow_value_mut::<Progress<ValueOf<Iterations>>>()) {
                *p = (k + 20) as f64 * 0.25;
            }
            if let (Some(k), Ok(mut p)) = (now, state.try_borrow_value_mut::<Progress<ValueOf<Evaluations>>>()) {
                *p = (k + 30) as f64 * 0.25;
            }
        }
        Ok(())
    }
}

#[derive(Clone, Serialize)]
pub struct VCond {
    path: Vec<u32>,
    #[serde(skip)]
    ctx: Shared,
}

impl Condition<P> for VCond {
    fn init(&self, _: &P, state: &mut State<P>) -> ExecResult<()> {
        if log(&self.ctx, "init", "cond", &self.path, state, NOVAL) {
            return Err(eyre::eyre!("injected fault"));
        }
        Ok(())
    }
    fn require(&self, _: &P, state_req: &StateReq<P>) -> ExecResult<()> {
        if log(&self.ctx, "require", "cond", &self.path, state_req.verif_state(), NOVAL) {
            return Err(eyre::eyre!("injected fault"));
        }
        Ok(())
    }
    fn evaluate(&self, _: &P, state: &mut State<P>) -> ExecResult<bool> {
        let b = {
            let mut c = self.ctx.lock().unwrap();
            let b = c.script.get(c.cursor).copied().unwrap_or(0);
            if c.cursor < c.script.len() {
                c.cursor += 1;
            }
            b
        };
        if log(&self.ctx, "exec", "cond", &self.path, state, b as i64) {
            return Err(eyre::eyre!("injected fault"));
        }
        Ok(b == 1)
    }
}

fn child(path: &[u32], more: &[u32]) -> Vec<u32> {
    let mut p = path.to_vec();
    p.extend_from_slice(more);
    p
}

/// Builds a body with the builder calls a user would write.
pub fn build_body(mut b: ConfigurationBuilder<P>, body: &Value, path: &[u32], ctx: &Shared) -> ConfigurationBuilder<P> {
    for (i, st) in body.as_array().unwrap().iter().enumerate() {
        let p = child(path, &[i as u32 + 1]);
        let cond = || -> Box<dyn Condition<P>> { Box::new(VCond { path: child(&p, &[0]), ctx: ctx.clone() }) };
        b = match st["k"].as_str().unwrap() {
            "leaf" if st["v"].as_str() == Some("log") => b.do_(Logger::new()),
            "leaf" => b.do_(Box::new(VLeaf { path: p.clone(), variant: st["v"].as_str().unwrap().to_string(), ctx: ctx.clone() })),
            "while" => b.while_(cond(), |bb| build_body(bb, &st["b"], &child(&p, &[1]), ctx)),
            "if" => b.if_(cond(), |bb| build_body(bb, &st["b"], &child(&p, &[1]), ctx)),
            "ifelse" => b.if_else_(
                cond(),
                |bb| build_body(bb, &st["b"], &child(&p, &[1]), ctx),
                |bb| build_body(bb, &st["e"], &child(&p, &[2]), ctx),
            ),
            "scope" if st["v"].as_str() == Some("seed") => {
                // Scope::new_with: own state initialiser (child gets U := 5) and merge function (caller gets K0 := 5 if
                // the child it is handed holds U = 5 in its own scope)
                let inner = build_body(Configuration::builder(), &st["b"], &child(&p, &[1]), ctx).build_component();
                b.do_(mahf::components::control_flow::Scope::new_with(
                    |state| {
                        state.insert(U(5));
                        // a rule for the sub-heuristic, added to the log configuration of the run
                        state.configure_log(|c| {
                            c.with(Box::new(TrigConst(true)), ValueOf::<U>::entry::<P>());
                            Ok(())
                        })
                    },
                    inner,
                    |state, child| {
                        if child.contains_at_top::<U>() && child.get_value::<U>() == 5 {
                            state.insert(K0(5));
                            let mut pg = Progress::<ValueOf<K0>>::default();
                            *pg = 5.0 * 0.75;
                            state.insert(pg);
                            // (the states kept next to K0, see VLeaf::init)
                            state.insert(Evaluations(5 + 10));
                            let mut pi = Progress::<ValueOf<Iterations>>::default();
                            *pi = (5.0 + 20.0) * 0.25;
                            state.insert(pi);
                            let mut pe = Progress::<ValueOf<Evaluations>>::default();
                            *pe = (5.0 + 30.0) * 0.25;
                            state.insert(pe);
                        }
                        Ok(())
                    },
                ))
            }
            "scope" => b.scope_(|bb| build_body(bb, &st["b"], &child(&p, &[1]), ctx)),
            other => panic!("unknown statement kind {other}"),
        };
    }
    b
}

/// Reads the program back from the name-preserving serialisation of the built configuration:
/// possible only if the serialisation names every component with its parameters and nesting.
/// A body that is serialised as one component instead of a block (`Loop::new(cond, component)`,
/// `Scope::new_with(.., component, ..)` accept either) is a body of that one statement; whether a block of one and a bare
/// component stay apart in the serialisation is judged by the injectivity clause of Trace_Ser (builder terms).
/// Every element has the statement shape, whatever was found (TLC cannot compare values of different shapes).
fn skeleton(v: &Value) -> Value {
    match v {
        Value::Array(a) => Value::Array(a.iter().map(skeleton_stmt).collect()),
        other => Value::Array(vec![skeleton_stmt(other)]),
    }
}
fn skeleton_stmt(v: &Value) -> Value {
    let e = json!([]);
    match v {
        Value::Array(_) => json!({"k": "block", "v": "-", "b": skeleton(v), "e": e}),
        Value::Object(m) => match m.get("$").and_then(|x| x.as_str()).unwrap_or("?") {
            "VLeaf" => json!({"k": "leaf", "v": m["variant"], "b": e, "e": []}),
            "Logger" => json!({"k": "leaf", "v": "log", "b": e, "e": []}),
            "Loop" => json!({"k": "while", "v": "-", "b": skeleton(&m["do"]), "e": e}),
            // an absent optional child may be spelled as None or left out: both mean "no else"
            "Branch" if m.get("else_body").map(|x| *x == json!("None")).unwrap_or(true) => json!({"k": "if", "v": "-", "b": skeleton(&m["if_body"]), "e": e}),
            "Branch" => json!({"k": "ifelse", "v": "-", "b": skeleton(&m["if_body"]), "e": skeleton(&m["else_body"])}),
            "Scope" => json!({"k": "scope", "v": "-", "b": skeleton(&m["body"]), "e": e}),
            other => json!({"k": "unknown", "v": other, "b": e, "e": []}),
        },
        other => json!({"k": "unknown", "v": other.to_string(), "b": e, "e": []}),
    }
}

/// (skeleton, to_ron succeeded, a clone serialises identically)
fn serialisation_facts(config: &Configuration<P>, run: u64) -> (Value, i64, i64) {
    let named = crate::named::to_named(config.heuristic());
    let tmp = std::path::PathBuf::from(TMPDIR.lock().unwrap().clone()).join(format!("mahf-verif-cfg-{}-{}", std::process::id(), run));
    let (p1, p2) = (tmp.with_extension("ron"), tmp.with_extension("clone.ron"));
    let ron1 = config.to_ron(&p1).ok().and_then(|_| std::fs::read_to_string(&p1).ok());
    let cloned = config.clone();
    let ron2 = cloned.to_ron(&p2).ok().and_then(|_| std::fs::read_to_string(&p2).ok());
    let _ = std::fs::remove_file(&p1);
    let _ = std::fs::remove_file(&p2);
    let named2 = crate::named::to_named(cloned.heuristic());
    let clone_same = match (&named, &named2, &ron1, &ron2) {
        (Ok(a), Ok(b), Some(r1), Some(r2)) => (a == b && r1 == r2) as i64,
        _ => 0,
    };
    (named.map(|v| skeleton(&v)).unwrap_or(json!("unserialisable")), ron1.is_some() as i64, clone_same)
}

fn run_case(out: &mut Out, run: u64, case: &Value) {
    let script: Vec<u8> = case["script"].as_array().unwrap().iter().map(|x| x.as_u64().unwrap() as u8).collect();
    let fault = (case["fault"][0].as_str().unwrap().to_string(), case["fault"][1].as_u64().unwrap() as u32);
    let ctx: Shared = Arc::new(Mutex::new(Ctx { events: Vec::new(), script, cursor: 0, cnt: [0; 3], fault, failed: None }));
    let config: Configuration<P> = build_body(Configuration::builder(), &case["prog"], &[], &ctx).build();
    let problem = TagProblem::identity(4);
    let mut state: State<P> = State::new();
    state.insert(U(7));
    state.insert(mahf::logging::Log::new());
    let rules = case.get("rules").cloned().unwrap_or(json!([]));
    let rootit = case.get("rootit").and_then(|x| x.as_i64()).unwrap_or(NOVAL);
    if rootit != NOVAL {
        state.insert(Iterations(rootit as u32));
    }
    {
        // the run always has a log configuration (possibly without rules)
        let mut cfg = LogConfig::<P>::new();
        // the caller's LogConfig calls ("adds"): with / with_auto / with_many / with_common, as a user writes them
        for r in rules.as_array().unwrap() {
            let trigger: Box<dyn Condition<P>> = match r["tk"].as_str().unwrap() {
                "always" => Box::new(TrigConst(true)),
                "never" => Box::new(TrigConst(false)),
                "every2" => EveryN::iterations(2),
                "scripted" => Box::new(TrigScripted { late: false, pos: Arc::new(Mutex::new(0)) }),
                "late" => Box::new(TrigScripted { late: true, pos: Arc::new(Mutex::new(0)) }),
                other => panic!("unknown trigger kind {other}"),
            };
            let srcs: Vec<&str> = r["srcs"].as_array().unwrap().iter().map(|x| x.as_str().unwrap()).collect();
            let extractor = |src: &str| match src {
                "K0" => ValueOf::<K0>::entry::<P>(),
                "U" => ValueOf::<U>::entry::<P>(),
                "IT" => ValueOf::<Iterations>::entry::<P>(),
                "MISSING" => ValueOf::<Missing>::entry::<P>(),
                "EV" => ValueOf::<Evaluations>::entry::<P>(),
                "PG" => ValueOf::<Progress<ValueOf<K0>>>::entry::<P>(),
                "PI" => ValueOf::<Progress<ValueOf<Iterations>>>::entry::<P>(),
                "PE" => ValueOf::<Progress<ValueOf<Evaluations>>>::entry::<P>(),
                // the best objective value found so far: these runs never record one, the source is missing
                "BV" => mahf::lens::common::BestObjectiveValueLens::<P>::entry(),
                other => panic!("unknown source {other}"),
            };
            match r["via"].as_str().unwrap() {
                "with" => {
                    cfg.with(trigger, extractor(srcs[0]));
                }
                // the state itself is logged (IdLens): its own Serialize implementation produces the entry
                "auto" => {
                    match srcs[0] {
                        "K0" => cfg.with_auto::<K0>(trigger),
                        "U" => cfg.with_auto::<U>(trigger),
                        "IT" => cfg.with_auto::<Iterations>(trigger),
                        "MISSING" => cfg.with_auto::<Missing>(trigger),
                        "EV" => cfg.with_auto::<Evaluations>(trigger),
                        "PG" => cfg.with_auto::<Progress<ValueOf<K0>>>(trigger),
                        "PI" => cfg.with_auto::<Progress<ValueOf<Iterations>>>(trigger),
                        "PE" => cfg.with_auto::<Progress<ValueOf<Evaluations>>>(trigger),
                        other => panic!("source {other} is no state"),
                    };
                }
                "many" => {
                    cfg.with_many(trigger, srcs.iter().map(|s| extractor(s)).collect::<Vec<_>>());
                }
                "common" => {
                    cfg.with_common(trigger);
                }
                other => panic!("unknown way to add a rule {other}"),
            }
        }
        state.insert(cfg);
    }
    let (skel, ron_ok, clone_same) = serialisation_facts(&config, run);
    let result = caught(|| config.run(&problem, &mut state));
    out.emit(&json!({"run": run, "ev": "case", "prog": case["prog"], "script": case["script"], "fault": case["fault"],
                     "rules": rules, "rootit": rootit, "skel": skel, "ron_ok": ron_ok, "clone_same": clone_same}));
    let c = ctx.lock().unwrap();
    for e in &c.events {
        out.emit(&json!({"run": run, "ev": "e", "e": e}));
    }
    let (res, fph, fp) = match (&result, &c.failed) {
        (Err(_), _) => ("panic", "-".to_string(), vec![]),
        (Ok(Ok(())), None) => ("ok", "-".to_string(), vec![]),
        (Ok(Ok(())), Some(_)) => ("ok_after_failure", "-".to_string(), vec![]),
        (Ok(Err(_)), Some((ph, p))) => ("err", ph.clone(), p.clone()),
        (Ok(Err(_)), None) => ("err_unexplained", "-".to_string(), vec![]),
    };
    let mut depth = 1;
    let mut root: &mahf::StateRegistry = &state;
    while let Some(p) = root.parent() {
        root = p;
        depth += 1;
    }
    let scopes = project_scopes(&state);
    // the log three ways: serialised directly (ordered), and decoded from the JSON and the CBOR export
    let (log, logj, logc) = if state.contains::<mahf::logging::Log>() {
        let tmp = std::path::PathBuf::from(TMPDIR.lock().unwrap().clone()).join(format!("mahf-verif-log-{}-{}", std::process::id(), run));
        let jpath = tmp.with_extension("json");
        let cpath = tmp.with_extension("cbor");
        let j = match state.log().to_json(&jpath) {
            Ok(()) => std::fs::read_to_string(&jpath).ok().and_then(|s| serde_json::from_str::<Value>(&s).ok()).map(|v| decode_compressed(&v)),
            Err(_) => None,
        };
        let c = match state.log().to_cbor(&cpath) {
            Ok(()) => std::fs::File::open(&cpath).ok().and_then(|f| ciborium::de::from_reader::<ciborium::value::Value, _>(f).ok())
                .map(|v| decode_compressed(&cbor_to_json(&v))),
            Err(_) => None,
        };
        let _ = std::fs::remove_file(&jpath);
        let _ = std::fs::remove_file(&cpath);
        (log_direct(&state), j.unwrap_or(json!("export_failed")), c.unwrap_or(json!("export_failed")))
    } else {
        (json!("log_missing"), json!("log_missing"), json!("log_missing"))
    };
    out.emit(&json!({"run": run, "ev": "end", "log": log, "logj": logj, "logc": logc,
        "end": {"result": res, "fph": fph, "fp": fp, "depth": depth, "root": scopes[0], "left": c.script.len() - c.cursor}}));
}

fn random_body(rng: &mut impl Rng, budget: &mut i32, depth: u32) -> Value {
    random_body_with(rng, budget, depth, &["plain", "ins0", "req0", "ins0", "ent0"])
}

fn random_body_with(rng: &mut impl Rng, budget: &mut i32, depth: u32, variants: &[&str]) -> Value {
    let mut body = Vec::new();
    let n = rng.gen_range(0..=4);
    for _ in 0..n {
        if *budget <= 0 {
            break;
        }
        *budget -= 1;
        let kind = if depth >= 4 { 0 } else { rng.gen_range(0..10) };
        body.push(match kind {
            0..=3 => {
                let v = variants[rng.gen_range(0..variants.len())];
                json!({"k": "leaf", "v": v, "b": [], "e": []})
            }
            4..=5 => json!({"k": "while", "v": "-", "b": random_body_with(rng, budget, depth + 1, variants), "e": []}),
            6 => json!({"k": "if", "v": "-", "b": random_body_with(rng, budget, depth + 1, variants), "e": []}),
            7 => json!({"k": "ifelse", "v": "-", "b": random_body_with(rng, budget, depth + 1, variants), "e": random_body_with(rng, budget, depth + 1, variants)}),
            8 => json!({"k": "scope", "v": "-", "b": random_body_with(rng, budget, depth + 1, variants), "e": []}),
            _ => json!({"k": "scope", "v": "seed", "b": random_body_with(rng, budget, depth + 1, variants), "e": []}),
        });
    }
    Value::Array(body)
}

static TMPDIR: Mutex<String> = Mutex::new(String::new());

pub fn main(args: &Args) -> usize {
    // scratch files of the log exports go next to the output trace (never under /tmp)
    let outp = args.str("out");
    *TMPDIR.lock().unwrap() = std::path::Path::new(&outp).parent().map(|p| p.to_string_lossy().to_string()).unwrap_or(".".into());
    let mut out = Out::create(&args.str("out"));
    match args.mode.as_str() {
        // cases exported by TLC: {"run": k, "prog": .., "script": .., "fault": ..}
        "replay" => {
            for case in read_ndjson(&args.str("in")) {
                run_case(&mut out, case["run"].as_u64().unwrap(), &case);
            }
        }
        "random" => {
            let runs = args.num("n", 300);
            let max_stmts = args.num("stmts", 25) as i32;
            let logging = args.num("logging", 0) == 1;
            for run in 0..runs {
                let mut rng = rng(args.seed(), run);
                let mut budget = rng.gen_range(6..=max_stmts);
                if logging {
                    // random rule sets and logger placements; the caller's state holds a pass counter
                    let prog = random_body_with(&mut rng, &mut budget, 0, &["ins0", "log", "log", "plain"]);
                    let slen = rng.gen_range(0..=8);
                    let script: Vec<u8> = (0..slen).map(|_| rng.gen_bool(0.6) as u8).collect();
                    let nrules = rng.gen_range(0..=4);
                    let rules: Vec<Value> = (0..nrules)
                        .map(|_| {
                            const SRCS: [&str; 9] = ["K0", "U", "IT", "MISSING", "PG", "BV", "EV", "PI", "PE"];
                            let via = ["with", "with", "auto", "many", "common"][rng.gen_range(0..5)];
                            // one trigger object serves several rules of with_many / with_common: stateless kinds only
                            let tk = ["always", "never", "every2", "scripted", "late"][rng.gen_range(0..if via == "many" || via == "common" { 3 } else { 5 })];
                            let srcs: Vec<&str> = match via {
                                "with" => vec![SRCS[rng.gen_range(0..9)]],
                                "auto" => vec![["K0", "U", "IT", "MISSING", "PG", "EV", "PI", "PE"][rng.gen_range(0..8)]],
                                "many" => (0..rng.gen_range(0..=3)).map(|_| SRCS[rng.gen_range(0..9)]).collect(),
                                _ => vec![],
                            };
                            json!({"tk": tk, "via": via, "srcs": srcs})
                        })
                        .collect();
                    let rootit = [0, 0, 3][rng.gen_range(0..3)];
                    run_case(&mut out, run, &json!({"prog": prog, "script": script, "fault": ["none", 0], "rules": rules, "rootit": rootit}));
                    continue;
                }
                let prog = random_body(&mut rng, &mut budget, 0);
                let slen = rng.gen_range(0..=8);
                // scripts biased toward true so that loops make several passes, but always end in a run of falses
                let script: Vec<u8> = (0..slen).map(|_| rng.gen_bool(0.55) as u8).collect();
                let fault = if rng.gen_bool(0.5) {
                    json!(["none", 0])
                } else {
                    let ph = ["init", "require", "exec"][rng.gen_range(0..3)];
                    json!([ph, rng.gen_range(1..=12)])
                };
                // the caller's state may already hold a pass counter (a value left by an earlier run, or its own)
                let rootit = [crate::util::NOVAL, crate::util::NOVAL, 0, 3][rng.gen_range(0..4)];
                run_case(&mut out, run, &json!({"prog": prog, "script": script, "fault": fault, "rootit": rootit}));
            }
        }
        other => panic!("unknown mode {other}"),
    }
    out.finish()
}
