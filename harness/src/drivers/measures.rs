//! Driver for spec module `Measures` (beyond the listed properties): diversity measures with their
//! normalisation record, the stagnation counter, the mapping components -- executed as real
//! components on a real `State`.  Raw measure values are reported as the scaled integers of the
//! model (`exact` = 0 when a value is not within 1e-6 of an integer), float-only facts as flags.
use better_any::{Tid, TidAble};
use derive_more::{Deref, DerefMut};
use mahf::{
    components::{
        diversity::{
            DimensionWiseDiversity, DistanceToAveragePointDiversity, Diversity, DiversityMeasure, PairwiseDistanceDiversity,
            TrueDiversity,
        },
        mapping::{Linear, Polynomial, RandomRange},
        utils::improvement::{StepsWithoutImprovement, StepsWithoutImprovementUpdate},
    },
    lens::ValueOf,
    state::common::{BestIndividual, Iterations, Populations, Progress},
    Component, CustomState, Individual, Random, State,
};
use rand::Rng;
use serde_json::{json, Value};

use crate::{
    runproblems::RealProblem,
    util::{caught, read_ndjson, rng, Args, Out},
};

type P = RealProblem;
type Prog = Progress<ValueOf<Iterations>>;

#[derive(Clone, Default, Deref, DerefMut, Tid)]
pub struct MapOut(pub f64);
impl CustomState<'_> for MapOut {}

const PN: f64 = 4.0;
/// actual coordinate = offset + scale * model coordinate (the measures are translation invariant and homogeneous)
const SCALES: [f64; 4] = [1.0, 0.5, 0.1, 3.0];
const OFFSETS: [f64; 4] = [0.0, 0.1, -2.5, 7.0];

struct Run {
    part: String,
    d: usize,
    scale: f64,
    offset: f64,
    problem: P,
    state: State<'static, P>,
}

fn near_int(x: f64) -> (i64, bool) {
    if !x.is_finite() {
        return (-1, false);
    }
    let r = x.round();
    (r as i64, (x - r).abs() <= 1e-6 * r.abs().max(1.0))
}

/// the scaled integer of the model for a raw value of measure `m`
fn scaled(m: &str, d: usize, scale: f64, v: f64) -> (i64, bool) {
    if v.is_nan() {
        return (-1, true);
    }
    let exact_mode = m == "dw" || m == "td" || d == 1;
    if !exact_mode {
        // zero up to rounding (coordinates are at most 40 scale units) counts as zero
        return ((v > 1e-9 * scale) as i64, true);
    }
    match m {
        "dw" => near_int(v * 72.0 / scale),
        "td" => {
            // the square is an integer; a value that is zero up to rounding stays zero
            let x = v * 12.0 / scale;
            near_int(x * x)
        }
        "pw" => near_int(v * 6.0 / scale),
        _ => near_int(v * 36.0 / scale),
    }
}

fn measure_direct(m: &str, problem: &P, sols: &[&Vec<f64>]) -> f64 {
    match m {
        "dw" => DimensionWiseDiversity::from_params().measure(problem, sols),
        "td" => TrueDiversity::from_params().measure(problem, sols),
        "pw" => PairwiseDistanceDiversity::from_params().measure(problem, sols),
        _ => DistanceToAveragePointDiversity::from_params().measure(problem, sols),
    }
}

fn component(m: &str) -> Box<dyn Component<P>> {
    match m {
        "dw" => DimensionWiseDiversity::new(),
        "td" => TrueDiversity::new(),
        "pw" => PairwiseDistanceDiversity::new(),
        _ => DistanceToAveragePointDiversity::new(),
    }
}

fn div_state(m: &str, state: &State<P>) -> (f64, f64) {
    match m {
        "dw" => {
            let s = state.borrow::<Diversity<DimensionWiseDiversity>>();
            (s.diversity, s.max_diversity)
        }
        "td" => {
            let s = state.borrow::<Diversity<TrueDiversity>>();
            (s.diversity, s.max_diversity)
        }
        "pw" => {
            let s = state.borrow::<Diversity<PairwiseDistanceDiversity>>();
            (s.diversity, s.max_diversity)
        }
        _ => {
            let s = state.borrow::<Diversity<DistanceToAveragePointDiversity>>();
            (s.diversity, s.max_diversity)
        }
    }
}

fn fresh(seed: u64) -> Run {
    let problem = RealProblem::new(0, 1, -100.0, 100.0);
    let mut state = State::new();
    state.insert(Random::new(seed));
    Run { part: "none".into(), d: 1, scale: 1.0, offset: 0.0, problem, state }
}

fn res_of(r: Result<mahf::ExecResult<()>, String>) -> &'static str {
    match r {
        Ok(Ok(())) => "ok",
        Ok(Err(_)) => "err",
        Err(_) => "panic",
    }
}

fn exec(run: &mut Run, a: &Value, rec: &mut serde_json::Map<String, Value>) -> &'static str {
    let op = a["op"].as_str().unwrap();
    let x: Vec<i64> = a["x"].as_array().unwrap().iter().map(|v| v.as_i64().unwrap()).collect();
    match op {
        "config" => {
            let m = a["m"].as_str().unwrap().to_string();
            run.d = x[0] as usize;
            run.scale = SCALES[(x[1] as usize) % 4];
            run.offset = OFFSETS[(x[2] as usize) % 4];
            run.problem = RealProblem::new(0, run.d, -100.0, 100.0);
            run.part = m.clone();
            let mut pops = Populations::<P>::new();
            pops.push(Vec::new());
            run.state.insert(pops);
            match m.as_str() {
                "imp" => {
                    run.state.insert(BestIndividual::<P>::new());
                    let c = StepsWithoutImprovementUpdate::new::<P>();
                    res_of(caught(|| c.init(&run.problem, &mut run.state)))
                }
                "map" => {
                    run.state.insert(Prog::default());
                    run.state.insert(MapOut(0.0));
                    "ok"
                }
                _ => {
                    let c = component(&m);
                    res_of(caught(|| c.init(&run.problem, &mut run.state)))
                }
            }
        }
        "set_pop" => {
            let pop: Vec<Individual<P>> = a["p"]
                .as_array()
                .unwrap()
                .iter()
                .map(|pt| {
                    let sol: Vec<f64> = pt.as_array().unwrap().iter().map(|c| run.offset + run.scale * c.as_f64().unwrap()).collect();
                    Individual::new_unevaluated(sol)
                })
                .collect();
            let mut pops = run.state.populations_mut();
            pops.pop();
            pops.push(pop);
            "ok"
        }
        "measure" | "init_div" => {
            let m = run.part.clone();
            let c = component(&m);
            let (mut mraw, mut mnan) = (0i64, 0i64);
            let mut exact = true;
            let r = if op == "init_div" {
                res_of(caught(|| c.init(&run.problem, &mut run.state)))
            } else {
                let sols: Vec<Vec<f64>> = run.state.populations().current().iter().map(|i| i.solution().clone()).collect();
                if !sols.is_empty() {
                    let refs: Vec<&Vec<f64>> = sols.iter().collect();
                    match caught(|| measure_direct(&m, &run.problem, &refs)) {
                        Ok(v) => {
                            mnan = v.is_nan() as i64;
                            let (s, e) = scaled(&m, run.d, run.scale, v);
                            mraw = s;
                            exact &= e;
                        }
                        Err(_) => return "panic",
                    }
                }
                res_of(caught(|| c.execute(&run.problem, &mut run.state)))
            };
            let (cur, max) = div_state(&m, &run.state);
            // `exact` speaks about the value the measure function returned; the record's maximum may stem from an
            // earlier (deviating, irrational) value and is compared after rounding
            let (smax, _) = scaled(&m, run.d, run.scale, max);
            let nan = cur.is_nan();
            let (sraw, _) = if nan { (-1, true) } else { scaled(&m, run.d, run.scale, cur * max) };
            rec.insert("mraw".into(), json!(mraw));
            rec.insert("mnan".into(), json!(mnan));
            rec.insert("raw".into(), json!(sraw));
            rec.insert("max".into(), json!(smax));
            rec.insert("nan".into(), json!(nan as i64));
            rec.insert("unit".into(), json!((cur >= 0.0 && cur <= 1.0) as i64));
            rec.insert("exact".into(), json!(exact as i64));
            r
        }
        "set_best" => {
            let b = x[0];
            let ind = if b == 99 { None } else { Some(Individual::<P>::new(vec![0.0; run.d], (b as f64).try_into().unwrap())) };
            **run.state.borrow_mut::<BestIndividual<P>>() = ind;
            "ok"
        }
        "init_imp" | "improve" => {
            let c = StepsWithoutImprovementUpdate::new::<P>();
            let r = if op == "init_imp" {
                res_of(caught(|| c.init(&run.problem, &mut run.state)))
            } else {
                res_of(caught(|| c.execute(&run.problem, &mut run.state)))
            };
            rec.insert("swi".into(), json!(run.state.get_value::<StepsWithoutImprovement>()));
            r
        }
        "map" => {
            let (s, e, k, i) = (x[0] as f64, x[1] as f64, x[2], x[3] as f64);
            run.state.set_value::<Prog>(i / PN);
            let c: Box<dyn Component<P>> = if a["m"] == "linear" {
                Linear::new(s, e, ValueOf::<Prog>::new(), ValueOf::<MapOut>::new())
            } else {
                Polynomial::new(s, e, k as f64, ValueOf::<Prog>::new(), ValueOf::<MapOut>::new())
            };
            let r = res_of(caught(|| c.execute(&run.problem, &mut run.state)));
            let out = run.state.get_value::<MapOut>();
            let den = PN.powi(k as i32);
            let (num, exact) = near_int(out * den);
            rec.insert("mp".into(), json!([num, den as i64]));
            rec.insert("exact".into(), json!(exact as i64));
            r
        }
        "rand" => {
            let (s, e) = (x[0] as f64, x[1] as f64);
            let c: Box<dyn Component<P>> = RandomRange::new(s..e, ValueOf::<MapOut>::new());
            let r = res_of(caught(|| c.execute(&run.problem, &mut run.state)));
            let out = run.state.get_value::<MapOut>();
            rec.insert("mp".into(), json!([out.floor() as i64, 1]));
            rec.insert("inrange".into(), json!((out >= s && out < e) as i64));
            r
        }
        other => panic!("unknown op {other}"),
    }
}

fn step(out: &mut Out, run_id: u64, i: usize, run: &mut Run, a: &Value) {
    let mut rec = serde_json::Map::new();
    let res = exec(run, a, &mut rec);
    rec.insert("run".into(), json!(run_id));
    rec.insert("i".into(), json!(i));
    rec.insert("act".into(), a.clone());
    rec.insert("res".into(), json!(res));
    out.emit(&Value::Object(rec));
}

fn act(op: &str, m: &str, p: Value, x: [i64; 4]) -> Value {
    json!({"op": op, "m": m, "p": p, "x": x})
}

pub fn main(args: &Args) -> usize {
    let mut out = Out::create(&args.str("out"));
    match args.mode.as_str() {
        // scenarios exported from TLC; every scenario is executed once per (scale, offset) variant requested
        "replay" => {
            let variants = args.num("variants", 1);
            let mut run_id = 0u64;
            for sc in read_ndjson(&args.str("in")) {
                for v in 0..variants {
                    let mut run = fresh(args.seed() + run_id);
                    out.emit(&json!({"run": run_id, "i": 0, "act": act("reset", "none", json!([]), [0, 0, 0, 0]), "res": "ok"}));
                    for (i, a) in sc["acts"].as_array().unwrap().iter().enumerate() {
                        let mut a = a.clone();
                        if a["op"] == "config" {
                            // the model leaves scale and offset open (ShiftFree; homogeneity): variant v picks them
                            a["x"][1] = json!(v % 4);
                            a["x"][2] = json!((v / 4 + v) % 4);
                        }
                        step(&mut out, run_id, i + 1, &mut run, &a);
                    }
                    run_id += 1;
                }
            }
        }
        // seeded random histories: larger coordinates, all scale / offset variants
        "random" => {
            let runs = args.num("n", 40);
            let len = args.num("len", 200);
            for run_id in 0..runs {
                let mut r = rng(args.seed(), run_id);
                let mut run = fresh(args.seed() + run_id);
                out.emit(&json!({"run": run_id, "i": 0, "act": act("reset", "none", json!([]), [0, 0, 0, 0]), "res": "ok"}));
                let part = ["dw", "td", "pw", "dtap", "imp", "map"][(run_id % 6) as usize];
                let d = if part == "imp" || part == "map" { 1 } else { 1 + (run_id / 6 % 2) as i64 };
                step(&mut out, run_id, 1, &mut run, &act("config", part, json!([]), [d, r.gen_range(0..4), r.gen_range(0..4), 0]));
                for i in 0..len {
                    let a = match part {
                        "imp" => match r.gen_range(0..10) {
                            0 => act("init_imp", "imp", json!([]), [0, 0, 0, 0]),
                            1..=4 => act("set_best", "imp", json!([]), [if r.gen_bool(0.1) { 99 } else { r.gen_range(0..8) }, 0, 0, 0]),
                            _ => act("improve", "imp", json!([]), [0, 0, 0, 0]),
                        },
                        "map" => {
                            let (s, e) = (r.gen_range(-5..9), r.gen_range(-5..9));
                            if r.gen_bool(0.2) && s != e {
                                act("rand", "rand", json!([]), [s.min(e), s.max(e), 0, 0])
                            } else if r.gen_bool(0.5) {
                                act("map", "linear", json!([]), [s, e, 1, r.gen_range(0..5)])
                            } else {
                                act("map", "poly", json!([]), [s, e, r.gen_range(1..4), r.gen_range(0..5)])
                            }
                        }
                        _ => match r.gen_range(0..20) {
                            0 => act("init_div", part, json!([]), [0, 0, 0, 0]),
                            1..=9 => {
                                let n = r.gen_range(0..4usize);
                                let same = r.gen_bool(0.25);
                                let hi = if r.gen_bool(0.5) { 4 } else { 40 };
                                let first: Vec<i64> = (0..d).map(|_| r.gen_range(0..hi)).collect();
                                let p: Vec<Vec<i64>> =
                                    (0..n).map(|_| if same { first.clone() } else { (0..d).map(|_| r.gen_range(0..hi)).collect() }).collect();
                                act("set_pop", part, json!(p), [0, 0, 0, 0])
                            }
                            _ => act("measure", part, json!([]), [0, 0, 0, 0]),
                        },
                    };
                    step(&mut out, run_id, i as usize + 2, &mut run, &a);
                }
            }
        }
        other => panic!("unknown mode {other}"),
    }
    out.finish()
}
