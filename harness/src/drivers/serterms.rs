//! C15, configuration export: configurations assembled through EVERY builder entry point from a *builder term*
//! (pseudo-template `struct`; `Trace_Ser.tla` computes from the same term the structure the documented meaning of the entry
//! points gives it and requires "same serialisation iff same structure"), and conditions over every parameter in every
//! place a condition can stand (pseudo-template `condp`: "same serialisation iff same parameters").
use mahf::{
    components::control_flow::{Block, Branch, Loop, Scope},
    conditions::{
        common::{DeltaEqChecker, PartialEqChecker},
        cro::{DecompositionCriterion, SynthesisCriterion},
        ChangeOf, EveryN, LessThanN, OptimumReached, RandomChance,
    },
    configuration::ConfigurationBuilder,
    lens::ValueOf,
    state::common::{Evaluations, Iterations},
    Component, Condition, Configuration, ExecResult, State,
};
use serde_json::Value;

use crate::runproblems::RealProblem;

type P = RealProblem;
type C = Box<dyn Component<P>>;

#[derive(Clone, serde::Serialize)]
pub struct LeafA;
#[derive(Clone, serde::Serialize)]
pub struct LeafB;
impl Component<P> for LeafA {
    fn execute(&self, _: &P, _: &mut State<P>) -> ExecResult<()> {
        Ok(())
    }
}
impl Component<P> for LeafB {
    fn execute(&self, _: &P, _: &mut State<P>) -> ExecResult<()> {
        Ok(())
    }
}

fn cond() -> Box<dyn Condition<P>> {
    LessThanN::iterations(1)
}

fn kids<'a>(t: &'a Value, k: &str) -> &'a [Value] {
    t[k].as_array().map(|a| a.as_slice()).unwrap_or(&[])
}

fn op(t: &Value) -> &str {
    t["op"].as_str().unwrap_or("?")
}

/// the components an item contributes to a `Vec<Box<dyn Component>>` (direct constructors only)
fn comps(t: &Value) -> Vec<C> {
    let vec_of = |k: &str| -> Vec<C> { kids(t, k).iter().flat_map(comps).collect() };
    let one_of = |k: &str| -> C { comps(&kids(t, k)[0]).into_iter().next().expect("one component") };
    match op(t) {
        "leaf" => vec![if t["v"].as_str() == Some("A") { Box::new(LeafA) as C } else { Box::new(LeafB) as C }],
        // a builder of its own, finished with build_component
        "bc" => vec![build_items(Configuration::builder(), kids(t, "a")).build_component()],
        "blocknew" => vec![Block::new(vec_of("a"))],
        "while" | "loopvec" => vec![Loop::new(cond(), vec_of("a"))],
        "loopbox" => vec![Loop::new(cond(), one_of("a"))],
        "if" | "branchvec" => vec![Branch::new(cond(), vec_of("a"))],
        "branchbox" => vec![Branch::new(cond(), one_of("a"))],
        "ifelse" | "branchelsevec" => vec![Branch::new_with_else(cond(), vec_of("a"), vec_of("e"))],
        "branchelsebox" => vec![Branch::new_with_else(cond(), one_of("a"), one_of("e"))],
        "scope" | "scopevec" => vec![Scope::new(vec_of("a"))],
        "scopebox" => vec![Scope::new_with(|_| Ok(()), one_of("a"), |_, _| Ok(()))],
        "many" => vec_of("a"),
        "none" => vec![],
        "some" => vec![one_of("a")],
        other => panic!("unknown component term {other}"),
    }
}

/// the builder calls a user would write for a list of items
fn build_items(mut b: ConfigurationBuilder<P>, items: &[Value]) -> ConfigurationBuilder<P> {
    for t in items {
        b = match op(t) {
            "while" => b.while_(cond(), |bb| build_items(bb, kids(t, "a"))),
            "if" => b.if_(cond(), |bb| build_items(bb, kids(t, "a"))),
            "ifelse" => b.if_else_(cond(), |bb| build_items(bb, kids(t, "a")), |bb| build_items(bb, kids(t, "e"))),
            "scope" => b.scope_(|bb| build_items(bb, kids(t, "a"))),
            "many" => b.do_many_(kids(t, "a").iter().flat_map(comps).collect::<Vec<_>>()),
            "none" => b.do_if_some_(None),
            "some" => b.do_if_some_(comps(&kids(t, "a")[0]).into_iter().next()),
            _ => {
                let mut b = b;
                for c in comps(t) {
                    b = b.do_(c);
                }
                b
            }
        };
    }
    b
}

/// top level: the ways to arrive at a `Configuration`
pub fn struct_config(t: &Value) -> ExecResult<Configuration<P>> {
    Ok(match op(t) {
        "build" => build_items(Configuration::builder(), kids(t, "a")).build(),
        "confnew" => Configuration::new(comps(&kids(t, "a")[0]).into_iter().next().expect("one component")),
        "from" => Configuration::from(comps(&kids(t, "a")[0]).into_iter().next().expect("one component")),
        "rebuild" => struct_config(&kids(t, "a")[0])?.into_builder().build(),
        "reinner" => Configuration::new(struct_config(&kids(t, "a")[0])?.into_inner()),
        other => panic!("unknown configuration term {other}"),
    })
}

/// one condition from its parameters (`via`: which of two equivalent constructors is used -- not a parameter)
fn condition(p: &Value) -> ExecResult<Box<dyn Condition<P>>> {
    let f = |k: &str| p[k].as_f64().unwrap_or_else(|| panic!("missing float parameter {k}"));
    let u = |k: &str| p[k].as_u64().unwrap_or_else(|| panic!("missing integer parameter {k}")) as u32;
    let lens = p["lens"].as_str().unwrap_or("iterations");
    let short = p["via"].as_str() == Some("short");
    Ok(match p["kind"].as_str().unwrap() {
        "chance" => RandomChance::new(f("p")),
        "lt" => match (lens, short) {
            ("iterations", true) => LessThanN::iterations(u("n")),
            ("iterations", false) => LessThanN::new(u("n"), ValueOf::<Iterations>::new()),
            (_, true) => LessThanN::evaluations(u("n")),
            (_, false) => LessThanN::new(u("n"), ValueOf::<Evaluations>::new()),
        },
        "every" => match (lens, short) {
            ("iterations", true) => EveryN::iterations(u("n")),
            ("iterations", false) => EveryN::new(u("n"), ValueOf::<Iterations>::new()),
            _ => EveryN::new(u("n"), ValueOf::<Evaluations>::new()),
        },
        "change" => {
            let checker = || match p["checker"].as_str().unwrap() {
                "eq" => PartialEqChecker::new::<u32>(),
                d => DeltaEqChecker::new(d.strip_prefix("delta:").unwrap().parse::<u32>().unwrap()),
            };
            match lens {
                "iterations" => ChangeOf::new(checker(), ValueOf::<Iterations>::new()),
                _ => ChangeOf::new(checker(), ValueOf::<Evaluations>::new()),
            }
        }
        "optimum" => OptimumReached::new(f("epsilon"))?,
        "decomp" => DecompositionCriterion::new(u("alpha")),
        "synth" => SynthesisCriterion::new(f("beta")),
        other => panic!("unknown condition kind {other}"),
    })
}

/// the condition in one of the places a condition can stand in a configuration
pub fn cond_config(p: &Value) -> ExecResult<Configuration<P>> {
    let c = condition(p)?;
    let other = || EveryN::<ValueOf<Iterations>>::iterations::<P>(7);
    let body = |b: ConfigurationBuilder<P>| b.do_(Box::new(LeafA));
    let b = Configuration::builder();
    Ok(match p["place"].as_str().unwrap() {
        "while" => b.while_(c, body),
        "if" => b.if_(c, body),
        "ifelse" => b.if_else_(c, body, |b| b.do_(Box::new(LeafB))),
        "not" => b.while_(!c, body),
        "and1" => b.while_(c & other(), body),
        "and2" => b.while_(other() & c, body),
        "or1" => b.if_(c | other(), body),
        "nested" => b.while_(cond(), |b| b.scope_(|b| b.if_(!(other() | c), body))),
        other => panic!("unknown place {other}"),
    }
    .build())
}
