//! Driver for spec module `Variation` (C13).
//!
//! * helper calls (`kind = "fn"`): the public functions of `mutation::functional` and
//!   `recombination::functional` are called with the logged arguments; the reply is recorded.
//!   `arith_x` calls `arithmetic_crossover` on genes from a table of extreme finite values (`LADDER`)
//!   with alphas from `ALPHAS`; genes are logged as ranks, child genes as position classes.
//! * component executions (`kind = "comp"`): every mutation / recombination component is built
//!   through one of its public constructors (all of them are swept), for the identifier-generic
//!   components under the identifiers `Global`, `A`, `B` with sibling instances of other
//!   identifiers initialised in the same `State` and the `MutationRate` / `MutationStrength`
//!   states adapted through the state; the populations of the crossovers contain duplicates
//!   (identical adjacent parents, copies across pairs, converged populations: `Raw::pat`) and, for
//!   the n-point crossover, individuals of unequal length (`Raw::lens`); the mutants of the DE
//!   crossovers contain duplicates and copies of their bases (`Raw::same_base`); it is run (`init`,
//!   `require`, `execute`) on a prepared `State` (`Populations`, seeded `Random`); the constructor arguments, the populations before
//!   and after and the parameter states read back are recorded in the projections described in
//!   `spec/Variation.tla`.  Which parameters the execution has to obey is derived by the spec.
//!
//! Everything is decided by TLC (trace validation); this file only records.  Panics of the code
//! under test are data (`k = "panic"`); every case runs on a worker thread under a watchdog and a
//! case that does not return within the limit is recorded as `k = "timeout"`.
use mahf::{
    components::{
        mutation::{common as mc, de as mde, functional as mf, MutationRate, MutationStrength},
        recombination::{common as rc, de as rde, functional as rf},
    },
    identifier::{Global, A, B},
    state::common::Populations,
    Component, ExecResult, Individual, Problem, Random, State,
};
use std::{sync::mpsc, thread, time::Duration};

use rand::{seq::SliceRandom, Rng};
use rand_chacha::ChaCha8Rng;
use serde_json::{json, Value};

use crate::{
    problems_var::{BitsVar, PermVar, RealVar},
    util::{caught, read_ndjson, rng, Args, Out, NOVAL},
};

const BAD: i64 = 777_777; // a float that should have been an integer and was not

/// Extreme / far-apart finite genes, strictly increasing; a gene is logged as its 1-based rank.
pub const LADDER: [f64; 21] = [
    -f64::MAX,
    -1.0e308,
    -1.0e300,
    -1.0e17,
    -7.0e9,
    -3.0,
    -1.0,
    -0.1,
    -2.5e-7,
    -f64::MIN_POSITIVE,
    0.0,
    f64::MIN_POSITIVE,
    2.5e-7,
    0.1,
    1.0,
    3.0,
    7.0e9,
    1.0e16,
    1.0e17,
    1.0e308,
    f64::MAX,
];

/// Alphas, strictly increasing from exactly 0 to exactly 1; an alpha is logged as its index
/// (`AlphaTop` of the spec = 8).
pub fn alphas() -> [f64; 9] {
    [0.0, (2.0f64).powi(-60), 0.1, 0.25, 0.5, 0.75, 0.9, 1.0 - (2.0f64).powi(-53), 1.0]
}

/// Valid strengths (std_dev / bound), strictly increasing from exactly 0 over tiny and ordinary
/// to huge values up to `f64::MAX`, logged as 1-based index (`StTop` of the spec = 10; from index
/// 9 = `StOver` on, a normal deviate times the strength leaves the finite range); index 90 = NaN
/// (invalid).
const STRENGTHS: [f64; 10] = [0.0, f64::MIN_POSITIVE, 1.0e-300, 0.125, 0.5, 2.0, 8.0, 1.0e300, 1.0e308, f64::MAX];
const ST_BAD: i64 = 90;

fn st_value(ix: i64) -> f64 {
    if (1..=STRENGTHS.len() as i64).contains(&ix) {
        STRENGTHS[ix as usize - 1]
    } else {
        f64::NAN
    }
}

fn st_index(x: f64) -> i64 {
    STRENGTHS.iter().position(|s| s.to_bits() == x.to_bits()).map(|k| k as i64 + 1).unwrap_or(ST_BAD)
}

const ULPS: f64 = 4.0 * f64::EPSILON;

/// P-class of a child gene relative to the interval of the two parental genes, each end widened
/// by 4 ulp of itself: 0 finite and between, 1 below, 2 above, 3 NaN, 4 infinite.
fn hull_class(c: f64, a: f64, b: f64) -> i64 {
    if c.is_nan() {
        return 3;
    }
    if c.is_infinite() {
        return 4;
    }
    let (lo, hi) = (a.min(b), a.max(b));
    if c < lo - ULPS * lo.abs() {
        1
    } else if c > hi + ULPS * hi.abs() {
        2
    } else {
        0
    }
}

/// P-pred: `c` is within 4 ulp of the gene `g`.
fn near(c: f64, g: f64) -> bool {
    c.is_finite() && (c - g).abs() <= ULPS * g.abs()
}

/// P-pred: the children sum to the sum of the parental genes (halves: no overflow), up to
/// 8 ulp of the larger parental magnitude.
fn conserved(c1: f64, c2: f64, p: f64, q: f64) -> bool {
    c1.is_finite()
        && c2.is_finite()
        && ((c1 / 2.0 + c2 / 2.0) - (p / 2.0 + q / 2.0)).abs() <= ULPS * p.abs().max(q.abs()) + 4.0 * 5e-324
}

// ------------------------------------------------------------------------------------ helpers

fn ints(v: &Value) -> Vec<i64> {
    v.as_array().map(|a| a.iter().map(|x| x.as_i64().unwrap()).collect()).unwrap_or_default()
}

fn us(v: &[i64]) -> Vec<usize> {
    v.iter().map(|&x| x as usize).collect()
}

fn as_int(x: f64) -> i64 {
    if x.is_finite() && x.fract() == 0.0 && x.abs() < 1e15 {
        x as i64
    } else {
        BAD
    }
}

fn fn_res(k: &str, c1: Vec<i64>, c2: Vec<i64>) -> Value {
    json!({"k": k, "c1": c1, "c2": c2})
}

fn one(x: Result<Vec<i64>, String>) -> Value {
    match x {
        Ok(s) => fn_res("ok", s, vec![]),
        Err(_) => fn_res("panic", vec![], vec![]),
    }
}

fn two(x: Result<[Vec<i64>; 2], String>) -> Value {
    match x {
        Ok([a, b]) => fn_res("ok", a, b),
        Err(_) => fn_res("panic", vec![], vec![]),
    }
}

/// Executes one helper call on the real function.
fn exec_fn(act: &Value) -> Value {
    let op = act["op"].as_str().unwrap();
    let p = ints(&act["p"]);
    let q = ints(&act["q"]);
    let ix = ints(&act["ix"]);
    let (a, b, i) = (
        act["a"].as_u64().unwrap() as usize,
        act["b"].as_u64().unwrap() as usize,
        act["i"].as_u64().unwrap() as usize,
    );
    match op {
        "circular_swap" => one(caught(|| {
            let mut s = p.clone();
            mf::circular_swap(&mut s, &us(&ix));
            s
        })),
        "circular_swap2" => one(caught(|| {
            let mut s = p.clone();
            mf::circular_swap2(&mut s, &us(&ix));
            s
        })),
        "translocate_slice" => one(caught(|| {
            let mut s = p.clone();
            mf::translocate_slice(&mut s, a..b, i);
            s
        })),
        "translocate_slice2" => one(caught(|| {
            let mut s = p.clone();
            mf::translocate_slice2(&mut s, a..b, i);
            s
        })),
        "multi_point" => two(caught(|| rf::multi_point_crossover(&p, &q, &us(&ix)))),
        "uniform" => two(caught(|| {
            let mask: Vec<bool> = ix.iter().map(|&m| m == 1).collect();
            rf::uniform_crossover(&p, &q, &mask)
        })),
        "arithmetic" => two(caught(|| {
            let pf: Vec<f64> = p.iter().map(|&x| x as f64).collect();
            let qf: Vec<f64> = q.iter().map(|&x| x as f64).collect();
            let al: Vec<f64> = ix.iter().map(|&x| x as f64 / 4.0).collect();
            let [c1, c2] = rf::arithmetic_crossover(&pf, &qf, &al);
            [
                c1.iter().map(|&x| as_int(4.0 * x)).collect(),
                c2.iter().map(|&x| as_int(4.0 * x)).collect(),
            ]
        })),
        "arith_x" => two(caught(|| {
            let al = alphas();
            let pf: Vec<f64> = p.iter().map(|&k| LADDER[k as usize - 1]).collect();
            let qf: Vec<f64> = q.iter().map(|&k| LADDER[k as usize - 1]).collect();
            let af: Vec<f64> = ix.iter().map(|&k| al[k as usize]).collect();
            let [c1, c2] = rf::arithmetic_crossover(&pf, &qf, &af);
            let code = |c: &[f64], j: usize| -> i64 {
                let other = |v: &[f64]| v.get(j).copied().unwrap_or(f64::NAN);
                hull_class(c[j], pf[j], qf[j])
                    + 10 * near(c[j], pf[j]) as i64
                    + 20 * near(c[j], qf[j]) as i64
                    + 40 * conserved(other(&c1), other(&c2), pf[j], qf[j]) as i64
            };
            [
                (0..c1.len()).map(|j| if j < pf.len() { code(&c1, j) } else { BAD }).collect(),
                (0..c2.len()).map(|j| if j < pf.len() { code(&c2, j) } else { BAD }).collect(),
            ]
        })),
        "cycle" => two(caught(|| rf::cycle_crossover(&p, &q))),
        other => panic!("unknown helper {other}"),
    }
}

// ------------------------------------------------------------------------------------ components

pub const COMPS: [&str; 17] = [
    "NormalMutation",
    "UniformMutation",
    "PartialRandomSpread",
    "BitFlipMutation",
    "PartialRandomBitstring",
    "ScrambleMutation",
    "SwapMutation",
    "InversionMutation",
    "InsertionMutation",
    "TranslocationMutation",
    "NPointCrossover",
    "UniformCrossover",
    "CycleCrossover",
    "ArithmeticCrossover",
    "DEMutation",
    "DEBinomialCrossover",
    "DEExponentialCrossover",
];

/// The public constructors of a component (every `pub fn` returning the component in its `impl`
/// blocks); `checks/c13.py` compares this sweep with the spec's table and with the source.
pub fn ctors(c: &str) -> &'static [&'static str] {
    match c {
        "NormalMutation" => &["new", "new_with_id", "from_params", "new_dev"],
        "UniformMutation" => &["new", "new_with_id", "from_params", "new_bound"],
        "BitFlipMutation" => &["new", "new_with_id", "from_params"],
        "PartialRandomSpread" | "ScrambleMutation" => &["new", "new_with_id", "from_params", "new_full"],
        "PartialRandomBitstring" => {
            &["new", "new_with_id", "from_params", "new_uniform", "new_full", "new_uniform_full"]
        }
        "NPointCrossover" | "UniformCrossover" | "CycleCrossover" | "ArithmeticCrossover" => {
            &["new", "from_params", "new_insert_single", "new_insert_both"]
        }
        _ => &["new", "from_params"],
    }
}

const IDS: [&str; 3] = ["Global", "A", "B"];

fn has_id(c: &str) -> bool {
    matches!(
        c,
        "NormalMutation"
            | "UniformMutation"
            | "PartialRandomSpread"
            | "BitFlipMutation"
            | "PartialRandomBitstring"
            | "ScrambleMutation"
    )
}

fn has_strength(c: &str) -> bool {
    matches!(c, "NormalMutation" | "UniformMutation")
}

fn is_cross(c: &str) -> bool {
    matches!(c, "NPointCrossover" | "UniformCrossover" | "CycleCrossover" | "ArithmeticCrossover")
}

/// Binds the type alias `$I` to the identifier type named by `$id` and evaluates `$body`.
macro_rules! by_id {
    ($id:expr, $I:ident, $body:expr) => {
        match $id {
            "Global" => {
                type $I = Global;
                $body
            }
            "A" => {
                type $I = A;
                $body
            }
            "B" => {
                type $I = B;
                $body
            }
            other => panic!("unknown identifier {other}"),
        }
    };
}

/// Binds the type alias `$T` to the identifier-generic component `$c<$id>` and evaluates `$body`.
macro_rules! by_comp {
    ($c:expr, $id:expr, $T:ident, $body:expr) => {
        match $c {
            "NormalMutation" => by_id!($id, I, {
                type $T = mc::NormalMutation<I>;
                $body
            }),
            "UniformMutation" => by_id!($id, I, {
                type $T = mc::UniformMutation<I>;
                $body
            }),
            "PartialRandomSpread" => by_id!($id, I, {
                type $T = mc::PartialRandomSpread<I>;
                $body
            }),
            "BitFlipMutation" => by_id!($id, I, {
                type $T = mc::BitFlipMutation<I>;
                $body
            }),
            "PartialRandomBitstring" => by_id!($id, I, {
                type $T = mc::PartialRandomBitstring<I>;
                $body
            }),
            "ScrambleMutation" => by_id!($id, I, {
                type $T = mc::ScrambleMutation<I>;
                $body
            }),
            other => panic!("{other} has no identifier"),
        }
    };
}

fn set_rate<P: Problem>(c: &str, id: &str, state: &State<P>, v: f64) {
    by_comp!(c, id, T, {
        state.set_value::<MutationRate<T>>(v);
    })
}

fn set_strength<P: Problem>(c: &str, id: &str, state: &State<P>, v: f64) {
    by_comp!(c, id, T, {
        state.set_value::<MutationStrength<T>>(v);
    })
}

fn get_rate<P: Problem>(c: &str, id: &str, state: &State<P>) -> Option<f64> {
    by_comp!(c, id, T, state.try_get_value::<MutationRate<T>>().ok())
}

fn get_strength<P: Problem>(c: &str, id: &str, state: &State<P>) -> Option<f64> {
    by_comp!(c, id, T, state.try_get_value::<MutationStrength<T>>().ok())
}

/// The parameter states of component `c` for Global, A, B: [[class of the rate, index of the
/// strength], ..], NOVAL where the state is missing.
fn read_reg<P: Problem>(c: &str, state: &State<P>) -> Value {
    if !has_id(c) {
        return json!([]);
    }
    Value::Array(
        IDS.iter()
            .map(|id| {
                let r = get_rate(c, id, state).map(pclass).unwrap_or(NOVAL);
                let s = get_strength(c, id, state).map(st_index).unwrap_or(NOVAL);
                json!([r, s])
            })
            .collect(),
    )
}

/// Another instance of the same component in the same state: under another identifier, or -- an EARLIER one (an
/// earlier phase, a run on a reused state, an enclosing heuristic) -- under the identifier of the executed instance.
#[derive(Clone, Debug)]
struct Sib {
    id: String,
    rate: f64,
    st: i64,
    /// initialised after the executed instance (else before); never for the executed instance's own identifier
    after: bool,
    /// initialised in the ENCLOSING scope: the executed instance (and the other siblings) are then initialised and
    /// run in a child scope (`State::with_inner_state`, what `Scope` does)
    up: bool,
}

/// `MutationRate` (`w = 1`, value `rate`) or `MutationStrength` (`w = 2`, ladder index `st`) of
/// identifier `id` written through the state after all instances have been initialised.
#[derive(Clone, Debug)]
struct Adapt {
    id: String,
    w: i64,
    rate: f64,
    st: i64,
}

/// Everything needed to re-execute one component case deterministically.
#[derive(Clone, Debug)]
struct Raw {
    c: String,
    ctor: String,
    id: String,
    seed: u64,
    n: usize,
    dim: usize,
    np: i64,
    rate: f64,
    p: f64,
    both: bool,
    /// DEMutation: f
    strength: f64,
    /// Normal-/UniformMutation: ladder index of std_dev / bound
    st: i64,
    sibs: Vec<Sib>,
    adapt: Vec<Adapt>,
    /// real populations drawn from `LADDER` instead of the box [-4, 12)
    ext: bool,
    /// crossovers: individual `j` is a copy of individual `pat[j] <= j` (`pat[j] == j`: an
    /// individual of its own); empty = no duplicates
    pat: Vec<usize>,
    /// n-point crossover: length of individual `j` (of those that are not copies); empty = every
    /// individual has the problem dimension
    lens: Vec<usize>,
    /// DE crossovers: every base individual is identical to its mutant (a mutation without effect)
    same_base: bool,
}

impl Raw {
    fn to_json(&self) -> Value {
        let sibs: Vec<Value> = self
            .sibs
            .iter()
            .map(|s| json!({"id": s.id, "rate": s.rate, "st": s.st, "after": s.after, "up": s.up}))
            .collect();
        let adapt: Vec<Value> =
            self.adapt.iter().map(|a| json!({"id": a.id, "w": a.w, "rate": a.rate, "st": a.st})).collect();
        json!({"c": self.c, "ctor": self.ctor, "id": self.id, "seed": self.seed, "n": self.n, "dim": self.dim,
               "np": self.np, "rate": self.rate, "p": self.p, "both": self.both, "strength": self.strength,
               "st": self.st, "sibs": sibs, "adapt": adapt, "ext": self.ext, "pat": self.pat, "lens": self.lens,
               "same_base": self.same_base})
    }
    fn from_json(v: &Value) -> Self {
        let c = v["c"].as_str().unwrap().to_string();
        let strength = v["strength"].as_f64().unwrap();
        let arr = |k: &str| v.get(k).and_then(|x| x.as_array()).cloned().unwrap_or_default();
        Raw {
            ctor: v.get("ctor").and_then(|x| x.as_str()).unwrap_or("new").to_string(),
            id: v.get("id").and_then(|x| x.as_str()).unwrap_or("Global").to_string(),
            seed: v["seed"].as_u64().unwrap(),
            n: v["n"].as_u64().unwrap() as usize,
            dim: v["dim"].as_u64().unwrap() as usize,
            np: v["np"].as_i64().unwrap(),
            rate: v["rate"].as_f64().unwrap(),
            p: v["p"].as_f64().unwrap(),
            both: v["both"].as_bool().unwrap(),
            strength,
            st: v.get("st").and_then(|x| x.as_i64()).unwrap_or_else(|| {
                if has_strength(&c) {
                    st_index(strength)
                } else {
                    0
                }
            }),
            sibs: arr("sibs")
                .iter()
                .map(|s| Sib {
                    id: s["id"].as_str().unwrap().to_string(),
                    rate: s["rate"].as_f64().unwrap(),
                    st: s["st"].as_i64().unwrap(),
                    after: s["after"].as_bool().unwrap(),
                    up: s.get("up").and_then(|x| x.as_bool()).unwrap_or(false),
                })
                .collect(),
            adapt: arr("adapt")
                .iter()
                .map(|a| Adapt {
                    id: a["id"].as_str().unwrap().to_string(),
                    w: a["w"].as_i64().unwrap(),
                    rate: a["rate"].as_f64().unwrap(),
                    st: a["st"].as_i64().unwrap(),
                })
                .collect(),
            ext: v.get("ext").and_then(|x| x.as_bool()).unwrap_or(false),
            pat: us(&v.get("pat").map(ints).unwrap_or_default()),
            lens: us(&v.get("lens").map(ints).unwrap_or_default()),
            same_base: v.get("same_base").and_then(|x| x.as_bool()).unwrap_or(false),
            c,
        }
    }
}

/// Class of a probability: 0 = exactly 0, 1 = inside (0,1), 2 = exactly 1, 3 = outside [0,1].
fn pclass(x: f64) -> i64 {
    if x == 0.0 {
        0
    } else if x == 1.0 {
        2
    } else if x > 0.0 && x < 1.0 {
        1
    } else {
        3
    }
}

type Boxed<P> = Box<dyn Component<P>>;

fn boxed<P: Problem, T: Component<P> + 'static>(t: T) -> Boxed<P> {
    Box::new(t)
}

/// Real-valued mutations through every public constructor.
fn make_real(c: &str, ctor: &str, id: &str, s: f64, rate: f64) -> Boxed<RealVar> {
    match (c, ctor) {
        ("NormalMutation", "new") => mc::NormalMutation::new::<RealVar>(s, rate),
        ("NormalMutation", "new_dev") => mc::NormalMutation::new_dev::<RealVar>(s),
        ("NormalMutation", "new_with_id") => {
            by_id!(id, I, mc::NormalMutation::<I>::new_with_id::<RealVar>(s, rate))
        }
        ("NormalMutation", "from_params") => by_id!(id, I, boxed(mc::NormalMutation::<I>::from_params(s, rate))),
        ("UniformMutation", "new") => mc::UniformMutation::new::<RealVar>(s, rate),
        ("UniformMutation", "new_bound") => mc::UniformMutation::new_bound::<RealVar>(s),
        ("UniformMutation", "new_with_id") => {
            by_id!(id, I, mc::UniformMutation::<I>::new_with_id::<RealVar>(s, rate))
        }
        ("UniformMutation", "from_params") => {
            by_id!(id, I, boxed(mc::UniformMutation::<I>::from_params(s, rate)))
        }
        ("PartialRandomSpread", "new") => mc::PartialRandomSpread::new::<RealVar>(rate),
        ("PartialRandomSpread", "new_full") => mc::PartialRandomSpread::new_full::<RealVar>(),
        ("PartialRandomSpread", "new_with_id") => {
            by_id!(id, I, mc::PartialRandomSpread::<I>::new_with_id::<RealVar>(rate))
        }
        ("PartialRandomSpread", "from_params") => {
            by_id!(id, I, boxed(mc::PartialRandomSpread::<I>::from_params(rate)))
        }
        other => panic!("unknown constructor {other:?}"),
    }
}

/// Bit-string mutations through every public constructor.
fn make_bits(c: &str, ctor: &str, id: &str, p: f64, rate: f64) -> Boxed<BitsVar> {
    match (c, ctor) {
        ("BitFlipMutation", "new") => mc::BitFlipMutation::new::<BitsVar>(rate),
        ("BitFlipMutation", "new_with_id") => by_id!(id, I, mc::BitFlipMutation::<I>::new_with_id::<BitsVar>(rate)),
        ("BitFlipMutation", "from_params") => by_id!(id, I, boxed(mc::BitFlipMutation::<I>::from_params(rate))),
        ("PartialRandomBitstring", "new") => mc::PartialRandomBitstring::new::<BitsVar>(p, rate),
        ("PartialRandomBitstring", "new_uniform") => mc::PartialRandomBitstring::new_uniform::<BitsVar>(rate),
        ("PartialRandomBitstring", "new_full") => mc::PartialRandomBitstring::new_full::<BitsVar>(p),
        ("PartialRandomBitstring", "new_uniform_full") => {
            mc::PartialRandomBitstring::new_uniform_full::<BitsVar>()
        }
        ("PartialRandomBitstring", "new_with_id") => {
            by_id!(id, I, mc::PartialRandomBitstring::<I>::new_with_id::<BitsVar>(p, rate))
        }
        ("PartialRandomBitstring", "from_params") => {
            by_id!(id, I, boxed(mc::PartialRandomBitstring::<I>::from_params(p, rate)))
        }
        other => panic!("unknown constructor {other:?}"),
    }
}

/// Permutation mutations through every public constructor.
fn make_perm(c: &str, ctor: &str, id: &str, rate: f64, np: i64) -> ExecResult<Boxed<PermVar>> {
    Ok(match (c, ctor) {
        ("ScrambleMutation", "new") => mc::ScrambleMutation::new::<PermVar>(rate),
        ("ScrambleMutation", "new_full") => mc::ScrambleMutation::new_full::<PermVar>(),
        ("ScrambleMutation", "new_with_id") => {
            by_id!(id, I, mc::ScrambleMutation::<I>::new_with_id::<PermVar>(rate))
        }
        ("ScrambleMutation", "from_params") => by_id!(id, I, boxed(mc::ScrambleMutation::<I>::from_params(rate))),
        ("SwapMutation", "new") => mc::SwapMutation::new::<PermVar>(np as u32)?,
        ("SwapMutation", "from_params") => boxed(mc::SwapMutation::from_params(np as u32)?),
        ("InversionMutation", "new") => mc::InversionMutation::new::<PermVar, ()>(),
        ("InversionMutation", "from_params") => boxed(mc::InversionMutation::from_params()),
        ("InsertionMutation", "new") => mc::InsertionMutation::new::<PermVar>(),
        ("InsertionMutation", "from_params") => boxed(mc::InsertionMutation::from_params()),
        ("TranslocationMutation", "new") => mc::TranslocationMutation::new::<PermVar>(),
        ("TranslocationMutation", "from_params") => boxed(mc::TranslocationMutation::from_params()),
        other => panic!("unknown constructor {other:?}"),
    })
}

/// Gene-exchanging crossovers through every public constructor.
fn make_genex(c: &str, ctor: &str, np: usize, pc: f64, both: bool) -> Boxed<PermVar> {
    match (c, ctor) {
        ("NPointCrossover", "new") => rc::NPointCrossover::new::<PermVar, usize>(np, pc, both),
        ("NPointCrossover", "from_params") => boxed(rc::NPointCrossover::from_params(np, pc, both)),
        ("NPointCrossover", "new_insert_single") => rc::NPointCrossover::new_insert_single::<PermVar, usize>(np, pc),
        ("NPointCrossover", "new_insert_both") => rc::NPointCrossover::new_insert_both::<PermVar, usize>(np, pc),
        ("UniformCrossover", "new") => rc::UniformCrossover::new::<PermVar, usize>(pc, both),
        ("UniformCrossover", "from_params") => boxed(rc::UniformCrossover::from_params(pc, both)),
        ("UniformCrossover", "new_insert_single") => rc::UniformCrossover::new_insert_single::<PermVar, usize>(pc),
        ("UniformCrossover", "new_insert_both") => rc::UniformCrossover::new_insert_both::<PermVar, usize>(pc),
        ("CycleCrossover", "new") => rc::CycleCrossover::new::<PermVar, usize>(pc, both),
        ("CycleCrossover", "from_params") => boxed(rc::CycleCrossover::from_params(pc, both)),
        ("CycleCrossover", "new_insert_single") => rc::CycleCrossover::new_insert_single::<PermVar, usize>(pc),
        ("CycleCrossover", "new_insert_both") => rc::CycleCrossover::new_insert_both::<PermVar, usize>(pc),
        other => panic!("unknown constructor {other:?}"),
    }
}

/// Real-valued recombination / DE components through every public constructor.
fn make_realx(c: &str, ctor: &str, np: i64, pc: f64, both: bool, f: f64) -> ExecResult<Boxed<RealVar>> {
    Ok(match (c, ctor) {
        ("ArithmeticCrossover", "new") => rc::ArithmeticCrossover::new::<RealVar>(pc, both),
        ("ArithmeticCrossover", "from_params") => boxed(rc::ArithmeticCrossover::from_params(pc, both)),
        ("ArithmeticCrossover", "new_insert_single") => rc::ArithmeticCrossover::new_insert_single::<RealVar>(pc),
        ("ArithmeticCrossover", "new_insert_both") => rc::ArithmeticCrossover::new_insert_both::<RealVar>(pc),
        ("DEMutation", "new") => mde::DEMutation::new::<RealVar>(np as u32, f)?,
        ("DEMutation", "from_params") => boxed(mde::DEMutation::from_params(np as u32, f)?),
        ("DEBinomialCrossover", "new") => rde::DEBinomialCrossover::new::<RealVar>(pc),
        ("DEBinomialCrossover", "from_params") => boxed(rde::DEBinomialCrossover::from_params(pc)),
        ("DEExponentialCrossover", "new") => rde::DEExponentialCrossover::new::<RealVar>(pc),
        ("DEExponentialCrossover", "from_params") => boxed(rde::DEExponentialCrossover::from_params(pc)),
        other => panic!("unknown constructor {other:?}"),
    })
}

struct Outcome<E> {
    k: &'static str,
    top: Vec<E>,
    below: Vec<E>,
    h: usize,
    reg: Value,
    built: Value,
}

/// Class of `PartialRandomBitstring::p`: as `pclass`, exactly 0.5 = 5.
fn pclass2(x: f64) -> i64 {
    if x == 0.5 {
        5
    } else {
        pclass(x)
    }
}

/// The parameters of the built instance as it serialises them: [class of rm / pc, class of p,
/// insert_both, index of std_dev / bound, num_swap / n / y], 0 where there is no such field.
fn read_built<P: Problem>(c: &str, comp: &Boxed<P>) -> Value {
    let v = serde_json::to_value(comp).unwrap_or(Value::Null);
    let num = |k: &str| v.get(k).map(|x| x.as_f64().unwrap_or(f64::NAN));
    let rate = num("rm").or(num("pc")).map(pclass).unwrap_or(0);
    let p = num("p").map(pclass2).unwrap_or(0);
    let both = v.get("insert_both").and_then(|x| x.as_bool()).map(|b| b as i64).unwrap_or(0);
    let st = if has_strength(c) { num("std_dev").or(num("bound")).map(st_index).unwrap_or(BAD) } else { 0 };
    let np = v.get("num_swap").or(v.get("n")).or(v.get("y")).and_then(|x| x.as_i64()).unwrap_or(0);
    json!([rate, p, both, st, np])
}

/// Builds the component, prepares a state (population stack bottom first, seeded `Random`),
/// initialises the sibling instances and the component in the recorded order, writes the
/// adaptations, and runs `require`, `execute` as `Configuration` would.
fn run_comp<P: Problem>(
    problem: &P,
    raw: &Raw,
    make: impl FnOnce() -> ExecResult<Boxed<P>>,
    sibling: impl Fn(&Sib) -> Boxed<P>,
    pops: Vec<Vec<P::Encoding>>,
) -> Outcome<P::Encoding> {
    let mut state: State<'static, P> = State::new();
    state.insert(Populations::<P>::new());
    state.insert(Random::new(raw.seed));
    for pop in pops {
        let inds: Vec<Individual<P>> = pop.into_iter().map(Individual::new_unevaluated).collect();
        state.populations_mut().push(inds);
    }
    let mut built = json!([]);
    let mut reg_inner: Option<Value> = None;
    let k = match caught(|| make()) {
        Err(_) => "panic",
        Ok(Err(_)) => "ctor_err",
        Ok(Ok(comp)) => {
            built = read_built(&raw.c, &comp);
            let st = &mut state;
            let reg_in = &mut reg_inner;
            match caught(move || -> ExecResult<()> {
                // instances of an enclosing scope first; everything else happens in a child scope then
                let scoped = raw.sibs.iter().any(|s| s.up);
                for s in raw.sibs.iter().filter(|s| s.up) {
                    sibling(s).init(problem, st)?;
                }
                let body = |st: &mut State<'static, P>| -> ExecResult<()> {
                    for s in raw.sibs.iter().filter(|s| !s.up && !s.after) {
                        sibling(s).init(problem, st)?;
                    }
                    comp.init(problem, st)?;
                    for s in raw.sibs.iter().filter(|s| !s.up && s.after) {
                        sibling(s).init(problem, st)?;
                    }
                    for a in &raw.adapt {
                        match a.w {
                            1 => set_rate(&raw.c, &a.id, st, a.rate),
                            _ => set_strength(&raw.c, &a.id, st, st_value(a.st)),
                        }
                    }
                    comp.require(problem, &st.requirements())?;
                    comp.execute(problem, st)
                };
                if scoped {
                    let mut out = Ok(());
                    let inner = st.with_inner_state(|st| {
                        out = body(st);
                        // the parameter states as the executed instance sees them (read where it ran)
                        *reg_in = Some(read_reg(&raw.c, st));
                        Ok(())
                    });
                    inner?;
                    out
                } else {
                    body(st)
                }
            }) {
                Err(_) => "panic",
                Ok(Err(_)) => "err",
                Ok(Ok(())) => "ok",
            }
        }
    };
    let reg = if matches!(k, "ok" | "err") { reg_inner.take().unwrap_or_else(|| read_reg(&raw.c, &state)) } else { json!([]) };
    if !matches!(k, "ok" | "err") {
        built = json!([]);
    }
    let pops = state.populations();
    let h = pops.len();
    let sols = |d: usize| -> Vec<P::Encoding> {
        pops.peek(d).iter().map(|i| i.solution().clone()).collect()
    };
    let top = if h >= 1 { sols(0) } else { vec![] };
    let below = if h >= 2 { sols(1) } else { vec![] };
    Outcome { k, top, below, h, reg, built }
}

fn no_sibling<P: Problem>(_: &Sib) -> Boxed<P> {
    panic!("component without identifier has no siblings")
}

fn grid<T: Copy + Into<Value>>(v: &[Vec<T>]) -> Value {
    Value::Array(v.iter().map(|s| Value::Array(s.iter().map(|&x| x.into()).collect())).collect())
}

fn usgrid(v: &[Vec<usize>]) -> Value {
    Value::Array(v.iter().map(|s| Value::Array(s.iter().map(|&x| json!(x)).collect())).collect())
}

fn close(x: f64, y: f64, scale: f64) -> bool {
    (x - y).abs() <= 1e-9 * scale.max(1.0)
}

/// The case as the spec sees it: the constructor and the arguments GIVEN to it (NOVAL for an
/// argument the constructor does not take), identifier, siblings and adaptations by class.
fn act_json(raw: &Raw, pin: Value, base: Value) -> Value {
    let c = raw.c.as_str();
    let ctor = raw.ctor.as_str();
    // the shortest individual bounds the number of cuts (= dim unless the population is ragged)
    let min_len = match pin.as_array() {
        Some(rows) if c == "NPointCrossover" && !rows.is_empty() => {
            rows.iter().map(|x| x.as_array().map(|g| g.len()).unwrap_or(0)).min().unwrap()
        }
        _ => raw.dim,
    };
    let nrel = if 1 <= raw.np && raw.np < min_len as i64 { 0 } else { 1 };
    let has_rate = has_id(c) || is_cross(c) || matches!(c, "DEBinomialCrossover" | "DEExponentialCrossover");
    let pr = if matches!(ctor, "new_dev" | "new_bound" | "new_full" | "new_uniform_full") {
        NOVAL
    } else if has_rate {
        pclass(raw.rate)
    } else {
        0
    };
    let p2 = if matches!(ctor, "new_uniform" | "new_uniform_full") {
        NOVAL
    } else if c == "PartialRandomBitstring" {
        pclass2(raw.p)
    } else {
        0
    };
    let both = if matches!(ctor, "new_insert_single" | "new_insert_both") { NOVAL } else { raw.both as i64 };
    let st = if has_strength(c) { raw.st } else { 0 };
    let sibs: Vec<Value> = raw
        .sibs
        .iter()
        .map(|s| json!({"id": s.id, "pr": pclass(s.rate), "st": if has_strength(c) { s.st } else { 0 }, "up": s.up as i64}))
        .collect();
    let adapt: Vec<Value> = raw
        .adapt
        .iter()
        .map(|a| json!({"id": a.id, "w": a.w, "v": if a.w == 1 { pclass(a.rate) } else { a.st }}))
        .collect();
    json!({"c": raw.c, "ctor": raw.ctor, "id": raw.id, "np": raw.np, "pr": pr, "p2": p2, "both": both, "st": st,
           "sibs": sibs, "adapt": adapt, "dim": raw.dim, "nrel": nrel, "pin": pin, "base": base})
}

#[allow(clippy::too_many_arguments)]
fn res_json(
    k: &str,
    out: Value,
    base: Value,
    h: usize,
    pred: Value,
    pred2: Value,
    (reg, built): (Value, Value),
    mag: Value,
) -> Value {
    json!({"k": k, "out": out, "base": base, "h": h, "pred": pred, "pred2": pred2, "reg": reg, "mag": mag,
           "built": built})
}

/// The population with the duplicates of `raw.pat`: individual `j` is `own[pat[j]]`.
fn with_copies<T: Clone>(raw: &Raw, own: Vec<T>) -> Vec<T> {
    if raw.pat.is_empty() {
        return own;
    }
    assert_eq!(raw.pat.len(), own.len());
    raw.pat.iter().map(|&k| own[k].clone()).collect()
}

fn random_perm(r: &mut ChaCha8Rng, d: usize) -> Vec<usize> {
    let mut p: Vec<usize> = (0..d).collect();
    p.shuffle(r);
    p
}

/// Real population: from the box [-4, 12), or (`ext`) from the table of extreme values with
/// pairwise different first coordinates (the individuals are told apart by their bit patterns).
fn real_pop(r: &mut ChaCha8Rng, n: usize, d: usize, ext: bool) -> Vec<Vec<f64>> {
    if !ext {
        return (0..n).map(|_| (0..d).map(|_| r.gen_range(-4.0..12.0)).collect()).collect();
    }
    let mut first: Vec<usize> = (0..LADDER.len()).collect();
    first.shuffle(r);
    (0..n)
        .map(|j| (0..d).map(|c| if c == 0 { LADDER[first[j]] } else { *LADDER.choose(r).unwrap() }).collect())
        .collect()
}

/// Executes one component case; returns (act, res) in the shapes of `Variation.tla`.
fn exec_comp(raw: &Raw) -> (Value, Value) {
    let mut r = rng(raw.seed, 7);
    let (n, d) = (raw.n, raw.dim);
    let empty = || json!([]);
    let (cs, ctor, id) = (raw.c.as_str(), raw.ctor.as_str(), raw.id.as_str());
    match cs {
        "NormalMutation" | "UniformMutation" | "PartialRandomSpread" => {
            let problem = RealVar { dim: d, lo: -4.0, hi: 12.0 };
            // coordinates from the box, every fifth exactly 0 (a move from there is seen exactly,
            // however tiny the strength)
            let mut pop = real_pop(&mut r, n, d, false);
            pop.iter_mut().flatten().for_each(|x| {
                if r.gen_range(0..5) == 0 {
                    *x = 0.0
                }
            });
            let o = run_comp(
                &problem,
                raw,
                || Ok(make_real(cs, ctor, id, st_value(raw.st), raw.rate)),
                |s| make_real(cs, "from_params", &s.id, st_value(s.st), s.rate),
                vec![pop.clone()],
            );
            let old = |j: usize, c: usize| pop.get(j).and_then(|s| s.get(c)).copied().unwrap_or(f64::NAN);
            let class = |j: usize, c: usize, x: f64| -> i64 {
                if x.to_bits() == old(j, c).to_bits() {
                    return 0;
                }
                let ok = match cs {
                    "PartialRandomSpread" => (-4.0..12.0).contains(&x),
                    _ => x.is_finite(),
                };
                if ok {
                    1
                } else {
                    2
                }
            };
            // least index of the strength table that bounds the move (one above the table = none
            // does), up to the rounding of the sum and of the difference (none for a coordinate
            // that was exactly 0)
            let mag = |j: usize, c: usize, x: f64| -> i64 {
                if x.to_bits() == old(j, c).to_bits() {
                    return 0;
                }
                let delta = (x - old(j, c)).abs();
                let slack = if old(j, c) == 0.0 { 0.0 } else { ULPS * old(j, c).abs().max(x.abs()) };
                STRENGTHS
                    .iter()
                    .position(|s| delta <= s * (1.0 + 1e-9) + slack)
                    .map(|k| k as i64 + 1)
                    .unwrap_or(STRENGTHS.len() as i64 + 1)
            };
            let project = |f: &dyn Fn(usize, usize, f64) -> i64| -> Vec<Vec<i64>> {
                o.top.iter().enumerate().map(|(j, s)| s.iter().enumerate().map(|(c, &x)| f(j, c, x)).collect()).collect()
            };
            let out = project(&class);
            let mags = if cs == "UniformMutation" && o.k == "ok" { grid(&project(&mag)) } else { empty() };
            let pin: Vec<Vec<i64>> = vec![vec![0; d]; n];
            (
                act_json(raw, grid(&pin), empty()),
                res_json(o.k, grid(&out), empty(), o.h, empty(), empty(), (o.reg, o.built), mags),
            )
        }
        "BitFlipMutation" | "PartialRandomBitstring" => {
            let problem = BitsVar { dim: d };
            let pop: Vec<Vec<bool>> = (0..n).map(|_| (0..d).map(|_| r.gen_bool(0.5)).collect()).collect();
            let o = run_comp(
                &problem,
                raw,
                || Ok(make_bits(cs, ctor, id, raw.p, raw.rate)),
                |s| make_bits(cs, "from_params", &s.id, 0.5, s.rate),
                vec![pop.clone()],
            );
            let bits = |v: &[Vec<bool>]| -> Vec<Vec<i64>> {
                v.iter().map(|s| s.iter().map(|&b| b as i64).collect()).collect()
            };
            (
                act_json(raw, grid(&bits(&pop)), empty()),
                res_json(o.k, grid(&bits(&o.top)), empty(), o.h, empty(), empty(), (o.reg, o.built), empty()),
            )
        }
        "ScrambleMutation" | "SwapMutation" | "InversionMutation" | "InsertionMutation"
        | "TranslocationMutation" => {
            let problem = PermVar { dim: d };
            let pop: Vec<Vec<usize>> = (0..n).map(|_| random_perm(&mut r, d)).collect();
            let o = run_comp(
                &problem,
                raw,
                || make_perm(cs, ctor, id, raw.rate, raw.np),
                |s| make_perm(cs, "from_params", &s.id, s.rate, 0).unwrap(),
                vec![pop.clone()],
            );
            (
                act_json(raw, usgrid(&pop), empty()),
                res_json(o.k, usgrid(&o.top), empty(), o.h, empty(), empty(), (o.reg, o.built), empty()),
            )
        }
        "NPointCrossover" | "UniformCrossover" | "CycleCrossover" => {
            let problem = PermVar { dim: d };
            // permutations / position-labelled genes 10 j + c (lengths <= 9: labels stay distinct)
            let len = |j: usize| raw.lens.get(j - 1).copied().unwrap_or(d);
            let own: Vec<Vec<usize>> = if raw.c == "CycleCrossover" {
                (0..n).map(|_| random_perm(&mut r, d)).collect()
            } else {
                (1..=n).map(|j| (1..=len(j)).map(|c| 10 * j + c).collect()).collect()
            };
            let pop = with_copies(raw, own);
            let o = run_comp(
                &problem,
                raw,
                || Ok(make_genex(cs, ctor, raw.np as usize, raw.rate, raw.both)),
                no_sibling,
                vec![pop.clone()],
            );
            (
                act_json(raw, usgrid(&pop), empty()),
                res_json(o.k, usgrid(&o.top), empty(), o.h, empty(), empty(), (o.reg, o.built), empty()),
            )
        }
        "ArithmeticCrossover" => {
            let problem = RealVar { dim: d, lo: -4.0, hi: 12.0 };
            let pop = with_copies(raw, real_pop(&mut r, n, d, raw.ext));
            let o = run_comp(
                &problem,
                raw,
                || make_realx(cs, ctor, 0, raw.rate, raw.both, 0.0),
                no_sibling,
                vec![pop.clone()],
            );
            let same = |x: &[f64], y: &[f64]| {
                x.len() == y.len() && x.iter().zip(y).all(|(a, b)| a.to_bits() == b.to_bits())
            };
            let tag = |x: &[f64]| pop.iter().position(|p| same(p, x)).map(|j| j as i64 + 1).unwrap_or(0);
            let out: Vec<Vec<i64>> = o.top.iter().map(|x| vec![tag(x); x.len()]).collect();
            // P-tag: bit-identical individuals get the same tag (the least index)
            let pin: Vec<Vec<i64>> = pop.iter().map(|x| vec![tag(x); d]).collect();
            let npairs = n / 2;
            let mut pred = Vec::new();
            let mut pred2 = Vec::new();
            for (oi, x) in o.top.iter().enumerate() {
                let mut row = Vec::new();
                let mut row2 = Vec::new();
                for m in 0..npairs {
                    let (p1, p2) = (&pop[2 * m], &pop[2 * m + 1]);
                    let conv = x.len() == d && (0..d).all(|c| hull_class(x[c], p1[c], p2[c]) == 0);
                    let cons = match o.top.get(oi + 1) {
                        Some(y) if x.len() == d && y.len() == d => {
                            (0..d).all(|c| conserved(x[c], y[c], p1[c], p2[c]))
                        }
                        _ => false,
                    };
                    row.push(conv as i64);
                    row2.push(cons as i64);
                }
                pred.push(row);
                pred2.push(row2);
            }
            (
                act_json(raw, grid(&pin), empty()),
                res_json(o.k, grid(&out), empty(), o.h, grid(&pred), grid(&pred2), (o.reg, o.built), empty()),
            )
        }
        "DEMutation" => {
            let problem = RealVar { dim: d, lo: -4.0, hi: 12.0 };
            let pop = real_pop(&mut r, n, d, false);
            let (y, f) = (raw.np, raw.strength);
            let o = run_comp(
                &problem,
                raw,
                || make_realx(cs, ctor, y, 0.0, false, f),
                no_sibling,
                vec![pop.clone()],
            );
            let size = (2 * y.max(0) + 1) as usize;
            let out: Vec<Vec<i64>> = o.top.iter().map(|x| vec![0; x.len()]).collect();
            let pred: Vec<Vec<i64>> = o
                .top
                .iter()
                .enumerate()
                .map(|(oi, x)| {
                    let ok = x.len() == d
                        && (oi + 1) * size <= pop.len()
                        && (0..d).all(|c| {
                            let chunk = &pop[oi * size..(oi + 1) * size];
                            let mut e = chunk[0][c];
                            let mut scale = e.abs();
                            for pair in chunk[1..].chunks(2) {
                                e += f * (pair[0][c] - pair[1][c]);
                                scale = scale.max(pair[0][c].abs()).max(pair[1][c].abs());
                            }
                            close(x[c], e, scale * 8.0)
                        });
                    vec![ok as i64]
                })
                .collect();
            let pin: Vec<Vec<i64>> = (1..=n).map(|j| vec![j as i64; d]).collect();
            (
                act_json(raw, grid(&pin), empty()),
                res_json(o.k, grid(&out), empty(), o.h, grid(&pred), empty(), (o.reg, o.built), empty()),
            )
        }
        "DEBinomialCrossover" | "DEExponentialCrossover" => {
            let problem = RealVar { dim: d, lo: -4.0, hi: 12.0 };
            let lab = |off: usize| -> Vec<Vec<f64>> {
                (1..=n).map(|j| (1..=d).map(|c| (100 * j + off + c) as f64).collect()).collect()
            };
            let mutants = with_copies(raw, lab(0));
            let bases = if raw.same_base { mutants.clone() } else { lab(50) };
            let o = run_comp(
                &problem,
                raw,
                || make_realx(cs, ctor, 0, raw.rate, false, 0.0),
                no_sibling,
                vec![bases.clone(), mutants.clone()],
            );
            let ig = |v: &[Vec<f64>]| -> Vec<Vec<i64>> {
                v.iter().map(|s| s.iter().map(|&x| as_int(x)).collect()).collect()
            };
            (
                act_json(raw, grid(&ig(&mutants)), grid(&ig(&bases))),
                res_json(o.k, grid(&ig(&o.top)), grid(&ig(&o.below)), o.h, empty(), empty(), (o.reg, o.built), empty()),
            )
        }
        other => panic!("unknown component {other}"),
    }
}

// ------------------------------------------------------------------------------------ generation

fn gen_prob(r: &mut ChaCha8Rng, allow_invalid: bool) -> f64 {
    match r.gen_range(0..10) {
        0 => 0.0,
        1 => *[0.0, -0.0].choose(r).unwrap(),
        2 | 3 => 1.0,
        // outside [0, 1]: clearly, by the least possible amount, hugely
        4 if allow_invalid => *[1.5, -0.25, 1.0 + f64::EPSILON, -5e-324, f64::MAX, -f64::MAX].choose(r).unwrap(),
        // inside (0, 1): the least positive floats, the largest float below 1, exactly 1/2
        5 => *[5e-324, f64::MIN_POSITIVE, 1.0e-300, 1.0 - f64::EPSILON / 2.0, 0.5].choose(r).unwrap(),
        _ => r.gen_range(0.05..0.95),
    }
}

/// A rate whose class differs from that of `own` where possible (so that obeying the wrong
/// instance's rate is visible), else any rate.
fn other_rate(r: &mut ChaCha8Rng, own: f64) -> f64 {
    for _ in 0..4 {
        let x = gen_prob(r, true);
        if pclass(x) != pclass(own) {
            return x;
        }
    }
    gen_prob(r, true)
}

/// A copy pattern (`Raw::pat`) for `n >= 2` individuals.  `kind` 0: identical adjacent parents
/// (every pair with probability 1/2, at least one pair); 1: a converged population (all copies of
/// one individual); 2: selection with replacement from a pool of about n/2 individuals (copies
/// inside and across pairs).
fn gen_pat(r: &mut ChaCha8Rng, n: usize, kind: usize) -> Vec<usize> {
    let mut class: Vec<usize> = (0..n).collect();
    match kind % 3 {
        0 => {
            let pairs = n / 2;
            let sure = r.gen_range(0..pairs);
            for m in 0..pairs {
                if m == sure || r.gen_bool(0.5) {
                    class[2 * m + 1] = class[2 * m];
                }
            }
        }
        1 => class.iter_mut().for_each(|x| *x = 0),
        _ => {
            let pool = (n + 1) / 2;
            class.iter_mut().for_each(|x| *x = r.gen_range(0..pool));
        }
    }
    (0..n).map(|j| (0..=j).find(|&i| class[i] == class[j]).unwrap()).collect()
}

/// A random case for component `c`, built through the `k`-th of its constructors (round robin);
/// `edge = Some(k)` asks for an NPointCrossover whose number of points lies outside 1..dim-1
/// (0, dim, dim + 1 in turn).
fn gen_raw(c: &str, r: &mut ChaCha8Rng, edge: Option<usize>, k: usize) -> Raw {
    let cts = ctors(c);
    let mut raw = Raw {
        c: c.to_string(),
        ctor: cts[k % cts.len()].to_string(),
        id: "Global".to_string(),
        seed: r.gen::<u32>() as u64,
        n: r.gen_range(0..=5),
        dim: r.gen_range(2..=7),
        np: 0,
        rate: 0.0,
        p: 0.0,
        both: false,
        strength: 0.0,
        st: 0,
        sibs: vec![],
        adapt: vec![],
        ext: false,
        pat: vec![],
        lens: vec![],
        same_base: false,
    };
    // crossovers: in turn a population of distinct individuals of the problem dimension, one with
    // duplicates, (n-point: a ragged one, a ragged one with duplicates; others: duplicates, distinct)
    let variant = (k / cts.len()) % 4;
    let kind = k / (4 * cts.len());
    let is_dex = matches!(c, "DEBinomialCrossover" | "DEExponentialCrossover");
    let (dup, ragged) = match (is_cross(c) || is_dex, c == "NPointCrossover", variant) {
        (false, _, _) | (_, _, 0) => (false, false),
        (_, _, 1) => (true, false),
        (_, true, 2) => (false, true),
        (_, true, _) => (true, true),
        (_, false, 2) => (true, false),
        _ => (false, false),
    };
    match c {
        "NormalMutation" | "UniformMutation" | "PartialRandomSpread" => {
            raw.dim = r.gen_range(1..=6);
            raw.rate = gen_prob(r, true);
            if has_strength(c) {
                // every table value below the largest ordinary one (the siblings get another,
                // preferably larger one), the extreme ones twice as often
                raw.st = if r.gen_range(0..12) == 0 {
                    ST_BAD
                } else {
                    *[1, 1, 2, 2, 3, 4, 5, 6, 8, 8, 9, 9, 10, 10].choose(r).unwrap()
                };
            }
        }
        "BitFlipMutation" | "PartialRandomBitstring" => {
            raw.dim = r.gen_range(1..=8);
            raw.rate = gen_prob(r, true);
            raw.p = gen_prob(r, false);
        }
        "ScrambleMutation" => raw.rate = gen_prob(r, true),
        "SwapMutation" => raw.np = r.gen_range(0..=raw.dim as i64 + 1),
        "InversionMutation" | "InsertionMutation" | "TranslocationMutation" => {}
        "NPointCrossover" => {
            raw.both = r.gen_bool(0.5);
            if let Some(k) = edge {
                raw.np = [0, raw.dim as i64, raw.dim as i64 + 1][k % 3];
                raw.rate = 1.0;
                raw.n = r.gen_range(2..=5);
            } else {
                if dup || ragged {
                    raw.n = r.gen_range(2..=6);
                }
                let mut min_len = raw.dim;
                if ragged {
                    let (lo, hi) = (raw.dim.saturating_sub(2).max(2), (raw.dim + 2).min(9));
                    raw.lens = (0..raw.n).map(|_| r.gen_range(lo..=hi)).collect();
                    // at least one pair of unequal parents
                    let m = r.gen_range(0..raw.n / 2);
                    if raw.lens[2 * m] == raw.lens[2 * m + 1] {
                        raw.lens[2 * m] = if raw.lens[2 * m] < hi { raw.lens[2 * m] + 1 } else { lo };
                    }
                    min_len = *raw.lens.iter().min().unwrap();
                }
                if dup {
                    raw.pat = gen_pat(r, raw.n, kind);
                    if ragged && r.gen_bool(0.5) {
                        // keep the pair of unequal parents: copy only among the other individuals
                        raw.pat[0] = 0;
                        raw.pat[1] = 1;
                        raw.lens[0] = min_len;
                        raw.lens[1] = min_len + 1;
                    }
                }
                raw.np = r.gen_range(1..min_len as i64);
                raw.rate = gen_prob(r, false);
            }
        }
        "UniformCrossover" | "CycleCrossover" | "ArithmeticCrossover" => {
            raw.dim = r.gen_range(1..=7);
            raw.both = r.gen_bool(0.5);
            raw.rate = gen_prob(r, false);
            raw.ext = c == "ArithmeticCrossover" && r.gen_bool(0.5);
            if dup {
                raw.n = r.gen_range(2..=6);
                raw.pat = gen_pat(r, raw.n, kind);
            }
        }
        "DEMutation" => {
            raw.dim = r.gen_range(1..=5);
            raw.np = *[1, 1, 1, 2, 2, 2, 0, 3].choose(r).unwrap();
            let size = (2 * raw.np + 1) as usize;
            raw.n = if r.gen_bool(0.7) { size * r.gen_range(0..=3) } else { r.gen_range(0..=11) };
            // documented: f in (0, 2]
            raw.strength = *[0.5, 1.0, 2.0, 2.0, f64::MIN_POSITIVE, 5e-324, 1.0e-300, 1.0e-17].choose(r).unwrap();
        }
        "DEBinomialCrossover" | "DEExponentialCrossover" => {
            raw.dim = r.gen_range(1..=6);
            raw.rate = gen_prob(r, false);
            if dup {
                // duplicates among the mutants, and / or mutants identical to their bases
                raw.n = r.gen_range(2..=6);
                raw.same_base = kind % 3 != 0;
                if kind % 3 != 1 {
                    raw.pat = gen_pat(r, raw.n, kind / 3);
                }
            }
        }
        other => panic!("unknown component {other}"),
    }
    if has_id(c) {
        // identifier of the executed instance (the identifier-generic constructors only), sibling
        // instances under other identifiers, adaptations of the parameter states
        if matches!(raw.ctor.as_str(), "new_with_id" | "from_params") {
            raw.id = IDS.choose(r).unwrap().to_string();
        }
        let mut others: Vec<&str> = IDS.iter().copied().filter(|i| *i != raw.id).collect();
        others.shuffle(r);
        others.truncate(*[0, 1, 1, 2].choose(r).unwrap());
        let other_st = |r: &mut ChaCha8Rng, own: i64| -> i64 {
            if !has_strength(c) {
                0
            } else if own != ST_BAD && r.gen_range(0..4) == 0 {
                ST_BAD
            } else {
                // a different strength, preferably a larger one
                *(1..=STRENGTHS.len() as i64).filter(|s| *s != own).collect::<Vec<_>>().choose(r).unwrap()
            }
        };
        for o in others {
            let rate = other_rate(r, raw.rate);
            let st = other_st(r, raw.st);
            let up = r.gen_range(0..4) == 0;
            raw.sibs.push(Sib { id: o.to_string(), rate, st, after: !up && r.gen_bool(0.5), up });
        }
        // an EARLIER instance under the executed instance's own identifier (an earlier phase on the same state, or
        // the instance of an enclosing scope) with another rate / strength: the executed instance's own `init`
        // comes after it.  Often the executed instance is the one that must not change anything (rate 0).
        if r.gen_range(0..3) == 0 {
            if r.gen_bool(0.5) {
                raw.rate = if r.gen_bool(0.5) { 0.0 } else { -0.0 };
            }
            let rate = other_rate(r, raw.rate);
            let st = other_st(r, raw.st);
            raw.sibs.push(Sib { id: raw.id.clone(), rate, st, after: false, up: r.gen_bool(0.5) });
        }
        let present: Vec<String> =
            std::iter::once(raw.id.clone()).chain(raw.sibs.iter().map(|s| s.id.clone())).collect();
        for _ in 0..*[0, 0, 1, 1, 2].choose(r).unwrap() {
            let id = present.choose(r).unwrap().clone();
            if has_strength(c) && r.gen_bool(0.4) {
                let st = other_st(r, raw.st);
                raw.adapt.push(Adapt { id, w: 2, rate: 0.0, st });
            } else {
                let rate = other_rate(r, raw.rate);
                raw.adapt.push(Adapt { id, w: 1, rate, st: 0 });
            }
        }
    }
    raw
}

fn gen_fn(r: &mut ChaCha8Rng, maxlen: usize) -> Value {
    let op = *["circular_swap", "circular_swap2", "translocate_slice", "translocate_slice2", "multi_point",
               "uniform", "cycle", "arith_x", "arithmetic"]
        .choose(r)
        .unwrap();
    let n = r.gen_range(2..=maxlen);
    // pair helpers: every second call on parents of unequal length (second parent of length m)
    let m = if r.gen_bool(0.5) {
        n
    } else {
        let m = r.gen_range(2..maxlen);
        if m >= n {
            m + 1
        } else {
            m
        }
    };
    let (lo, hi) = (n.min(m), n.max(m));
    if op == "arith_x" {
        // vectors of extreme genes (ranks in LADDER) with an alpha index per position; the ends of
        // the alpha range and equal / opposite genes are over-represented
        let rank = |r: &mut ChaCha8Rng| r.gen_range(1..=LADDER.len());
        let p: Vec<usize> = (0..n).map(|_| rank(r)).collect();
        let q: Vec<usize> = p
            .iter()
            .map(|&x| match r.gen_range(0..8) {
                0 => x,
                1 => LADDER.len() + 1 - x,
                _ => rank(r),
            })
            .collect();
        let top = alphas().len() - 1;
        let ix: Vec<usize> = (0..n)
            .map(|_| match r.gen_range(0..6) {
                0 => 0,
                1 => top,
                _ => r.gen_range(0..=top),
            })
            .collect();
        return json!({"op": op, "p": p, "q": q, "ix": ix, "a": 0, "b": 0, "i": 0});
    }
    let perm: Vec<usize> = random_perm(r, n);
    let mut act = json!({"op": op, "p": perm, "q": [], "ix": [], "a": 0, "b": 0, "i": 0});
    match op {
        "circular_swap" | "circular_swap2" => {
            let k = r.gen_range(2..=n);
            act["ix"] = json!(random_perm(r, n)[..k].to_vec());
        }
        "translocate_slice" | "translocate_slice2" => {
            let a = r.gen_range(0..n);
            let b = r.gen_range(a..=n);
            let i = r.gen_range(0..=(n - 1).min(n - (b - a)));
            act["a"] = json!(a);
            act["b"] = json!(b);
            act["i"] = json!(i);
        }
        "multi_point" => {
            // 1 <= number of cuts < both lengths, cuts inside the shorter parent, in any order
            let k = r.gen_range(1..lo);
            act["p"] = json!((1..=n).map(|j| 100 + j).collect::<Vec<_>>());
            act["q"] = json!((1..=m).map(|j| 200 + j).collect::<Vec<_>>());
            act["ix"] = json!(random_perm(r, lo)[..k].to_vec());
        }
        "uniform" => {
            // the mask covers both parents (sometimes more) and swaps only positions both have
            let len = hi + r.gen_range(0..3) / 2;
            act["p"] = json!((1..=n).map(|j| 100 + j).collect::<Vec<_>>());
            act["q"] = json!((1..=m).map(|j| 200 + j).collect::<Vec<_>>());
            act["ix"] = json!((0..len).map(|j| if j < lo { r.gen_range(0..=1) } else { 0 }).collect::<Vec<i64>>());
        }
        "arithmetic" => {
            // small integers and alphas k/4: exact in f64
            act["p"] = json!((0..n).map(|_| r.gen_range(-8..=8)).collect::<Vec<i64>>());
            act["q"] = json!((0..m).map(|_| r.gen_range(-8..=8)).collect::<Vec<i64>>());
            act["ix"] = json!((0..hi).map(|_| r.gen_range(0..=4)).collect::<Vec<i64>>());
        }
        _ => act["q"] = json!(random_perm(r, n)),
    }
    act
}

// ------------------------------------------------------------------------------------ main

fn reset(out: &mut Out, run: u64) {
    out.emit(&json!({"run": run, "i": 0, "kind": "reset"}));
}

/// Watchdog: cases are executed on a worker thread; a case that does not answer within the limit
/// is recorded with reply kind "timeout", the stuck thread is abandoned and a new one is started.
struct Worker {
    tx: mpsc::Sender<Value>,
    rx: mpsc::Receiver<Value>,
}

impl Worker {
    fn spawn() -> Self {
        let (tx, jobs) = mpsc::channel::<Value>();
        let (answers, rx) = mpsc::channel::<Value>();
        thread::spawn(move || {
            for job in jobs {
                let answer = if job.get("op").is_some() {
                    json!({"kind": "fn", "act": job, "res": exec_fn(&job)})
                } else {
                    let (act, res) = exec_comp(&Raw::from_json(&job));
                    json!({"kind": "comp", "act": act, "res": res, "raw": job})
                };
                if answers.send(answer).is_err() {
                    break;
                }
            }
        });
        Worker { tx, rx }
    }
}

struct Guarded {
    worker: Worker,
    limit: Duration,
    /// (run, number of timeouts in it): after three timeouts the rest of the run is not executed
    stuck: (u64, usize),
}

impl Guarded {
    fn new(limit_s: u64) -> Self {
        Guarded { worker: Worker::spawn(), limit: Duration::from_secs(limit_s), stuck: (0, 0) }
    }

    /// `job` is a helper call (has "op") or the raw description of a component case (has "c").
    fn emit(&mut self, out: &mut Out, run: u64, i: usize, job: &Value) {
        if self.stuck.0 != run {
            self.stuck = (run, 0);
        }
        if self.stuck.1 >= 3 {
            return;
        }
        self.worker.tx.send(job.clone()).expect("worker alive");
        let mut rec = match self.worker.rx.recv_timeout(self.limit) {
            Ok(v) => v,
            Err(_) => {
                self.stuck.1 += 1;
                self.worker = Worker::spawn();
                if job.get("op").is_some() {
                    json!({"kind": "fn", "act": job, "res": fn_res("timeout", vec![], vec![])})
                } else {
                    let raw = Raw::from_json(job);
                    let e = || json!([]);
                    json!({"kind": "comp", "act": act_json(&raw, e(), e()),
                           "res": res_json("timeout", e(), e(), 0, e(), e(), (e(), e()), e()), "raw": job})
                }
            }
        };
        rec["run"] = json!(run);
        rec["i"] = json!(i);
        out.emit(&rec);
    }
}

pub fn main(args: &Args) -> usize {
    // the tables the spec reads as ranks / indices must be strictly increasing
    assert!(LADDER.windows(2).all(|w| w[0] < w[1]) && LADDER.iter().all(|x| x.is_finite()));
    assert!(alphas().windows(2).all(|w| w[0] < w[1]) && alphas()[0] == 0.0 && alphas()[8] == 1.0);
    assert!(STRENGTHS.windows(2).all(|w| w[0] < w[1]));
    if args.mode == "ctors" {
        // the constructor sweep of this driver, for the completeness check of checks/c13.py
        let mut out = Out::create(&args.str("out"));
        for c in COMPS {
            out.emit(&json!({"c": c, "ctors": ctors(c)}));
        }
        return out.finish();
    }
    let mut out = Out::create(&args.str("out"));
    let mut g = Guarded::new(args.num("limit", 5));
    match args.mode.as_str() {
        "replay" => {
            for scen in read_ndjson(&args.str("in")) {
                let run = scen["run"].as_u64().unwrap();
                reset(&mut out, run);
                for (i, a) in scen["acts"].as_array().unwrap().iter().enumerate() {
                    g.emit(&mut out, run, i + 1, a);
                }
            }
        }
        "random" => {
            let seed = args.seed();
            let per = args.num("n", 100) as usize;
            let nfn = args.num("nfn", 500) as usize;
            let maxlen = args.num("maxlen", 10) as usize;
            let only = args.get("only").map(|s| s.to_string());
            let mut run = 0u64;
            for (ci, c) in COMPS.iter().enumerate() {
                if only.as_deref().map(|o| o != *c).unwrap_or(false) {
                    continue;
                }
                let mut r = rng(seed, 100 + ci as u64);
                reset(&mut out, run);
                for i in 0..per {
                    g.emit(&mut out, run, i + 1, &gen_raw(c, &mut r, None, i).to_json());
                }
                run += 1;
            }
            if only.is_none() {
                let mut r = rng(seed, 99);
                reset(&mut out, run);
                for i in 0..nfn {
                    g.emit(&mut out, run, i + 1, &gen_fn(&mut r, maxlen));
                }
            }
        }
        "edge" => {
            // NPointCrossover with a number of points outside 1..dim-1: one run per case
            let mut r = rng(args.seed(), 98);
            for run in 0..args.num("n", 6) {
                reset(&mut out, run);
                g.emit(&mut out, run, 1, &gen_raw("NPointCrossover", &mut r, Some(run as usize), 0).to_json());
            }
        }
        other => panic!("unknown mode {other}"),
    }
    out.finish()
}
