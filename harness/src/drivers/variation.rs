//! Driver for spec module `Variation` (C13).
//!
//! * helper calls (`kind = "fn"`): the public functions of `mutation::functional` and
//!   `recombination::functional` are called with the logged arguments; the reply is recorded.
//! * component executions (`kind = "comp"`): every mutation / recombination component is built
//!   through its public constructor and run (`init`, `require`, `execute`) on a prepared `State`
//!   (`Populations`, seeded `Random`); the populations before and after are recorded in the
//!   projections described in `spec/Variation.tla`.
//!
//! Everything is decided by TLC (trace validation); this file only records.  Panics of the code
//! under test are data (`k = "panic"`); every case runs on a worker thread under a watchdog and a
//! case that does not return within the limit is recorded as `k = "timeout"`.
use mahf::{
    components::{
        mutation::{common as mc, de as mde, functional as mf},
        recombination::{common as rc, de as rde, functional as rf},
    },
    state::common::Populations,
    Component, ExecResult, Individual, Problem, Random, State,
};
use std::{sync::mpsc, thread, time::Duration};

use rand::{seq::SliceRandom, Rng};
use rand_chacha::ChaCha8Rng;
use serde_json::{json, Value};

use crate::{
    problems_var::{BitsVar, PermVar, RealVar},
    util::{caught, read_ndjson, rng, Args, Out},
};

const BAD: i64 = 777_777; // a float that should have been an integer and was not

// ------------------------------------------------------------------------------------ helpers

fn ints(v: &Value) -> Vec<i64> {
    v.as_array().map(|a| a.iter().map(|x| x.as_i64().unwrap()).collect()).unwrap_or_default()
}

fn us(v: &[i64]) -> Vec<usize> {
    v.iter().map(|&x| x as usize).collect()
}

fn as_int(x: f64) -> i64 {
    if x.is_finite() && x.fract() == 0.0 && x.abs() < 1e15 {
        x as i64
    } else {
        BAD
    }
}

fn fn_res(k: &str, c1: Vec<i64>, c2: Vec<i64>) -> Value {
    json!({"k": k, "c1": c1, "c2": c2})
}

fn one(x: Result<Vec<i64>, String>) -> Value {
    match x {
        Ok(s) => fn_res("ok", s, vec![]),
        Err(_) => fn_res("panic", vec![], vec![]),
    }
}

fn two(x: Result<[Vec<i64>; 2], String>) -> Value {
    match x {
        Ok([a, b]) => fn_res("ok", a, b),
        Err(_) => fn_res("panic", vec![], vec![]),
    }
}

/// Executes one helper call on the real function.
fn exec_fn(act: &Value) -> Value {
    let op = act["op"].as_str().unwrap();
    let p = ints(&act["p"]);
    let q = ints(&act["q"]);
    let ix = ints(&act["ix"]);
    let (a, b, i) = (
        act["a"].as_u64().unwrap() as usize,
        act["b"].as_u64().unwrap() as usize,
        act["i"].as_u64().unwrap() as usize,
    );
    match op {
        "circular_swap" => one(caught(|| {
            let mut s = p.clone();
            mf::circular_swap(&mut s, &us(&ix));
            s
        })),
        "circular_swap2" => one(caught(|| {
            let mut s = p.clone();
            mf::circular_swap2(&mut s, &us(&ix));
            s
        })),
        "translocate_slice" => one(caught(|| {
            let mut s = p.clone();
            mf::translocate_slice(&mut s, a..b, i);
            s
        })),
        "translocate_slice2" => one(caught(|| {
            let mut s = p.clone();
            mf::translocate_slice2(&mut s, a..b, i);
            s
        })),
        "multi_point" => two(caught(|| rf::multi_point_crossover(&p, &q, &us(&ix)))),
        "uniform" => two(caught(|| {
            let mask: Vec<bool> = ix.iter().map(|&m| m == 1).collect();
            rf::uniform_crossover(&p, &q, &mask)
        })),
        "arithmetic" => two(caught(|| {
            let pf: Vec<f64> = p.iter().map(|&x| x as f64).collect();
            let qf: Vec<f64> = q.iter().map(|&x| x as f64).collect();
            let al: Vec<f64> = ix.iter().map(|&x| x as f64 / 4.0).collect();
            let [c1, c2] = rf::arithmetic_crossover(&pf, &qf, &al);
            [
                c1.iter().map(|&x| as_int(4.0 * x)).collect(),
                c2.iter().map(|&x| as_int(4.0 * x)).collect(),
            ]
        })),
        "cycle" => two(caught(|| rf::cycle_crossover(&p, &q))),
        other => panic!("unknown helper {other}"),
    }
}

// ------------------------------------------------------------------------------------ components

pub const COMPS: [&str; 17] = [
    "NormalMutation",
    "UniformMutation",
    "PartialRandomSpread",
    "BitFlipMutation",
    "PartialRandomBitstring",
    "ScrambleMutation",
    "SwapMutation",
    "InversionMutation",
    "InsertionMutation",
    "TranslocationMutation",
    "NPointCrossover",
    "UniformCrossover",
    "CycleCrossover",
    "ArithmeticCrossover",
    "DEMutation",
    "DEBinomialCrossover",
    "DEExponentialCrossover",
];

/// Everything needed to re-execute one component case deterministically.
#[derive(Clone, Debug)]
struct Raw {
    c: String,
    seed: u64,
    n: usize,
    dim: usize,
    np: i64,
    rate: f64,
    p: f64,
    both: bool,
    strength: f64,
}

impl Raw {
    fn to_json(&self) -> Value {
        json!({"c": self.c, "seed": self.seed, "n": self.n, "dim": self.dim, "np": self.np,
               "rate": self.rate, "p": self.p, "both": self.both, "strength": self.strength})
    }
    fn from_json(v: &Value) -> Self {
        Raw {
            c: v["c"].as_str().unwrap().to_string(),
            seed: v["seed"].as_u64().unwrap(),
            n: v["n"].as_u64().unwrap() as usize,
            dim: v["dim"].as_u64().unwrap() as usize,
            np: v["np"].as_i64().unwrap(),
            rate: v["rate"].as_f64().unwrap(),
            p: v["p"].as_f64().unwrap(),
            both: v["both"].as_bool().unwrap(),
            strength: v["strength"].as_f64().unwrap(),
        }
    }
}

/// Class of a probability: 0 = exactly 0, 1 = inside (0,1), 2 = exactly 1, 3 = outside [0,1].
fn pclass(x: f64) -> i64 {
    if x == 0.0 {
        0
    } else if x == 1.0 {
        2
    } else if x > 0.0 && x < 1.0 {
        1
    } else {
        3
    }
}

struct Outcome<E> {
    k: &'static str,
    top: Vec<E>,
    below: Vec<E>,
    h: usize,
}

/// Builds the component, prepares a state (population stack bottom first, seeded `Random`) and
/// runs `init`, `require`, `execute` as `Configuration` would.
fn run_comp<P: Problem>(
    problem: &P,
    make: impl FnOnce() -> ExecResult<Box<dyn Component<P>>>,
    seed: u64,
    pops: Vec<Vec<P::Encoding>>,
) -> Outcome<P::Encoding> {
    let mut state: State<'static, P> = State::new();
    state.insert(Populations::<P>::new());
    state.insert(Random::new(seed));
    for pop in pops {
        let inds: Vec<Individual<P>> = pop.into_iter().map(Individual::new_unevaluated).collect();
        state.populations_mut().push(inds);
    }
    let k = match caught(|| make()) {
        Err(_) => "panic",
        Ok(Err(_)) => "ctor_err",
        Ok(Ok(comp)) => {
            let st = &mut state;
            match caught(move || -> ExecResult<()> {
                comp.init(problem, st)?;
                comp.require(problem, &st.requirements())?;
                comp.execute(problem, st)
            }) {
                Err(_) => "panic",
                Ok(Err(_)) => "err",
                Ok(Ok(())) => "ok",
            }
        }
    };
    let pops = state.populations();
    let h = pops.len();
    let sols = |d: usize| -> Vec<P::Encoding> {
        pops.peek(d).iter().map(|i| i.solution().clone()).collect()
    };
    let top = if h >= 1 { sols(0) } else { vec![] };
    let below = if h >= 2 { sols(1) } else { vec![] };
    Outcome { k, top, below, h }
}

fn grid<T: Copy + Into<Value>>(v: &[Vec<T>]) -> Value {
    Value::Array(v.iter().map(|s| Value::Array(s.iter().map(|&x| x.into()).collect())).collect())
}

fn usgrid(v: &[Vec<usize>]) -> Value {
    Value::Array(v.iter().map(|s| Value::Array(s.iter().map(|&x| json!(x)).collect())).collect())
}

fn close(x: f64, y: f64, scale: f64) -> bool {
    (x - y).abs() <= 1e-9 * scale.max(1.0)
}

fn act_json(raw: &Raw, pr: i64, p2: i64, pin: Value, base: Value) -> Value {
    let nrel = if 1 <= raw.np && raw.np < raw.dim as i64 { 0 } else { 1 };
    json!({"c": raw.c, "np": raw.np, "pr": pr, "p2": p2, "both": raw.both as i64, "dim": raw.dim,
           "nrel": nrel, "pin": pin, "base": base})
}

fn res_json(k: &str, out: Value, base: Value, h: usize, pred: Value, pred2: Value) -> Value {
    json!({"k": k, "out": out, "base": base, "h": h, "pred": pred, "pred2": pred2})
}

fn random_perm(r: &mut ChaCha8Rng, d: usize) -> Vec<usize> {
    let mut p: Vec<usize> = (0..d).collect();
    p.shuffle(r);
    p
}

fn real_pop(r: &mut ChaCha8Rng, n: usize, d: usize) -> Vec<Vec<f64>> {
    (0..n).map(|_| (0..d).map(|_| r.gen_range(-4.0..12.0)).collect()).collect()
}

/// Executes one component case; returns (act, res) in the shapes of `Variation.tla`.
fn exec_comp(raw: &Raw) -> (Value, Value) {
    let mut r = rng(raw.seed, 7);
    let (n, d) = (raw.n, raw.dim);
    let empty = || json!([]);
    match raw.c.as_str() {
        "NormalMutation" | "UniformMutation" | "PartialRandomSpread" => {
            let problem = RealVar { dim: d, lo: -4.0, hi: 12.0 };
            let pop = real_pop(&mut r, n, d);
            let (c, s, rate) = (raw.c.clone(), raw.strength, raw.rate);
            let o = run_comp(
                &problem,
                move || {
                    Ok(match c.as_str() {
                        "NormalMutation" => mc::NormalMutation::new::<RealVar>(s, rate),
                        "UniformMutation" => mc::UniformMutation::new::<RealVar>(s, rate),
                        _ => mc::PartialRandomSpread::new::<RealVar>(rate),
                    })
                },
                raw.seed,
                vec![pop.clone()],
            );
            let class = |j: usize, c: usize, x: f64| -> i64 {
                let old = pop.get(j).and_then(|s| s.get(c)).copied().unwrap_or(f64::NAN);
                if x.to_bits() == old.to_bits() {
                    return 0;
                }
                let ok = match raw.c.as_str() {
                    "NormalMutation" => x.is_finite(),
                    "UniformMutation" => (x - old).abs() <= s * (1.0 + 1e-9) + 1e-12,
                    _ => (-4.0..12.0).contains(&x),
                };
                if ok {
                    1
                } else {
                    2
                }
            };
            let out: Vec<Vec<i64>> = o
                .top
                .iter()
                .enumerate()
                .map(|(j, s)| s.iter().enumerate().map(|(c, &x)| class(j, c, x)).collect())
                .collect();
            let pin: Vec<Vec<i64>> = vec![vec![0; d]; n];
            (
                act_json(raw, pclass(raw.rate), 0, grid(&pin), empty()),
                res_json(o.k, grid(&out), empty(), o.h, empty(), empty()),
            )
        }
        "BitFlipMutation" | "PartialRandomBitstring" => {
            let problem = BitsVar { dim: d };
            let pop: Vec<Vec<bool>> = (0..n).map(|_| (0..d).map(|_| r.gen_bool(0.5)).collect()).collect();
            let (c, p, rate) = (raw.c.clone(), raw.p, raw.rate);
            let o = run_comp(
                &problem,
                move || {
                    Ok(match c.as_str() {
                        "BitFlipMutation" => mc::BitFlipMutation::new::<BitsVar>(rate),
                        _ => mc::PartialRandomBitstring::new::<BitsVar>(p, rate),
                    })
                },
                raw.seed,
                vec![pop.clone()],
            );
            let bits = |v: &[Vec<bool>]| -> Vec<Vec<i64>> {
                v.iter().map(|s| s.iter().map(|&b| b as i64).collect()).collect()
            };
            let p2 = if raw.c == "BitFlipMutation" { 0 } else { pclass(raw.p) };
            (
                act_json(raw, pclass(raw.rate), p2, grid(&bits(&pop)), empty()),
                res_json(o.k, grid(&bits(&o.top)), empty(), o.h, empty(), empty()),
            )
        }
        "ScrambleMutation" | "SwapMutation" | "InversionMutation" | "InsertionMutation"
        | "TranslocationMutation" => {
            let problem = PermVar { dim: d };
            let pop: Vec<Vec<usize>> = (0..n).map(|_| random_perm(&mut r, d)).collect();
            let (c, rate, np) = (raw.c.clone(), raw.rate, raw.np);
            let o = run_comp(
                &problem,
                move || match c.as_str() {
                    "ScrambleMutation" => Ok(mc::ScrambleMutation::new::<PermVar>(rate)),
                    "SwapMutation" => mc::SwapMutation::new::<PermVar>(np as u32),
                    "InversionMutation" => Ok(mc::InversionMutation::new::<PermVar, ()>()),
                    "InsertionMutation" => Ok(mc::InsertionMutation::new::<PermVar>()),
                    _ => Ok(mc::TranslocationMutation::new::<PermVar>()),
                },
                raw.seed,
                vec![pop.clone()],
            );
            let pr = if raw.c == "ScrambleMutation" { pclass(raw.rate) } else { 0 };
            (
                act_json(raw, pr, 0, usgrid(&pop), empty()),
                res_json(o.k, usgrid(&o.top), empty(), o.h, empty(), empty()),
            )
        }
        "NPointCrossover" | "UniformCrossover" | "CycleCrossover" => {
            let problem = PermVar { dim: d };
            let pop: Vec<Vec<usize>> = if raw.c == "CycleCrossover" {
                (0..n).map(|_| random_perm(&mut r, d)).collect()
            } else {
                (1..=n).map(|j| (1..=d).map(|c| 10 * j + c).collect()).collect()
            };
            let (c, pc, np, both) = (raw.c.clone(), raw.rate, raw.np, raw.both);
            let o = run_comp(
                &problem,
                move || {
                    Ok(match c.as_str() {
                        "NPointCrossover" => rc::NPointCrossover::new::<PermVar, usize>(np as usize, pc, both),
                        "UniformCrossover" => rc::UniformCrossover::new::<PermVar, usize>(pc, both),
                        _ => rc::CycleCrossover::new::<PermVar, usize>(pc, both),
                    })
                },
                raw.seed,
                vec![pop.clone()],
            );
            (
                act_json(raw, pclass(raw.rate), 0, usgrid(&pop), empty()),
                res_json(o.k, usgrid(&o.top), empty(), o.h, empty(), empty()),
            )
        }
        "ArithmeticCrossover" => {
            let problem = RealVar { dim: d, lo: -4.0, hi: 12.0 };
            let pop = real_pop(&mut r, n, d);
            let (pc, both) = (raw.rate, raw.both);
            let o = run_comp(
                &problem,
                move || Ok(rc::ArithmeticCrossover::new::<RealVar>(pc, both)),
                raw.seed,
                vec![pop.clone()],
            );
            let same = |x: &[f64], y: &[f64]| {
                x.len() == y.len() && x.iter().zip(y).all(|(a, b)| a.to_bits() == b.to_bits())
            };
            let tag = |x: &[f64]| pop.iter().position(|p| same(p, x)).map(|j| j as i64 + 1).unwrap_or(0);
            let out: Vec<Vec<i64>> = o.top.iter().map(|x| vec![tag(x); x.len()]).collect();
            let pin: Vec<Vec<i64>> = (1..=n).map(|j| vec![j as i64; d]).collect();
            let npairs = n / 2;
            let mut pred = Vec::new();
            let mut pred2 = Vec::new();
            for (oi, x) in o.top.iter().enumerate() {
                let mut row = Vec::new();
                let mut row2 = Vec::new();
                for m in 0..npairs {
                    let (p1, p2) = (&pop[2 * m], &pop[2 * m + 1]);
                    let conv = x.len() == d
                        && (0..d).all(|c| {
                            let (lo, hi) = (p1[c].min(p2[c]), p1[c].max(p2[c]));
                            let tol = 1e-9 * lo.abs().max(hi.abs()).max(1.0);
                            lo - tol <= x[c] && x[c] <= hi + tol
                        });
                    let cons = match o.top.get(oi + 1) {
                        Some(y) if x.len() == d && y.len() == d => (0..d)
                            .all(|c| close(x[c] + y[c], p1[c] + p2[c], p1[c].abs().max(p2[c].abs()))),
                        _ => false,
                    };
                    row.push(conv as i64);
                    row2.push(cons as i64);
                }
                pred.push(row);
                pred2.push(row2);
            }
            (
                act_json(raw, pclass(raw.rate), 0, grid(&pin), empty()),
                res_json(o.k, grid(&out), empty(), o.h, grid(&pred), grid(&pred2)),
            )
        }
        "DEMutation" => {
            let problem = RealVar { dim: d, lo: -4.0, hi: 12.0 };
            let pop = real_pop(&mut r, n, d);
            let (y, f) = (raw.np, raw.strength);
            let o = run_comp(
                &problem,
                move || mde::DEMutation::new::<RealVar>(y as u32, f),
                raw.seed,
                vec![pop.clone()],
            );
            let size = (2 * y.max(0) + 1) as usize;
            let out: Vec<Vec<i64>> = o.top.iter().map(|x| vec![0; x.len()]).collect();
            let pred: Vec<Vec<i64>> = o
                .top
                .iter()
                .enumerate()
                .map(|(oi, x)| {
                    let ok = x.len() == d
                        && (oi + 1) * size <= pop.len()
                        && (0..d).all(|c| {
                            let chunk = &pop[oi * size..(oi + 1) * size];
                            let mut e = chunk[0][c];
                            let mut scale = e.abs();
                            for pair in chunk[1..].chunks(2) {
                                e += f * (pair[0][c] - pair[1][c]);
                                scale = scale.max(pair[0][c].abs()).max(pair[1][c].abs());
                            }
                            close(x[c], e, scale * 8.0)
                        });
                    vec![ok as i64]
                })
                .collect();
            let pin: Vec<Vec<i64>> = (1..=n).map(|j| vec![j as i64; d]).collect();
            (
                act_json(raw, 0, 0, grid(&pin), empty()),
                res_json(o.k, grid(&out), empty(), o.h, grid(&pred), empty()),
            )
        }
        "DEBinomialCrossover" | "DEExponentialCrossover" => {
            let problem = RealVar { dim: d, lo: -4.0, hi: 12.0 };
            let lab = |off: usize| -> Vec<Vec<f64>> {
                (1..=n).map(|j| (1..=d).map(|c| (100 * j + off + c) as f64).collect()).collect()
            };
            let (mutants, bases) = (lab(0), lab(50));
            let (c, pc) = (raw.c.clone(), raw.rate);
            let o = run_comp(
                &problem,
                move || {
                    Ok(match c.as_str() {
                        "DEBinomialCrossover" => rde::DEBinomialCrossover::new::<RealVar>(pc),
                        _ => rde::DEExponentialCrossover::new::<RealVar>(pc),
                    })
                },
                raw.seed,
                vec![bases.clone(), mutants.clone()],
            );
            let ig = |v: &[Vec<f64>]| -> Vec<Vec<i64>> {
                v.iter().map(|s| s.iter().map(|&x| as_int(x)).collect()).collect()
            };
            (
                act_json(raw, pclass(raw.rate), 0, grid(&ig(&mutants)), grid(&ig(&bases))),
                res_json(o.k, grid(&ig(&o.top)), grid(&ig(&o.below)), o.h, empty(), empty()),
            )
        }
        other => panic!("unknown component {other}"),
    }
}

// ------------------------------------------------------------------------------------ generation

fn gen_prob(r: &mut ChaCha8Rng, allow_invalid: bool) -> f64 {
    match r.gen_range(0..10) {
        0 | 1 => 0.0,
        2 | 3 => 1.0,
        4 if allow_invalid => {
            if r.gen_bool(0.5) {
                1.5
            } else {
                -0.25
            }
        }
        _ => r.gen_range(0.05..0.95),
    }
}

/// A random case for component `c`; `edge = Some(k)` asks for an NPointCrossover whose number of
/// points lies outside 1..dim-1 (0, dim, dim + 1 in turn).
fn gen_raw(c: &str, r: &mut ChaCha8Rng, edge: Option<usize>) -> Raw {
    let mut raw = Raw {
        c: c.to_string(),
        seed: r.gen::<u32>() as u64,
        n: r.gen_range(0..=5),
        dim: r.gen_range(2..=7),
        np: 0,
        rate: 0.0,
        p: 0.0,
        both: false,
        strength: 0.0,
    };
    match c {
        "NormalMutation" | "UniformMutation" | "PartialRandomSpread" => {
            raw.dim = r.gen_range(1..=6);
            raw.rate = gen_prob(r, true);
            raw.strength = *[0.125, 0.5, 2.0].choose(r).unwrap();
        }
        "BitFlipMutation" | "PartialRandomBitstring" => {
            raw.dim = r.gen_range(1..=8);
            raw.rate = gen_prob(r, true);
            raw.p = gen_prob(r, false);
        }
        "ScrambleMutation" => raw.rate = gen_prob(r, true),
        "SwapMutation" => raw.np = r.gen_range(0..=raw.dim as i64 + 1),
        "InversionMutation" | "InsertionMutation" | "TranslocationMutation" => {}
        "NPointCrossover" => {
            raw.both = r.gen_bool(0.5);
            if let Some(k) = edge {
                raw.np = [0, raw.dim as i64, raw.dim as i64 + 1][k % 3];
                raw.rate = 1.0;
                raw.n = r.gen_range(2..=5);
            } else {
                raw.np = r.gen_range(1..raw.dim as i64);
                raw.rate = gen_prob(r, false);
            }
        }
        "UniformCrossover" | "CycleCrossover" | "ArithmeticCrossover" => {
            raw.dim = r.gen_range(1..=7);
            raw.both = r.gen_bool(0.5);
            raw.rate = gen_prob(r, false);
        }
        "DEMutation" => {
            raw.dim = r.gen_range(1..=5);
            raw.np = *[1, 1, 1, 2, 2, 2, 0, 3].choose(r).unwrap();
            let size = (2 * raw.np + 1) as usize;
            raw.n = if r.gen_bool(0.7) { size * r.gen_range(0..=3) } else { r.gen_range(0..=11) };
            raw.strength = *[0.5, 1.0, 2.0].choose(r).unwrap();
        }
        "DEBinomialCrossover" | "DEExponentialCrossover" => {
            raw.dim = r.gen_range(1..=6);
            raw.rate = gen_prob(r, false);
        }
        other => panic!("unknown component {other}"),
    }
    raw
}

fn gen_fn(r: &mut ChaCha8Rng, maxlen: usize) -> Value {
    let op = *["circular_swap", "circular_swap2", "translocate_slice", "translocate_slice2", "multi_point",
               "uniform", "cycle"]
        .choose(r)
        .unwrap();
    let n = r.gen_range(2..=maxlen);
    let perm: Vec<usize> = random_perm(r, n);
    let mut act = json!({"op": op, "p": perm, "q": [], "ix": [], "a": 0, "b": 0, "i": 0});
    match op {
        "circular_swap" | "circular_swap2" => {
            let k = r.gen_range(2..=n);
            act["ix"] = json!(random_perm(r, n)[..k].to_vec());
        }
        "translocate_slice" | "translocate_slice2" => {
            let a = r.gen_range(0..n);
            let b = r.gen_range(a..=n);
            let i = r.gen_range(0..=(n - 1).min(n - (b - a)));
            act["a"] = json!(a);
            act["b"] = json!(b);
            act["i"] = json!(i);
        }
        "multi_point" => {
            let k = r.gen_range(1..n);
            act["p"] = json!((1..=n).map(|j| 100 + j).collect::<Vec<_>>());
            act["q"] = json!((1..=n).map(|j| 200 + j).collect::<Vec<_>>());
            act["ix"] = json!(random_perm(r, n)[..k].to_vec());
        }
        "uniform" => {
            act["p"] = json!((1..=n).map(|j| 100 + j).collect::<Vec<_>>());
            act["q"] = json!((1..=n).map(|j| 200 + j).collect::<Vec<_>>());
            act["ix"] = json!((0..n).map(|_| r.gen_range(0..=1)).collect::<Vec<i64>>());
        }
        _ => act["q"] = json!(random_perm(r, n)),
    }
    act
}

// ------------------------------------------------------------------------------------ main

fn reset(out: &mut Out, run: u64) {
    out.emit(&json!({"run": run, "i": 0, "kind": "reset"}));
}

/// Watchdog: cases are executed on a worker thread; a case that does not answer within the limit
/// is recorded with reply kind "timeout", the stuck thread is abandoned and a new one is started.
struct Worker {
    tx: mpsc::Sender<Value>,
    rx: mpsc::Receiver<Value>,
}

impl Worker {
    fn spawn() -> Self {
        let (tx, jobs) = mpsc::channel::<Value>();
        let (answers, rx) = mpsc::channel::<Value>();
        thread::spawn(move || {
            for job in jobs {
                let answer = if job.get("op").is_some() {
                    json!({"kind": "fn", "act": job, "res": exec_fn(&job)})
                } else {
                    let (act, res) = exec_comp(&Raw::from_json(&job));
                    json!({"kind": "comp", "act": act, "res": res, "raw": job})
                };
                if answers.send(answer).is_err() {
                    break;
                }
            }
        });
        Worker { tx, rx }
    }
}

struct Guarded {
    worker: Worker,
    limit: Duration,
    /// (run, number of timeouts in it): after three timeouts the rest of the run is not executed
    stuck: (u64, usize),
}

impl Guarded {
    fn new(limit_s: u64) -> Self {
        Guarded { worker: Worker::spawn(), limit: Duration::from_secs(limit_s), stuck: (0, 0) }
    }

    /// `job` is a helper call (has "op") or the raw description of a component case (has "c").
    fn emit(&mut self, out: &mut Out, run: u64, i: usize, job: &Value) {
        if self.stuck.0 != run {
            self.stuck = (run, 0);
        }
        if self.stuck.1 >= 3 {
            return;
        }
        self.worker.tx.send(job.clone()).expect("worker alive");
        let mut rec = match self.worker.rx.recv_timeout(self.limit) {
            Ok(v) => v,
            Err(_) => {
                self.stuck.1 += 1;
                self.worker = Worker::spawn();
                if job.get("op").is_some() {
                    json!({"kind": "fn", "act": job, "res": fn_res("timeout", vec![], vec![])})
                } else {
                    let raw = Raw::from_json(job);
                    let e = || json!([]);
                    json!({"kind": "comp", "act": act_json(&raw, pclass(raw.rate), 0, e(), e()),
                           "res": res_json("timeout", e(), e(), 0, e(), e()), "raw": job})
                }
            }
        };
        rec["run"] = json!(run);
        rec["i"] = json!(i);
        out.emit(&rec);
    }
}

pub fn main(args: &Args) -> usize {
    let mut out = Out::create(&args.str("out"));
    let mut g = Guarded::new(args.num("limit", 5));
    match args.mode.as_str() {
        "replay" => {
            for scen in read_ndjson(&args.str("in")) {
                let run = scen["run"].as_u64().unwrap();
                reset(&mut out, run);
                for (i, a) in scen["acts"].as_array().unwrap().iter().enumerate() {
                    g.emit(&mut out, run, i + 1, a);
                }
            }
        }
        "random" => {
            let seed = args.seed();
            let per = args.num("n", 100) as usize;
            let nfn = args.num("nfn", 500) as usize;
            let maxlen = args.num("maxlen", 10) as usize;
            let only = args.get("only").map(|s| s.to_string());
            let mut run = 0u64;
            for (ci, c) in COMPS.iter().enumerate() {
                if only.as_deref().map(|o| o != *c).unwrap_or(false) {
                    continue;
                }
                let mut r = rng(seed, 100 + ci as u64);
                reset(&mut out, run);
                for i in 0..per {
                    g.emit(&mut out, run, i + 1, &gen_raw(c, &mut r, None).to_json());
                }
                run += 1;
            }
            if only.is_none() {
                let mut r = rng(seed, 99);
                reset(&mut out, run);
                for i in 0..nfn {
                    g.emit(&mut out, run, i + 1, &gen_fn(&mut r, maxlen));
                }
            }
        }
        "edge" => {
            // NPointCrossover with a number of points outside 1..dim-1: one run per case
            let mut r = rng(args.seed(), 98);
            for run in 0..args.num("n", 6) {
                reset(&mut out, run);
                g.emit(&mut out, run, 1, &gen_raw("NPointCrossover", &mut r, Some(run as usize)).to_json());
            }
        }
        other => panic!("unknown mode {other}"),
    }
    out.finish()
}
