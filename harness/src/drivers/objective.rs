//! Driver for spec module `Objective` (C09): executes the public API of `SingleObjective` /
//! `MultiObjective` and records one event per call: arguments, reply, set of values obtained.
//!
//! Floats never reach the spec.  Two projections of f64 onto the abstract carrier
//! `{NAN, NEGINF} ∪ integers ∪ {POSINF}`:
//!  * mode `exact` (replay of TLC scenarios): the finite code k is the float `k as f64`;
//!  * mode `rank` (seeded float grid + random bit patterns): the finite code is the dense rank of
//!    the float among all finite floats of the run (numeric order, -0.0 == +0.0), resolved when
//!    the run is complete.  Arithmetic is additionally logged by class
//!    (`nan | neginf | neg | zero | pos | posinf`);
//!  * mode `sci` (operands of extreme magnitude): the finite code is the position of the float on
//!    the lattice of floats with at most 9 significant bits over the whole exponent range of f64,
//!    `2^e (1 + f / 256)  ->  (e + 1074) * 256 + f + 1` (negated for negative values, 0 for both
//!    zeros): an exact, order-preserving integer name of the float from which the spec recovers
//!    exponent and significand and computes every sum, product and quotient itself.  A finite
//!    result with more significant bits has no code and is logged as reply `off` with its sign.
use std::cmp::Ordering;

use mahf::{problems::objective::IllegalObjective, MultiObjective, SingleObjective};
use rand::{seq::SliceRandom, Rng};
use rand_chacha::ChaCha8Rng;
use serde_json::{json, Value};

use crate::util::{caught, read_ndjson, rng, Args, Out};

const NAN: i64 = 2_000_000;
const POSINF: i64 = 1_000_000;
const NEGINF: i64 = -1_000_000;
const NOVAL: i64 = 3_000_000;
/// a finite float that is not a small integer in mode `exact` (never a value of the spec)
const NONINT: i64 = 2_500_000;
const NOC: &str = "-";

fn class_of(x: f64) -> &'static str {
    if x.is_nan() {
        "nan"
    } else if x == f64::NEG_INFINITY {
        "neginf"
    } else if x == f64::INFINITY {
        "posinf"
    } else if x < 0.0 {
        "neg"
    } else if x == 0.0 {
        "zero"
    } else {
        "pos"
    }
}

fn f64_of(code: i64) -> f64 {
    match code {
        NAN => f64::NAN,
        POSINF => f64::INFINITY,
        NEGINF => f64::NEG_INFINITY,
        k => k as f64,
    }
}

fn special_code(x: f64) -> Option<i64> {
    if x.is_nan() {
        Some(NAN)
    } else if x == f64::INFINITY {
        Some(POSINF)
    } else if x == f64::NEG_INFINITY {
        Some(NEGINF)
    } else {
        None
    }
}

fn exact_code(x: f64) -> i64 {
    special_code(x).unwrap_or_else(|| if x.fract() == 0.0 && x.abs() < 900_000.0 { x as i64 } else { NONINT })
}

/// Fraction bits of the lattice of mode `sci`.
const LAT_P: u32 = 8;

/// Lattice code of a finite float (`None`: more than `LAT_P + 1` significant bits).
fn lat_code(x: f64) -> Option<i64> {
    if x == 0.0 {
        return Some(0);
    }
    let bits = x.abs().to_bits();
    let (expf, mant) = ((bits >> 52) as i64, bits & ((1u64 << 52) - 1));
    // x = sig * 2^k
    let (mut sig, mut k) = if expf == 0 { (mant, -1074i64) } else { (mant | (1u64 << 52), expf - 1075) };
    let tz = sig.trailing_zeros();
    sig >>= tz;
    k += tz as i64;
    let bl = 64 - sig.leading_zeros();
    if bl > LAT_P + 1 {
        return None;
    }
    let e = k + bl as i64 - 1;
    let f = ((sig << (LAT_P + 1 - bl)) - (1u64 << LAT_P)) as i64;
    let c = (e + 1074) * (1i64 << LAT_P) + f + 1;
    Some(if x < 0.0 { -c } else { c })
}

/// The float a lattice code stands for (built from its bits, no arithmetic involved).
fn lat_float(c: i64) -> f64 {
    if c == 0 {
        return 0.0;
    }
    let m = c.abs() - 1;
    let (e, f) = (m / (1i64 << LAT_P) - 1074, (m % (1i64 << LAT_P)) as u64);
    let bits = if e >= -1022 {
        (((e + 1023) as u64) << 52) | (f << (52 - LAT_P))
    } else {
        // subnormal: (256 + f) * 2^(e - 8) = n * 2^-1074
        let sig = (1u64 << LAT_P) + f;
        let sh = e - LAT_P as i64 + 1074;
        if sh >= 0 {
            sig << sh
        } else {
            assert!(sig.trailing_zeros() as i64 >= -sh, "lattice code {c} is not a float");
            sig >> (-sh)
        }
    };
    let x = f64::from_bits(bits);
    if c < 0 {
        -x
    } else {
        x
    }
}

fn sci_code(x: f64) -> i64 {
    special_code(x).unwrap_or_else(|| lat_code(x).unwrap_or(NONINT))
}

#[derive(Clone, Copy, PartialEq)]
enum Mode {
    Exact,
    Rank,
    Sci,
}

/// One run: the pool of objective values obtained so far and the buffered events.
struct Run {
    mode: Mode,
    pool: Vec<SingleObjective>,
    /// every legal value obtained so far (the spec's `vals`; the operand pool is a subset)
    owned: Vec<f64>,
    floats: Vec<f64>,
    events: Vec<Value>,
    run: u64,
}

impl Run {
    fn new(run: u64, mode: Mode) -> Self {
        let mut r = Self { mode, pool: Vec::new(), owned: Vec::new(), floats: Vec::new(), events: Vec::new(), run };
        let mode = match mode {
            Mode::Exact => "exact",
            Mode::Rank => "rank",
            Mode::Sci => "sci",
        };
        r.events.push(json!({"run": run, "i": -1, "act": act("reset", mode, json!(NOVAL), json!(NOVAL), NOC, NOC, json!([]), json!([])),
                             "res": res("ok", json!(NOVAL), NOC, json!([])), "vals": []}));
        r
    }

    /// abstract code of a float (placeholder in rank mode)
    fn enc(&mut self, x: f64) -> Value {
        match self.mode {
            Mode::Rank => match special_code(x) {
                Some(c) => json!(c),
                None => {
                    self.floats.push(x);
                    json!({ "$f": x.to_bits().to_string() })
                }
            },
            Mode::Exact => json!(exact_code(x)),
            Mode::Sci => json!(sci_code(x)),
        }
    }

    /// abstract code of a float, fixed (modes `exact` and `sci`)
    fn code(&self, x: f64) -> i64 {
        if self.mode == Mode::Sci {
            sci_code(x)
        } else {
            exact_code(x)
        }
    }

    /// the float an input code of a TLC scenario stands for
    fn float_of(&self, code: i64) -> f64 {
        match (self.mode, code) {
            (Mode::Sci, c) if c.abs() < POSINF => lat_float(c),
            (_, c) => f64_of(c),
        }
    }

    /// a finite result the carrier of mode `sci` has no code for
    fn off_lattice(&self, x: f64) -> bool {
        self.mode == Mode::Sci && x.is_finite() && lat_code(x).is_none()
    }

    fn enc_list(&mut self, xs: &[f64]) -> Value {
        Value::Array(xs.iter().map(|x| self.enc(*x)).collect())
    }

    fn keep(&mut self, o: SingleObjective) {
        // only values the abstract object owns are used as operands later; the record of the
        // call that produced an illegal value is emitted all the same and judged by TLC
        let v = o.value();
        if !v.is_nan() && v != f64::NEG_INFINITY && !self.off_lattice(v) {
            self.pool.push(o);
            if !self.owned.iter().any(|w| *w == v) {
                self.owned.push(v);
            }
        }
    }

    fn emit(&mut self, a: Value, r: Value) {
        let vals = self.owned.clone();
        let vals = self.enc_list(&vals);
        let i = self.events.len() - 1;
        self.events.push(json!({"run": self.run, "i": i, "act": a, "res": r, "vals": vals}));
    }

    /// resolve placeholders (rank mode), normalise `vals` to a sorted duplicate-free list
    fn flush(mut self, out: &mut Out) {
        let mut sorted: Vec<f64> = std::mem::take(&mut self.floats);
        sorted.sort_by(|a, b| a.total_cmp(b));
        sorted.dedup_by(|a, b| a == b);
        let resolve_f = |bits: &str| -> i64 {
            let x = f64::from_bits(bits.parse::<u64>().unwrap());
            sorted.binary_search_by(|p| p.partial_cmp(&x).unwrap()).expect("ranked float") as i64
        };
        fn walk(v: &mut Value, f: &dyn Fn(&str) -> i64) {
            match v {
                Value::Object(m) => {
                    if let Some(Value::String(s)) = m.get("$f") {
                        *v = json!(f(s));
                        return;
                    }
                    for (_, x) in m.iter_mut() {
                        walk(x, f);
                    }
                }
                Value::Array(a) => a.iter_mut().for_each(|x| walk(x, f)),
                _ => {}
            }
        }
        for mut e in self.events {
            walk(&mut e, &resolve_f);
            let mut vals: Vec<i64> = e["vals"].as_array().unwrap().iter().map(|x| x.as_i64().unwrap()).collect();
            vals.sort();
            vals.dedup();
            e["vals"] = json!(vals);
            out.emit(&e);
        }
    }

    fn find(&self, code: i64) -> Option<SingleObjective> {
        self.pool.iter().rev().find(|o| self.code(o.value()) == code).copied()
    }
}

fn act(op: &str, f: &str, a: Value, b: Value, ca: &str, cb: &str, xs: Value, ys: Value) -> Value {
    json!({"op": op, "f": f, "a": a, "b": b, "ca": ca, "cb": cb, "xs": xs, "ys": ys})
}

fn res(k: &str, v: Value, c: &str, s: Value) -> Value {
    json!({"k": k, "v": v, "c": c, "s": s})
}

fn ord_code(o: Ordering) -> i64 {
    match o {
        Ordering::Less => -1,
        Ordering::Equal => 0,
        Ordering::Greater => 1,
    }
}

fn b(x: bool) -> Value {
    json!(x as i64)
}

// ------------------------------------------------------------------------------------------------
// the calls

fn do_try_from(r: &mut Run, x: f64) {
    let a = act("try_from", "-", r.enc(x), json!(NOVAL), class_of(x), NOC, json!([]), json!([]));
    let reply = match SingleObjective::try_from(x) {
        Ok(o) => {
            r.keep(o);
            res("ok", r.enc(o.value()), class_of(o.value()), json!([]))
        }
        Err(IllegalObjective::NaN) => res("err_nan", json!(NOVAL), NOC, json!([])),
        Err(IllegalObjective::NegativeInfinity) => res("err_neginf", json!(NOVAL), NOC, json!([])),
    };
    r.emit(a, reply);
}

fn do_const(r: &mut Run, which: &str) {
    let o = if which == "infinity" { SingleObjective::INFINITY } else { SingleObjective::default() };
    r.keep(o);
    let reply = res("ok", r.enc(o.value()), class_of(o.value()), json!([]));
    r.emit(act(which, "-", json!(NOVAL), json!(NOVAL), NOC, NOC, json!([]), json!([])), reply);
}

/// neg / add / sub on objectives; mul / div by a raw f64 scalar
fn do_arith(r: &mut Run, op: &str, x: SingleObjective, y: Option<SingleObjective>, s: f64) {
    let (bv, cb) = match op {
        "neg" => (json!(NOVAL), NOC),
        "add" | "sub" => (r.enc(y.unwrap().value()), class_of(y.unwrap().value())),
        _ => (r.enc(s), class_of(s)),
    };
    let a = act(op, "-", r.enc(x.value()), bv, class_of(x.value()), cb, json!([]), json!([]));
    let out = caught(|| match op {
        "neg" => -x,
        "add" => x + y.unwrap(),
        "sub" => x - y.unwrap(),
        "mul" => x * s,
        "div" => x / s,
        other => panic!("unknown arithmetic op {other}"),
    });
    let reply = match out {
        Ok(o) if r.off_lattice(o.value()) => res("off", json!(NOVAL), class_of(o.value()), json!([])),
        Ok(o) => {
            r.keep(o);
            res("val", r.enc(o.value()), class_of(o.value()), json!([]))
        }
        // an operator that refuses to produce an illegal value
        Err(_) => res("illegal", json!(NOVAL), NOC, json!([])),
    };
    r.emit(a, reply);
}

fn do_cmp(r: &mut Run, f: &str, x: SingleObjective, y: SingleObjective) {
    let a = act("cmp", f, r.enc(x.value()), r.enc(y.value()), NOC, NOC, json!([]), json!([]));
    let reply = match f {
        "cmp" => match caught(|| x.cmp(&y)) {
            Ok(o) => res("ord", json!(ord_code(o)), NOC, json!([])),
            Err(_) => res("panic", json!(NOVAL), NOC, json!([])),
        },
        "partial_cmp" => res("ord", json!(x.partial_cmp(&y).map(ord_code).unwrap_or(2)), NOC, json!([])),
        "lt" => res("bool", b(x < y), NOC, json!([])),
        "le" => res("bool", b(x <= y), NOC, json!([])),
        "gt" => res("bool", b(x > y), NOC, json!([])),
        "ge" => res("bool", b(x >= y), NOC, json!([])),
        "eq" => res("bool", b(x == y), NOC, json!([])),
        "ne" => res("bool", b(x != y), NOC, json!([])),
        other => panic!("unknown comparison form {other}"),
    };
    r.emit(a, reply);
}

fn do_minmax(r: &mut Run, op: &str, x: SingleObjective, y: SingleObjective) {
    let a = act(op, "-", r.enc(x.value()), r.enc(y.value()), NOC, NOC, json!([]), json!([]));
    let reply = match caught(|| if op == "min" { Ord::min(x, y) } else { Ord::max(x, y) }) {
        Ok(o) => res("val", r.enc(o.value()), NOC, json!([])),
        Err(_) => res("panic", json!(NOVAL), NOC, json!([])),
    };
    r.emit(a, reply);
}

fn do_unary(r: &mut Run, op: &str, f: &str, x: SingleObjective) {
    let a = act(op, f, r.enc(x.value()), json!(NOVAL), NOC, NOC, json!([]), json!([]));
    let reply = match (op, f) {
        ("is_finite", _) => res("bool", b(x.is_finite()), NOC, json!([])),
        ("value", "value") => res("val", r.enc(x.value()), NOC, json!([])),
        ("value", _) => res("val", r.enc(f64::from(x)), NOC, json!([])),
        other => panic!("unknown unary {other:?}"),
    };
    r.emit(a, reply);
}

fn do_list(r: &mut Run, op: &str, xs: &[SingleObjective]) {
    let fl: Vec<f64> = xs.iter().map(|o| o.value()).collect();
    let a = act(op, "-", json!(NOVAL), json!(NOVAL), NOC, NOC, r.enc_list(&fl), json!([]));
    let reply = match op {
        "sort" => {
            let mut v = xs.to_vec();
            match caught(move || {
                v.sort();
                v
            }) {
                Ok(v) => {
                    let fl: Vec<f64> = v.iter().map(|o| o.value()).collect();
                    res("list", json!(NOVAL), NOC, r.enc_list(&fl))
                }
                Err(_) => res("panic", json!(NOVAL), NOC, json!([])),
            }
        }
        "list_min" | "list_max" => {
            match caught(|| if op == "list_min" { xs.iter().min().copied() } else { xs.iter().max().copied() }) {
                Ok(Some(o)) => res("val", r.enc(o.value()), NOC, json!([])),
                Ok(None) => res("none", json!(NOVAL), NOC, json!([])),
                Err(_) => res("panic", json!(NOVAL), NOC, json!([])),
            }
        }
        other => panic!("unknown list op {other}"),
    };
    r.emit(a, reply);
}

/// `Vec::dedup` (PartialEq) on the list as given (`raw`) or after `Vec::sort` (`sorted`)
fn do_dedup(r: &mut Run, f: &str, xs: &[SingleObjective]) {
    let fl: Vec<f64> = xs.iter().map(|o| o.value()).collect();
    let a = act("dedup", f, json!(NOVAL), json!(NOVAL), NOC, NOC, r.enc_list(&fl), json!([]));
    let mut v = xs.to_vec();
    let sorted = f == "sorted";
    let reply = match caught(move || {
        if sorted {
            v.sort();
        }
        v.dedup();
        v
    }) {
        Ok(v) => {
            let fl: Vec<f64> = v.iter().map(|o| o.value()).collect();
            res("list", json!(NOVAL), NOC, r.enc_list(&fl))
        }
        Err(_) => res("panic", json!(NOVAL), NOC, json!([])),
    };
    r.emit(a, reply);
}

/// `contains` / `position` (PartialEq) and `binary_search` (Ord) of `x` in `xs`.  The list handed
/// to `binary_search` is sorted by the harness on the raw floats (its contract), not by the code
/// under test.  Indices are logged 1-based.
fn do_search(r: &mut Run, op: &str, xs: &[SingleObjective], x: SingleObjective) {
    let mut xs = xs.to_vec();
    if op == "bsearch" {
        xs.sort_by(|p, q| p.value().partial_cmp(&q.value()).expect("legal objective values"));
    }
    let fl: Vec<f64> = xs.iter().map(|o| o.value()).collect();
    let a = act(op, "-", r.enc(x.value()), json!(NOVAL), NOC, NOC, r.enc_list(&fl), json!([]));
    let reply = match op {
        "contains" => match caught(|| xs.contains(&x)) {
            Ok(found) => res("bool", b(found), NOC, json!([])),
            Err(_) => res("panic", json!(NOVAL), NOC, json!([])),
        },
        "position" => match caught(|| xs.iter().position(|o| *o == x)) {
            Ok(Some(i)) => res("idx", json!(i as i64 + 1), NOC, json!([])),
            Ok(None) => res("none", json!(NOVAL), NOC, json!([])),
            Err(_) => res("panic", json!(NOVAL), NOC, json!([])),
        },
        "bsearch" => match caught(|| xs.binary_search(&x)) {
            Ok(Ok(i)) => res("found", r.enc(xs[i].value()), NOC, json!([])),
            Ok(Err(i)) => res("insert", json!(i as i64), NOC, json!([])),
            Err(_) => res("panic", json!(NOVAL), NOC, json!([])),
        },
        other => panic!("unknown search op {other}"),
    };
    r.emit(a, reply);
}

fn do_m_try_from(r: &mut Run, f: &str, xs: &[f64]) {
    let a = act("m_try_from", f, json!(NOVAL), json!(NOVAL), NOC, NOC, r.enc_list(xs), json!([]));
    let m = if f == "vec" { MultiObjective::try_from(xs.to_vec()) } else { MultiObjective::try_from(xs) };
    let reply = match m {
        Ok(m) => {
            let back: Vec<f64> = if f == "vec" { Vec::<f64>::from(m.clone()) } else { m.value().to_vec() };
            res("ok", json!(NOVAL), NOC, r.enc_list(&back))
        }
        Err(IllegalObjective::NaN) => res("err_nan", json!(NOVAL), NOC, json!([])),
        Err(IllegalObjective::NegativeInfinity) => res("err_neginf", json!(NOVAL), NOC, json!([])),
    };
    r.emit(a, reply);
}

fn do_m_cmp(r: &mut Run, f: &str, u: &[f64], v: &[f64]) {
    let a = act("m_cmp", f, json!(NOVAL), json!(NOVAL), NOC, NOC, r.enc_list(u), r.enc_list(v));
    let (mu, mv) = match (MultiObjective::try_from(u), MultiObjective::try_from(v.to_vec())) {
        (Ok(x), Ok(y)) => (x, y),
        _ => {
            r.emit(a, res("unconstructible", json!(NOVAL), NOC, json!([])));
            return;
        }
    };
    let reply = match f {
        "partial_cmp" => res("ord", json!(mu.partial_cmp(&mv).map(ord_code).unwrap_or(2)), NOC, json!([])),
        "eq" => res("bool", b(mu == mv), NOC, json!([])),
        "ne" => res("bool", b(mu != mv), NOC, json!([])),
        "lt" => res("bool", b(mu < mv), NOC, json!([])),
        "le" => res("bool", b(mu <= mv), NOC, json!([])),
        "gt" => res("bool", b(mu > mv), NOC, json!([])),
        "ge" => res("bool", b(mu >= mv), NOC, json!([])),
        other => panic!("unknown comparison form {other}"),
    };
    r.emit(a, reply);
}

fn do_m_is_finite(r: &mut Run, u: &[f64]) {
    let a = act("m_is_finite", "-", json!(NOVAL), json!(NOVAL), NOC, NOC, r.enc_list(u), json!([]));
    let reply = match MultiObjective::try_from(u) {
        Ok(m) => res("bool", b(m.is_finite()), NOC, json!([])),
        Err(_) => res("unconstructible", json!(NOVAL), NOC, json!([])),
    };
    r.emit(a, reply);
}

// ------------------------------------------------------------------------------------------------
// replay of TLC scenarios (mode exact)

fn codes(v: &Value) -> Vec<i64> {
    v.as_array().unwrap().iter().map(|x| x.as_i64().unwrap()).collect()
}

fn replay_act(r: &mut Run, a: &Value) {
    let op = a["op"].as_str().unwrap();
    let f = a["f"].as_str().unwrap();
    let ca = a["a"].as_i64().unwrap();
    let cb = a["b"].as_i64().unwrap();
    let missing = |r: &mut Run| r.emit(a.clone(), res("no_operand", json!(NOVAL), NOC, json!([])));
    match op {
        "try_from" => do_try_from(r, r.float_of(ca)),
        "infinity" | "default" => do_const(r, op),
        "neg" => match r.find(ca) {
            Some(x) => do_arith(r, op, x, None, 0.0),
            None => missing(r),
        },
        "add" | "sub" => match (r.find(ca), r.find(cb)) {
            (Some(x), Some(y)) => do_arith(r, op, x, Some(y), 0.0),
            _ => missing(r),
        },
        "mul" | "div" => match r.find(ca) {
            Some(x) => do_arith(r, op, x, None, r.float_of(cb)),
            None => missing(r),
        },
        "cmp" => match (r.find(ca), r.find(cb)) {
            (Some(x), Some(y)) => do_cmp(r, f, x, y),
            _ => missing(r),
        },
        "min" | "max" => match (r.find(ca), r.find(cb)) {
            (Some(x), Some(y)) => do_minmax(r, op, x, y),
            _ => missing(r),
        },
        "is_finite" | "value" => match r.find(ca) {
            Some(x) => do_unary(r, op, f, x),
            None => missing(r),
        },
        "sort" | "list_min" | "list_max" => {
            let xs: Option<Vec<SingleObjective>> = codes(&a["xs"]).into_iter().map(|c| r.find(c)).collect();
            match xs {
                Some(xs) => do_list(r, op, &xs),
                None => missing(r),
            }
        }
        "dedup" => {
            let xs: Option<Vec<SingleObjective>> = codes(&a["xs"]).into_iter().map(|c| r.find(c)).collect();
            match xs {
                Some(xs) => do_dedup(r, f, &xs),
                None => missing(r),
            }
        }
        "contains" | "position" | "bsearch" => {
            let xs: Option<Vec<SingleObjective>> = codes(&a["xs"]).into_iter().map(|c| r.find(c)).collect();
            match (xs, r.find(ca)) {
                (Some(xs), Some(x)) => do_search(r, op, &xs, x),
                _ => missing(r),
            }
        }
        "m_try_from" => {
            let xs: Vec<f64> = codes(&a["xs"]).into_iter().map(f64_of).collect();
            do_m_try_from(r, f, &xs)
        }
        "m_cmp" => {
            let u: Vec<f64> = codes(&a["xs"]).into_iter().map(f64_of).collect();
            let v: Vec<f64> = codes(&a["ys"]).into_iter().map(f64_of).collect();
            do_m_cmp(r, f, &u, &v)
        }
        "m_is_finite" => {
            let u: Vec<f64> = codes(&a["xs"]).into_iter().map(f64_of).collect();
            do_m_is_finite(r, &u)
        }
        other => panic!("unknown op {other}"),
    }
}

// ------------------------------------------------------------------------------------------------
// float grid + random bit patterns (mode rank)

const CMP_FORMS: [&str; 8] = ["cmp", "partial_cmp", "lt", "le", "gt", "ge", "eq", "ne"];
const MCMP_FORMS: [&str; 7] = ["partial_cmp", "eq", "ne", "lt", "le", "gt", "ge"];

fn grid() -> Vec<f64> {
    let mut g = vec![
        0.0,
        -0.0,
        f64::from_bits(1),
        -f64::from_bits(1),
        f64::from_bits(0x000f_ffff_ffff_ffff),
        f64::MIN_POSITIVE,
        -f64::MIN_POSITIVE,
        f64::EPSILON,
        -f64::EPSILON,
        0.5,
        -0.5,
        1.0,
        -1.0,
        1.0 + f64::EPSILON,
        1.5,
        -1.5,
        2.0,
        -2.0,
        3.0,
        1e300,
        -1e300,
        f64::MAX,
        -f64::MAX,
        f64::MAX / 2.0,
        -f64::MAX / 2.0,
        f64::INFINITY,
        f64::NEG_INFINITY,
        f64::NAN,
        -f64::NAN,
        f64::from_bits(0x7ff0_0000_0000_0001), // signalling NaN
        f64::from_bits(0xfff0_0000_0000_0001),
        f64::from_bits(0x7ff8_0000_dead_beef),
        f64::from_bits(0xffff_ffff_ffff_ffff),
    ];
    g.dedup_by(|a, b| a.to_bits() == b.to_bits());
    g
}

fn random_float(rng: &mut ChaCha8Rng) -> f64 {
    match rng.gen_range(0..10) {
        0..=4 => f64::from_bits(rng.gen::<u64>()),
        5..=6 => (rng.gen_range(-8i64..=8)) as f64,
        7 => rng.gen_range(-4.0..4.0),
        _ => *grid().choose(rng).unwrap(),
    }
}

/// Run 0: one representative (several, at the extremes) of every operand class, every operator,
/// every combination — so the set of (operator, operand classes) whose raw IEEE result is
/// illegal is hit deterministically, independent of the seed.
fn systematic(r: &mut Run) {
    let objs = [-f64::MAX, -1.0, -f64::MIN_POSITIVE, -0.0, 0.0, f64::MIN_POSITIVE, 1.0, f64::MAX, f64::INFINITY];
    let scalars = [
        f64::NAN,
        f64::NEG_INFINITY,
        -f64::MAX,
        -2.0,
        -f64::MIN_POSITIVE,
        -0.0,
        0.0,
        f64::MIN_POSITIVE,
        2.0,
        f64::MAX,
        f64::INFINITY,
    ];
    for x in objs {
        do_try_from(r, x);
    }
    let base: Vec<SingleObjective> = r.pool.clone();
    for &x in &base {
        do_arith(r, "neg", x, None, 0.0);
        for &y in &base {
            do_arith(r, "add", x, Some(y), 0.0);
            do_arith(r, "sub", x, Some(y), 0.0);
        }
        for &s in &scalars {
            do_arith(r, "mul", x, None, s);
            do_arith(r, "div", x, None, s);
        }
        r.pool.truncate(base.len()); // the results were recorded; keep the operand pool small
    }
}

fn random_run(r: &mut Run, rng: &mut ChaCha8Rng, size: usize) {
    let g = grid();
    // construction
    let mut inputs: Vec<f64> = Vec::new();
    for _ in 0..size {
        inputs.push(if rng.gen_bool(0.5) { *g.choose(rng).unwrap() } else { random_float(rng) });
        // now and then also a float 1 or 2 representable steps away from the one just taken
        if rng.gen_bool(0.3) {
            let d = *[-2, -1, 1, 2].choose(rng).unwrap();
            let x = *inputs.last().unwrap();
            if !x.is_nan() {
                inputs.extend(ulps(x, d));
            }
        }
    }
    for &x in &inputs {
        do_try_from(r, x);
    }
    do_const(r, if rng.gen_bool(0.5) { "infinity" } else { "default" });
    // arithmetic on constructed values; legal results join the pool and are compared below
    let base: Vec<SingleObjective> = r.pool.clone();
    if !base.is_empty() {
        for _ in 0..(3 * size) {
            let x = *base.choose(rng).unwrap();
            let y = *base.choose(rng).unwrap();
            let s = if rng.gen_bool(0.6) { *g.choose(rng).unwrap() } else { random_float(rng) };
            let op = *["neg", "add", "sub", "mul", "div"].choose(rng).unwrap();
            do_arith(r, op, x, Some(y), s);
        }
    }
    if r.pool.len() > 2 * size + 4 {
        // keep the number of pairs bounded: a random subset, constructed values first
        let mut extra: Vec<SingleObjective> = r.pool.split_off(base.len());
        extra.shuffle(rng);
        extra.truncate(size + 4);
        r.pool.extend(extra);
    }
    let pool: Vec<SingleObjective> = r.pool.clone();
    // all pairs compared: `cmp` always, two more forms at random
    for &x in &pool {
        for &y in &pool {
            do_cmp(r, "cmp", x, y);
            for _ in 0..2 {
                do_cmp(r, CMP_FORMS.choose(rng).unwrap(), x, y);
            }
        }
        do_unary(r, "is_finite", "-", x);
        do_unary(r, "value", if rng.gen_bool(0.5) { "value" } else { "into_f64" }, x);
    }
    for _ in 0..(2 * size) {
        if pool.is_empty() {
            break;
        }
        let x = *pool.choose(rng).unwrap();
        let y = *pool.choose(rng).unwrap();
        do_minmax(r, if rng.gen_bool(0.5) { "min" } else { "max" }, x, y);
    }
    // sort / min / max of lists (the whole pool, random sublists with repetitions, the empty list)
    let mut all = pool.clone();
    all.shuffle(rng);
    for op in ["sort", "list_min", "list_max"] {
        do_list(r, op, &all);
        do_list(r, op, &[]);
    }
    for _ in 0..size {
        let n = rng.gen_range(0..=pool.len().min(8));
        let xs: Vec<SingleObjective> = (0..n).map(|_| *pool.choose(rng).unwrap()).collect();
        do_list(r, ["sort", "list_min", "list_max"].choose(rng).unwrap(), &xs);
        do_dedup(r, if rng.gen_bool(0.5) { "raw" } else { "sorted" }, &xs);
        if let Some(&x) = pool.choose(rng) {
            do_search(r, ["contains", "position", "bsearch"].choose(rng).unwrap(), &xs, x);
        }
    }
    do_dedup(r, "sorted", &all);
    // multi-objective: vectors up to length 3 over a small value set (so that ties, domination and
    // trade-offs all occur), plus illegal components
    let mut dom: Vec<f64> = vec![0.0, -0.0, 1.0, f64::INFINITY];
    for _ in 0..3 {
        dom.push(*inputs.choose(rng).unwrap_or(&2.0));
    }
    let mut vecs: Vec<Vec<f64>> = vec![vec![]];
    for _ in 0..(size + 4) {
        let n = rng.gen_range(0..=3);
        vecs.push((0..n).map(|_| *dom.choose(rng).unwrap()).collect());
    }
    let mut legal: Vec<Vec<f64>> = Vec::new();
    for v in &vecs {
        do_m_try_from(r, if rng.gen_bool(0.5) { "vec" } else { "slice" }, v);
        if v.iter().all(|x| !x.is_nan() && *x != f64::NEG_INFINITY) {
            legal.push(v.clone());
        }
    }
    for _ in 0..4 {
        let n = rng.gen_range(1..=3);
        let mut v: Vec<f64> = (0..n).map(|_| *dom.choose(rng).unwrap()).collect();
        let at = rng.gen_range(0..n);
        v[at] = *[f64::NAN, f64::NEG_INFINITY, -f64::NAN, f64::from_bits(0x7ff0_0000_0000_0001)].choose(rng).unwrap();
        do_m_try_from(r, if rng.gen_bool(0.5) { "vec" } else { "slice" }, &v);
    }
    for u in &legal {
        do_m_is_finite(r, u);
        for v in &legal {
            do_m_cmp(r, "partial_cmp", u, v);
            do_m_cmp(r, MCMP_FORMS.choose(rng).unwrap(), u, v);
        }
    }
}

// ------------------------------------------------------------------------------------------------
// adjacent floats (mode rank): clusters of values 1 and 2 representable steps apart

/// Position of a float on the line of all floats (-0.0 and +0.0 share position 0).
fn key(x: f64) -> i64 {
    let bits = x.to_bits();
    let mag = (bits & 0x7fff_ffff_ffff_ffff) as i64;
    if bits >> 63 == 0 {
        mag
    } else {
        -mag
    }
}

fn from_key(k: i64) -> f64 {
    if k >= 0 {
        f64::from_bits(k as u64)
    } else {
        -f64::from_bits(k.unsigned_abs())
    }
}

/// The float `d` representable steps above (`d < 0`: below) `x`; `None` beyond the infinities.
fn ulps(x: f64, d: i64) -> Option<f64> {
    let y = from_key(key(x).checked_add(d)?);
    if y.is_nan() {
        None
    } else {
        Some(y)
    }
}

/// Magnitudes around which neighbours are taken: zero, subnormals, the subnormal/normal border,
/// tiny and huge normal values, several binades, binade borders (powers of two: the spacing
/// changes there), around 1.0, the largest float.
fn neighbour_bases() -> Vec<f64> {
    vec![
        0.0,
        f64::from_bits(0x0008_0000_0000_0000), // a subnormal
        f64::MIN_POSITIVE,
        1e-300,
        f64::EPSILON,
        0.1,
        0.5,
        1.0,
        1.5,
        2.0,
        3.0,
        7.25,
        123456.789,
        1e10,
        4503599627370496.0, // 2^52
        9007199254740992.0, // 2^53
        1e300,
        f64::MAX,
    ]
}

/// One run around magnitude `m`: the values m, m +- 1 step, m +- 2 steps and their negatives.
/// Every ordered pair is compared (all eight forms within a sign, `cmp` / `eq` / one more across),
/// and everything that rests on equality and order is asked about the whole cluster: min / max,
/// sort, dedup, contains / position / binary search with and without the value being present,
/// Pareto comparison of vectors whose components are neighbours.
fn neighbour_run(r: &mut Run, rng: &mut ChaCha8Rng, m: f64, negative_vectors: bool) {
    let mut inputs: Vec<f64> = vec![m, -m];
    for d in -2..=2 {
        inputs.extend(ulps(m, d));
        inputs.extend(ulps(-m, d));
    }
    let mut seen: Vec<u64> = Vec::new();
    inputs.retain(|x| {
        let fresh = !seen.contains(&x.to_bits());
        seen.push(x.to_bits());
        fresh
    });
    inputs.shuffle(rng);
    for &x in &inputs {
        do_try_from(r, x); // beyond -MAX lies -inf: refused, and not part of the cluster
    }
    let pool: Vec<SingleObjective> = r.pool.clone();
    for &x in &pool {
        for &y in &pool {
            if x.value().is_sign_negative() == y.value().is_sign_negative() {
                for f in CMP_FORMS {
                    do_cmp(r, f, x, y);
                }
            } else {
                do_cmp(r, "cmp", x, y);
                do_cmp(r, "eq", x, y);
                do_cmp(r, CMP_FORMS.choose(rng).unwrap(), x, y);
            }
            if key(x.value()).checked_sub(key(y.value())).map_or(false, |d| d.unsigned_abs() <= 2) {
                do_minmax(r, "min", x, y);
                do_minmax(r, "max", x, y);
            }
        }
    }
    // lists: the whole cluster in random order, and every value twice in a row
    let mut all = pool.clone();
    all.shuffle(rng);
    for op in ["sort", "list_min", "list_max"] {
        do_list(r, op, &all);
    }
    do_dedup(r, "sorted", &all);
    do_dedup(r, "raw", &all);
    let mut twice: Vec<SingleObjective> = Vec::new();
    let mut ordered = pool.clone();
    ordered.sort_by(|p, q| p.value().total_cmp(&q.value()));
    for &x in &ordered {
        twice.push(x);
        twice.push(x);
    }
    do_dedup(r, "raw", &twice);
    twice.shuffle(rng);
    do_dedup(r, "sorted", &twice);
    // searching a value among its neighbours, with the value present and with it taken out
    for &x in &pool {
        let without: Vec<SingleObjective> = all.iter().copied().filter(|o| o.value() != x.value()).collect();
        for op in ["contains", "position", "bsearch"] {
            do_search(r, op, &all, x);
            do_search(r, op, &without, x);
        }
    }
    // vectors over two adjacent values
    let lo = if negative_vectors { -m } else { m };
    if let Some(hi) = ulps(lo, 1) {
        let dom = [lo, hi];
        let mut vecs: Vec<Vec<f64>> = Vec::new();
        for &p in &dom {
            vecs.push(vec![p]);
            for &q in &dom {
                vecs.push(vec![p, q]);
            }
        }
        vecs.retain(|v| v.iter().all(|x| *x != f64::NEG_INFINITY));
        for u in &vecs {
            do_m_try_from(r, if rng.gen_bool(0.5) { "vec" } else { "slice" }, u);
            for v in &vecs {
                do_m_cmp(r, "partial_cmp", u, v);
                do_m_cmp(r, "eq", u, v);
                do_m_cmp(r, MCMP_FORMS.choose(rng).unwrap(), u, v);
            }
        }
    }
}

// ------------------------------------------------------------------------------------------------
// operands of extreme magnitude (mode sci): lattice floats over the whole exponent range

/// The lattice float `2^e (1 + f / 256)`.
fn lat(e: i64, f: i64) -> f64 {
    lat_float((e + 1074) * (1i64 << LAT_P) + f + 1)
}

/// Magnitudes of the systematic sweep: the smallest subnormals, subnormals up to the border,
/// MIN_POSITIVE and its neighbourhood, square roots of the smallest / largest magnitudes (products
/// and quotients of two of them land on the borders), ordinary values, the largest binades.
fn sci_magnitudes() -> Vec<f64> {
    vec![
        lat(-1074, 0), // smallest positive subnormal
        lat(-1073, 128), // 3 * 2^-1074
        lat(-1072, 64),  // 5 * 2^-1074
        lat(-1030, 0),
        lat(-1023, 0),
        lat(-1023, 255), // subnormal with 9 significant bits
        lat(-1022, 0),   // f64::MIN_POSITIVE
        lat(-1022, 128),
        lat(-1021, 0),
        lat(-538, 0),
        lat(-537, 0),
        lat(-537, 128),
        lat(-511, 0),
        lat(-1, 0),
        lat(0, 0),
        lat(0, 1),
        lat(0, 128),
        lat(1, 0),
        lat(1, 128), // 3
        lat(52, 0),
        lat(511, 0),
        lat(512, 0),
        lat(512, 128),
        lat(537, 0),
        lat(1021, 0),
        lat(1022, 0),
        lat(1022, 128), // 3 * 2^1021
        lat(1023, 0),
        lat(1023, 128),
        lat(1023, 255), // largest lattice value, 0.2 % below f64::MAX
    ]
}

/// Run per left operand x: every objective of the grid is constructed, then -x, x + y, x - y for
/// every objective y and x * s, x / s for every scalar s (both signs, +0.0, NaN, both infinities).
/// Scalars do not include -0.0: the carrier has one zero, and the sign of x / -0.0 hangs on it
/// (the class-level sweep of mode `rank` covers that divisor).
fn sci_systematic(out: &mut Out, first_run: u64) -> u64 {
    let mags = sci_magnitudes();
    let mut objs: Vec<f64> = vec![0.0, -0.0, f64::INFINITY];
    objs.extend(mags.iter().copied());
    for m in [lat(-1074, 0), lat(-1022, 0), lat(-537, 128), lat(0, 0), lat(0, 128), lat(512, 0), lat(1023, 0), lat(1023, 255)] {
        objs.push(-m);
    }
    let mut scalars: Vec<f64> = vec![0.0, f64::NAN, f64::INFINITY, f64::NEG_INFINITY];
    for &m in &mags {
        scalars.push(m);
        scalars.push(-m);
    }
    let mut run = first_run;
    for k in 0..objs.len() {
        let mut r = Run::new(run, Mode::Sci);
        for &y in &objs {
            do_try_from(&mut r, y);
        }
        let base: Vec<SingleObjective> = r.pool.clone();
        let x = base[k];
        do_arith(&mut r, "neg", x, None, 0.0);
        for &y in &base {
            do_arith(&mut r, "add", x, Some(y), 0.0);
            do_arith(&mut r, "sub", x, Some(y), 0.0);
        }
        for &s in &scalars {
            do_arith(&mut r, "mul", x, None, s);
            do_arith(&mut r, "div", x, None, s);
        }
        r.flush(out);
        run += 1;
    }
    run
}

fn random_lattice(rng: &mut ChaCha8Rng) -> f64 {
    let e: i64 = match rng.gen_range(0..10) {
        0 => rng.gen_range(-1074..=-1060),
        1 => rng.gen_range(-1030..=-1015),
        2 => rng.gen_range(-545..=-530),
        3 | 4 => rng.gen_range(-4..=4),
        5 => rng.gen_range(505..=515),
        6 => rng.gen_range(530..=540),
        7 | 8 => rng.gen_range(1015..=1023),
        _ => rng.gen_range(-1074..=1023),
    };
    let mut f: i64 = match rng.gen_range(0..8) {
        0 | 1 | 2 => 0,
        3 => 128,
        4 => 255,
        5 => 1,
        _ => rng.gen_range(0..256),
    };
    // the lowest set bit of a subnormal must not lie below 2^-1074
    let room = e + 1074;
    if room < LAT_P as i64 {
        f &= !((1i64 << (LAT_P as i64 - room)) - 1);
    }
    let x = lat(e, f);
    if rng.gen_bool(0.3) {
        -x
    } else {
        x
    }
}

/// Seeded run: random lattice values are constructed, then arithmetic is chained (on-lattice
/// results join the operand pool, so quotients are multiplied back, sums subtracted again, ...),
/// and the pool is compared in all pairs, sorted, and its minimum / maximum taken.
fn sci_random_run(r: &mut Run, rng: &mut ChaCha8Rng, size: usize) {
    for _ in 0..size {
        let x = if rng.gen_bool(0.5) { random_lattice(rng) } else { *sci_magnitudes().choose(rng).unwrap() };
        do_try_from(r, x);
    }
    do_try_from(r, 0.0);
    do_const(r, "infinity");
    for _ in 0..(6 * size) {
        let x = *r.pool.choose(rng).unwrap();
        let y = *r.pool.choose(rng).unwrap();
        let s = match rng.gen_range(0..20) {
            0 => *[f64::NAN, f64::INFINITY, f64::NEG_INFINITY, 0.0].choose(rng).unwrap(),
            1..=6 => *sci_magnitudes().choose(rng).unwrap() * if rng.gen_bool(0.3) { -1.0 } else { 1.0 },
            7..=9 => y.value(), // an objective value as the scalar: x / x, x * y
            _ => random_lattice(rng),
        };
        let s = if s == 0.0 { 0.0 } else { s }; // no -0.0 scalar (see above)
        let op = *["neg", "add", "sub", "mul", "div", "mul", "div"].choose(rng).unwrap();
        do_arith(r, op, x, Some(y), s);
    }
    if r.pool.len() > 2 * size + 4 {
        let mut extra: Vec<SingleObjective> = r.pool.split_off(size);
        extra.shuffle(rng);
        extra.truncate(size + 4);
        r.pool.extend(extra);
    }
    let pool: Vec<SingleObjective> = r.pool.clone();
    for &x in &pool {
        for &y in &pool {
            do_cmp(r, "cmp", x, y);
            do_cmp(r, CMP_FORMS.choose(rng).unwrap(), x, y);
        }
    }
    let mut all = pool.clone();
    all.shuffle(rng);
    for op in ["sort", "list_min", "list_max"] {
        do_list(r, op, &all);
    }
    do_dedup(r, "sorted", &all);
}

pub fn main(args: &Args) -> usize {
    let mut out = Out::create(&args.str("out"));
    match args.mode.as_str() {
        "replay" => {
            // `--fmt sci`: the scenarios come from the model in mode "sci" (lattice codes)
            let fmt = if args.get("fmt") == Some("sci") { Mode::Sci } else { Mode::Exact };
            for sc in read_ndjson(&args.str("in")) {
                let mut r = Run::new(sc["run"].as_u64().unwrap(), fmt);
                for a in sc["acts"].as_array().unwrap() {
                    replay_act(&mut r, a);
                }
                r.flush(&mut out);
            }
        }
        "random" => {
            let runs = args.num("n", 8);
            let size = args.num("len", 8) as usize;
            let mut r = Run::new(0, Mode::Rank);
            systematic(&mut r);
            r.flush(&mut out);
            for run in 1..=runs {
                let mut g = rng(args.seed(), run);
                let mut r = Run::new(run, Mode::Rank);
                random_run(&mut r, &mut g, size);
                r.flush(&mut out);
            }
            // adjacent floats: the fixed magnitudes, then `nb` random bit patterns
            let mut bases = neighbour_bases();
            let mut g = rng(args.seed(), 1_000_003);
            while (bases.len() as u64) < neighbour_bases().len() as u64 + args.num("nb", 4) {
                let x = f64::from_bits(g.gen::<u64>() & 0x7fff_ffff_ffff_ffff);
                if x.is_finite() {
                    bases.push(x);
                }
            }
            for (k, m) in bases.into_iter().enumerate() {
                let run = runs + 1 + k as u64;
                let mut g = rng(args.seed(), 2_000_000 + run);
                let mut r = Run::new(run, Mode::Rank);
                neighbour_run(&mut r, &mut g, m, k % 2 == 1);
                r.flush(&mut out);
            }
            // operands of extreme magnitude (mode sci): the systematic sweep, then `nsci` seeded runs
            let first = 3_000_000;
            let next = sci_systematic(&mut out, first);
            for k in 0..args.num("nsci", 8) {
                let run = next + k;
                let mut g = rng(args.seed(), 4_000_000 + k);
                let mut r = Run::new(run, Mode::Sci);
                sci_random_run(&mut r, &mut g, size);
                r.flush(&mut out);
            }
        }
        other => panic!("unknown mode {other}"),
    }
    out.finish()
}
