pub mod populations;
pub mod registry;
