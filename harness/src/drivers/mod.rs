pub mod registry;
