pub mod borrow;
pub mod exec;
pub mod multi_gen;
pub mod populations;
pub mod registry;
