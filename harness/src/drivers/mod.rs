pub mod borrow;
pub mod exec;
pub mod memory;
pub mod multi_gen;
pub mod populations;
pub mod registry;
pub mod templates;
pub mod templates_extra;
